(* C15 property theorems.  Statements only; proofs are in Proofs.v.

   H (preimage -> payment hash), R (amp.ReconstructChildren: child descriptors
   -> derived (hash, preimage) pairs; NO hypothesis on it) and the registry
   configuration g are universally quantified; `run H R g init evs` executes
   ANY sequence of registry calls (AddInvoice, NotifyExitHopHtlc incl. replays,
   AMP sets and spontaneous AMP, SettleHodlInvoice, CancelInvoice / expiry,
   single-htlc set timeout by hash/address or by AMP set id) from the empty
   registry.  Amount sums are uint64 sums (wsum = true sum mod 2^64,
   Proofs.wsum_tsum); height sums are uint32 (u32). *)
From Coq Require Import List NArith ZArith Bool.
From LV Require Import Invoice.Model Invoice.Proofs.
Import ListNotations.

(* what a settled record (k, h) on invoice i guarantees.
   Non-AMP invoice (unchanged statement): the invoice is settled with preimage
   p, p hashes to the payment hash the htlc arrived with (= the invoice's), the
   htlc carried the invoice's payment address (or none is required / it was a
   valid keysend), it left both final-CLTV margins when accepted, and it is
   fully paid: a legacy htlc pays the invoice value alone; an MPP htlc declares
   a total not below the value that all settled MPP htlcs of the invoice share
   and their amounts sum to at least that total.
   AMP invoice: p is the htlc's OWN reconstructed preimage and the code checked
   H p = the htlc's payment hash; the htlc carried a set id and the invoice's
   payment address, left both margins, declares a total not below the invoice
   value; the htlcs that were settled together with it (same arrival `h_gen`)
   all belong to its set id and declare its total, and their amounts sum to at
   least that total.  (The invoice itself stays open -- or was cancelled
   later; AMP invoices never become settled.) *)
Definition paid_in_full (H : N -> N) (g : cfg) (i : invoice) (h : htlc) (p : N) : Prop :=
  H p = h_hash h /\
  (u32 (h_height h + g_rd g) <= h_expiry h)%Z /\
  (u32 (h_height h + i_delta i) <= h_expiry h)%Z /\
  if i_amp i then
    h_pre h = Some p /\ (exists s, h_set h = Some s) /\ h_addr h = Some (i_addr i) /\
    h_total h <> 0%N /\ (i_value i <= h_total h)%N /\
    (forall k' h', In (k', h') (i_htlcs i) -> h_state h' = HSettled -> h_gen h' = h_gen h ->
                   h_set h' = h_set h /\ h_total h' = h_total h) /\
    (h_total h <= wsum (batch (h_gen h)) (i_htlcs i))%N
  else
    i_state i = CSettled /\ i_pre i = Some p /\ i_hash i = h_hash h /\
    match h_addr h with
    | Some a => a = i_addr i
    | None => i_addr_req i = false \/ h_ks h = true
    end /\
    (h_total h = 0%N -> (i_value i <= h_amt h)%N) /\
    (h_total h <> 0%N ->
       (i_value i <= h_total h)%N /\
       (forall k' h', In (k', h') (i_htlcs i) -> h_state h' = HSettled ->
                      h_total h' <> 0%N -> h_total h' = h_total h) /\
       (h_total h <= wsum (fun x => is_state HSettled x && negb (N.eqb (h_total x) 0))
                          (i_htlcs i))%N).

Definition settle_backed (H : N -> N) (g : cfg) (st : state) (k p : N) : Prop :=
  exists i h, In i (invs st) /\ In (k, h) (i_htlcs i) /\ h_state h = HSettled /\
              paid_in_full H g i h p.

(* Whenever a step hands out a Settle resolution (directly or on a hodl
   channel) for htlc k with preimage p, k is recorded settled and paid in full
   (above) in the state after that step.  Only on the KV store (g_kv) the
   record may instead be one of a reachable earlier state: a notification for
   an older record of an AMP set whose stored set the KV store has just
   rewritten (finding C15-F2, C15_amp_kv_reuse_refuted). *)
Theorem C15_settle_sound :
  forall (H : N -> N) (R : list (N * N) -> list (N * N)) (g : cfg) (evs : list event) (e : event)
         (st st' : state) (outs : list (reply * list resn)) (o : reply * list resn) (k p : N),
    run H R g init evs = (st, outs) ->
    step H R g st e = (st', o) ->
    In (k, p) (settle_outs o) ->
    settle_backed H g st' k p \/
    (g_kv g = true /\ exists st1, state_ok H g st1 /\ settle_backed H g st1 k p).
Proof.
  intros H R g evs e st st' outs o k p RR S I.
  assert (SO : state_ok H g st) by (eapply run_ok; [apply init_ok|eauto]).
  assert (SO' : state_ok H g st') by (eapply step_ok; eauto).
  assert (B : forall s, state_ok H g s -> settled_in (invs s) k p -> settle_backed H g s k p).
  { intros s SS [i [h [II [IH [HS P]]]]]. exists i, h. repeat split; auto;
      unfold paid_in_full; destruct (i_amp i) eqn:IA.
    - destruct (settled_record_sound_amp H g s i k h SS II IA IH HS)
        as (_ & [p' [P1 P2]] & _). congruence.
    - destruct (settled_record_sound H g s i k h SS II IA IH HS)
        as (_ & [p' (P1 & P2 & P3)] & _). congruence.
    - destruct (settled_record_sound_amp H g s i k h SS II IA IH HS) as (_ & _ & _ & _ & A & _). exact A.
    - destruct (settled_record_sound H g s i k h SS II IA IH HS) as (_ & _ & _ & A & _). exact A.
    - destruct (settled_record_sound_amp H g s i k h SS II IA IH HS) as (_ & _ & _ & _ & _ & A & _). exact A.
    - destruct (settled_record_sound H g s i k h SS II IA IH HS) as (_ & _ & _ & _ & A & _). exact A.
    - destruct (settled_record_sound_amp H g s i k h SS II IA IH HS)
        as (_ & _ & A3 & A4 & _ & _ & A7 & A8 & A9 & A10).
      exact (conj P (conj A3 (conj A4 (conj A7 (conj A8 (conj A9 A10)))))).
    - destruct (settled_record_sound H g s i k h SS II IA IH HS)
        as (A1 & [p' (P1 & P2 & P3)] & A3 & _ & _ & A6 & A7).
      rewrite P in P1. inversion P1; subst p'. repeat split; auto; apply A7; auto. }
  destruct (step_settles H R g st e st' o k p SO S I) as [X|[KV [st1 [S1 X]]]].
  - left. apply B; auto.
  - right. split; [auto|]. exists st1. split; [auto|]. apply B; auto.
Qed.

(* Invoice and htlc states only move forward along any continuation of any
   history: open -> accepted -> {settled | canceled} for invoices, accepted ->
   {settled | canceled} for htlcs; no invoice or htlc record disappears, the
   recorded amounts/total/expiry/accept height/hash/set id never change, and a
   settled invoice keeps its preimage.  AMP invoices move open -> canceled only
   and their htlcs are settled per set.  Exception, stated in `inv_le`: on the
   KV store (g_kv g = true) nothing is claimed about the htlc records of AMP
   invoices -- C15_amp_kv_reuse_refuted shows that a settled record can vanish
   there (finding C15-F2); on the SQL store the clause holds for them too. *)
Theorem C15_monotone :
  forall (H : N -> N) (R : list (N * N) -> list (N * N)) (g : cfg) (evs1 evs2 : list event)
         (st1 st2 : state) o1 o2,
    run H R g init evs1 = (st1, o1) ->
    run H R g st1 evs2 = (st2, o2) ->
    state_le (g_kv g) (invs st1) (invs st2).
Proof.
  intros H R g evs1 evs2 st1 st2 o1 o2 R1 R2.
  eapply run_le; [|eauto]. eapply run_ok; [apply init_ok|eauto].
Qed.

(* A settled (non-AMP) invoice records as amount paid exactly the (uint64) sum
   of its settled htlcs; without uint64 overflow that is the true sum.
   (AMP invoices never become settled; their AmtPaid is the running total
   Σ accepted+settled htlc amounts across all sets, AMPState[set].AmtPaid the
   same per set: checked on the implementation trace and by the differential
   run only -- no theorem, see notes/C15.md.) *)
Theorem C15_amt_paid :
  forall (H : N -> N) (R : list (N * N) -> list (N * N)) (g : cfg) (evs : list event)
         (st : state) outs (i : invoice),
    run H R g init evs = (st, outs) -> In i (invs st) -> i_state i = CSettled ->
    i_amp i = false /\
    i_paid i = wsum (is_state HSettled) (i_htlcs i) /\
    i_paid i = (tsum (is_state HSettled) (i_htlcs i) mod W64)%N /\
    ((tsum (is_state HSettled) (i_htlcs i) < W64)%N ->
     i_paid i = tsum (is_state HSettled) (i_htlcs i)).
Proof.
  intros H R g evs st outs i RR I S.
  assert (SO : state_ok H g st) by (eapply run_ok; [apply init_ok|eauto]).
  destruct SO as [_ OK]. specialize (OK i I). unfold ok in OK.
  destruct (i_amp i) eqn:IA.
  - exfalso. destruct (ao_state H g i OK); congruence.
  - split; [reflexivity|].
    destruct (ok_settled H g i OK S) as [_ [p [_ [_ E]]]].
    split; [exact E|]. split.
    + rewrite E. apply wsum_tsum.
    + intro X. rewrite E. apply wsum_no_overflow. exact X.
Qed.

(* A replay of an htlc that is recorded on its (non-AMP) invoice changes no
   invoice and is answered from the record: held if accepted, the fail
   resolution if canceled, and the invoice's preimage -- which hashes to the
   htlc's payment hash -- if settled.  Hypothesis: no just-in-time pre-check
   applies (AcceptKeySend off or no keysend record; AcceptAMP off or no AMP
   record); with it the clause is REFUTED, see C15_replay_keysend_refuted. *)
Theorem C15_replay_same_verdict :
  forall (H : N -> N) (R : list (N * N) -> list (N * N)) (g : cfg) (evs : list event)
         (st st' : state) outs (c : hctx) (i : invoice) (h : htlc) rp ntf,
    run H R g init evs = (st, outs) ->
    g_keysend g = false \/ c_ks c = KSNone ->
    g_amp g = false \/ c_amp c = false ->
    lookup_ref (g_kv g) (invs st) (fst (ctx_ref c)) (snd (ctx_ref c)) = Some i ->
    fst (ctx_ref c) = Some (c_hash c) -> i_amp i = false ->
    find_htlc (c_key c) (i_htlcs i) = Some h ->
    notify H R g st c = (st', (rp, ntf)) ->
    invs st' = invs st /\
    match h_state h with
    | HAccepted => rp = RpDirect DNil
    | HCanceled => rp = RpDirect (DRes (NFail (c_key c) (h_height h) F_ReplayToCanceled))
    | HSettled => exists p, i_pre i = Some p /\ H p = c_hash c /\
                            rp = RpDirect (DRes (NSettle (c_key c) p (c_height c) S_ReplayToSettled))
    end.
Proof.
  intros H R g evs st st' outs c i h rp ntf RR. apply replay_same_verdict.
  eapply run_ok; [apply init_ok|eauto].
Qed.

(* The same for an AMP htlc (AMP + MPP record, same set id and payment hash as
   recorded) found in its set on its AMP invoice, AcceptAMP off: no invoice
   changes, and a settled htlc is answered with ITS OWN recorded preimage,
   which hashes to its payment hash. *)
Theorem C15_replay_same_verdict_amp :
  forall (H : N -> N) (R : list (N * N) -> list (N * N)) (g : cfg) (evs : list event)
         (st st' : state) outs (c : hctx) (i : invoice) (h : htlc) (a t : N) rp ntf,
    run H R g init evs = (st, outs) ->
    g_amp g = false ->
    c_amp c = true -> c_mpp c = Some (a, t) -> c_path c = None ->
    lookup_ref (g_kv g) (invs st) None (Some a) = Some i -> i_amp i = true ->
    find_htlc (c_key c) (i_htlcs i) = Some h -> h_set h = Some (c_set c) -> h_hash h = c_hash c ->
    notify H R g st c = (st', (rp, ntf)) ->
    invs st' = invs st /\
    match h_state h with
    | HAccepted => rp = RpDirect DNil
    | HCanceled => rp = RpDirect (DRes (NFail (c_key c) (h_height h) F_ReplayToCanceled))
    | HSettled => exists p, h_pre h = Some p /\ H p = c_hash c /\
                            rp = RpDirect (DRes (NSettle (c_key c) p (c_height c) S_ReplayToSettled))
    end.
Proof.
  intros H R g evs st st' outs c i h a t rp ntf RR. apply replay_same_verdict_amp.
  eapply run_ok; [apply init_ok|eauto].
Qed.

(* Finding C15-F1: with AcceptKeySend the expiry pre-check of the just-in-time
   keysend invoice runs before the replay lookup, so a replay of a SETTLED htlc
   at a later height is answered Fail(ResultKeySendError). *)
Theorem C15_replay_keysend_refuted :
  exists (H : N -> N) (R : list (N * N) -> list (N * N)) (g : cfg) (evs : list event) (c : hctx),
    let st := fst (run H R g init evs) in
    (exists i h, In i (invs st) /\ find_htlc (c_key c) (i_htlcs i) = Some h /\
                 h_state h = HSettled) /\
    fst (snd (notify H R g st c)) = RpDirect (DRes (NFail (c_key c) (c_height c) F_KeySendError)).
Proof.
  exists wit_H, wit_R, wit_cfg, wit_events, (wit_ctx 117).
  destruct replay_keysend_refuted as [_ [A B]]. split; [exact A|exact B].
Qed.

(* ... and its AMP analogue: with AcceptAMP processAMP's expiry pre-check
   answers Fail(ResultAmpError) to the replay of a settled AMP htlc. *)
Theorem C15_replay_amp_jit_refuted :
  exists (H : N -> N) (R : list (N * N) -> list (N * N)) (g : cfg) (evs : list event) (c : hctx),
    let st := fst (run H R g init evs) in
    g_amp g = true /\
    (exists i h, In i (invs st) /\ find_htlc (c_key c) (i_htlcs i) = Some h /\
                 h_state h = HSettled) /\
    fst (snd (notify H R g st c)) = RpDirect (DRes (NFail (c_key c) (c_height c) F_AmpError)).
Proof.
  exists ampw_H, ampw_R, (mkCfg 4 false false false true),
         [EAdd ampw_inv; ENotify (ampw_ctx 1 1 3 100)], (ampw_ctx 1 1 3 117).
  destruct replay_amp_jit_refuted as [_ [A B]]. split; [reflexivity|]. split; [exact A|exact B].
Qed.

(* Finding C15-F2: on the KV store the record of a settled AMP htlc disappears
   when a further complete payment arrives with the same (already settled) set
   id; its replay is then settled as a new htlc and counted in AmtPaid again.
   On the SQL store the record stays and the replay is answered from it. *)
Theorem C15_amp_kv_reuse_refuted :
  exists (H : N -> N) (R : list (N * N) -> list (N * N)) (evs1 evs2 : list event) (c : hctx),
    let kv := mkCfg 4 false false true false in
    let sql := mkCfg 4 false false false false in
    let st1 := fst (run H R kv init evs1) in
    let st2 := fst (run H R kv st1 evs2) in
    let sq2 := fst (run H R sql (fst (run H R sql init evs1)) evs2) in
    (exists i h, In i (invs st1) /\ find_htlc (c_key c) (i_htlcs i) = Some h /\
                 h_state h = HSettled) /\
    (forall i, In i (invs st2) -> find_htlc (c_key c) (i_htlcs i) = None) /\
    (exists p, fst (snd (notify H R kv st2 c)) =
               RpDirect (DRes (NSettle (c_key c) p (c_height c) S_Settled))) /\
    (exists i h, In i (invs sq2) /\ find_htlc (c_key c) (i_htlcs i) = Some h /\
                 h_state h = HSettled) /\
    (exists p, fst (snd (notify H R sql sq2 c)) =
               RpDirect (DRes (NSettle (c_key c) p (c_height c) S_ReplayToSettled))).
Proof.
  exists ampw_H, ampw_R, [EAdd ampw_inv; ENotify (ampw_ctx 1 1 3 100)],
         [ENotify (ampw_ctx 2 2 3 100)], (ampw_ctx 1 1 3 100).
  destruct amp_kv_reuse_refuted as (A & B & C & _ & D & E & _).
  split; [exact A|]. split; [exact B|]. split; [eexists; exact C|]. split; [exact D|].
  eexists; exact E.
Qed.

(* No htlc is both settled and canceled: in every state reached later, the
   htlc has exactly one record on its invoice, a settled record stays settled
   and a canceled one stays canceled (for an AMP invoice on the SQL store as
   well; on the KV store see C15_amp_kv_reuse_refuted), and -- for a non-AMP
   invoice -- no other non-AMP invoice holds a record of that circuit key
   carrying the same payment hash (a record lives only on the invoice whose
   hash the htlc arrived with; AMP htlcs carry per-htlc hashes that are
   unrelated to invoice hashes). *)
Theorem C15_no_settle_and_cancel :
  forall (H : N -> N) (R : list (N * N) -> list (N * N)) (g : cfg) (evs1 evs2 : list event)
         (st1 st2 : state) o1 o2 (i1 : invoice) (k : N) (h1 : htlc),
    run H R g init evs1 = (st1, o1) ->
    run H R g st1 evs2 = (st2, o2) ->
    In i1 (invs st1) -> In (k, h1) (i_htlcs i1) ->
    i_amp i1 = false \/ g_kv g = false ->
    exists i2 h2,
      In i2 (invs st2) /\ i_hash i2 = i_hash i1 /\ In (k, h2) (i_htlcs i2) /\
      (forall x, In (k, x) (i_htlcs i2) -> x = h2) /\
      (h_state h1 = HSettled -> h_state h2 = HSettled) /\
      (h_state h1 = HCanceled -> h_state h2 = HCanceled) /\
      same_rec h1 h2 /\
      (i_amp i1 = false ->
       forall j x, In j (invs st2) -> i_amp j = false -> In (k, x) (i_htlcs j) ->
                   h_hash x = h_hash h1 -> j = i2).
Proof.
  intros H R g evs1 evs2 st1 st2 o1 o2 i1 k h1 R1 R2.
  eapply records_forward; [|eauto]. eapply run_ok; [apply init_ok|eauto].
Qed.
