(* C15 — AMP property theorems.  Statements only; proofs are in AmpProofs.v.

   H (preimage -> hash), R (amp.ReconstructChildren) and the configuration g are
   universally quantified; hypotheses on R are stated where a theorem needs
   them (R_wellformed, R_atomic: AmpModel.v).  `run H R g init evs` = ANY
   sequence of registry calls from the empty registry (htlc arrivals in any
   order incl. duplicates / replays / wrong amounts and totals / interleaved
   sets, hodl settles, set timers, CancelInvoice / expiry).  Clauses (b) and
   (e) of the AMP part of C15 for single htlcs are Props.C15_no_settle_and_cancel
   and Props.C15_replay_same_verdict_amp. *)
From Coq Require Import List NArith ZArith Bool.
From LV Require Import Invoice.Model Invoice.Proofs Invoice.AmpModel Invoice.AmpProofs.
Import ListNotations.

(* (a) A set is settled -- updateMpp answers "settle" for an arriving AMP htlc,
   for ANY invoice i and arriving htlc c -- only if the set is complete at
   that moment (complete_set): invoice open and not hodl, payment address of
   the invoice, total <> 0 and >= invoice value, non-blank set id, both CLTV
   margins, every held member of the set carries the set id and declares the
   same total, the set alone sums (uint64) to at least the total, and the
   reconstruction over exactly the members reproduces every member's payment
   hash; the preimages handed out are the reconstruction's, per member. *)
Theorem C15_amp_settle_only_complete :
  forall (R : list (N * N) -> list (N * N)) (g : cfg) (c : hctx) (i : invoice) (addr total : N)
         (h : htlc) (pm : list (N * N)),
    amp_update R g c i addr total = MSettle h pm ->
    h = new_amp_htlc c total addr /\
    pm = pre_map (amp_batch c i addr total) (R (descs_of (amp_batch c i addr total))) /\
    complete_set R g c i addr total.
Proof. exact amp_update_complete. Qed.

(* ... and the registry's AMP branch hands out a Settle (direct or on a hodl
   channel) for an htlc without a record only through that decision. *)
Theorem C15_amp_fresh_settle_needs_complete :
  forall (H : N -> N) (R : list (N * N) -> list (N * N)) (g : cfg) (st : state) (c : hctx)
         (i : invoice) (addr total : N) (st' : state) (o : reply * list resn),
    find_htlc (c_key c) (i_htlcs i) = None ->
    notify_amp H R g st c i addr total = (st', o) -> settle_outs o <> [] ->
    exists h pm, amp_update R g c i addr total = MSettle h pm.
Proof. exact notify_amp_fresh_settle. Qed.

(* (a, with the hypothesis on R) n-of-n: if the sharing D of a sender is secret
   (R_atomic), a complete set containing ONE child of D (right descriptor and
   hash) contains a held htlc for EVERY child descriptor of D. *)
Theorem C15_amp_atomic :
  forall (R : list (N * N) -> list (N * N)) (g : cfg) (c : hctx) (i : invoice) (addr total : N)
         (D : list (N * N)) (E : N * N -> N) (j : nat) (k : N) (h : htlc),
    complete_set R g c i addr total -> R_atomic R D E ->
    nth_error (amp_batch c i addr total) j = Some (k, h) ->
    In (h_share h, h_idx h) D -> h_hash h = E (h_share h, h_idx h) ->
    incl D (descs_of (amp_batch c i addr total)).
Proof. exact amp_atomic. Qed.

(* (a, R_wellformed) the code's first check (child hash = htlc hash, in
   reconstructAMPPreimages) implies its second (H(preimage) = htlc hash, in
   getUpdatedHtlcState) when child.Hash = SHA256(child.Preimage). *)
Theorem C15_amp_hash_checks_agree :
  forall (H : N -> N) (l : list (N * htlc)) (ch : list (N * N)) (k p : N),
    (forall hh q, In (hh, q) ch -> H q = hh) ->
    hashes_match l ch = true ->
    find_pre k (pre_map l ch) = Some p ->
    exists h, In (k, h) l /\ H p = h_hash h.
Proof. exact wellformed_second_check. Qed.

(* (c) SQL store, any history: for every AMP invoice whose total htlc volume
   fits uint64, AmtPaid is the sum of its accepted + settled htlcs, every
   AMPState entry is the projection of the htlc map (State = Settled / Canceled /
   Accepted by proj_state, AmtPaid = the set's accepted + settled sum, an entry
   exists iff the set has an htlc), no set holds a settled and an accepted htlc
   at once, and when no htlc is held AmtPaid = the sum of the settled sets.
   (KV store: refuted by finding C15-F2, Props.C15_amp_kv_reuse_refuted.) *)
Theorem C15_amp_accounting :
  forall (H : N -> N) (R : list (N * N) -> list (N * N)) (g : cfg) (evs : list event)
         (st : state) (outs : list (reply * list resn)) (i : invoice),
    run H R g init evs = (st, outs) -> In i (invs st) -> i_amp i = true -> g_kv g = false ->
    (asum all_h (i_htlcs i) < W64)%N ->
    i_paid i = asum nc (i_htlcs i) /\
    (forall sid, get_set sid (i_sets i) = proj_entry sid (i_htlcs i)) /\
    no_mixed (i_htlcs i) /\
    (any_htlc (is_state HAccepted) (i_htlcs i) = false ->
     i_paid i = asum (is_state HSettled) (i_htlcs i)).
Proof. exact amp_accounting. Qed.

(* (d) sets do not interfere: two invoices that agree on state, payment
   address, value, CLTV delta, hodl flag and on the htlcs of set (c_set c) get
   the same decision for c -- whatever other sets hold. *)
Theorem C15_amp_sets_independent :
  forall (R : list (N * N) -> list (N * N)) (g : cfg) (c : hctx) (i j : invoice) (addr total : N),
    same_for_set (c_set c) i j ->
    amp_update R g c i addr total = amp_update R g c j addr total.
Proof. exact amp_update_view. Qed.

(* (b) at the level of a SET ID the clauses "never settled after canceled" and
   "settled at most once" are REFUTED -- by design of the code, not a defect:
   AMPState[set].State is the last cancel/settle of the set id.  Witnesses (SQL
   store): a shard is released by its timer (State Canceled), sent again under
   a new circuit key, the set completes (State Settled); and a settled set id
   is paid a second time by a self-contained payment.  What holds per htlc:
   Props.C15_no_settle_and_cancel; per set: no_mixed in C15_amp_accounting. *)
Theorem C15_amp_set_state_not_final_refuted :
  exists (H : N -> N) (R : list (N * N) -> list (N * N)) (g : cfg) (evs1 evs2 evs3 : list event)
         (sid : N),
    g_kv g = false /\
    (exists i a, In i (invs (fst (run H R g init evs1))) /\ get_set sid (i_sets i) = Some (HCanceled, a)) /\
    (exists i a, In i (invs (fst (run H R g init (evs1 ++ evs2)))) /\
                 get_set sid (i_sets i) = Some (HSettled, a)) /\
    (exists k1 p1 k2 p2 h c1 c2, k1 <> k2 /\ c_set c1 = sid /\ c_set c2 = sid /\
       evs3 = [EAdd xinv; ENotify c1; ENotify c2] /\
       snd (run H R g init evs3) =
         [(RpApi AOk, []); (RpDirect (DRes (NSettle k1 p1 h S_Settled)), []);
          (RpDirect (DRes (NSettle k2 p2 h S_Settled)), [])]).
Proof.
  exists xH, xR, sql, ev_reopen1, ev_reopen2, ev_twice, 3%N.
  destruct amp_set_state_refuted as ([i1 [I1 G1]] & [i2 [I2 G2]] & T).
  split; [reflexivity|]. split; [exists i1, 0%N; auto|]. split; [exists i2, 1000%N; auto|].
  exists 1%N, 1110%N, 2%N, 1220%N, 100%Z, (xctx 1 1 0 3 1000 1), (xctx 2 2 0 3 1000 2).
  split; [discriminate|]. split; [reflexivity|]. split; [reflexivity|]. split; [reflexivity|]. exact T.
Qed.

(* (c) "AmtPaid = sum over the SETTLED sets" is REFUTED for an invoice with a
   set in flight: the code counts held htlcs (the positive statement is
   C15_amp_accounting: AmtPaid = accepted + settled). *)
Theorem C15_amp_paid_settled_only_refuted :
  exists (H : N -> N) (R : list (N * N) -> list (N * N)) (g : cfg) (evs : list event) (i : invoice),
    In i (invs (fst (run H R g init evs))) /\ i_amp i = true /\
    i_paid i <> asum (is_state HSettled) (i_htlcs i).
Proof.
  exists xH, xR, sql, [EAdd xinv; ENotify (xctx 1 1 0 3 600 3)].
  destruct amp_paid_counts_held as [i [I [P S]]]. exists i. split; [exact I|]. split.
  - revert I. vm_compute. intros [E|[]]. subst. reflexivity.
  - rewrite P, S. discriminate.
Qed.
