(* C15 / AMP — definitions used to STATE the AMP theorems (AmpProps.v).

   Nothing here is executed by the registry model (Model.v); these are the
   projections of the htlc map that Invoice.AMPState / Invoice.AmtPaid are
   compared with, the per-set view the update callback works on, the
   "complete set" condition of updateMpp for an AMP htlc, and the hypotheses
   on the reconstruction oracle R (amp.ReconstructChildren) that some theorems
   carry.  NO PROOFS IN THIS FILE. *)
From Coq Require Import List NArith ZArith Bool.
From LV Require Import Invoice.Model.
Import ListNotations.

(* true (unwrapped) sum of the amounts of the htlcs selected by P *)
Fixpoint asum (P : htlc -> bool) (l : list (N * htlc)) : N :=
  match l with
  | [] => 0%N
  | (_, h) :: r => if P h then (h_amt h + asum P r)%N else asum P r
  end.

Definition all_h (h : htlc) : bool := true.
(* not canceled = accepted or settled *)
Definition nc (h : htlc) : bool := negb (is_state HCanceled h).
Definition set_nc (sid : N) (h : htlc) : bool := in_set sid h && nc h.
Definition set_in (sid : N) (s : hstate) (h : htlc) : bool := in_set sid h && is_state s h.

(* ---- the projection of the htlc map that AMPState[sid] must equal ---- *)
(* State: Settled as soon as the set holds a settled htlc, else Canceled as
   soon as it holds a canceled one, else Accepted *)
Definition proj_state (sid : N) (l : list (N * htlc)) : hstate :=
  if any_htlc (set_in sid HSettled) l then HSettled
  else if any_htlc (set_in sid HCanceled) l then HCanceled
  else HAccepted.

(* (State, AmtPaid): AmtPaid = sum of the accepted + settled htlcs of the set;
   no entry iff no htlc carries the set id *)
Definition proj_entry (sid : N) (l : list (N * htlc)) : option (hstate * N) :=
  if any_htlc (in_set sid) l then Some (proj_state sid l, asum (set_nc sid) l) else None.

(* InvoiceKeys: the circuit keys of the htlcs of the set (Exec.set_keys is the
   sorted form compared with the implementation on the SQL store) *)
Definition proj_keys (sid : N) (l : list (N * htlc)) : list N :=
  map fst (filter (fun kh => in_set sid (snd kh)) l).

(* what the update callback sees of an invoice when it is fetched with a set id *)
Definition set_view (sid : N) (l : list (N * htlc)) : list (N * htlc) :=
  filter (fun kh => in_set sid (snd kh)) l.

(* AmtPaid / AMPState bookkeeping of an AMP invoice agrees with its htlc map
   (no uint64 overflow of the invoice's total htlc volume) *)
Definition amp_acct (i : invoice) : Prop :=
  (asum all_h (i_htlcs i) < W64)%N ->
  i_paid i = asum nc (i_htlcs i) /\
  forall sid, get_set sid (i_sets i) = proj_entry sid (i_htlcs i).

(* no set holds a settled and an accepted htlc at the same time *)
Definition no_mixed (l : list (N * htlc)) : Prop :=
  forall sid k h k' h', In (k, h) l -> In (k', h') l ->
    in_set sid h = true -> in_set sid h' = true ->
    h_state h = HSettled -> h_state h' <> HAccepted.

(* two invoices the update callback cannot tell apart when it works on set sid *)
Definition same_for_set (sid : N) (i j : invoice) : Prop :=
  i_state i = i_state j /\ i_addr i = i_addr j /\ i_value i = i_value j /\
  i_delta i = i_delta j /\ i_hodl i = i_hodl j /\
  set_view sid (i_htlcs i) = set_view sid (i_htlcs j).

(* ---- updateMpp's "complete set" condition for an arriving AMP htlc c on
   invoice i, MPP record (addr, total): everything that must hold at the
   moment the set is settled ---- *)
Definition acc_of (sid : N) (i : invoice) : list (N * htlc) :=
  filter (fun kh => in_set sid (snd kh) && is_state HAccepted (snd kh)) (i_htlcs i).

Definition amp_batch (c : hctx) (i : invoice) (addr total : N) : list (N * htlc) :=
  (c_key c, new_amp_htlc c total addr) :: acc_of (c_set c) i.

Definition complete_set (R : list (N * N) -> list (N * N)) (g : cfg) (c : hctx) (i : invoice)
           (addr total : N) : Prop :=
  i_state i = COpen /\ i_hodl i = false /\
  addr = i_addr i /\ total <> 0%N /\ (i_value i <= total)%N /\ c_set c <> 0%N /\
  expiry_ok g c i = true /\
  (* one common total over the set *)
  (forall k h, In (k, h) (amp_batch c i addr total) -> h_total h = total) /\
  (* every member carries the set id and is still held *)
  (forall k h, In (k, h) (amp_batch c i addr total) ->
               h_set h = Some (c_set c) /\ h_state h = HAccepted) /\
  (* the set alone pays its total (uint64 sum, as the code computes it) *)
  (total <= wsum all_h (amp_batch c i addr total))%N /\
  (* reconstruction from exactly these children reproduces every member's payment hash *)
  hashes_match (amp_batch c i addr total) (R (descs_of (amp_batch c i addr total))) = true.

(* ---- hypotheses on the reconstruction oracle ---- *)
(* amp.ReconstructChildren returns one child per descriptor, and
   amp.DeriveChild sets child.Hash = SHA256(child.Preimage) *)
Definition R_wellformed (H : N -> N) (R : list (N * N) -> list (N * N)) : Prop :=
  (forall q, length (R q) = length q) /\
  (forall q hh p, In (hh, p) (R q) -> H p = hh).

(* n-of-n secrecy of a sender's sharing D (child descriptors) with child hashes
   E: a reconstruction that reproduces the hash of one child of D at its
   position was made from descriptors that include ALL of D.  (For the real
   function: the root is the XOR of all shares and the child preimage is
   SHA256(root || share || index); a query lacking a share of D hits the
   right root only by guessing it.) *)
Definition R_atomic (R : list (N * N) -> list (N * N)) (D : list (N * N)) (E : N * N -> N) : Prop :=
  forall q j d, nth_error q j = Some d -> In d D ->
                (exists p, nth_error (R q) j = Some (E d, p)) ->
                incl D q.
