(* C15 — trace checker for the correspondence run.  The hash function is
   instantiated by a per-case table (preimage id -> hash id) that the harness
   computed with the real SHA-256; ids not in the table hash to 0 (never a
   payment hash id).  The AMP reconstruction oracle is instantiated by a
   per-case table computed with the real amp.ReconstructChildren: entries are
   keyed by the ascending list of child descriptors; a query is sorted, looked
   up, and the answers are handed back in the order of the query (the real
   function is equivariant under permutation: XOR of the shares, then one
   derivation per descriptor).  Unknown queries answer [] (= no child matches). *)
From Coq Require Import List NArith ZArith Bool.
From LV Require Import Invoice.Model.
Import ListNotations.

Fixpoint tbl (t : list (N * N)) (p : N) : N :=
  match t with
  | [] => 0%N
  | (a, b) :: r => if N.eqb a p then b else tbl r p
  end.

Definition desc_leb (a b : N * N) : bool :=
  N.ltb (fst a) (fst b) || (N.eqb (fst a) (fst b) && N.leb (snd a) (snd b)).
Definition desc_eqb (a b : N * N) : bool := N.eqb (fst a) (fst b) && N.eqb (snd a) (snd b).
Fixpoint desc_insert (d : N * N) (l : list (N * N)) : list (N * N) :=
  match l with
  | [] => [d]
  | x :: r => if desc_leb d x then d :: l else x :: desc_insert d r
  end.
Definition desc_sort (l : list (N * N)) : list (N * N) := fold_right desc_insert [] l.
Fixpoint descs_eqb (a b : list (N * N)) : bool :=
  match a, b with
  | [], [] => true
  | x :: r, y :: s => desc_eqb x y && descs_eqb r s
  | _, _ => false
  end.
Fixpoint assoc_desc (d : N * N) (ks : list (N * N)) (vs : list (N * N)) : N * N :=
  match ks, vs with
  | k :: kr, v :: vr => if desc_eqb d k then v else assoc_desc d kr vr
  | _, _ => (0%N, 0%N)
  end.
Fixpoint tblR (t : list (list (N * N) * list (N * N))) (q : list (N * N)) : list (N * N) :=
  match t with
  | [] => []
  | (ks, vs) :: r =>
    if descs_eqb (desc_sort q) ks then map (fun d => assoc_desc d ks vs) q else tblR r q
  end.

Definition opt_eqb {A} (f : A -> A -> bool) (a b : option A) : bool :=
  match a, b with
  | None, None => true
  | Some x, Some y => f x y
  | _, _ => false
  end.

Definition resn_eqb (a b : resn) : bool :=
  match a, b with
  | NSettle k p ah oc, NSettle k' p' ah' oc' =>
    N.eqb k k' && N.eqb p p' && Z.eqb ah ah' && N.eqb oc oc'
  | NFail k ah oc, NFail k' ah' oc' => N.eqb k k' && Z.eqb ah ah' && N.eqb oc oc'
  | _, _ => false
  end.

Definition direct_eqb (a b : direct) : bool :=
  match a, b with
  | DNil, DNil | DErr, DErr | DUnmodelled, DUnmodelled => true
  | DRes x, DRes y => resn_eqb x y
  | _, _ => false
  end.

Definition apires_eqb (a b : apires) : bool :=
  match a, b with
  | AOk, AOk | ADup, ADup | AInvalid, AInvalid | ANotFound, ANotFound
  | AStillOpen, AStillOpen | AAlreadyCanceled, AAlreadyCanceled
  | AAlreadySettled, AAlreadySettled | AOther, AOther => true
  | _, _ => false
  end.

Definition reply_eqb (a b : reply) : bool :=
  match a, b with
  | RpDirect x, RpDirect y => direct_eqb x y
  | RpApi x, RpApi y => apires_eqb x y
  | _, _ => false
  end.

Fixpoint remove_first (r : resn) (l : list resn) : option (list resn) :=
  match l with
  | [] => None
  | x :: t => if resn_eqb r x then Some t
              else match remove_first r t with Some t' => Some (x :: t') | None => None end
  end.

(* multiset equality: Go iterates maps in random order *)
Fixpoint perm_eqb (a b : list resn) : bool :=
  match a with
  | [] => match b with [] => true | _ => false end
  | x :: t => match remove_first x b with Some b' => perm_eqb t b' | None => false end
  end.

(* observed invoice: LookupInvoice projection *)
Record hsnap := mkHS { hs_key : N; hs_amt : N; hs_total : N; hs_expiry : Z; hs_height : Z;
                       hs_state : hstate;
                       (* InvoiceHTLC.AMP: None, or (set id, AMP.Hash, AMP.Preimage) *)
                       hs_amp : option (N * N * option N) }.
Record isnap := mkIS { is_hash : N; is_state : cstate; is_paid : N; is_pre : option N;
                       is_htlcs : list hsnap;
                       (* Invoice.AMPState: (set id, State, AmtPaid) *)
                       is_sets : list (N * (hstate * N));
                       (* Invoice.AMPState[set].InvoiceKeys: (set id, circuit keys ascending) *)
                       is_keys : list (N * list N) }.

Definition amp_matches (h : htlc) (a : option (N * N * option N)) : bool :=
  match h_set h, a with
  | None, None => true
  | Some s, Some (s', hh, p) => N.eqb s s' && N.eqb (h_hash h) hh && opt_eqb N.eqb (h_pre h) p
  | _, _ => false
  end.

Definition set_matches (l : list (N * (hstate * N))) (x : N * (hstate * N)) : bool :=
  match get_set (fst x) l with
  | None => false
  | Some (s, a) => hstate_eqb s (fst (snd x)) && N.eqb a (snd (snd x))
  end.

Definition htlc_matches (l : list (N * htlc)) (s : hsnap) : bool :=
  match find_htlc (hs_key s) l with
  | None => false
  | Some h =>
    N.eqb (h_amt h) (hs_amt s) && N.eqb (h_total h) (hs_total s) &&
    Z.eqb (h_expiry h) (hs_expiry s) && Z.eqb (h_height h) (hs_height s) &&
    hstate_eqb (h_state h) (hs_state s) && amp_matches h (hs_amp s)
  end.

(* AMPState[set].InvoiceKeys against the model's projection of the htlc map
   (the keys of the htlcs carrying the set id).  Compared on the SQL store
   only: the KV store persists the key set separately and keeps the keys of
   records it dropped (finding C15-F2). *)
Fixpoint n_insert (x : N) (l : list N) : list N :=
  match l with
  | [] => [x]
  | y :: r => if N.leb x y then x :: l else y :: n_insert x r
  end.
Definition n_sort (l : list N) : list N := fold_right n_insert [] l.
Fixpoint nlist_eqb (a b : list N) : bool :=
  match a, b with
  | [], [] => true
  | x :: r, y :: s => N.eqb x y && nlist_eqb r s
  | _, _ => false
  end.
Definition set_keys (sid : N) (l : list (N * htlc)) : list N :=
  n_sort (map fst (filter (fun kh => in_set sid (snd kh)) l)).
Definition keys_match (l : list (N * htlc)) (x : N * list N) : bool :=
  nlist_eqb (set_keys (fst x) l) (snd x).

Definition inv_matches (kv : bool) (l : list invoice) (s : isnap) : bool :=
  match find_by_hash (is_hash s) l with
  | None => false
  | Some i =>
    cstate_eqb (i_state i) (is_state s) && N.eqb (i_paid i) (is_paid s) &&
    opt_eqb N.eqb (i_pre i) (is_pre s) &&
    Nat.eqb (length (i_htlcs i)) (length (is_htlcs s)) &&
    forallb (htlc_matches (i_htlcs i)) (is_htlcs s) &&
    Nat.eqb (length (i_sets i)) (length (is_sets s)) &&
    forallb (set_matches (i_sets i)) (is_sets s) &&
    (kv || (Nat.eqb (length (i_sets i)) (length (is_keys s)) &&
            forallb (keys_match (i_htlcs i)) (is_keys s)))
  end.

Definition snap_matches (kv : bool) (st : state) (sn : list isnap) : bool :=
  Nat.eqb (length (invs st)) (length sn) && forallb (inv_matches kv (invs st)) sn.

Record obs := mkObs { ob_ev : event; ob_reply : reply; ob_ntf : list resn;
                      ob_snap : list isnap }.

Record case := mkCase { cs_cfg : cfg; cs_tbl : list (N * N);
                        cs_amp : list (list (N * N) * list (N * N)); cs_ops : list obs }.

Fixpoint run_check (H : N -> N) (R : list (N * N) -> list (N * N)) (g : cfg) (st : state) (ops : list obs) (i : N) (bad : list N)
  : list N :=
  match ops with
  | [] => rev bad
  | o :: r =>
    let '(st', (rp, ntf)) := step H R g st (ob_ev o) in
    let ok := reply_eqb rp (ob_reply o) && perm_eqb ntf (ob_ntf o) &&
              snap_matches (g_kv g) st' (ob_snap o) in
    run_check H R g st' r (i + 1)%N (if ok then bad else i :: bad)
  end.

Definition check_case (c : case) : list N :=
  run_check (tbl (cs_tbl c)) (tblR (cs_amp c)) (cs_cfg c) init (cs_ops c) 0%N [].

Fixpoint mismatches (cases : list case) (i : N) : list (N * list N) :=
  match cases with
  | [] => []
  | c :: r =>
    match check_case c with
    | [] => mismatches r (i + 1)%N
    | bad => (i, bad) :: mismatches r (i + 1)%N
    end
  end.

(* what the model answers for one case (debugging / replay output) *)
Definition model_outputs (c : case) : list (reply * list resn) :=
  snd (run (tbl (cs_tbl c)) (tblR (cs_amp c)) (cs_cfg c) init (map ob_ev (cs_ops c))).

(* the model's state after the case (debugging) *)
Definition model_state (c : case) : state :=
  fst (run (tbl (cs_tbl c)) (tblR (cs_amp c)) (cs_cfg c) init (map ob_ev (cs_ops c))).
