(* C15 — executable model of lnd's invoice registry settlement logic.

   Mirrors (read together with the Go source):
     invoices/update.go          resolveReplayedHtlc, updateInvoice, updateLegacy,
                                 updateMpp (check ORDER is the code's order)
     invoices/update_invoice.go  UpdateInvoice appliers addHTLCs / cancelHTLCs /
                                 settleHodlInvoice / cancelInvoice,
                                 getUpdatedInvoiceState, getUpdatedHtlcState
     invoices/invoiceregistry.go NotifyExitHopHtlc (+processKeySend),
                                 notifyExitHopHtlcLocked, SettleHodlInvoice,
                                 cancelInvoiceImpl, cancelSingleHtlc,
                                 hodlSubscribe / notifyHodlSubscribers
     channeldb/invoices.go, invoices/sql_store.go   AddInvoice duplicate rules and
                                 the two (different!) InvoiceRef lookup rules

   One model step = one registry API call (the registry holds its mutex and one
   DB transaction over the whole update).  Preimages, hashes, payment addresses
   and circuit keys are identifiers in N; the hash function H is a Section
   variable.  Address 0 is BlankPayAddr.  Amount arithmetic is uint64 (wrap mod
   2^64), height arithmetic is `uint32(int32 + int32)` = mod 2^32.

   AMP: invoices carrying the AMP-required feature and HTLC payloads carrying an
   AMP record are in the model as far as the *rejections* go (type mismatch in
   both directions, AMP record without MPP record); an AMP HTLC hitting an AMP
   invoice answers DUnmodelled and leaves the state untouched (share
   reconstruction is only exercised by the harness, see notes/C15.md).
   The HTLC interceptor (external modification hook) is absent (mock: no-op).

   NO PROOFS IN THIS FILE. *)
From Coq Require Import List NArith ZArith Bool.
Import ListNotations.

Inductive cstate := COpen | CSettled | CCanceled | CAccepted.
Inductive hstate := HAccepted | HCanceled | HSettled.

Definition cstate_eqb (a b : cstate) : bool :=
  match a, b with
  | COpen, COpen | CSettled, CSettled | CCanceled, CCanceled | CAccepted, CAccepted => true
  | _, _ => false
  end.
Definition hstate_eqb (a b : hstate) : bool :=
  match a, b with
  | HAccepted, HAccepted | HCanceled, HCanceled | HSettled, HSettled => true
  | _, _ => false
  end.

(* FailResolutionResult codes (resolution_result.go, iota order) *)
Definition F_ReplayToCanceled : N := 1.
Definition F_InvoiceAlreadyCanceled : N := 2.
Definition F_InvoiceAlreadySettled : N := 3.
Definition F_AmountTooLow : N := 4.
Definition F_ExpiryTooSoon : N := 5.
Definition F_Canceled : N := 6.
Definition F_InvoiceNotOpen : N := 7.
Definition F_MppTimeout : N := 8.
Definition F_AddressMismatch : N := 9.
Definition F_SetTotalMismatch : N := 10.
Definition F_SetTotalTooLow : N := 11.
Definition F_SetOverpayment : N := 12.
Definition F_InvoiceNotFound : N := 13.
Definition F_KeySendError : N := 14.
Definition F_MppInProgress : N := 15.
Definition F_TypeMismatch : N := 16.
Definition F_AmpError : N := 17.
Definition F_AmpReconstruction : N := 18.
(* SettleResolutionResult codes *)
Definition S_Settled : N := 1.
Definition S_ReplayToSettled : N := 2.
Definition S_DuplicateToSettled : N := 3.

(* FailResolutionResult.IsSetFailure *)
Definition is_set_failure (oc : N) : bool :=
  N.eqb oc F_AmpReconstruction || N.eqb oc F_SetTotalTooLow ||
  N.eqb oc F_SetTotalMismatch || N.eqb oc F_SetOverpayment.

Definition W64 : N := 18446744073709551616%N.
Definition wadd (a b : N) : N := ((a + b) mod W64)%N.
Definition u32 (x : Z) : Z := (x mod 4294967296)%Z.

Record htlc := mkHtlc {
  h_amt : N;            (* Amt *)
  h_total : N;          (* MppTotalAmt, 0 for legacy *)
  h_expiry : Z;         (* Expiry (uint32) *)
  h_height : Z;         (* AcceptHeight = uint32(currentHeight) *)
  h_state : hstate;
  (* ghost fields: what the HTLC arrived with; never read by the model's
     decisions, used to STATE the property *)
  h_hash : N;           (* payment hash of the HTLC *)
  h_addr : option N;    (* payment address carried (MPP record / path id) *)
  h_ks : bool           (* carried a keysend preimage hashing to its hash *)
}.

Definition set_hstate (h : htlc) (s : hstate) : htlc :=
  mkHtlc (h_amt h) (h_total h) (h_expiry h) (h_height h) s (h_hash h) (h_addr h) (h_ks h).

Record invoice := mkInv {
  i_hash : N;
  i_addr : N;               (* Terms.PaymentAddr, 0 = blank *)
  i_value : N;              (* Terms.Value *)
  i_pre : option N;         (* Terms.PaymentPreimage *)
  i_delta : Z;              (* Terms.FinalCltvDelta (int32) *)
  i_hodl : bool;
  i_amp : bool;             (* feature AMPRequired *)
  i_addr_req : bool;        (* feature PaymentAddrRequired *)
  i_state : cstate;
  i_htlcs : list (N * htlc);   (* newest first *)
  i_paid : N                (* AmtPaid *)
}.

Definition with_htlcs (i : invoice) (st : cstate) (pre : option N) (hs : list (N * htlc)) (paid : N) :=
  mkInv (i_hash i) (i_addr i) (i_value i) pre (i_delta i) (i_hodl i) (i_amp i)
        (i_addr_req i) st hs paid.

Inductive ksrec := KSNone | KSBad | KSPre (p : N).

Record hctx := mkCtx {
  c_hash : N;
  c_key : N;
  c_amt : N;
  c_expiry : Z;
  c_height : Z;
  c_mpp : option (N * N);   (* MPP record: (payment addr, total msat) *)
  c_amp : bool;             (* AMP record present *)
  c_path : option N;        (* blinded path id *)
  c_total : N;              (* payload.TotalAmtMsat (used with path id) *)
  c_ks : ksrec              (* custom record KeySendType *)
}.

Record cfg := mkCfg {
  g_rd : Z;                 (* FinalCltvRejectDelta *)
  g_keysend : bool;         (* AcceptKeySend *)
  g_kshold : bool;          (* KeysendHoldTime != 0 *)
  g_kv : bool               (* true: channeldb KV store, false: native SQL store *)
}.

Record state := mkState {
  invs : list invoice;      (* newest first *)
  subs : list N             (* circuit keys with a hodl subscription *)
}.

Definition init : state := mkState [] [].

(* resolutions handed to links *)
Inductive resn :=
| NSettle (k p : N) (ah : Z) (oc : N)
| NFail (k : N) (ah : Z) (oc : N).

Inductive direct :=
| DNil                    (* accept: nil resolution, htlc is held *)
| DRes (r : resn)
| DErr                    (* NotifyExitHopHtlc returned an error *)
| DUnmodelled.

Inductive apires :=
| AOk | ADup | AInvalid | ANotFound | AStillOpen | AAlreadyCanceled | AAlreadySettled | AOther.

Inductive reply := RpDirect (d : direct) | RpApi (a : apires).

Inductive event :=
| EAdd (i : invoice)                       (* AddInvoice; only the terms of i are used *)
| ENotify (c : hctx)                       (* NotifyExitHopHtlc *)
| ESettleHodl (p : N)                      (* SettleHodlInvoice *)
| ECancel (hash : N) (force : bool)        (* CancelInvoice / expiry watcher *)
| ETimeout (hash : N) (addr : option N) (k : N).   (* cancelSingleHtlc(ref, k, MppTimeout) *)

Section Model.
Variable H : N -> N.     (* preimage -> payment hash *)

Fixpoint find_htlc (k : N) (l : list (N * htlc)) : option htlc :=
  match l with
  | [] => None
  | (k', h) :: r => if N.eqb k k' then Some h else find_htlc k r
  end.

Definition find_by_hash (h : N) (l : list invoice) : option invoice :=
  find (fun i => N.eqb (i_hash i) h) l.
Definition find_by_addr (a : N) (l : list invoice) : option invoice :=
  find (fun i => N.eqb (i_addr i) a) l.

(* InvoiceRef lookup.  KV: fetchInvoiceNumByRef; SQL: getInvoiceByRef. *)
Definition lookup_ref (kv : bool) (l : list invoice) (rh : option N) (ra : option N)
  : option invoice :=
  let nonblank := match ra with Some a => if N.eqb a 0 then None else Some a | None => None end in
  if kv then
    let byh := match rh with Some h => find_by_hash h l | None => None end in
    let bya := match nonblank with Some a => find_by_addr a l | None => None end in
    match bya, byh with
    | Some ia, Some ih => if N.eqb (i_hash ia) (i_hash ih) then Some ia else None
    | Some ia, None => match rh with None => Some ia | Some _ => None end
    | None, Some ih => Some ih
    | None, None => None
    end
  else
    match rh with
    | Some h =>
      match find_by_hash h l with
      | None => None
      | Some i =>
        match nonblank with
        | Some a => if N.eqb (i_addr i) a then Some i else None
        | None => Some i
        end
      end
    | None =>
      match nonblank with
      | Some a => find_by_addr a l
      | None => None
      end
    end.

Definition put_inv (i' : invoice) (l : list invoice) : list invoice :=
  map (fun i => if N.eqb (i_hash i) (i_hash i') then i' else i) l.

(* ---- sums over htlc sets ---- *)
Definition is_state (s : hstate) (h : htlc) : bool := hstate_eqb (h_state h) s.

Fixpoint wsum (P : htlc -> bool) (l : list (N * htlc)) : N :=
  match l with
  | [] => 0%N
  | (_, h) :: r => if P h then wadd (h_amt h) (wsum P r) else wsum P r
  end.

Definition any_htlc (P : htlc -> bool) (l : list (N * htlc)) : bool :=
  existsb (fun kh => P (snd kh)) l.

Definition map_htlcs (f : htlc -> htlc) (l : list (N * htlc)) : list (N * htlc) :=
  map (fun kh => (fst kh, f (snd kh))) l.

(* ---- AddInvoice ---- *)
Definition add_invoice (g : cfg) (st : state) (i : invoice) : state * apires :=
  (* ValidateInvoice: requiresPreimage *)
  if negb (i_hodl i) && negb (i_amp i) && match i_pre i with None => true | Some _ => false end
  then (st, AInvalid)
  else
  match find_by_hash (i_hash i) (invs st) with
  | Some _ => (st, ADup)
  | None =>
    if negb (N.eqb (i_addr i) 0) &&
       match find_by_addr (i_addr i) (invs st) with Some _ => true | None => false end
    then (st, ADup)
    else (mkState (with_htlcs i COpen (i_pre i) [] 0%N :: invs st) (subs st), AOk)
  end.

(* ---- update.go ---- *)
Definition valid_keysend (c : hctx) : bool :=
  match c_ks c with KSPre p => N.eqb (H p) (c_hash c) | _ => false end.

Definition expiry_ok (g : cfg) (c : hctx) (i : invoice) : bool :=
  negb (Z.ltb (c_expiry c) (u32 (c_height c + g_rd g))) &&
  negb (Z.ltb (c_expiry c) (u32 (c_height c + i_delta i))).

Inductive upres :=
| UFail (oc : N)                                   (* no update, fail resolution *)
| UAdd (h : htlc) (ns : option cstate) (r : option (N * N))
       (* AddHTLCsUpdate with optional State; r = Some (preimage, outcome) for a
          settle resolution, None for an accept resolution *)
| UPanic.                                          (* nil preimage dereference *)

Definition new_htlc (c : hctx) (total : N) (addr : option N) : htlc :=
  mkHtlc (c_amt c) total (c_expiry c) (u32 (c_height c)) HAccepted
         (c_hash c) addr (valid_keysend c).

Definition update_legacy (g : cfg) (c : hctx) (i : invoice) : upres :=
  if i_amp i then UFail F_TypeMismatch
  else if cstate_eqb (i_state i) CCanceled then UFail F_InvoiceAlreadyCanceled
  else if N.ltb (c_amt c) (i_value i) then UFail F_AmountTooLow
  else if negb (valid_keysend c) && i_addr_req i then UFail F_AddressMismatch
  else if any_htlc (fun h => is_state HAccepted h && N.ltb 0 (h_total h)) (i_htlcs i)
       then UFail F_MppInProgress
  else if negb (expiry_ok g c i) then UFail F_ExpiryTooSoon
  else
    let h := new_htlc c 0 None in
    match i_state i with
    | CAccepted => UAdd h None None
    | CSettled =>
      match i_pre i with
      | None => UFail F_TypeMismatch
      | Some p => UAdd h None (Some (p, S_DuplicateToSettled))
      end
    | _ =>
      if i_hodl i then UAdd h (Some CAccepted) None
      else match i_pre i with
           | None => UFail F_TypeMismatch
           | Some p => UAdd h (Some CSettled) (Some (p, S_Settled))
           end
    end.

Definition update_mpp (g : cfg) (c : hctx) (i : invoice) (addr total : N) : upres :=
  if i_amp i && negb (c_amp c) then UFail F_TypeMismatch
  else if negb (i_amp i) && c_amp c then UFail F_TypeMismatch
  else if negb (cstate_eqb (i_state i) COpen) then UFail F_InvoiceNotOpen
  else if negb (N.eqb addr (i_addr i)) then UFail F_AddressMismatch
  else if N.eqb total 0 then UFail F_SetTotalTooLow
  else if N.ltb total (i_value i) then UFail F_SetTotalTooLow
  else if any_htlc (fun h => is_state HAccepted h && negb (N.eqb (h_total h) total)) (i_htlcs i)
       then UFail F_SetTotalMismatch
  else
    let newsum := wadd (wsum (is_state HAccepted) (i_htlcs i)) (c_amt c) in
    if negb (expiry_ok g c i) then UFail F_ExpiryTooSoon
    else
      let h := new_htlc c total (Some addr) in
      if N.ltb newsum total then UAdd h None None
      else if i_hodl i then UAdd h (Some CAccepted) None
      else match i_pre i with
           | None => UPanic
           | Some p => UAdd h (Some CSettled) (Some (p, S_Settled))
           end.

Definition update_invoice (g : cfg) (c : hctx) (i : invoice) : upres :=
  match c_mpp c with
  | None =>
    if c_amp c then UFail F_AmpError
    else match c_path c with
         | None => update_legacy g c i
         | Some pa => update_mpp g c i pa (c_total c)
         end
  | Some (a, t) => update_mpp g c i a t
  end.

(* ---- update_invoice.go ---- *)
(* getUpdatedHtlcState over all htlcs of a non-AMP invoice (setID = nil) *)
Definition align_htlcs (ctxstate : cstate) (l : list (N * htlc)) : option (list (N * htlc)) :=
  match ctxstate with
  | CSettled => Some (map_htlcs (fun h => if is_state HAccepted h then set_hstate h HSettled else h) l)
  | CCanceled =>
    if any_htlc (is_state HSettled) l then None
    else Some (map_htlcs (fun h => set_hstate h HCanceled) l)
  | _ => if any_htlc (is_state HSettled) l then None else Some l
  end.

(* addHTLCs for a single new htlc; rhash = ref.PayHash().  None = error *)
Definition apply_add (i : invoice) (rhash : option N) (k : N) (h : htlc) (ns : option cstate)
  : option invoice :=
  match find_htlc k (i_htlcs i) with
  | Some _ => None
  | None =>
    let hs1 := (k, h) :: i_htlcs i in
    let st1 :=
      match ns with
      | None => Some (i_state i)
      | Some n =>
        (* getUpdatedInvoiceState *)
        match i_state i with
        | CSettled | CCanceled => None
        | s =>
          if cstate_eqb n COpen then None
          else if cstate_eqb s CAccepted && cstate_eqb n CAccepted then None
          else if cstate_eqb n CCanceled then Some n
          else if cstate_eqb n CSettled then
            match i_pre i with
            | None => None
            | Some p =>
              match rhash with
              | None => None
              | Some rh => if N.eqb (H p) rh then Some n else None
              end
            end
          else Some n
        end
      end in
    match st1 with
    | None => None
    | Some s1 =>
      match align_htlcs s1 hs1 with
      | None => None
      | Some hs2 =>
        let paid := if cstate_eqb s1 COpen then 0%N
                    else wsum (fun h => is_state HAccepted h || is_state HSettled h) hs2 in
        Some (with_htlcs i s1 (i_pre i) hs2 paid)
      end
    end
  end.

Definition set_htlc_state (k : N) (s : hstate) (l : list (N * htlc)) : list (N * htlc) :=
  map (fun kh => if N.eqb (fst kh) k then (fst kh, set_hstate (snd kh) s) else kh) l.

(* settleHodlInvoice on an invoice found by hash H p, in state CAccepted *)
Definition apply_settle_hodl (i : invoice) (p : N) : option invoice :=
  if negb (i_hodl i) then None
  else if negb (any_htlc (is_state HAccepted) (i_htlcs i)) then None
  else if negb (N.eqb (H p) (i_hash i)) then None
  else
    let hs := map_htlcs (fun h => if is_state HAccepted h then set_hstate h HSettled else h) (i_htlcs i) in
    Some (with_htlcs i CSettled (Some p) hs (wsum (is_state HAccepted) (i_htlcs i))).

(* cancelInvoice on an invoice in state COpen / CAccepted *)
Definition apply_cancel (i : invoice) : option invoice :=
  match align_htlcs CCanceled (i_htlcs i) with
  | None => None
  | Some hs => Some (with_htlcs i CCanceled (i_pre i) hs (i_paid i))
  end.

(* ---- hodl subscriptions ---- *)
Definition res_key (r : resn) : N :=
  match r with NSettle k _ _ _ => k | NFail k _ _ => k end.

Fixpoint mem (k : N) (l : list N) : bool :=
  match l with [] => false | x :: r => N.eqb k x || mem k r end.
Fixpoint remove_key (k : N) (l : list N) : list N :=
  match l with [] => [] | x :: r => if N.eqb k x then remove_key k r else x :: remove_key k r end.

(* notifyHodlSubscribers for each resolution in order *)
Fixpoint deliver (sb : list N) (rs : list resn) : list N * list resn :=
  match rs with
  | [] => (sb, [])
  | r :: rest =>
    if mem (res_key r) sb then
      let '(sb', out) := deliver (remove_key (res_key r) sb) rest in (sb', r :: out)
    else deliver sb rest
  end.

Definition subscribe (k : N) (sb : list N) : list N := if mem k sb then sb else k :: sb.

Definition htlcs_in (s : hstate) (l : list (N * htlc)) : list (N * htlc) :=
  filter (fun kh => is_state s (snd kh)) l.

(* ---- NotifyExitHopHtlc ---- *)
Definition ctx_ref (c : hctx) : option N * option N :=
  match c_path c with
  | Some pa => (Some (c_hash c), Some pa)
  | None =>
    match c_mpp c with
    | Some (a, _) => if c_amp c then (None, Some a) else (Some (c_hash c), Some a)
    | None => (Some (c_hash c), None)
    end
  end.

Definition fail_now (st : state) (c : hctx) (oc : N) : state * (reply * list resn) :=
  (st, (RpDirect (DRes (NFail (c_key c) (c_height c) oc)), [])).

(* notifyExitHopHtlcLocked *)
Definition notify_locked (g : cfg) (st : state) (c : hctx) : state * (reply * list resn) :=
  let '(rh, ra) := ctx_ref c in
  match lookup_ref (g_kv g) (invs st) rh ra with
  | None => fail_now st c F_InvoiceNotFound
  | Some i =>
    if i_amp i && c_amp c && match c_mpp c with Some _ => true | None => false end
    then (st, (RpDirect DUnmodelled, []))
    else
    (* outcome of the UpdateInvoice callback: (invoice after, resolution) *)
    let upd : option (invoice * option resn * bool) :=
      (* (post invoice, Some resolution | None = accept, changed?) ; None = error *)
      match find_htlc (c_key c) (i_htlcs i) with
      | Some h =>
        (* resolveReplayedHtlc *)
        match h_state h with
        | HCanceled => Some (i, Some (NFail (c_key c) (c_height c) F_ReplayToCanceled), false)
        | HAccepted => Some (i, None, false)
        | HSettled =>
          match i_pre i with
          | None => None
          | Some p =>
            if N.eqb (H p) (c_hash c)
            then Some (i, Some (NSettle (c_key c) p (c_height c) S_ReplayToSettled), false)
            else None
          end
        end
      | None =>
        match update_invoice g c i with
        | UPanic => None
        | UFail oc => Some (i, Some (NFail (c_key c) (c_height c) oc), false)
        | UAdd h ns r =>
          match apply_add i rh (c_key c) h ns with
          | None => None
          | Some i' =>
            Some (i', match r with
                      | Some (p, oc) => Some (NSettle (c_key c) p (c_height c) oc)
                      | None => None
                      end, true)
          end
        end
      end in
    match upd with
    | None => (st, (RpDirect DErr, []))
    | Some (i', r, changed) =>
      let invs' := if changed then put_inv i' (invs st) else invs st in
      match r with
      | Some (NFail k ah oc) =>
        (* AcceptHeight taken from the invoice if the htlc is recorded *)
        let ah' := match find_htlc k (i_htlcs i') with Some h => h_height h | None => ah end in
        let ntf := if is_set_failure oc
                   then map (fun kh => NFail (fst kh) (h_height (snd kh)) oc)
                            (htlcs_in HCanceled (i_htlcs i'))
                   else [] in
        let '(sb, out) := deliver (subs st) ntf in
        (mkState invs' sb, (RpDirect (DRes (NFail k ah' oc)), out))
      | Some (NSettle k p ah oc) =>
        let ntf := map (fun kh => NSettle (fst kh) p (h_height (snd kh)) oc)
                       (htlcs_in HSettled (i_htlcs i')) in
        let '(sb, out) := deliver (subs st) ntf in
        (mkState invs' sb, (RpDirect (DRes (NSettle k p ah oc)), out))
      | None =>
        match find_htlc (c_key c) (i_htlcs i') with
        | None => (st, (RpDirect DErr, []))
        | Some _ => (mkState invs' (subscribe (c_key c) (subs st)), (RpDirect DNil, []))
        end
      end
    end
  end.

(* processKeySend: just-in-time invoice.  Returns None on "keysend error". *)
Definition process_keysend (g : cfg) (st : state) (c : hctx) : option state :=
  match c_ks c with
  | KSNone => Some st
  | KSBad => None
  | KSPre p =>
    if negb (N.eqb (H p) (c_hash c)) then None
    else match c_mpp c with
         | Some _ => None
         | None =>
           if Z.ltb (c_expiry c) (u32 (c_height c + g_rd g)) then None
           else
             let i := mkInv (c_hash c) 0 (c_amt c) (Some p) (g_rd g) (g_kshold g)
                            false false COpen [] 0 in
             Some (fst (add_invoice g st i))
         end
  end.

Definition notify (g : cfg) (st : state) (c : hctx) : state * (reply * list resn) :=
  if g_keysend g && negb (c_amp c) then
    match process_keysend g st c with
    | None => fail_now st c F_KeySendError
    | Some st1 => notify_locked g st1 c
    end
  else notify_locked g st c.

(* ---- SettleHodlInvoice ---- *)
Definition settle_hodl (g : cfg) (st : state) (p : N) : state * (reply * list resn) :=
  match lookup_ref (g_kv g) (invs st) (Some (H p)) None with
  | None => (st, (RpApi ANotFound, []))
  | Some i =>
    match i_state i with
    | COpen => (st, (RpApi AStillOpen, []))
    | CCanceled => (st, (RpApi AAlreadyCanceled, []))
    | CSettled => (st, (RpApi AAlreadySettled, []))
    | CAccepted =>
      match apply_settle_hodl i p with
      | None => (st, (RpApi AOther, []))
      | Some i' =>
        let ntf := map (fun kh => NSettle (fst kh) p (h_height (snd kh)) S_Settled)
                       (htlcs_in HSettled (i_htlcs i')) in
        let '(sb, out) := deliver (subs st) ntf in
        (mkState (put_inv i' (invs st)) sb, (RpApi AOk, out))
      end
    end
  end.

(* ---- cancelInvoiceImpl ---- *)
Definition cancel_invoice (g : cfg) (st : state) (hash : N) (force : bool)
  : state * (reply * list resn) :=
  match lookup_ref (g_kv g) (invs st) (Some hash) None with
  | None => (st, (RpApi ANotFound, []))
  | Some i =>
    match i_state i with
    | CSettled => (st, (RpApi AAlreadySettled, []))
    | CCanceled => (st, (RpApi AOk, []))
    | s =>
      if cstate_eqb s CAccepted && negb force then (st, (RpApi AOk, []))
      else
        match apply_cancel i with
        | None => (st, (RpApi AOther, []))
        | Some i' =>
          let ntf := map (fun kh => NFail (fst kh) (h_height (snd kh)) F_Canceled)
                         (htlcs_in HCanceled (i_htlcs i')) in
          let '(sb, out) := deliver (subs st) ntf in
          (mkState (put_inv i' (invs st)) sb, (RpApi AOk, out))
        end
    end
  end.

(* ---- cancelSingleHtlc(ref, k, ResultMppTimeout) ---- *)
Definition timeout_htlc (g : cfg) (st : state) (hash : N) (addr : option N) (k : N)
  : state * (reply * list resn) :=
  match lookup_ref (g_kv g) (invs st) (Some hash) addr with
  | None => (st, (RpApi ANotFound, []))
  | Some i =>
    if negb (cstate_eqb (i_state i) COpen) then (st, (RpApi AOk, []))
    else
      match find_htlc k (i_htlcs i) with
      | None => (st, (RpApi AOther, []))
      | Some h =>
        if negb (is_state HAccepted h) then (st, (RpApi AOk, []))
        else
          let i' := with_htlcs i (i_state i) (i_pre i)
                               (set_htlc_state k HCanceled (i_htlcs i)) (i_paid i) in
          let '(sb, out) := deliver (subs st) [NFail k (h_height h) F_MppTimeout] in
          (mkState (put_inv i' (invs st)) sb, (RpApi AOk, out))
      end
  end.

Definition step (g : cfg) (st : state) (e : event) : state * (reply * list resn) :=
  match e with
  | EAdd i => let '(st', a) := add_invoice g st i in (st', (RpApi a, []))
  | ENotify c => notify g st c
  | ESettleHodl p => settle_hodl g st p
  | ECancel h f => cancel_invoice g st h f
  | ETimeout h a k => timeout_htlc g st h a k
  end.

Fixpoint run (g : cfg) (st : state) (evs : list event) : state * list (reply * list resn) :=
  match evs with
  | [] => (st, [])
  | e :: r =>
    let '(st1, o) := step g st e in
    let '(st2, os) := run g st1 r in
    (st2, o :: os)
  end.

End Model.
