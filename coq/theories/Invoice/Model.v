(* C15 — executable model of lnd's invoice registry settlement logic.

   Mirrors (read together with the Go source):
     invoices/update.go          resolveReplayedHtlc, updateInvoice, updateLegacy,
                                 updateMpp (check ORDER is the code's order)
     invoices/update_invoice.go  UpdateInvoice appliers addHTLCs / cancelHTLCs /
                                 settleHodlInvoice / cancelInvoice,
                                 getUpdatedInvoiceState, getUpdatedHtlcState
     invoices/invoiceregistry.go NotifyExitHopHtlc (+processKeySend),
                                 notifyExitHopHtlcLocked, SettleHodlInvoice,
                                 cancelInvoiceImpl, cancelSingleHtlc,
                                 hodlSubscribe / notifyHodlSubscribers
     channeldb/invoices.go, invoices/sql_store.go   AddInvoice duplicate rules and
                                 the two (different!) InvoiceRef lookup rules

   One model step = one registry API call (the registry holds its mutex and one
   DB transaction over the whole update).  Preimages, hashes, payment addresses
   and circuit keys are identifiers in N; the hash function H is a Section
   variable.  Address 0 is BlankPayAddr.  Amount arithmetic is uint64 (wrap mod
   2^64), height arithmetic is `uint32(int32 + int32)` = mod 2^32.

   AMP: an AMP HTLC (AMP + MPP record) hitting an AMP invoice is handled by
   notify_amp: the store hands the update callback only the HTLCs of the
   HTLC's set id (`in_set`), updateMpp runs per set, a complete set is
   reconstructed through the Section oracle R (amp.ReconstructChildren:
   list (share, child index) -> list (child hash, child preimage)), the code's
   own checks (child hash = HTLC hash in reconstructAMPPreimages; preimage
   hashes to the HTLC hash in getUpdatedHtlcState) are mirrored, a failed
   reconstruction cancels the invoice and the set, the invoice itself stays
   Open, AMPState[set] and AmtPaid are kept as the code keeps them.  Set ids,
   shares are ids in N (set id 0 = the blank set id).  The KV store's
   rewrite of a stored set (channeldb updateAMPInvoices) is mirrored: a
   settle into an already settled set id drops the older records on KV.
   DUnmodelled remains for one corner: a circuit key that is recorded on an
   AMP invoice arrives again with a different payload (other set id / no AMP
   record) -- a circuit key identifies one HTLC and its onion payload.
   The HTLC interceptor (external modification hook) is absent (mock: no-op).

   NO PROOFS IN THIS FILE. *)
From Coq Require Import List NArith ZArith Bool.
Import ListNotations.

Inductive cstate := COpen | CSettled | CCanceled | CAccepted.
Inductive hstate := HAccepted | HCanceled | HSettled.

Definition cstate_eqb (a b : cstate) : bool :=
  match a, b with
  | COpen, COpen | CSettled, CSettled | CCanceled, CCanceled | CAccepted, CAccepted => true
  | _, _ => false
  end.
Definition hstate_eqb (a b : hstate) : bool :=
  match a, b with
  | HAccepted, HAccepted | HCanceled, HCanceled | HSettled, HSettled => true
  | _, _ => false
  end.

(* FailResolutionResult codes (resolution_result.go, iota order) *)
Definition F_ReplayToCanceled : N := 1.
Definition F_InvoiceAlreadyCanceled : N := 2.
Definition F_InvoiceAlreadySettled : N := 3.
Definition F_AmountTooLow : N := 4.
Definition F_ExpiryTooSoon : N := 5.
Definition F_Canceled : N := 6.
Definition F_InvoiceNotOpen : N := 7.
Definition F_MppTimeout : N := 8.
Definition F_AddressMismatch : N := 9.
Definition F_SetTotalMismatch : N := 10.
Definition F_SetTotalTooLow : N := 11.
Definition F_SetOverpayment : N := 12.
Definition F_InvoiceNotFound : N := 13.
Definition F_KeySendError : N := 14.
Definition F_MppInProgress : N := 15.
Definition F_TypeMismatch : N := 16.
Definition F_AmpError : N := 17.
Definition F_AmpReconstruction : N := 18.
(* SettleResolutionResult codes *)
Definition S_Settled : N := 1.
Definition S_ReplayToSettled : N := 2.
Definition S_DuplicateToSettled : N := 3.

(* FailResolutionResult.IsSetFailure *)
Definition is_set_failure (oc : N) : bool :=
  N.eqb oc F_AmpReconstruction || N.eqb oc F_SetTotalTooLow ||
  N.eqb oc F_SetTotalMismatch || N.eqb oc F_SetOverpayment.

Definition W64 : N := 18446744073709551616%N.
Definition wadd (a b : N) : N := ((a + b) mod W64)%N.
(* uint64 subtraction a - b *)
Definition wsub (a b : N) : N := ((a + (W64 - b mod W64)) mod W64)%N.
Definition u32 (x : Z) : Z := (x mod 4294967296)%Z.

Record htlc := mkHtlc {
  h_amt : N;            (* Amt *)
  h_total : N;          (* MppTotalAmt, 0 for legacy *)
  h_expiry : Z;         (* Expiry (uint32) *)
  h_height : Z;         (* AcceptHeight = uint32(currentHeight) *)
  h_state : hstate;
  (* ghost fields: what the HTLC arrived with; never read by the model's
     decisions, used to STATE the property *)
  h_hash : N;           (* payment hash of the HTLC (AMP: AMP.Hash, read by the model) *)
  h_addr : option N;    (* payment address carried (MPP record / path id) *)
  h_ks : bool;          (* carried a keysend preimage hashing to its hash *)
  (* AMP data (InvoiceHtlcAMPData); h_set = None for non-AMP htlcs *)
  h_set : option N;     (* AMP.Record.SetID *)
  h_share : N;          (* AMP.Record.RootShare *)
  h_idx : N;            (* AMP.Record.ChildIndex *)
  h_pre : option N;     (* AMP.Preimage *)
  h_gen : N             (* ghost: circuit key of the htlc whose arrival settled this one *)
}.

Definition set_hstate (h : htlc) (s : hstate) : htlc :=
  mkHtlc (h_amt h) (h_total h) (h_expiry h) (h_height h) s (h_hash h) (h_addr h) (h_ks h)
         (h_set h) (h_share h) (h_idx h) (h_pre h) (h_gen h).

(* an accepted AMP htlc becomes settled with its reconstructed preimage *)
Definition amp_settled (h : htlc) (p gen : N) : htlc :=
  mkHtlc (h_amt h) (h_total h) (h_expiry h) (h_height h) HSettled (h_hash h) (h_addr h) (h_ks h)
         (h_set h) (h_share h) (h_idx h) (Some p) gen.

Record invoice := mkInv {
  i_hash : N;
  i_addr : N;               (* Terms.PaymentAddr, 0 = blank *)
  i_value : N;              (* Terms.Value *)
  i_pre : option N;         (* Terms.PaymentPreimage *)
  i_delta : Z;              (* Terms.FinalCltvDelta (int32) *)
  i_hodl : bool;
  i_amp : bool;             (* feature AMPRequired *)
  i_addr_req : bool;        (* feature PaymentAddrRequired *)
  i_state : cstate;
  i_htlcs : list (N * htlc);   (* newest first *)
  i_paid : N;               (* AmtPaid *)
  i_sets : list (N * (hstate * N))   (* AMPState: set id -> (State, AmtPaid) *)
}.

Definition with_htlcs (i : invoice) (st : cstate) (pre : option N) (hs : list (N * htlc)) (paid : N) :=
  mkInv (i_hash i) (i_addr i) (i_value i) pre (i_delta i) (i_hodl i) (i_amp i)
        (i_addr_req i) st hs paid (i_sets i).

Definition with_amp (i : invoice) (st : cstate) (hs : list (N * htlc)) (paid : N)
           (sets : list (N * (hstate * N))) :=
  mkInv (i_hash i) (i_addr i) (i_value i) (i_pre i) (i_delta i) (i_hodl i) (i_amp i)
        (i_addr_req i) st hs paid sets.

Inductive ksrec := KSNone | KSBad | KSPre (p : N).

Record hctx := mkCtx {
  c_hash : N;
  c_key : N;
  c_amt : N;
  c_expiry : Z;
  c_height : Z;
  c_mpp : option (N * N);   (* MPP record: (payment addr, total msat) *)
  c_amp : bool;             (* AMP record present *)
  c_path : option N;        (* blinded path id *)
  c_total : N;              (* payload.TotalAmtMsat (used with path id) *)
  c_ks : ksrec;             (* custom record KeySendType *)
  c_set : N;                (* AMP record: set id (0 = blank), root share, child index *)
  c_share : N;
  c_idx : N
}.

Record cfg := mkCfg {
  g_rd : Z;                 (* FinalCltvRejectDelta *)
  g_keysend : bool;         (* AcceptKeySend *)
  g_kshold : bool;          (* KeysendHoldTime != 0 *)
  g_kv : bool;              (* true: channeldb KV store, false: native SQL store *)
  g_amp : bool              (* AcceptAMP (spontaneous AMP) *)
}.

Record state := mkState {
  invs : list invoice;      (* newest first *)
  subs : list N             (* circuit keys with a hodl subscription *)
}.

Definition init : state := mkState [] [].

(* resolutions handed to links *)
Inductive resn :=
| NSettle (k p : N) (ah : Z) (oc : N)
| NFail (k : N) (ah : Z) (oc : N).

Inductive direct :=
| DNil                    (* accept: nil resolution, htlc is held *)
| DRes (r : resn)
| DErr                    (* NotifyExitHopHtlc returned an error *)
| DUnmodelled.

Inductive apires :=
| AOk | ADup | AInvalid | ANotFound | AStillOpen | AAlreadyCanceled | AAlreadySettled | AOther.

Inductive reply := RpDirect (d : direct) | RpApi (a : apires).

Inductive event :=
| EAdd (i : invoice)                       (* AddInvoice; only the terms of i are used *)
| ENotify (c : hctx)                       (* NotifyExitHopHtlc *)
| ESettleHodl (p : N)                      (* SettleHodlInvoice *)
| ECancel (hash : N) (force : bool)        (* CancelInvoice / expiry watcher *)
| ETimeout (hash : N) (addr : option N) (k : N)    (* cancelSingleHtlc(ref, k, MppTimeout) *)
| ETimeoutSet (sid : N) (k : N).                   (* cancelSingleHtlc(InvoiceRefBySetID sid, k, MppTimeout) *)

Section Model.
Variable H : N -> N.     (* preimage -> payment hash *)
(* amp.ReconstructChildren: child descriptors (root share, child index) ->
   derived (child hash, child preimage), position by position.  No hypothesis. *)
Variable R : list (N * N) -> list (N * N).

Fixpoint find_htlc (k : N) (l : list (N * htlc)) : option htlc :=
  match l with
  | [] => None
  | (k', h) :: r => if N.eqb k k' then Some h else find_htlc k r
  end.

Definition find_by_hash (h : N) (l : list invoice) : option invoice :=
  find (fun i => N.eqb (i_hash i) h) l.
Definition find_by_addr (a : N) (l : list invoice) : option invoice :=
  find (fun i => N.eqb (i_addr i) a) l.

(* InvoiceRef lookup.  KV: fetchInvoiceNumByRef; SQL: getInvoiceByRef. *)
Definition lookup_ref (kv : bool) (l : list invoice) (rh : option N) (ra : option N)
  : option invoice :=
  let nonblank := match ra with Some a => if N.eqb a 0 then None else Some a | None => None end in
  if kv then
    let byh := match rh with Some h => find_by_hash h l | None => None end in
    let bya := match nonblank with Some a => find_by_addr a l | None => None end in
    match bya, byh with
    | Some ia, Some ih => if N.eqb (i_hash ia) (i_hash ih) then Some ia else None
    | Some ia, None => match rh with None => Some ia | Some _ => None end
    | None, Some ih => Some ih
    | None, None => None
    end
  else
    match rh with
    | Some h =>
      match find_by_hash h l with
      | None => None
      | Some i =>
        match nonblank with
        | Some a => if N.eqb (i_addr i) a then Some i else None
        | None => Some i
        end
      end
    | None =>
      match nonblank with
      | Some a => find_by_addr a l
      | None => None
      end
    end.

Definition put_inv (i' : invoice) (l : list invoice) : list invoice :=
  map (fun i => if N.eqb (i_hash i) (i_hash i') then i' else i) l.

(* ---- sums over htlc sets ---- *)
Definition is_state (s : hstate) (h : htlc) : bool := hstate_eqb (h_state h) s.

Fixpoint wsum (P : htlc -> bool) (l : list (N * htlc)) : N :=
  match l with
  | [] => 0%N
  | (_, h) :: r => if P h then wadd (h_amt h) (wsum P r) else wsum P r
  end.

Definition any_htlc (P : htlc -> bool) (l : list (N * htlc)) : bool :=
  existsb (fun kh => P (snd kh)) l.

Definition map_htlcs (f : htlc -> htlc) (l : list (N * htlc)) : list (N * htlc) :=
  map (fun kh => (fst kh, f (snd kh))) l.

(* ---- AddInvoice ---- *)
Definition add_invoice (g : cfg) (st : state) (i : invoice) : state * apires :=
  (* ValidateInvoice: requiresPreimage *)
  if negb (i_hodl i) && negb (i_amp i) && match i_pre i with None => true | Some _ => false end
  then (st, AInvalid)
  else
  match find_by_hash (i_hash i) (invs st) with
  | Some _ => (st, ADup)
  | None =>
    if negb (N.eqb (i_addr i) 0) &&
       match find_by_addr (i_addr i) (invs st) with Some _ => true | None => false end
    then (st, ADup)
    else (mkState (with_amp i COpen [] 0%N [] :: invs st) (subs st), AOk)
  end.

(* ---- update.go ---- *)
Definition valid_keysend (c : hctx) : bool :=
  match c_ks c with KSPre p => N.eqb (H p) (c_hash c) | _ => false end.

Definition expiry_ok (g : cfg) (c : hctx) (i : invoice) : bool :=
  negb (Z.ltb (c_expiry c) (u32 (c_height c + g_rd g))) &&
  negb (Z.ltb (c_expiry c) (u32 (c_height c + i_delta i))).

Inductive upres :=
| UFail (oc : N)                                   (* no update, fail resolution *)
| UAdd (h : htlc) (ns : option cstate) (r : option (N * N))
       (* AddHTLCsUpdate with optional State; r = Some (preimage, outcome) for a
          settle resolution, None for an accept resolution *)
| UPanic.                                          (* nil preimage dereference *)

Definition new_htlc (c : hctx) (total : N) (addr : option N) : htlc :=
  mkHtlc (c_amt c) total (c_expiry c) (u32 (c_height c)) HAccepted
         (c_hash c) addr (valid_keysend c) None 0 0 None 0.

Definition update_legacy (g : cfg) (c : hctx) (i : invoice) : upres :=
  if i_amp i then UFail F_TypeMismatch
  else if cstate_eqb (i_state i) CCanceled then UFail F_InvoiceAlreadyCanceled
  else if N.ltb (c_amt c) (i_value i) then UFail F_AmountTooLow
  else if negb (valid_keysend c) && i_addr_req i then UFail F_AddressMismatch
  else if any_htlc (fun h => is_state HAccepted h && N.ltb 0 (h_total h)) (i_htlcs i)
       then UFail F_MppInProgress
  else if negb (expiry_ok g c i) then UFail F_ExpiryTooSoon
  else
    let h := new_htlc c 0 None in
    match i_state i with
    | CAccepted => UAdd h None None
    | CSettled =>
      match i_pre i with
      | None => UFail F_TypeMismatch
      | Some p => UAdd h None (Some (p, S_DuplicateToSettled))
      end
    | _ =>
      if i_hodl i then UAdd h (Some CAccepted) None
      else match i_pre i with
           | None => UFail F_TypeMismatch
           | Some p => UAdd h (Some CSettled) (Some (p, S_Settled))
           end
    end.

Definition update_mpp (g : cfg) (c : hctx) (i : invoice) (addr total : N) : upres :=
  if i_amp i && negb (c_amp c) then UFail F_TypeMismatch
  else if negb (i_amp i) && c_amp c then UFail F_TypeMismatch
  else if negb (cstate_eqb (i_state i) COpen) then UFail F_InvoiceNotOpen
  else if negb (N.eqb addr (i_addr i)) then UFail F_AddressMismatch
  else if N.eqb total 0 then UFail F_SetTotalTooLow
  else if N.ltb total (i_value i) then UFail F_SetTotalTooLow
  else if any_htlc (fun h => is_state HAccepted h && negb (N.eqb (h_total h) total)) (i_htlcs i)
       then UFail F_SetTotalMismatch
  else
    let newsum := wadd (wsum (is_state HAccepted) (i_htlcs i)) (c_amt c) in
    if negb (expiry_ok g c i) then UFail F_ExpiryTooSoon
    else
      let h := new_htlc c total (Some addr) in
      if N.ltb newsum total then UAdd h None None
      else if i_hodl i then UAdd h (Some CAccepted) None
      else match i_pre i with
           | None => UPanic
           | Some p => UAdd h (Some CSettled) (Some (p, S_Settled))
           end.

Definition update_invoice (g : cfg) (c : hctx) (i : invoice) : upres :=
  match c_mpp c with
  | None =>
    if c_amp c then UFail F_AmpError
    else match c_path c with
         | None => update_legacy g c i
         | Some pa => update_mpp g c i pa (c_total c)
         end
  | Some (a, t) => update_mpp g c i a t
  end.

(* ---- update_invoice.go ---- *)
(* getUpdatedHtlcState over all htlcs of a non-AMP invoice (setID = nil) *)
Definition align_htlcs (ctxstate : cstate) (l : list (N * htlc)) : option (list (N * htlc)) :=
  match ctxstate with
  | CSettled => Some (map_htlcs (fun h => if is_state HAccepted h then set_hstate h HSettled else h) l)
  | CCanceled =>
    if any_htlc (is_state HSettled) l then None
    else Some (map_htlcs (fun h => set_hstate h HCanceled) l)
  | _ => if any_htlc (is_state HSettled) l then None else Some l
  end.

(* addHTLCs for a single new htlc; rhash = ref.PayHash().  None = error *)
Definition apply_add (i : invoice) (rhash : option N) (k : N) (h : htlc) (ns : option cstate)
  : option invoice :=
  match find_htlc k (i_htlcs i) with
  | Some _ => None
  | None =>
    let hs1 := (k, h) :: i_htlcs i in
    let st1 :=
      match ns with
      | None => Some (i_state i)
      | Some n =>
        (* getUpdatedInvoiceState *)
        match i_state i with
        | CSettled | CCanceled => None
        | s =>
          if cstate_eqb n COpen then None
          else if cstate_eqb s CAccepted && cstate_eqb n CAccepted then None
          else if cstate_eqb n CCanceled then Some n
          else if cstate_eqb n CSettled then
            match i_pre i with
            | None => None
            | Some p =>
              match rhash with
              | None => None
              | Some rh => if N.eqb (H p) rh then Some n else None
              end
            end
          else Some n
        end
      end in
    match st1 with
    | None => None
    | Some s1 =>
      match align_htlcs s1 hs1 with
      | None => None
      | Some hs2 =>
        let paid := if cstate_eqb s1 COpen then 0%N
                    else wsum (fun h => is_state HAccepted h || is_state HSettled h) hs2 in
        Some (with_htlcs i s1 (i_pre i) hs2 paid)
      end
    end
  end.

Definition set_htlc_state (k : N) (s : hstate) (l : list (N * htlc)) : list (N * htlc) :=
  map (fun kh => if N.eqb (fst kh) k then (fst kh, set_hstate (snd kh) s) else kh) l.

(* settleHodlInvoice on an invoice found by hash H p, in state CAccepted *)
Definition apply_settle_hodl (i : invoice) (p : N) : option invoice :=
  if negb (i_hodl i) then None
  else if negb (any_htlc (is_state HAccepted) (i_htlcs i)) then None
  else if negb (N.eqb (H p) (i_hash i)) then None
  else
    let hs := map_htlcs (fun h => if is_state HAccepted h then set_hstate h HSettled else h) (i_htlcs i) in
    Some (with_htlcs i CSettled (Some p) hs (wsum (is_state HAccepted) (i_htlcs i))).

(* cancelInvoice on an invoice in state COpen / CAccepted *)
Definition apply_cancel (i : invoice) : option invoice :=
  match align_htlcs CCanceled (i_htlcs i) with
  | None => None
  | Some hs => Some (with_htlcs i CCanceled (i_pre i) hs (i_paid i))
  end.

(* ---- hodl subscriptions ---- *)
Definition res_key (r : resn) : N :=
  match r with NSettle k _ _ _ => k | NFail k _ _ => k end.

Fixpoint mem (k : N) (l : list N) : bool :=
  match l with [] => false | x :: r => N.eqb k x || mem k r end.
Fixpoint remove_key (k : N) (l : list N) : list N :=
  match l with [] => [] | x :: r => if N.eqb k x then remove_key k r else x :: remove_key k r end.

(* notifyHodlSubscribers for each resolution in order *)
Fixpoint deliver (sb : list N) (rs : list resn) : list N * list resn :=
  match rs with
  | [] => (sb, [])
  | r :: rest =>
    if mem (res_key r) sb then
      let '(sb', out) := deliver (remove_key (res_key r) sb) rest in (sb', r :: out)
    else deliver sb rest
  end.

Definition subscribe (k : N) (sb : list N) : list N := if mem k sb then sb else k :: sb.

Definition htlcs_in (s : hstate) (l : list (N * htlc)) : list (N * htlc) :=
  filter (fun kh => is_state s (snd kh)) l.

(* ---- AMP (updateMpp's AMP branches, update_invoice.go AMP appliers) ---- *)
Definition in_set (sid : N) (h : htlc) : bool :=
  match h_set h with Some s => N.eqb s sid | None => false end.

Fixpoint get_set (sid : N) (l : list (N * (hstate * N))) : option (hstate * N) :=
  match l with
  | [] => None
  | (s, v) :: r => if N.eqb s sid then Some v else get_set sid r
  end.
Fixpoint put_set (sid : N) (v : hstate * N) (l : list (N * (hstate * N)))
  : list (N * (hstate * N)) :=
  match l with
  | [] => [(sid, v)]
  | (s, w) :: r => if N.eqb s sid then (s, v) :: r else (s, w) :: put_set sid v r
  end.

(* getUpdatedInvoiceAmpState(.., HtlcStateAccepted, amt): create or add *)
Definition set_accept (sid amt : N) (l : list (N * (hstate * N))) : list (N * (hstate * N)) :=
  match get_set sid l with
  | None => put_set sid (HAccepted, wadd 0 amt) l
  | Some (s, a) => put_set sid (s, wadd a amt) l
  end.

(* cancelHtlcsAmp for one htlc: AMPState[set] -> Canceled, AmtPaid -= amt;
   invoice AmtPaid -= amt unless it is 0.  None = "unable to update AMP state" *)
Definition amp_cancel_acct (h : htlc) (acc : option (N * list (N * (hstate * N))))
  : option (N * list (N * (hstate * N))) :=
  match acc with
  | None => None
  | Some (paid, sets) =>
    match h_set h with
    | None => None
    | Some sid =>
      match get_set sid sets with
      | None => None
      | Some (_, a) =>
        Some (if N.eqb paid 0 then paid else wsub paid (h_amt h),
              put_set sid (HCanceled, wsub a (h_amt h)) sets)
      end
    end
  end.

(* cancel every accepted htlc selected by P (cancelInvoice over the fetched htlcs) *)
Fixpoint amp_cancel_fold (P : htlc -> bool) (l : list (N * htlc))
         (acc : option (N * list (N * (hstate * N)))) : option (N * list (N * (hstate * N))) :=
  match l with
  | [] => acc
  | (_, h) :: r =>
    if P h && is_state HAccepted h then amp_cancel_fold P r (amp_cancel_acct h acc)
    else amp_cancel_fold P r acc
  end.

Definition cancel_sel (P : htlc -> bool) (h : htlc) : htlc :=
  if P h && is_state HAccepted h then set_hstate h HCanceled else h.

(* cancelInvoice(update.State = {Canceled, SetID}) on the htlcs selected by P
   (P = the fetched view: one set id, or everything).  None = error. *)
Definition amp_cancel_invoice (i : invoice) (P : htlc -> bool) : option invoice :=
  if any_htlc (fun h => P h && is_state HSettled h) (i_htlcs i) then None
  else match amp_cancel_fold P (i_htlcs i) (Some (i_paid i, i_sets i)) with
       | None => None
       | Some (paid, sets) =>
         Some (with_amp i CCanceled (map_htlcs (cancel_sel P) (i_htlcs i)) paid sets)
       end.

(* cancelHTLCs for the single accepted htlc k (cancelSingleHtlc) *)
Definition amp_cancel_one (i : invoice) (k : N) (h : htlc) : option invoice :=
  match amp_cancel_acct h (Some (i_paid i, i_sets i)) with
  | None => None
  | Some (paid, sets) =>
    Some (with_amp i (i_state i) (set_htlc_state k HCanceled (i_htlcs i)) paid sets)
  end.

(* child descriptors handed to amp.ReconstructChildren: the new htlc first *)
Definition descs_of (l : list (N * htlc)) : list (N * N) :=
  map (fun kh => (h_share (snd kh), h_idx (snd kh))) l.

(* children.Hash compared with the htlc hashes, position by position *)
Fixpoint hashes_match (l : list (N * htlc)) (ch : list (N * N)) : bool :=
  match l, ch with
  | [], _ => true
  | (_, h) :: r, (ch_hash, _) :: cr => N.eqb (h_hash h) ch_hash && hashes_match r cr
  | _ :: _, [] => false
  end.

(* HTLCPreimages: circuit key -> reconstructed preimage *)
Fixpoint pre_map (l : list (N * htlc)) (ch : list (N * N)) : list (N * N) :=
  match l, ch with
  | (k, _) :: r, (_, p) :: cr => (k, p) :: pre_map r cr
  | _, _ => []
  end.
Fixpoint find_pre (k : N) (m : list (N * N)) : option N :=
  match m with
  | [] => None
  | (k', p) :: r => if N.eqb k k' then Some p else find_pre k r
  end.

Inductive ampres :=
| MFail (oc : N)                       (* fail resolution, no update *)
| MAccept (h : htlc)                   (* set incomplete: record the htlc *)
| MHodl (h : htlc)                     (* hodl AMP invoice: update.State = Accepted *)
| MRecon (h : htlc)                    (* reconstruction failed: CancelInvoiceUpdate *)
| MSettle (h : htlc) (pm : list (N * N)).   (* settle the set with these preimages *)

Definition new_amp_htlc (c : hctx) (total addr : N) : htlc :=
  mkHtlc (c_amt c) total (c_expiry c) (u32 (c_height c)) HAccepted
         (c_hash c) (Some addr) false (Some (c_set c)) (c_share c) (c_idx c) None 0.

(* updateMpp for an AMP htlc on an AMP invoice; the invoice view holds the
   htlcs of set c_set c only *)
Definition amp_update (g : cfg) (c : hctx) (i : invoice) (addr total : N) : ampres :=
  let sid := c_set c in
  let acc := filter (fun kh => in_set sid (snd kh) && is_state HAccepted (snd kh)) (i_htlcs i) in
  if negb (cstate_eqb (i_state i) COpen) then MFail F_InvoiceNotOpen
  else if negb (N.eqb addr (i_addr i)) then MFail F_AddressMismatch
  else if N.eqb total 0 then MFail F_SetTotalTooLow
  else if N.ltb total (i_value i) then MFail F_SetTotalTooLow
  else if any_htlc (fun h => negb (N.eqb (h_total h) total)) acc then MFail F_SetTotalMismatch
  else
    let newsum := wadd (wsum (fun _ => true) acc) (c_amt c) in
    if negb (expiry_ok g c i) then MFail F_ExpiryTooSoon
    else if N.eqb sid 0 then MFail F_AmpError
    else
      let h := new_amp_htlc c total addr in
      if N.ltb newsum total then MAccept h
      else if i_hodl i then MHodl h
      else
        let all := (c_key c, h) :: acc in
        let ch := R (descs_of all) in
        if hashes_match all ch then MSettle h (pre_map all ch) else MRecon h.

(* addHTLCs's per-htlc loop when the set is settled: preimage assignment and
   getUpdatedHtlcState(htlc, ContractSettled, setID).  None = error. *)
Fixpoint amp_settle_htlcs (sid gen : N) (pm : list (N * N)) (l : list (N * htlc))
  : option (list (N * htlc)) :=
  match l with
  | [] => Some []
  | (k, h) :: r =>
    match amp_settle_htlcs sid gen pm r with
    | None => None
    | Some r' =>
      if in_set sid h && is_state HAccepted h then
        let pre := match find_pre k pm, h_pre h with
                   | Some p, None => Some (Some p)
                   | Some p, Some q => if N.eqb p q then Some (Some q) else None
                   | None, q => Some q
                   end in
        match pre with
        | None => None                             (* ErrHTLCPreimageAlreadyExists *)
        | Some None => None                        (* ErrHTLCPreimageMissing *)
        | Some (Some p) =>
          if N.eqb (H p) (h_hash h) then Some ((k, amp_settled h p gen) :: r')
          else None                                (* ErrHTLCPreimageMismatch *)
        end
      else Some ((k, h) :: r')
    end
  end.

(* another invoice already owns this set id (set id index / amp_sub_invoices) *)
Definition dup_set (st : state) (i : invoice) (sid : N) : bool :=
  existsb (fun j => negb (N.eqb (i_hash j) (i_hash i)) && any_htlc (in_set sid) (i_htlcs j))
          (invs st).

(* ---- NotifyExitHopHtlc ---- *)
Definition ctx_ref (c : hctx) : option N * option N :=
  match c_path c with
  | Some pa => (Some (c_hash c), Some pa)
  | None =>
    match c_mpp c with
    | Some (a, _) => if c_amp c then (None, Some a) else (Some (c_hash c), Some a)
    | None => (Some (c_hash c), None)
    end
  end.

Definition fail_now (st : state) (c : hctx) (oc : N) : state * (reply * list resn) :=
  (st, (RpDirect (DRes (NFail (c_key c) (c_height c) oc)), [])).

Definition amp_settle_ntf (sid p0 oc : N) (l : list (N * htlc)) : list resn :=
  map (fun kh => NSettle (fst kh) (match h_pre (snd kh) with Some p => p | None => p0 end)
                         (h_height (snd kh)) oc)
      (filter (fun kh => in_set sid (snd kh) && is_state HSettled (snd kh)) l).

Definition amp_fail_ntf (sid oc : N) (l : list (N * htlc)) : list resn :=
  map (fun kh => NFail (fst kh) (h_height (snd kh)) oc)
      (filter (fun kh => in_set sid (snd kh) && is_state HCanceled (snd kh)) l).

(* addHTLCs recording one accepted AMP htlc (set incomplete).  None = error *)
Definition amp_apply_accept (i : invoice) (k : N) (h : htlc) (sid : N) : option invoice :=
  if any_htlc (fun x => in_set sid x && is_state HSettled x) (i_htlcs i)
  then None                                        (* ErrHTLCAlreadySettled *)
  else Some (with_amp i (i_state i) ((k, h) :: i_htlcs i) (wadd (i_paid i) (h_amt h))
                      (set_accept sid (h_amt h) (i_sets i))).

(* addHTLCs settling set sid; kv = the KV store's rewrite of the stored set.
   Returns (persisted invoice, in-memory htlcs used for the notifications) *)
Definition amp_apply_settle (kv : bool) (i : invoice) (k : N) (h : htlc) (sid : N)
           (pm : list (N * N)) : option (invoice * list (N * htlc)) :=
  match i_pre i with
  | Some _ => None                                 (* "AMP set cannot have preimage" *)
  | None =>
    let hs1 := (k, h) :: i_htlcs i in
    match amp_settle_htlcs sid k pm hs1 with
    | None => None
    | Some hs2 =>
      let sets1 := set_accept sid (h_amt h) (i_sets i) in
      let sets2 := match get_set sid sets1 with
                   | Some (_, a) => put_set sid (HSettled, a) sets1
                   | None => sets1
                   end in
      let was_settled := match get_set sid (i_sets i) with
                         | Some (HSettled, _) => true
                         | _ => false
                         end in
      let keep := fun kh : N * htlc =>
                    negb (in_set sid (snd kh)) ||
                    match find_htlc (fst kh) hs1 with
                    | Some x => is_state HAccepted x
                    | None => false
                    end in
      let hs3 := if kv && was_settled then filter keep hs2 else hs2 in
      Some (with_amp i (i_state i) hs3 (wadd (i_paid i) (h_amt h)) sets2, hs2)
    end
  end.

(* the AMP branch of notifyExitHopHtlcLocked: AMP htlc on an AMP invoice *)
Definition notify_amp (g : cfg) (st : state) (c : hctx) (i : invoice) (addr total : N)
  : state * (reply * list resn) :=
  let sid := c_set c in
  let k := c_key c in
  let err := (st, (RpDirect DErr, [])) in
  match find_htlc k (i_htlcs i) with
  | Some h =>
    (* resolveReplayedHtlc *)
    match h_state h with
    | HCanceled => (st, (RpDirect (DRes (NFail k (h_height h) F_ReplayToCanceled)), []))
    | HAccepted => (mkState (invs st) (subscribe k (subs st)), (RpDirect DNil, []))
    | HSettled =>
      match h_pre h with
      | None => err
      | Some p =>
        if N.eqb (h_hash h) (c_hash c) && N.eqb (H p) (h_hash h) then
          let '(sb, out) := deliver (subs st)
                                    (amp_settle_ntf sid p S_ReplayToSettled (i_htlcs i)) in
          (mkState (invs st) sb,
           (RpDirect (DRes (NSettle k p (c_height c) S_ReplayToSettled)), out))
        else err
      end
    end
  | None =>
    (* commit: the set id index check sits in AddHtlc on SQL (before the other
       errors of the update) and in Finalize on KV (after them) *)
    let commit := fun (A : Type) (res : option A) (ok : A -> state * (reply * list resn)) =>
      if g_kv g then
        match res with
        | None => err
        | Some x => if dup_set st i sid then fail_now st c F_InvoiceNotFound else ok x
        end
      else if dup_set st i sid then fail_now st c F_InvoiceNotFound
      else match res with None => err | Some x => ok x end in
    match amp_update g c i addr total with
    | MFail oc =>
      let ntf := if is_set_failure oc then amp_fail_ntf sid oc (i_htlcs i) else [] in
      let '(sb, out) := deliver (subs st) ntf in
      (mkState (invs st) sb, (RpDirect (DRes (NFail k (c_height c) oc)), out))
    | MAccept h =>
      commit invoice (amp_apply_accept i k h sid)
             (fun i' => (mkState (put_inv i' (invs st)) (subscribe k (subs st)),
                         (RpDirect DNil, [])))
    | MHodl h =>
      (* getUpdatedInvoiceState: HTLCSet(nil, Accepted) of an AMP invoice is empty *)
      commit invoice None (fun _ => err)
    | MRecon h =>
      match amp_cancel_invoice i (in_set sid) with
      | None => err
      | Some i' =>
        let '(sb, out) := deliver (subs st) (amp_fail_ntf sid F_AmpReconstruction (i_htlcs i')) in
        (mkState (put_inv i' (invs st)) sb,
         (RpDirect (DRes (NFail k (c_height c) F_AmpReconstruction)), out))
      end
    | MSettle h pm =>
      match find_pre k pm with
      | None => err
      | Some p =>
        commit (invoice * list (N * htlc))%type (amp_apply_settle (g_kv g) i k h sid pm)
               (fun x =>
                  let '(sb, out) := deliver (subs st) (amp_settle_ntf sid p S_Settled (snd x)) in
                  (mkState (put_inv (fst x) (invs st)) sb,
                   (RpDirect (DRes (NSettle k p (c_height c) S_Settled)), out)))
      end
    end
  end.

(* notifyExitHopHtlcLocked *)
Definition notify_locked (g : cfg) (st : state) (c : hctx) : state * (reply * list resn) :=
  let '(rh, ra) := ctx_ref c in
  match lookup_ref (g_kv g) (invs st) rh ra with
  | None => fail_now st c F_InvoiceNotFound
  | Some i =>
    let amp_path := i_amp i && c_amp c && match c_mpp c with Some _ => true | None => false end in
    if i_amp i && match find_htlc (c_key c) (i_htlcs i) with
                  | Some h => negb (amp_path && in_set (c_set c) h)
                  | None => false
                  end
    then (st, (RpDirect DUnmodelled, []))
    else if amp_path then
      match c_mpp c with
      | Some (a, t) => notify_amp g st c i a t
      | None => (st, (RpDirect DErr, []))
      end
    else
    (* outcome of the UpdateInvoice callback: (invoice after, resolution) *)
    let upd : option (invoice * option resn * bool) :=
      (* (post invoice, Some resolution | None = accept, changed?) ; None = error *)
      match find_htlc (c_key c) (i_htlcs i) with
      | Some h =>
        (* resolveReplayedHtlc *)
        match h_state h with
        | HCanceled => Some (i, Some (NFail (c_key c) (c_height c) F_ReplayToCanceled), false)
        | HAccepted => Some (i, None, false)
        | HSettled =>
          match i_pre i with
          | None => None
          | Some p =>
            if N.eqb (H p) (c_hash c)
            then Some (i, Some (NSettle (c_key c) p (c_height c) S_ReplayToSettled), false)
            else None
          end
        end
      | None =>
        match update_invoice g c i with
        | UPanic => None
        | UFail oc => Some (i, Some (NFail (c_key c) (c_height c) oc), false)
        | UAdd h ns r =>
          match apply_add i rh (c_key c) h ns with
          | None => None
          | Some i' =>
            Some (i', match r with
                      | Some (p, oc) => Some (NSettle (c_key c) p (c_height c) oc)
                      | None => None
                      end, true)
          end
        end
      end in
    match upd with
    | None => (st, (RpDirect DErr, []))
    | Some (i', r, changed) =>
      let invs' := if changed then put_inv i' (invs st) else invs st in
      match r with
      | Some (NFail k ah oc) =>
        (* AcceptHeight taken from the invoice if the htlc is recorded *)
        let ah' := match find_htlc k (i_htlcs i') with Some h => h_height h | None => ah end in
        let ntf := if is_set_failure oc
                   then map (fun kh => NFail (fst kh) (h_height (snd kh)) oc)
                            (htlcs_in HCanceled (i_htlcs i'))
                   else [] in
        let '(sb, out) := deliver (subs st) ntf in
        (mkState invs' sb, (RpDirect (DRes (NFail k ah' oc)), out))
      | Some (NSettle k p ah oc) =>
        let ntf := map (fun kh => NSettle (fst kh) p (h_height (snd kh)) oc)
                       (htlcs_in HSettled (i_htlcs i')) in
        let '(sb, out) := deliver (subs st) ntf in
        (mkState invs' sb, (RpDirect (DRes (NSettle k p ah oc)), out))
      | None =>
        match find_htlc (c_key c) (i_htlcs i') with
        | None => (st, (RpDirect DErr, []))
        | Some _ => (mkState invs' (subscribe (c_key c) (subs st)), (RpDirect DNil, []))
        end
      end
    end
  end.

(* processKeySend: just-in-time invoice.  Returns None on "keysend error". *)
Definition process_keysend (g : cfg) (st : state) (c : hctx) : option state :=
  match c_ks c with
  | KSNone => Some st
  | KSBad => None
  | KSPre p =>
    if negb (N.eqb (H p) (c_hash c)) then None
    else match c_mpp c with
         | Some _ => None
         | None =>
           if Z.ltb (c_expiry c) (u32 (c_height c + g_rd g)) then None
           else
             let i := mkInv (c_hash c) 0 (c_amt c) (Some p) (g_rd g) (g_kshold g)
                            false false COpen [] 0 [] in
             Some (fst (add_invoice g st i))
         end
  end.

(* processAMP: just-in-time AMP invoice.  Returns None on "amp error". *)
Definition process_amp (g : cfg) (st : state) (c : hctx) : option state :=
  match c_mpp c with
  | None => None
  | Some (a, t) =>
    if Z.ltb (c_expiry c) (u32 (c_height c + g_rd g)) then None
    else
      let i := mkInv (c_hash c) a t None (g_rd g) false true false COpen [] 0 [] in
      Some (fst (add_invoice g st i))
  end.

Definition notify (g : cfg) (st : state) (c : hctx) : state * (reply * list resn) :=
  if g_amp g && c_amp c then
    match process_amp g st c with
    | None => fail_now st c F_AmpError
    | Some st1 => notify_locked g st1 c
    end
  else if g_keysend g && negb (c_amp c) then
    match process_keysend g st c with
    | None => fail_now st c F_KeySendError
    | Some st1 => notify_locked g st1 c
    end
  else notify_locked g st c.

(* ---- SettleHodlInvoice ---- *)
Definition settle_hodl (g : cfg) (st : state) (p : N) : state * (reply * list resn) :=
  match lookup_ref (g_kv g) (invs st) (Some (H p)) None with
  | None => (st, (RpApi ANotFound, []))
  | Some i =>
    match i_state i with
    | COpen => (st, (RpApi AStillOpen, []))
    | CCanceled => (st, (RpApi AAlreadyCanceled, []))
    | CSettled => (st, (RpApi AAlreadySettled, []))
    | CAccepted =>
      match apply_settle_hodl i p with
      | None => (st, (RpApi AOther, []))
      | Some i' =>
        let ntf := map (fun kh => NSettle (fst kh) p (h_height (snd kh)) S_Settled)
                       (htlcs_in HSettled (i_htlcs i')) in
        let '(sb, out) := deliver (subs st) ntf in
        (mkState (put_inv i' (invs st)) sb, (RpApi AOk, out))
      end
    end
  end.

(* ---- cancelInvoiceImpl ---- *)
Definition cancel_invoice (g : cfg) (st : state) (hash : N) (force : bool)
  : state * (reply * list resn) :=
  match lookup_ref (g_kv g) (invs st) (Some hash) None with
  | None => (st, (RpApi ANotFound, []))
  | Some i =>
    match i_state i with
    | CSettled => (st, (RpApi AAlreadySettled, []))
    | CCanceled => (st, (RpApi AOk, []))
    | s =>
      if cstate_eqb s CAccepted && negb force then (st, (RpApi AOk, []))
      else
        match (if i_amp i then amp_cancel_invoice i (fun _ => true) else apply_cancel i) with
        | None => (st, (RpApi AOther, []))
        | Some i' =>
          let ntf := map (fun kh => NFail (fst kh) (h_height (snd kh)) F_Canceled)
                         (htlcs_in HCanceled (i_htlcs i')) in
          let '(sb, out) := deliver (subs st) ntf in
          (mkState (put_inv i' (invs st)) sb, (RpApi AOk, out))
        end
    end
  end.

(* ---- cancelSingleHtlc(ref, k, ResultMppTimeout) ---- *)
Definition timeout_htlc (g : cfg) (st : state) (hash : N) (addr : option N) (k : N)
  : state * (reply * list resn) :=
  match lookup_ref (g_kv g) (invs st) (Some hash) addr with
  | None => (st, (RpApi ANotFound, []))
  | Some i =>
    if negb (cstate_eqb (i_state i) COpen) then (st, (RpApi AOk, []))
    else
      match find_htlc k (i_htlcs i) with
      | None => (st, (RpApi AOther, []))
      | Some h =>
        if negb (is_state HAccepted h) then (st, (RpApi AOk, []))
        else
          match (if i_amp i then amp_cancel_one i k h
                 else Some (with_htlcs i (i_state i) (i_pre i)
                                       (set_htlc_state k HCanceled (i_htlcs i)) (i_paid i))) with
          | None => (st, (RpApi AOther, []))
          | Some i' =>
            let '(sb, out) := deliver (subs st) [NFail k (h_height h) F_MppTimeout] in
            (mkState (put_inv i' (invs st)) sb, (RpApi AOk, out))
          end
      end
  end.

(* ---- cancelSingleHtlc(InvoiceRefBySetID sid, k, ResultMppTimeout): the
   release timer of an AMP htlc; only the htlcs of set sid are fetched ---- *)
Definition timeout_set (g : cfg) (st : state) (sid k : N) : state * (reply * list resn) :=
  match find (fun i => i_amp i && any_htlc (in_set sid) (i_htlcs i)) (invs st) with
  | None => (st, (RpApi ANotFound, []))
  | Some i =>
    if negb (cstate_eqb (i_state i) COpen) then (st, (RpApi AOk, []))
    else
      match find_htlc k (i_htlcs i) with
      | None => (st, (RpApi AOther, []))
      | Some h =>
        if negb (in_set sid h) then (st, (RpApi AOther, []))
        else if negb (is_state HAccepted h) then (st, (RpApi AOk, []))
        else
          match amp_cancel_one i k h with
          | None => (st, (RpApi AOther, []))
          | Some i' =>
            let '(sb, out) := deliver (subs st) [NFail k (h_height h) F_MppTimeout] in
            (mkState (put_inv i' (invs st)) sb, (RpApi AOk, out))
          end
      end
  end.

Definition step (g : cfg) (st : state) (e : event) : state * (reply * list resn) :=
  match e with
  | EAdd i => let '(st', a) := add_invoice g st i in (st', (RpApi a, []))
  | ENotify c => notify g st c
  | ESettleHodl p => settle_hodl g st p
  | ECancel h f => cancel_invoice g st h f
  | ETimeout h a k => timeout_htlc g st h a k
  | ETimeoutSet sid k => timeout_set g st sid k
  end.

Fixpoint run (g : cfg) (st : state) (evs : list event) : state * list (reply * list resn) :=
  match evs with
  | [] => (st, [])
  | e :: r =>
    let '(st1, o) := step g st e in
    let '(st2, os) := run g st1 r in
    (st2, o :: os)
  end.

End Model.
