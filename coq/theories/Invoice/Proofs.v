(* C15 — proofs about the invoice registry model (Model.v). *)
From Coq Require Import List NArith ZArith Bool Lia.
From LV Require Import Invoice.Model.
Import ListNotations.

Ltac inv H := inversion H; subst; clear H.

(* ------------------------------------------------------------------ *)
(* small facts                                                         *)

Lemma cstate_eqb_eq a b : cstate_eqb a b = true <-> a = b.
Proof. destruct a, b; simpl; split; intro X; try reflexivity; discriminate. Qed.
Lemma hstate_eqb_eq a b : hstate_eqb a b = true <-> a = b.
Proof. destruct a, b; simpl; split; intro X; try reflexivity; discriminate. Qed.
Lemma is_state_iff s h : is_state s h = true <-> h_state h = s.
Proof. unfold is_state. apply hstate_eqb_eq. Qed.
Lemma is_state_false s h : is_state s h = false <-> h_state h <> s.
Proof.
  rewrite <- is_state_iff. destruct (is_state s h); split; intro X; congruence.
Qed.

Lemma find_htlc_in k l h : find_htlc k l = Some h -> In (k, h) l.
Proof.
  induction l as [|[k' h'] r IH]; simpl; [discriminate|].
  destruct (N.eqb_spec k k'); intro X.
  - inv X. left; reflexivity.
  - right; auto.
Qed.

Lemma find_htlc_none k l : find_htlc k l = None -> ~ In k (map fst l).
Proof.
  induction l as [|[k' h'] r IH]; simpl; [tauto|].
  destruct (N.eqb_spec k k'); [discriminate|]. intros X [Y|Y]; [congruence|]. apply IH; auto.
Qed.

Lemma in_find_htlc k l h : NoDup (map fst l) -> In (k, h) l -> find_htlc k l = Some h.
Proof.
  induction l as [|[k' h'] r IH]; simpl; [tauto|].
  intros ND [X|X].
  - inv X. rewrite N.eqb_refl. reflexivity.
  - inv ND. destruct (N.eqb_spec k k').
    + subst. exfalso. apply H1. apply (in_map fst) in X. exact X.
    + auto.
Qed.

Lemma map_htlcs_keys f l : map fst (map_htlcs f l) = map fst l.
Proof. unfold map_htlcs. rewrite map_map. reflexivity. Qed.

Lemma in_map_htlcs f l k h' :
  In (k, h') (map_htlcs f l) <-> exists h, In (k, h) l /\ h' = f h.
Proof.
  unfold map_htlcs. rewrite in_map_iff. split.
  - intros [[k0 h0] [E I]]. simpl in E. inv E. eauto.
  - intros [h [I E]]. exists (k, h). subst. auto.
Qed.

Lemma set_htlc_state_keys k s l : map fst (set_htlc_state k s l) = map fst l.
Proof.
  unfold set_htlc_state. rewrite map_map. apply map_ext. intros [a b]; simpl.
  destruct (N.eqb a k); reflexivity.
Qed.

Lemma in_set_htlc_state k s l k' h' :
  In (k', h') (set_htlc_state k s l) <->
  exists h, In (k', h) l /\ h' = if N.eqb k' k then set_hstate h s else h.
Proof.
  unfold set_htlc_state. rewrite in_map_iff. split.
  - intros [[k0 h0] [E I]]. simpl in E. destruct (N.eqb_spec k0 k); inv E.
    + exists h0. rewrite N.eqb_refl. auto.
    + exists h'. destruct (N.eqb_spec k' k); [congruence|]. auto.
  - intros [h [I E]]. exists (k', h). simpl. subst. destruct (N.eqb k' k); auto.
Qed.

Lemma any_htlc_false P l :
  any_htlc P l = false <-> forall k h, In (k, h) l -> P h = false.
Proof.
  unfold any_htlc. induction l as [|[k0 h0] r IH]; simpl.
  - split; [intros _ k h []|reflexivity].
  - rewrite orb_false_iff, IH. split.
    + intros [A B] k h [E|I]; [inv E; auto|eauto].
    + intros X. split; [apply (X k0); auto|]. intros; eapply X; eauto.
Qed.

Lemma any_htlc_true P l :
  any_htlc P l = true -> exists k h, In (k, h) l /\ P h = true.
Proof.
  unfold any_htlc. rewrite existsb_exists. intros [[k h] [I E]]. eauto.
Qed.

Lemma wsum_ext P Q l :
  (forall k h, In (k, h) l -> P h = Q h) -> wsum P l = wsum Q l.
Proof.
  induction l as [|[k h] r IH]; simpl; [reflexivity|]. intros X.
  rewrite (X k h) by auto. rewrite IH; [reflexivity|]. intros; eapply X; eauto.
Qed.

Lemma wsum_map P Q f l :
  (forall k h, In (k, h) l -> h_amt (f h) = h_amt h /\ P (f h) = Q h) ->
  wsum P (map_htlcs f l) = wsum Q l.
Proof.
  induction l as [|[k h] r IH]; simpl; [reflexivity|]. intros X.
  destruct (X k h) as [A B]; [auto|]. rewrite A, B. rewrite IH; [reflexivity|].
  intros; eapply X; eauto.
Qed.

Lemma wadd_comm a b : wadd a b = wadd b a.
Proof. unfold wadd. rewrite N.add_comm. reflexivity. Qed.

Lemma wsum_lt P l : (wsum P l < W64)%N.
Proof.
  induction l as [|[k h] r IH]; simpl; [reflexivity|].
  destruct (P h); [|exact IH]. unfold wadd. apply N.mod_lt. discriminate.
Qed.

(* the wrapped sum is the true sum modulo 2^64 *)
Fixpoint tsum (P : htlc -> bool) (l : list (N * htlc)) : N :=
  match l with
  | [] => 0%N
  | (_, h) :: r => if P h then (h_amt h + tsum P r)%N else tsum P r
  end.

Lemma wsum_tsum P l : wsum P l = (tsum P l mod W64)%N.
Proof.
  induction l as [|[k h] r IH]; simpl; [reflexivity|].
  destruct (P h); [|exact IH]. unfold wadd. rewrite IH.
  rewrite N.add_mod_idemp_r by discriminate. reflexivity.
Qed.

Lemma wsum_no_overflow P l : (tsum P l < W64)%N -> wsum P l = tsum P l.
Proof. intro X. rewrite wsum_tsum. apply N.mod_small. exact X. Qed.

Lemma u32_idem x d : u32 (u32 x + d) = u32 (x + d).
Proof. unfold u32. rewrite Zplus_mod_idemp_l. reflexivity. Qed.

(* ---- deliver only forwards what it was given ---- *)
Lemma deliver_in sb rs sb' out r :
  deliver sb rs = (sb', out) -> In r out -> In r rs.
Proof.
  revert sb sb' out. induction rs as [|x rest IH]; simpl; intros sb sb' out E I.
  - inv E. destruct I.
  - destruct (mem (res_key x) sb).
    + destruct (deliver (remove_key (res_key x) sb) rest) as [sb1 o1] eqn:D. inv E.
      destruct I as [I|I]; [left; auto|right; eapply IH; eauto].
    + right. eapply IH; eauto.
Qed.

(* ---- lookups ---- *)
Lemma find_by_hash_in h l i : find_by_hash h l = Some i -> In i l /\ i_hash i = h.
Proof.
  unfold find_by_hash. intro X. apply find_some in X. destruct X as [A B].
  apply N.eqb_eq in B. auto.
Qed.

Lemma find_by_addr_in a l i : find_by_addr a l = Some i -> In i l.
Proof. unfold find_by_addr. intro X. apply find_some in X. tauto. Qed.

Lemma lookup_ref_in kv l rh ra i : lookup_ref kv l rh ra = Some i -> In i l.
Proof.
  unfold lookup_ref. destruct kv.
  - destruct rh as [h|];
      destruct (match ra with Some a => if N.eqb a 0 then None else Some a | None => None end) as [a|].
    + destruct (find_by_addr a l) eqn:A; destruct (find_by_hash h l) eqn:B; try discriminate.
      * destruct (N.eqb _ _); [|discriminate]. intro X; inv X. eapply find_by_addr_in; eauto.
      * intro X; inv X. apply find_by_hash_in in B. tauto.
    + destruct (find_by_hash h l) eqn:B; [|discriminate]. intro X; inv X.
      apply find_by_hash_in in B. tauto.
    + destruct (find_by_addr a l) eqn:A; [|discriminate]. intro X; inv X.
      eapply find_by_addr_in; eauto.
    + discriminate.
  - destruct rh as [h|].
    + destruct (find_by_hash h l) eqn:B; [|discriminate].
      destruct (match ra with Some a => if N.eqb a 0 then None else Some a | None => None end) as [a|].
      * destruct (N.eqb _ _); [|discriminate]. intro X; inv X. apply find_by_hash_in in B. tauto.
      * intro X; inv X. apply find_by_hash_in in B. tauto.
    + destruct (match ra with Some a => if N.eqb a 0 then None else Some a | None => None end) as [a|];
        [|discriminate]. apply find_by_addr_in.
Qed.

Lemma lookup_ref_hash kv l h ra i : lookup_ref kv l (Some h) ra = Some i -> i_hash i = h.
Proof.
  unfold lookup_ref. destruct kv.
  - destruct (match ra with Some a => if N.eqb a 0 then None else Some a | None => None end) as [a|].
    + destruct (find_by_addr a l) eqn:A; destruct (find_by_hash h l) eqn:B; try discriminate.
      * destruct (N.eqb_spec (i_hash i0) (i_hash i1)); [|discriminate]. intro X; inv X.
        apply find_by_hash_in in B. destruct B. congruence.
      * intro X; inv X. apply find_by_hash_in in B. tauto.
    + destruct (find_by_hash h l) eqn:B; [|discriminate]. intro X; inv X.
      apply find_by_hash_in in B. tauto.
  - destruct (find_by_hash h l) eqn:B; [|discriminate].
    destruct (match ra with Some a => if N.eqb a 0 then None else Some a | None => None end) as [a|].
    + destruct (N.eqb _ _); [|discriminate]. intro X; inv X. apply find_by_hash_in in B. tauto.
    + intro X; inv X. apply find_by_hash_in in B. tauto.
Qed.

Lemma put_inv_hashes i' l : map i_hash (put_inv i' l) = map i_hash l.
Proof.
  unfold put_inv. rewrite map_map. apply map_ext_in. intros a _.
  destruct (N.eqb_spec (i_hash a) (i_hash i')); congruence.
Qed.

Lemma in_put_inv i' l x :
  In x (put_inv i' l) -> x = i' \/ (In x l /\ i_hash x <> i_hash i').
Proof.
  unfold put_inv. rewrite in_map_iff. intros [a [E I]].
  destruct (N.eqb_spec (i_hash a) (i_hash i')); subst; auto.
Qed.

Lemma put_inv_in i0 i' l :
  In i0 l -> i_hash i0 = i_hash i' -> In i' (put_inv i' l).
Proof.
  intros I E. unfold put_inv. apply in_map_iff. exists i0. rewrite E, N.eqb_refl. auto.
Qed.

Lemma put_inv_other i' l x :
  In x l -> i_hash x <> i_hash i' -> In x (put_inv i' l).
Proof.
  intros I E. unfold put_inv. apply in_map_iff. exists x.
  destruct (N.eqb_spec (i_hash x) (i_hash i')); [contradiction|auto].
Qed.

Lemma nodup_hash_eq l i j :
  NoDup (map i_hash l) -> In i l -> In j l -> i_hash i = i_hash j -> i = j.
Proof.
  induction l as [|a r IH]; simpl; [tauto|]. intros ND [A|A] [B|B] E; subst; auto.
  - inv ND. exfalso. apply H1. rewrite E. apply in_map. exact B.
  - inv ND. exfalso. apply H1. rewrite <- E. apply in_map. exact A.
  - inv ND. auto.
Qed.

(* ------------------------------------------------------------------ *)
(* the invariant                                                        *)

Section Inv.
Variable H : N -> N.
Variable g : cfg.

Definition data_ok (i : invoice) (h : htlc) : Prop :=
  h_hash h = i_hash i /\
  match h_addr h with
  | Some a => a = i_addr i
  | None => i_addr_req i = false \/ h_ks h = true
  end /\
  (u32 (h_height h + g_rd g) <= h_expiry h)%Z /\
  (u32 (h_height h + i_delta i) <= h_expiry h)%Z /\
  (h_total h = 0%N -> (i_value i <= h_amt h)%N) /\
  (h_total h <> 0%N -> (i_value i <= h_total h)%N).

(* htlcs that count towards the payment of an invoice in state s *)
Definition live (s : cstate) (h : htlc) : bool :=
  match s with CSettled => is_state HSettled h | _ => is_state HAccepted h end.
Definition mppl (s : cstate) (h : htlc) : bool := live s h && negb (N.eqb (h_total h) 0).

Record inv_ok (i : invoice) : Prop := mkOk {
  ok_nodup : NoDup (map fst (i_htlcs i));
  ok_data : forall k h, In (k, h) (i_htlcs i) -> data_ok i h;
  ok_nosettled : i_state i <> CSettled ->
                 forall k h, In (k, h) (i_htlcs i) -> h_state h <> HSettled;
  ok_settled : i_state i = CSettled ->
               (forall k h, In (k, h) (i_htlcs i) -> h_state h <> HAccepted) /\
               exists p, i_pre i = Some p /\ H p = i_hash i /\
                         i_paid i = wsum (is_state HSettled) (i_htlcs i);
  ok_canceled : i_state i = CCanceled ->
                forall k h, In (k, h) (i_htlcs i) -> h_state h = HCanceled;
  ok_common : forall k h k' h', In (k, h) (i_htlcs i) -> In (k', h') (i_htlcs i) ->
              mppl (i_state i) h = true -> mppl (i_state i) h' = true ->
              h_total h = h_total h';
  ok_complete : i_state i = CAccepted \/ i_state i = CSettled ->
                forall k h, In (k, h) (i_htlcs i) -> mppl (i_state i) h = true ->
                (h_total h <= wsum (mppl (i_state i)) (i_htlcs i))%N
}.

(* ---- AMP invoices: htlcs are settled per set while the invoice stays open ---- *)
Definition amp_data_ok (i : invoice) (h : htlc) : Prop :=
  (exists s, h_set h = Some s) /\ h_addr h = Some (i_addr i) /\
  (u32 (h_height h + g_rd g) <= h_expiry h)%Z /\
  (u32 (h_height h + i_delta i) <= h_expiry h)%Z /\
  h_total h <> 0%N /\ (i_value i <= h_total h)%N.

(* the htlcs that were settled together by the arrival of htlc `gen` *)
Definition batch (gen : N) (h : htlc) : bool := is_state HSettled h && N.eqb (h_gen h) gen.

Record amp_ok (i : invoice) : Prop := mkAmpOk {
  ao_nodup : NoDup (map fst (i_htlcs i));
  ao_state : i_state i = COpen \/ i_state i = CCanceled;
  ao_data : forall k h, In (k, h) (i_htlcs i) -> amp_data_ok i h;
  ao_pre : forall k h, In (k, h) (i_htlcs i) -> h_state h = HSettled ->
           exists p, h_pre h = Some p /\ H p = h_hash h;
  ao_gen : forall k h, In (k, h) (i_htlcs i) -> h_state h = HSettled ->
           exists hg, In (h_gen h, hg) (i_htlcs i) /\ h_set hg = h_set h;
  ao_common : forall k h k' h', In (k, h) (i_htlcs i) -> In (k', h') (i_htlcs i) ->
              h_state h = HSettled -> h_state h' = HSettled -> h_gen h' = h_gen h ->
              h_set h' = h_set h /\ h_total h' = h_total h;
  ao_complete : forall k h, In (k, h) (i_htlcs i) -> h_state h = HSettled ->
                (h_total h <= wsum (batch (h_gen h)) (i_htlcs i))%N
}.

Definition ok (i : invoice) : Prop := if i_amp i then amp_ok i else inv_ok i.

Definition state_ok (st : state) : Prop :=
  NoDup (map i_hash (invs st)) /\ forall i, In i (invs st) -> ok i.

Lemma ok_amp i : i_amp i = true -> ok i -> amp_ok i.
Proof. unfold ok. intros E. rewrite E. auto. Qed.
Lemma ok_nonamp i : i_amp i = false -> ok i -> inv_ok i.
Proof. unfold ok. intros E. rewrite E. auto. Qed.
Lemma ok_nodup_keys i : ok i -> NoDup (map fst (i_htlcs i)).
Proof. unfold ok. destruct (i_amp i); intro X; apply X. Qed.

Lemma data_ok_terms i st pre hs paid h :
  data_ok i h -> data_ok (with_htlcs i st pre hs paid) h.
Proof. unfold data_ok. simpl. tauto. Qed.

Lemma data_ok_state i h s : data_ok i h -> data_ok i (set_hstate h s).
Proof. unfold data_ok. simpl. tauto. Qed.

Definition settle_f (h : htlc) : htlc := if is_state HAccepted h then set_hstate h HSettled else h.

Lemma settle_f_state h :
  h_state (settle_f h) = match h_state h with HAccepted => HSettled | s => s end.
Proof. unfold settle_f, is_state. destruct (h_state h) eqn:E; simpl; auto. Qed.

Lemma settle_f_data h :
  h_amt (settle_f h) = h_amt h /\ h_total (settle_f h) = h_total h.
Proof. unfold settle_f. destruct (is_state HAccepted h); simpl; auto. Qed.

Lemma data_ok_settle_f i h : data_ok i h -> data_ok i (settle_f h).
Proof. unfold settle_f. destruct (is_state HAccepted h); auto using data_ok_state. Qed.

(* T1: record a new accepted htlc, invoice state unchanged (open / accepted) *)
Lemma inv_ok_cons i k h paid :
  inv_ok i -> i_state i = COpen \/ i_state i = CAccepted ->
  find_htlc k (i_htlcs i) = None -> data_ok i h -> h_state h = HAccepted ->
  (h_total h <> 0%N -> forall k' h', In (k', h') (i_htlcs i) -> h_state h' = HAccepted ->
                                   h_total h' <> 0%N -> h_total h' = h_total h) ->
  (i_state i = CAccepted -> h_total h = 0%N) ->
  inv_ok (with_htlcs i (i_state i) (i_pre i) ((k, h) :: i_htlcs i) paid).
Proof.
  intros OK ST FR D HA CM AC.
  assert (LV : forall x, live (i_state i) x = is_state HAccepted x)
    by (intro x; destruct ST as [E|E]; rewrite E; reflexivity).
  constructor; simpl.
  - constructor; [apply find_htlc_none; exact FR | apply OK].
  - intros k0 h0 [E|I]; [inv E|]; apply data_ok_terms; auto. eapply ok_data; eauto.
  - intros NS k0 h0 [E|I]; [inv E; congruence|]. eapply ok_nosettled; eauto.
  - intro E. destruct ST; congruence.
  - intro E. destruct ST; congruence.
  - intros k1 h1 k2 h2 I1 I2 M1 M2. unfold mppl in M1, M2. rewrite LV in M1, M2.
    apply andb_true_iff in M1. apply andb_true_iff in M2.
    destruct M1 as [A1 B1], M2 as [A2 B2].
    apply is_state_iff in A1. apply is_state_iff in A2.
    apply negb_true_iff in B1. apply negb_true_iff in B2.
    apply N.eqb_neq in B1. apply N.eqb_neq in B2.
    destruct I1 as [E1|I1]; destruct I2 as [E2|I2]; try inv E1; try inv E2.
    + reflexivity.
    + symmetry. eapply CM; eauto.
    + eapply CM; eauto.
    + eapply (ok_common i OK); eauto; unfold mppl; rewrite LV;
        apply andb_true_iff; split; try (apply is_state_iff; assumption);
        apply negb_true_iff; apply N.eqb_neq; assumption.
  - intros [E|E]; [|destruct ST; congruence].
    intros k0 h0 I M. specialize (AC E).
    assert (M0 : mppl (i_state i) h = false).
    { unfold mppl. rewrite AC. simpl. apply andb_false_r. }
    rewrite M0. destruct I as [X|I]; [inv X; congruence|].
    eapply (ok_complete i OK); eauto.
Qed.

(* T4: a duplicate legacy htlc is recorded settled on a settled invoice *)
Lemma inv_ok_cons_settled i k h :
  inv_ok i -> i_state i = CSettled ->
  find_htlc k (i_htlcs i) = None -> data_ok i h -> h_state h = HSettled ->
  h_total h = 0%N ->
  inv_ok (with_htlcs i CSettled (i_pre i) ((k, h) :: i_htlcs i)
                     (wsum (is_state HSettled) ((k, h) :: i_htlcs i))).
Proof.
  intros OK ST FR D HS T0.
  constructor; simpl.
  - constructor; [apply find_htlc_none; exact FR | apply OK].
  - intros k0 h0 [E|I]; [inv E|]; apply data_ok_terms; auto. eapply ok_data; eauto.
  - congruence.
  - intros _. destruct (ok_settled i OK ST) as [NA [p [P1 [P2 P3]]]]. split.
    + intros k0 h0 [E|I]; [inv E; congruence|]. eapply NA; eauto.
    + exists p. auto.
  - discriminate.
  - intros k1 h1 k2 h2 I1 I2 M1 M2.
    assert (M0 : mppl CSettled h = false)
      by (unfold mppl; rewrite T0; simpl; apply andb_false_r).
    destruct I1 as [E1|I1]; [inv E1; congruence|].
    destruct I2 as [E2|I2]; [inv E2; congruence|].
    rewrite <- ST in M1, M2. eapply (ok_common i OK); eauto.
  - intros _ k0 h0 I M.
    assert (M0 : mppl CSettled h = false)
      by (unfold mppl; rewrite T0; simpl; apply andb_false_r).
    rewrite M0. destruct I as [X|I]; [inv X; congruence|].
    rewrite <- ST in *. eapply (ok_complete i OK); eauto.
Qed.

(* T2: settle every accepted htlc of an open/accepted invoice *)
Lemma inv_ok_settle_all i p paid :
  inv_ok i -> i_state i = COpen \/ i_state i = CAccepted ->
  H p = i_hash i ->
  (forall k h, In (k, h) (i_htlcs i) -> h_state h = HAccepted -> h_total h <> 0%N ->
               (h_total h <= wsum (fun x => is_state HAccepted x && negb (N.eqb (h_total x) 0))
                                  (i_htlcs i))%N) ->
  paid = wsum (is_state HAccepted) (i_htlcs i) ->
  inv_ok (with_htlcs i CSettled (Some p) (map_htlcs settle_f (i_htlcs i)) paid).
Proof.
  intros OK ST HP CP PD.
  assert (NS : forall k h, In (k, h) (i_htlcs i) -> h_state h <> HSettled).
  { apply (ok_nosettled i OK). destruct ST; congruence. }
  assert (LV : forall x, live (i_state i) x = is_state HAccepted x)
    by (intro x; destruct ST as [E|E]; rewrite E; reflexivity).
  assert (MS : forall k h, In (k, h) (i_htlcs i) ->
                           mppl CSettled (settle_f h) = mppl (i_state i) h).
  { intros k h I. unfold mppl. rewrite LV. destruct (settle_f_data h) as [_ T]. rewrite T.
    f_equal. unfold live, is_state. rewrite settle_f_state. specialize (NS k h I).
    destruct (h_state h); simpl; congruence. }
  constructor; simpl.
  - rewrite map_htlcs_keys. apply OK.
  - intros k h' I. apply in_map_htlcs in I. destruct I as [h [I E]]. subst.
    apply data_ok_terms. apply data_ok_settle_f. eapply ok_data; eauto.
  - congruence.
  - intros _. split.
    + intros k h' I. apply in_map_htlcs in I. destruct I as [h [I E]]. subst.
      rewrite settle_f_state. destruct (h_state h); congruence.
    + exists p. repeat split; auto. subst paid. symmetry. apply wsum_map.
      intros k h I. split; [apply settle_f_data|].
      unfold is_state. rewrite settle_f_state. specialize (NS k h I).
      destruct (h_state h); simpl; congruence.
  - discriminate.
  - intros k1 x1 k2 x2 I1 I2 M1 M2.
    apply in_map_htlcs in I1. destruct I1 as [h1 [I1 E1]].
    apply in_map_htlcs in I2. destruct I2 as [h2 [I2 E2]]. subst.
    rewrite (MS _ _ I1) in M1. rewrite (MS _ _ I2) in M2.
    destruct (settle_f_data h1) as [_ T1]. destruct (settle_f_data h2) as [_ T2].
    rewrite T1, T2. eapply (ok_common i OK); eauto.
  - intros _ k x I M. apply in_map_htlcs in I. destruct I as [h [I E]]. subst.
    rewrite (MS _ _ I) in M. destruct (settle_f_data h) as [_ T]. rewrite T.
    rewrite (wsum_map (mppl CSettled) (mppl (i_state i)) settle_f).
    + unfold mppl in M. rewrite LV in M. apply andb_true_iff in M. destruct M as [A B].
      apply is_state_iff in A. apply negb_true_iff in B. apply N.eqb_neq in B.
      specialize (CP k h I A B).
      erewrite (wsum_ext (mppl (i_state i))); [exact CP|].
      intros k0 h0 _. unfold mppl. rewrite LV. reflexivity.
    + intros k0 h0 I0. split; [apply settle_f_data|eapply MS; eauto].
Qed.

(* T3: an open hold invoice becomes accepted *)
Lemma inv_ok_to_accepted i paid :
  inv_ok i -> i_state i = COpen ->
  (forall k h, In (k, h) (i_htlcs i) -> h_state h = HAccepted -> h_total h <> 0%N ->
               (h_total h <= wsum (fun x => is_state HAccepted x && negb (N.eqb (h_total x) 0))
                                  (i_htlcs i))%N) ->
  inv_ok (with_htlcs i CAccepted (i_pre i) (i_htlcs i) paid).
Proof.
  intros OK ST CP. constructor; simpl.
  - apply OK.
  - intros. apply data_ok_terms. eapply ok_data; eauto.
  - intros _. apply (ok_nosettled i OK). congruence.
  - discriminate.
  - discriminate.
  - intros k1 h1 k2 h2 I1 I2 M1 M2. eapply (ok_common i OK); eauto; rewrite ST; assumption.
  - intros _ k h I M. unfold mppl in M. simpl in M. apply andb_true_iff in M.
    destruct M as [A B]. apply is_state_iff in A. apply negb_true_iff in B.
    apply N.eqb_neq in B. exact (CP k h I A B).
Qed.

(* T5: cancel the invoice *)
Lemma inv_ok_cancel_all i :
  inv_ok i -> i_state i <> CSettled ->
  inv_ok (with_htlcs i CCanceled (i_pre i)
                     (map_htlcs (fun h => set_hstate h HCanceled) (i_htlcs i)) (i_paid i)).
Proof.
  intros OK ST. constructor; simpl.
  - rewrite map_htlcs_keys. apply OK.
  - intros k h' I. apply in_map_htlcs in I. destruct I as [h [I E]]. subst.
    apply data_ok_terms. apply data_ok_state. eapply ok_data; eauto.
  - intros _ k h' I. apply in_map_htlcs in I. destruct I as [h [I E]]. subst. simpl. discriminate.
  - discriminate.
  - intros _ k h' I. apply in_map_htlcs in I. destruct I as [h [I E]]. subst. reflexivity.
  - intros k1 x1 k2 x2 I1 _ M1 _. apply in_map_htlcs in I1. destruct I1 as [h [I E]]. subst.
    unfold mppl, live, is_state in M1. simpl in M1. discriminate.
  - intros [E|E]; discriminate.
Qed.

(* T6: cancel a single accepted htlc of an open invoice *)
Lemma inv_ok_cancel_one i k :
  inv_ok i -> i_state i = COpen ->
  inv_ok (with_htlcs i (i_state i) (i_pre i) (set_htlc_state k HCanceled (i_htlcs i)) (i_paid i)).
Proof.
  intros OK ST. rewrite ST.
  assert (MP : forall k' h, mppl COpen (if N.eqb k' k then set_hstate h HCanceled else h) = true ->
                            mppl COpen h = true /\
                            (if N.eqb k' k then set_hstate h HCanceled else h) = h).
  { intros k' h. destruct (N.eqb k' k); [|auto]. unfold mppl, live, is_state. simpl. discriminate. }
  constructor; simpl.
  - rewrite set_htlc_state_keys. apply OK.
  - intros k0 h' I. apply in_set_htlc_state in I. destruct I as [h [I E]]. subst.
    apply data_ok_terms. destruct (N.eqb k0 k); [apply data_ok_state|]; eapply ok_data; eauto.
  - intros _ k0 h' I. apply in_set_htlc_state in I. destruct I as [h [I E]]. subst.
    destruct (N.eqb k0 k); simpl; [discriminate|]. eapply (ok_nosettled i OK); eauto. congruence.
  - discriminate.
  - discriminate.
  - intros k1 x1 k2 x2 I1 I2 M1 M2.
    apply in_set_htlc_state in I1. destruct I1 as [h1 [I1 E1]].
    apply in_set_htlc_state in I2. destruct I2 as [h2 [I2 E2]]. subst.
    apply MP in M1. apply MP in M2. destruct M1 as [M1 R1], M2 as [M2 R2]. rewrite R1, R2.
    eapply (ok_common i OK); eauto; rewrite ST; assumption.
  - intros [E|E]; discriminate.
Qed.

End Inv.

(* ------------------------------------------------------------------ *)
(* every step preserves the invariant                                   *)

Section Steps.
Variable H : N -> N.
Variable g : cfg.

Notation inv_ok := (inv_ok H g).
Notation state_ok := (state_ok H g).

Lemma state_ok_put st i0 i' sb :
  state_ok st -> In i0 (invs st) -> i_hash i' = i_hash i0 -> inv_ok i' ->
  state_ok (mkState (put_inv i' (invs st)) sb).
Proof.
  intros [ND OK] I E OI. split; simpl.
  - rewrite put_inv_hashes. exact ND.
  - intros x X. apply in_put_inv in X. destruct X as [X|[X _]]; subst; auto.
Qed.

Lemma state_ok_subs st sb : state_ok st -> state_ok (mkState (invs st) sb).
Proof. intros [A B]. split; auto. Qed.

Lemma map_htlcs_id f l :
  (forall k h, In (k, h) l -> f h = h) -> map_htlcs f l = l.
Proof.
  induction l as [|[k h] r IH]; simpl; [reflexivity|]. intro X.
  rewrite (X k h) by auto. rewrite IH; [reflexivity|]. intros; eapply X; eauto.
Qed.

Lemma add_invoice_ok st i st' a :
  state_ok st -> add_invoice g st i = (st', a) -> state_ok st'.
Proof.
  intros [ND OK]. unfold add_invoice.
  destruct (_ && _ && _); [intro X; inv X; split; auto|].
  destruct (find_by_hash (i_hash i) (invs st)) eqn:F; [intro X; inv X; split; auto|].
  destruct (_ && _); intro X; inv X; [split; auto|].
  split; simpl.
  - constructor; [|exact ND]. intro I. apply in_map_iff in I. destruct I as [x [E I]].
    unfold find_by_hash in F. eapply find_none in F; eauto. rewrite E, N.eqb_refl in F. discriminate.
  - intros x [E|I]; [|auto]. subst. constructor; simpl.
    + constructor.
    + intros k h [].
    + intros _ k h [].
    + discriminate.
    + discriminate.
    + intros k h k' h' [].
    + intros [E|E]; discriminate.
Qed.

Lemma new_htlc_data c i total addr :
  i_hash i = c_hash c -> expiry_ok g c i = true ->
  match addr with
  | Some a => a = i_addr i
  | None => i_addr_req i = false \/ valid_keysend H c = true
  end ->
  (total = 0%N -> (i_value i <= c_amt c)%N) -> (total <> 0%N -> (i_value i <= total)%N) ->
  data_ok g i (new_htlc H c total addr).
Proof.
  intros EH EX AD A0 A1. unfold expiry_ok in EX. apply andb_true_iff in EX. destruct EX as [E1 E2].
  apply negb_true_iff in E1. apply negb_true_iff in E2.
  apply Z.ltb_ge in E1. apply Z.ltb_ge in E2.
  unfold data_ok, new_htlc. simpl. rewrite !u32_idem. repeat split; auto.
Qed.

(* shapes of a successful addHTLCs *)
Lemma apply_add_none i rh k h i' :
  i_state i <> CCanceled ->
  apply_add H i rh k h None = Some i' ->
  find_htlc k (i_htlcs i) = None /\
  ((i_state i = CSettled /\
    i' = with_htlcs i CSettled (i_pre i) (map_htlcs settle_f ((k, h) :: i_htlcs i))
           (wsum (fun x => is_state HAccepted x || is_state HSettled x)
                 (map_htlcs settle_f ((k, h) :: i_htlcs i)))) \/
   ((i_state i = COpen \/ i_state i = CAccepted) /\
    exists paid, i' = with_htlcs i (i_state i) (i_pre i) ((k, h) :: i_htlcs i) paid)).
Proof.
  intros NC A. unfold apply_add in A. destruct (find_htlc k (i_htlcs i)); [discriminate|].
  split; [reflexivity|].
  destruct (i_state i) eqn:ST; simpl in *.
  - destruct (is_state HSettled h || _); [discriminate|]. inv A. right. eauto.
  - inv A. left. split; reflexivity.
  - congruence.
  - destruct (is_state HSettled h || _); [discriminate|]. inv A. right. eauto.
Qed.

Lemma apply_add_some_open i rh k h n i' :
  i_state i = COpen -> n = CAccepted \/ n = CSettled ->
  apply_add H i rh k h (Some n) = Some i' ->
  find_htlc k (i_htlcs i) = None /\
  ((n = CAccepted /\ exists paid, i' = with_htlcs i CAccepted (i_pre i) ((k, h) :: i_htlcs i) paid) \/
   (n = CSettled /\ exists p, i_pre i = Some p /\ rh = Some (H p) /\
    i' = with_htlcs i CSettled (i_pre i) (map_htlcs settle_f ((k, h) :: i_htlcs i))
           (wsum (fun x => is_state HAccepted x || is_state HSettled x)
                 (map_htlcs settle_f ((k, h) :: i_htlcs i))))).
Proof.
  intros ST N A. unfold apply_add in A. destruct (find_htlc k (i_htlcs i)); [discriminate|].
  split; [reflexivity|]. rewrite ST in *. destruct N; subst n; simpl in *.
  - destruct (is_state HSettled h || _); [discriminate|]. inv A. left. eauto.
  - destruct (i_pre i) as [p|] eqn:P; [|discriminate]. destruct rh as [rh|]; [|discriminate].
    destruct (N.eqb_spec (H p) rh); [|discriminate]. simpl in A. inv A.
    right. split; [reflexivity|]. exists p. auto.
Qed.

Lemma settle_map_cons_accepted i k h paid p :
  inv_ok i -> i_state i = COpen -> find_htlc k (i_htlcs i) = None ->
  data_ok g i h -> h_state h = HAccepted -> i_pre i = Some p -> H p = i_hash i ->
  (h_total h <> 0%N -> forall k' h', In (k', h') (i_htlcs i) -> h_state h' = HAccepted ->
                                   h_total h' <> 0%N -> h_total h' = h_total h) ->
  (forall k0 h0, In (k0, h0) ((k, h) :: i_htlcs i) -> h_state h0 = HAccepted -> h_total h0 <> 0%N ->
     (h_total h0 <= wsum (fun x => is_state HAccepted x && negb (N.eqb (h_total x) 0))
                         ((k, h) :: i_htlcs i))%N) ->
  paid = wsum (fun x => is_state HAccepted x || is_state HSettled x)
              (map_htlcs settle_f ((k, h) :: i_htlcs i)) ->
  inv_ok (with_htlcs i CSettled (i_pre i) (map_htlcs settle_f ((k, h) :: i_htlcs i)) paid).
Proof.
  intros OK ST FR D HA P HP CM CP PD.
  pose (j := with_htlcs i (i_state i) (i_pre i) ((k, h) :: i_htlcs i) 0%N).
  assert (OJ : inv_ok j).
  { apply inv_ok_cons; auto. intro E. congruence. }
  rewrite P.
  change (inv_ok (with_htlcs j CSettled (Some p) (map_htlcs settle_f (i_htlcs j)) paid)).
  apply inv_ok_settle_all.
  - exact OJ.
  - left. exact ST.
  - exact HP.
  - exact CP.
  - subst paid. apply wsum_map. intros k0 h0 I0. split; [apply settle_f_data|].
    unfold is_state. rewrite settle_f_state.
    assert (NS : h_state h0 <> HSettled).
    { eapply (ok_nosettled H g j OJ); eauto. simpl. congruence. }
    destruct (h_state h0); simpl; congruence.
Qed.

Lemma update_legacy_ok c i k h ns r i' :
  inv_ok i -> i_hash i = c_hash c ->
  update_legacy H g c i = UAdd h ns r ->
  apply_add H i (Some (c_hash c)) k h ns = Some i' ->
  inv_ok i'.
Proof.
  intros OK EH U A. unfold update_legacy in U.
  destruct (i_amp i); [discriminate|].
  destruct (cstate_eqb (i_state i) CCanceled) eqn:NC; [discriminate|].
  destruct (N.ltb_spec (c_amt c) (i_value i)) as [|AM]; [discriminate|].
  destruct (negb (valid_keysend H c) && i_addr_req i) eqn:KS; [discriminate|].
  destruct (any_htlc _ (i_htlcs i)) eqn:MP; [discriminate|].
  destruct (negb (expiry_ok g c i)) eqn:EX; [discriminate|].
  apply negb_false_iff in EX.
  assert (D : data_ok g i (new_htlc H c 0 None)).
  { apply new_htlc_data; auto.
    - apply andb_false_iff in KS. destruct KS as [X|X]; [right; apply negb_false_iff; exact X|left; exact X].
    - intro X; contradiction. }
  assert (NOMPP : forall k' h', In (k', h') (i_htlcs i) -> h_state h' = HAccepted -> h_total h' = 0%N).
  { intros k' h' I S. rewrite any_htlc_false in MP. specialize (MP k' h' I).
    apply andb_false_iff in MP. destruct MP as [X|X].
    - apply is_state_false in X. contradiction.
    - apply N.ltb_ge in X. lia. }
  destruct (i_state i) eqn:ST.
  - (* open *)
    destruct (i_hodl i).
    + inv U. apply apply_add_some_open in A; auto.
      destruct A as [FR [[_ [paid E]]|[X _]]]; [|discriminate]. subst i'.
      pose (j := with_htlcs i (i_state i) (i_pre i) ((k, new_htlc H c 0 None) :: i_htlcs i) 0%N).
      assert (OJ : inv_ok j).
      { apply inv_ok_cons; auto; try (simpl; intros; first [contradiction|congruence]). }
      change (inv_ok (with_htlcs j CAccepted (i_pre j) (i_htlcs j) paid)).
      apply inv_ok_to_accepted; auto. simpl.
      intros k0 h0 [X|I] S T; [inv X; simpl in T; contradiction|].
      exfalso. apply T. eapply NOMPP; eauto.
    + destruct (i_pre i) as [p|] eqn:P; [|discriminate]. inv U.
      apply apply_add_some_open in A; auto.
      destruct A as [FR [[X _]|[_ [p' [P' [RH E]]]]]]; [discriminate|]. subst i'.
      rewrite P in P'. inv P'. inv RH.
      eapply settle_map_cons_accepted; eauto; try congruence;
        try (simpl; intro; contradiction).
      intros k0 h0 [X|I] S T; [inv X; simpl in T; contradiction|].
      exfalso. apply T. eapply NOMPP; eauto.
  - (* settled: duplicate *)
    destruct (i_pre i) as [p|] eqn:P; [|discriminate]. inv U.
    apply apply_add_none in A; [|congruence]. destruct A as [FR [[_ E]|[[X|X] _]]]; try congruence. subst i'.
    destruct (ok_settled H g i OK ST) as [NA _].
    assert (M : map_htlcs settle_f ((k, new_htlc H c 0 None) :: i_htlcs i) =
                (k, set_hstate (new_htlc H c 0 None) HSettled) :: i_htlcs i).
    { simpl. f_equal. apply map_htlcs_id. intros k0 h0 I0. unfold settle_f.
      destruct (is_state HAccepted h0) eqn:S; [|reflexivity].
      apply is_state_iff in S. exfalso. eapply NA; eauto. }
    rewrite M.
    erewrite (wsum_ext (fun x => is_state HAccepted x || is_state HSettled x) (is_state HSettled)).
    + apply inv_ok_cons_settled; auto using data_ok_state.
    + intros k0 h0 [X|I0].
      * inv X. reflexivity.
      * assert (S : is_state HAccepted h0 = false) by (apply is_state_false; eapply NA; eauto).
        rewrite S. reflexivity.
  - discriminate.
  - (* accepted: duplicate *)
    inv U. apply apply_add_none in A; [|congruence]. destruct A as [FR [[X _]|[_ [paid E]]]]; [congruence|].
    subst i'. apply inv_ok_cons; auto; simpl; try tauto; try (intro; contradiction).
Qed.

Lemma update_mpp_ok c i k h ns r i' addr total :
  inv_ok i -> i_hash i = c_hash c ->
  update_mpp H g c i addr total = UAdd h ns r ->
  apply_add H i (Some (c_hash c)) k h ns = Some i' ->
  inv_ok i'.
Proof.
  intros OK EH U A. unfold update_mpp in U.
  destruct (i_amp i && negb (c_amp c)); [discriminate|].
  destruct (negb (i_amp i) && c_amp c); [discriminate|].
  destruct (negb (cstate_eqb (i_state i) COpen)) eqn:ST; [discriminate|].
  apply negb_false_iff in ST. apply cstate_eqb_eq in ST.
  destruct (N.eqb_spec addr (i_addr i)) as [EA|]; [|discriminate]. simpl in U. subst addr.
  destruct (N.eqb_spec total 0) as [|T0]; [discriminate|].
  destruct (N.ltb_spec total (i_value i)) as [|TV]; [discriminate|].
  destruct (any_htlc _ (i_htlcs i)) eqn:MM; [discriminate|].
  destruct (negb (expiry_ok g c i)) eqn:EX; [discriminate|].
  apply negb_false_iff in EX.
  assert (D : data_ok g i (new_htlc H c total (Some (i_addr i)))).
  { apply new_htlc_data; auto. intro; contradiction. }
  assert (SAME : forall k' h', In (k', h') (i_htlcs i) -> h_state h' = HAccepted -> h_total h' = total).
  { intros k' h' I S. rewrite any_htlc_false in MM. specialize (MM k' h' I).
    apply andb_false_iff in MM. destruct MM as [X|X].
    - apply is_state_false in X. contradiction.
    - apply negb_false_iff in X. apply N.eqb_eq in X. exact X. }
  assert (CM : h_total (new_htlc H c total (Some (i_addr i))) <> 0%N ->
               forall k' h', In (k', h') (i_htlcs i) -> h_state h' = HAccepted ->
                             h_total h' <> 0%N -> h_total h' = h_total (new_htlc H c total (Some (i_addr i)))).
  { intros _ k' h' I S _. simpl. eauto. }
  destruct (N.ltb_spec (wadd (wsum (is_state HAccepted) (i_htlcs i)) (c_amt c)) total) as [|CPL].
  - (* partial *)
    inv U. apply apply_add_none in A; [|congruence]. destruct A as [FR [[X _]|[_ [paid E]]]]; [congruence|].
    subst i'. apply inv_ok_cons; auto. intro; congruence.
  - assert (CP : forall k0 h0, In (k0, h0) ((k, new_htlc H c total (Some (i_addr i))) :: i_htlcs i) ->
                   h_state h0 = HAccepted -> h_total h0 <> 0%N ->
                   (h_total h0 <= wsum (fun x => is_state HAccepted x && negb (N.eqb (h_total x) 0))
                                       ((k, new_htlc H c total (Some (i_addr i))) :: i_htlcs i))%N).
    { intros k0 h0 I S T.
      assert (E0 : h_total h0 = total) by (destruct I as [X|I]; [inv X; reflexivity|eauto]).
      rewrite E0. simpl. destruct (N.eqb_spec total 0); [contradiction|]. simpl.
      rewrite wadd_comm.
      erewrite (wsum_ext _ (is_state HAccepted)); [exact CPL|].
      intros k1 h1 I1. destruct (is_state HAccepted h1) eqn:S1; [|reflexivity].
      apply is_state_iff in S1. rewrite (SAME _ _ I1 S1).
      destruct (N.eqb_spec total 0); [contradiction|reflexivity]. }
    destruct (i_hodl i).
    + inv U. apply apply_add_some_open in A; auto.
      destruct A as [FR [[_ [paid E]]|[X _]]]; [|discriminate]. subst i'.
      pose (j := with_htlcs i (i_state i) (i_pre i)
                            ((k, new_htlc H c total (Some (i_addr i))) :: i_htlcs i) 0%N).
      assert (OJ : inv_ok j) by (apply inv_ok_cons; auto; intro; congruence).
      change (inv_ok (with_htlcs j CAccepted (i_pre j) (i_htlcs j) paid)).
      apply inv_ok_to_accepted; auto.
    + destruct (i_pre i) as [p|] eqn:P; [|discriminate]. inv U.
      apply apply_add_some_open in A; auto.
      destruct A as [FR [[X _]|[_ [p' [P' [RH E]]]]]]; [discriminate|]. subst i'.
      rewrite P in P'. inv P'. inv RH.
      eapply settle_map_cons_accepted; eauto; congruence.
Qed.

End Steps.

(* ------------------------------------------------------------------ *)
(* shape of a step: which invoice changes, and how                      *)

Section Shape.
Variable H : N -> N.
Variable g : cfg.

Notation inv_ok := (inv_ok H g).
Notation state_ok := (state_ok H g).

Inductive trans (i i' : invoice) : Prop :=
| T_add c h ns r :
    i_hash i = c_hash c -> update_invoice H g c i = UAdd h ns r ->
    apply_add H i (Some (c_hash c)) (c_key c) h ns = Some i' -> trans i i'
| T_settle p : i_state i = CAccepted -> apply_settle_hodl H i p = Some i' -> trans i i'
| T_cancel : i_state i = COpen \/ i_state i = CAccepted -> apply_cancel i = Some i' -> trans i i'
| T_timeout k h :
    i_state i = COpen -> find_htlc k (i_htlcs i) = Some h -> h_state h = HAccepted ->
    i' = with_htlcs i (i_state i) (i_pre i) (set_htlc_state k HCanceled (i_htlcs i)) (i_paid i) ->
    trans i i'.

Inductive shape (l l' : list invoice) : Prop :=
| S_same : l' = l -> shape l l'
| S_new i : find_by_hash (i_hash i) l = None ->
            l' = with_htlcs i COpen (i_pre i) [] 0%N :: l -> shape l l'
| S_put i i' : In i l -> trans i i' -> l' = put_inv i' l -> shape l l'.

Lemma trans_hash i i' : trans i i' -> i_hash i' = i_hash i.
Proof.
  intros [c h ns r E U A|p S A|S A|k hk S FK HK E].
  - unfold apply_add in A. destruct (find_htlc _ _); [discriminate|].
    destruct (match ns with Some _ => _ | None => _ end); [|discriminate].
    destruct (align_htlcs _ _); [|discriminate]. inv A. reflexivity.
  - unfold apply_settle_hodl in A. destruct (negb (i_hodl i)); [discriminate|].
    destruct (negb _); [discriminate|]. destruct (negb _); [discriminate|]. inv A. reflexivity.
  - unfold apply_cancel in A. destruct (align_htlcs _ _); [|discriminate]. inv A. reflexivity.
  - subst. reflexivity.
Qed.

Lemma update_invoice_ok c i h ns r i' :
  inv_ok i -> i_hash i = c_hash c -> update_invoice H g c i = UAdd h ns r ->
  apply_add H i (Some (c_hash c)) (c_key c) h ns = Some i' -> inv_ok i'.
Proof.
  intros OK E U A. unfold update_invoice in U.
  destruct (c_mpp c) as [[a t]|].
  - eapply update_mpp_ok; eauto.
  - destruct (c_amp c); [discriminate|]. destruct (c_path c).
    + eapply update_mpp_ok; eauto.
    + eapply update_legacy_ok; eauto.
Qed.

Lemma trans_ok i i' : inv_ok i -> trans i i' -> inv_ok i'.
Proof.
  intros OK [c h ns r E U A|p S A|S A|k hk S FK HK E].
  - eapply update_invoice_ok; eauto.
  - unfold apply_settle_hodl in A. destruct (negb (i_hodl i)); [discriminate|].
    destruct (negb (any_htlc _ _)); [discriminate|].
    destruct (N.eqb_spec (H p) (i_hash i)) as [HP|]; [|discriminate]. simpl in A. inv A.
    apply inv_ok_settle_all; auto.
    intros k h I SA T.
    assert (M : mppl (i_state i) h = true).
    { unfold mppl. rewrite S. simpl. apply andb_true_iff. split; [apply is_state_iff; auto|].
      apply negb_true_iff. apply N.eqb_neq. exact T. }
    generalize (ok_complete H g i OK (or_introl S) k h I M). rewrite S. unfold mppl. simpl. auto.
  - unfold apply_cancel in A. unfold align_htlcs in A.
    destruct (any_htlc _ _); [discriminate|]. inv A.
    apply inv_ok_cancel_all; auto. destruct S; congruence.
  - subst. apply inv_ok_cancel_one; auto.
Qed.

Lemma shape_ok st l' sb : state_ok st -> shape (invs st) l' -> state_ok (mkState l' sb).
Proof.
  intros SO [E|i F E|i i' I T E]; subst.
  - apply state_ok_subs. exact SO.
  - destruct SO as [ND OK]. split; simpl.
    + constructor; [|exact ND]. intro X. apply in_map_iff in X. destruct X as [x [E I]].
      unfold find_by_hash in F. eapply find_none in F; eauto. rewrite E, N.eqb_refl in F. discriminate.
    + intros x [E|I]; [|auto]. subst. constructor; simpl.
      * constructor.
      * intros k h [].
      * intros _ k h [].
      * discriminate.
      * discriminate.
      * intros k h k' h' [].
      * intros [E|E]; discriminate.
  - eapply state_ok_put; eauto.
    + apply trans_hash. exact T.
    + eapply trans_ok; eauto. destruct SO as [_ OK]. auto.
Qed.

Lemma add_invoice_shape st i st' a :
  add_invoice g st i = (st', a) -> shape (invs st) (invs st') /\ subs st' = subs st.
Proof.
  unfold add_invoice. destruct (_ && _ && _); [intro X; inv X; split; [apply S_same|]; auto|].
  destruct (find_by_hash (i_hash i) (invs st)) eqn:F; [intro X; inv X; split; [apply S_same|]; auto|].
  destruct (_ && _); intro X; inv X; split; auto; [apply S_same; auto|].
  eapply S_new; eauto.
Qed.

(* a UAdd can only come out of a context whose invoice ref carries the hash *)
Lemma uadd_ref c i h ns r :
  update_invoice H g c i = UAdd h ns r ->
  (i_amp i && c_amp c && match c_mpp c with Some _ => true | None => false end) = false ->
  fst (ctx_ref c) = Some (c_hash c).
Proof.
  unfold update_invoice, ctx_ref. intros U G.
  destruct (c_path c); [reflexivity|].
  destruct (c_mpp c) as [[a t]|]; [|reflexivity].
  destruct (c_amp c) eqn:CA; [|reflexivity]. exfalso.
  unfold update_mpp in U. rewrite CA in U. destruct (i_amp i); simpl in *; discriminate.
Qed.

Lemma notify_locked_shape st c st' o :
  notify_locked H g st c = (st', o) -> shape (invs st) (invs st').
Proof.
  unfold notify_locked. destruct (ctx_ref c) as [rh ra] eqn:CR.
  destruct (lookup_ref (g_kv g) (invs st) rh ra) as [i|] eqn:L;
    [|unfold fail_now; intro X; inv X; apply S_same; reflexivity].
  destruct (i_amp i && c_amp c && _) eqn:G; [intro X; inv X; apply S_same; reflexivity|].
  match goal with
  | |- (match ?u with Some _ => _ | None => _ end) = _ -> _ => destruct u as [[[i' r] ch]|] eqn:U
  end; [|intro X; inv X; apply S_same; reflexivity].
  assert (SH : shape (invs st) (if ch then put_inv i' (invs st) else invs st)).
  { destruct (find_htlc (c_key c) (i_htlcs i)) as [h0|] eqn:F.
    - destruct (h_state h0); try (inv U; apply S_same; reflexivity).
      destruct (i_pre i); [|discriminate]. destruct (N.eqb _ _); inv U. apply S_same; reflexivity.
    - destruct (update_invoice H g c i) as [oc|h ns r0|] eqn:UI; try discriminate.
      + inv U. apply S_same; reflexivity.
      + destruct (apply_add H i rh (c_key c) h ns) as [i2|] eqn:A; [|discriminate]. inv U.
        assert (RH : rh = Some (c_hash c)).
        { generalize (uadd_ref c i h ns r0 UI G). rewrite CR. simpl. auto. }
        subst rh. eapply S_put; eauto.
        * eapply lookup_ref_in; eauto.
        * eapply T_add; eauto. eapply lookup_ref_hash; eauto. }
  destruct r as [[k p ah oc|k ah oc]|].
  - destruct (deliver _ _) as [sb out]. intro X; inv X. exact SH.
  - destruct (deliver _ _) as [sb out]. intro X; inv X. exact SH.
  - destruct (find_htlc (c_key c) (i_htlcs i')); intro X; inv X; [exact SH|apply S_same; reflexivity].
Qed.

Definition shape2 (l l' : list invoice) : Prop := exists l1, shape l l1 /\ shape l1 l'.

Lemma step_shape st e st' o : step H g st e = (st', o) -> shape2 (invs st) (invs st').
Proof.
  destruct e as [i|c|p|h f|h a k]; simpl.
  - destruct (add_invoice g st i) as [s1 a] eqn:A. intro X; inv X.
    exists (invs st). split; [apply S_same; reflexivity|]. eapply add_invoice_shape; eauto.
  - unfold notify. destruct (g_keysend g && negb (c_amp c)).
    + destruct (process_keysend H g st c) as [st1|] eqn:PK.
      * intro NL. exists (invs st1). split; [|eapply notify_locked_shape; eauto].
        unfold process_keysend in PK. destruct (c_ks c); try discriminate.
        -- inv PK. apply S_same; reflexivity.
        -- destruct (negb _); [discriminate|]. destruct (c_mpp c); [discriminate|].
           destruct (Z.ltb _ _); [discriminate|]. inv PK.
           match goal with |- shape _ (invs (fst ?x)) => destruct x as [s2 a2] eqn:AI end.
           simpl. eapply add_invoice_shape; eauto.
      * unfold fail_now. intro X; inv X. exists (invs st'). split; apply S_same; reflexivity.
    + intro NL. exists (invs st). split; [apply S_same; reflexivity|eapply notify_locked_shape; eauto].
  - unfold settle_hodl. exists (invs st). split; [apply S_same; reflexivity|].
    destruct (lookup_ref _ _ _ _) as [i|] eqn:L; [|inv H0; apply S_same; reflexivity].
    destruct (i_state i) eqn:S; try (inv H0; apply S_same; reflexivity).
    destruct (apply_settle_hodl H i p) as [i'|] eqn:A; [|inv H0; apply S_same; reflexivity].
    destruct (deliver _ _) as [sb out]. inv H0. simpl.
    eapply S_put; eauto. eapply lookup_ref_in; eauto. eapply T_settle; eauto.
  - unfold cancel_invoice. exists (invs st). split; [apply S_same; reflexivity|].
    destruct (lookup_ref _ _ _ _) as [i|] eqn:L; [|inv H0; apply S_same; reflexivity].
    destruct (i_state i) eqn:S; try (inv H0; apply S_same; reflexivity).
    + simpl in H0. destruct (apply_cancel i) as [i'|] eqn:A; [|inv H0; apply S_same; reflexivity].
      destruct (deliver _ _) as [sb out]. inv H0. simpl.
      eapply S_put; eauto. eapply lookup_ref_in; eauto. eapply T_cancel; eauto.
    + destruct (cstate_eqb CAccepted CAccepted && negb f); [inv H0; apply S_same; reflexivity|].
      destruct (apply_cancel i) as [i'|] eqn:A; [|inv H0; apply S_same; reflexivity].
      destruct (deliver _ _) as [sb out]. inv H0. simpl.
      eapply S_put; eauto. eapply lookup_ref_in; eauto. eapply T_cancel; eauto.
  - unfold timeout_htlc. exists (invs st). split; [apply S_same; reflexivity|].
    destruct (lookup_ref _ _ _ _) as [i|] eqn:L; [|inv H0; apply S_same; reflexivity].
    destruct (negb (cstate_eqb (i_state i) COpen)) eqn:S; [inv H0; apply S_same; reflexivity|].
    apply negb_false_iff in S. apply cstate_eqb_eq in S.
    destruct (find_htlc k (i_htlcs i)) as [h0|] eqn:FK; [|inv H0; apply S_same; reflexivity].
    destruct (negb (is_state HAccepted h0)) eqn:IA; [inv H0; apply S_same; reflexivity|].
    apply negb_false_iff in IA. apply is_state_iff in IA.
    destruct (deliver _ _) as [sb out]. inv H0. simpl.
    eapply S_put; eauto. eapply lookup_ref_in; eauto. eapply T_timeout; eauto.
Qed.

Theorem step_ok st e st' o : state_ok st -> step H g st e = (st', o) -> state_ok st'.
Proof.
  intros SO ST. apply step_shape in ST. destruct ST as [l1 [S1 S2]].
  assert (O1 : state_ok (mkState l1 [])) by (eapply shape_ok; eauto).
  generalize (shape_ok (mkState l1 []) (invs st') (subs st') O1 S2).
  destruct st'; auto.
Qed.

Lemma init_ok : state_ok init.
Proof. split; simpl; [constructor|intros i []]. Qed.

Theorem run_ok st evs st' outs :
  state_ok st -> run H g st evs = (st', outs) -> state_ok st'.
Proof.
  revert st st' outs. induction evs as [|e r IH]; simpl; intros st st' outs SO R.
  - inv R. exact SO.
  - destruct (step H g st e) as [st1 o] eqn:S. destruct (run H g st1 r) as [st2 os] eqn:R2.
    inv R. eapply IH; [|eauto]. eapply step_ok; eauto.
Qed.

End Shape.

(* ------------------------------------------------------------------ *)
(* states only move forward                                             *)

Definition hstate_le (a b : hstate) : Prop := a = b \/ a = HAccepted.
Definition cstate_le (a b : cstate) : Prop :=
  a = b \/ a = COpen \/ (a = CAccepted /\ (b = CSettled \/ b = CCanceled)).
Definition same_rec (h h' : htlc) : Prop :=
  h_amt h = h_amt h' /\ h_total h = h_total h' /\ h_expiry h = h_expiry h' /\
  h_height h = h_height h' /\ h_hash h = h_hash h'.
Definition inv_le (i i' : invoice) : Prop :=
  i_hash i' = i_hash i /\ i_value i' = i_value i /\ i_addr i' = i_addr i /\
  cstate_le (i_state i) (i_state i') /\
  (forall p, i_state i = CSettled -> i_pre i = Some p -> i_pre i' = Some p) /\
  forall k h, In (k, h) (i_htlcs i) ->
              exists h', In (k, h') (i_htlcs i') /\ hstate_le (h_state h) (h_state h') /\ same_rec h h'.
Definition state_le (l l' : list invoice) : Prop :=
  forall i, In i l -> exists i', In i' l' /\ inv_le i i'.

Lemma same_rec_refl h : same_rec h h.
Proof. unfold same_rec. tauto. Qed.
Lemma same_rec_set h s : same_rec h (set_hstate h s).
Proof. unfold same_rec. simpl. tauto. Qed.

Lemma inv_le_refl i : inv_le i i.
Proof.
  unfold inv_le. repeat split; auto. left; reflexivity.
  intros k h I. exists h. split; [auto|]. split; [left; reflexivity|apply same_rec_refl].
Qed.

Lemma hstate_le_trans a b c : hstate_le a b -> hstate_le b c -> hstate_le a c.
Proof. unfold hstate_le. intros [X|X] [Y|Y]; subst; auto. Qed.

Lemma cstate_le_trans a b c : cstate_le a b -> cstate_le b c -> cstate_le a c.
Proof.
  unfold cstate_le. destruct a, b, c; intros X Y; try tauto;
    repeat match goal with
           | X : _ \/ _ |- _ => destruct X
           | X : _ /\ _ |- _ => destruct X
           end; try discriminate; tauto.
Qed.

Lemma cstate_le_settled b : cstate_le CSettled b -> b = CSettled.
Proof. unfold cstate_le. intros [X|[X|[X _]]]; congruence. Qed.

Lemma inv_le_trans a b c : inv_le a b -> inv_le b c -> inv_le a c.
Proof.
  intros (A1 & A2 & A3 & A4 & A5 & A6) (B1 & B2 & B3 & B4 & B5 & B6).
  unfold inv_le. repeat split; try congruence.
  - eapply cstate_le_trans; eauto.
  - intros p S P. apply B5; auto. rewrite S in A4. apply cstate_le_settled in A4. auto.
  - intros k h I. destruct (A6 k h I) as [h1 [I1 [L1 R1]]]. destruct (B6 k h1 I1) as [h2 [I2 [L2 R2]]].
    exists h2. split; [auto|]. split; [eapply hstate_le_trans; eauto|].
    unfold same_rec in *. intuition congruence.
Qed.

Lemma state_le_refl l : state_le l l.
Proof. intros i I. exists i. split; [auto|apply inv_le_refl]. Qed.

Lemma state_le_trans a b c : state_le a b -> state_le b c -> state_le a c.
Proof.
  intros X Y i I. destruct (X i I) as [i1 [I1 L1]]. destruct (Y i1 I1) as [i2 [I2 L2]].
  exists i2. split; [auto|eapply inv_le_trans; eauto].
Qed.

Section Mono.
Variable H : N -> N.
Variable g : cfg.

Lemma align_le s l l' :
  align_htlcs s l = Some l' ->
  forall k h, In (k, h) l ->
              exists h', In (k, h') l' /\ hstate_le (h_state h) (h_state h') /\ same_rec h h'.
Proof.
  unfold align_htlcs. intros A k h I.
  assert (ID : exists h', In (k, h') l /\ hstate_le (h_state h) (h_state h') /\ same_rec h h').
  { exists h. split; [auto|]. split; [left; reflexivity|apply same_rec_refl]. }
  destruct s.
  - destruct (any_htlc _ _); inv A. exact ID.
  - inv A. exists (settle_f h). split; [apply in_map_htlcs; eauto|].
    split.
    + rewrite settle_f_state. unfold hstate_le. destruct (h_state h); auto.
    + unfold settle_f. destruct (is_state HAccepted h); [apply same_rec_set|apply same_rec_refl].
  - destruct (any_htlc (is_state HSettled) l) eqn:AS; inv A.
    exists (set_hstate h HCanceled). split; [apply in_map_htlcs; eauto|].
    split; [|apply same_rec_set]. simpl. rewrite any_htlc_false in AS.
    specialize (AS k h I). apply is_state_false in AS. unfold hstate_le.
    destruct (h_state h); auto. congruence.
  - destruct (any_htlc _ _); inv A. exact ID.
Qed.

Lemma trans_le i i' : inv_ok H g i -> trans H g i i' -> inv_le i i'.
Proof.
  intros OK [c h ns r E U A|p S A|S A|k hk S FK HK E].
  - unfold apply_add in A. destruct (find_htlc _ _); [discriminate|].
    destruct (match ns with Some _ => _ | None => _ end) as [s1|] eqn:S1; [|discriminate].
    destruct (align_htlcs s1 _) as [hs2|] eqn:AL; [|discriminate]. inv A.
    unfold inv_le. simpl. repeat split; auto.
    + destruct ns as [n|]; [|inv S1; left; reflexivity].
      unfold cstate_le. destruct (i_state i); try discriminate; auto.
      destruct n; simpl in S1; try discriminate; auto.
      * destruct (i_pre i); [|discriminate]. destruct (N.eqb _ _); inv S1. auto.
      * inv S1. auto.
    + intros k0 h0 I. eapply align_le; eauto. right. exact I.
  - unfold apply_settle_hodl in A. destruct (negb (i_hodl i)); [discriminate|].
    destruct (negb _); [discriminate|]. destruct (negb _); [discriminate|]. inv A.
    unfold inv_le. simpl. repeat split; auto.
    + unfold cstate_le. rewrite S. auto.
    + intros. congruence.
    + intros k0 h0 I. eapply (align_le CSettled); eauto. reflexivity.
  - unfold apply_cancel in A. destruct (align_htlcs _ _) eqn:AL; [|discriminate]. inv A.
    unfold inv_le. simpl. repeat split; auto.
    + unfold cstate_le. destruct S as [S|S]; rewrite S; auto.
    + intros k0 h0 I. eapply align_le; eauto.
  - subst. unfold inv_le. simpl. repeat split; auto.
    + left; reflexivity.
    + intros k0 h0 I. exists (if N.eqb k0 k then set_hstate h0 HCanceled else h0).
      split; [apply in_set_htlc_state; eauto|].
      destruct (N.eqb_spec k0 k); [|split; [left; reflexivity|apply same_rec_refl]].
      split; [|apply same_rec_set]. subst k0.
      assert (h0 = hk).
      { apply (in_find_htlc k (i_htlcs i) h0 (ok_nodup H g i OK)) in I. congruence. }
      subst. right. exact HK.
Qed.

Lemma shape_le l l' :
  NoDup (map i_hash l) -> (forall i, In i l -> inv_ok H g i) -> shape H g l l' -> state_le l l'.
Proof.
  intros ND OK [E|i F E|i i' I T E]; subst.
  - apply state_le_refl.
  - intros x X. exists x. split; [right; auto|apply inv_le_refl].
  - intros x X. destruct (N.eqb_spec (i_hash x) (i_hash i')) as [EQ|NE].
    + assert (x = i).
      { eapply nodup_hash_eq; eauto. rewrite EQ. apply trans_hash in T. exact T. }
      subst x. exists i'. split; [eapply put_inv_in; eauto|apply trans_le; auto].
    + exists x. split; [apply put_inv_other; auto|apply inv_le_refl].
Qed.

Theorem step_le st e st' o :
  state_ok H g st -> step H g st e = (st', o) -> state_le (invs st) (invs st').
Proof.
  intros SO ST. generalize (step_shape H g st e st' o ST). intros [l1 [S1 S2]].
  assert (O1 : state_ok H g (mkState l1 [])) by (eapply shape_ok; eauto).
  destruct SO as [ND OK]. destruct O1 as [ND1 OK1]. simpl in *.
  eapply state_le_trans; eapply shape_le; eauto.
Qed.

Theorem run_le st evs st' outs :
  state_ok H g st -> run H g st evs = (st', outs) -> state_le (invs st) (invs st').
Proof.
  revert st st' outs. induction evs as [|e r IH]; simpl; intros st st' outs SO R.
  - inv R. apply state_le_refl.
  - destruct (step H g st e) as [st1 o] eqn:S. destruct (run H g st1 r) as [st2 os] eqn:R2.
    inv R. eapply state_le_trans; [eapply step_le; eauto|].
    eapply IH; [|eauto]. eapply step_ok; eauto.
Qed.

End Mono.

(* ------------------------------------------------------------------ *)
(* every settle resolution is backed by a settled record                *)

Section Outs.
Variable H : N -> N.
Variable g : cfg.

Definition res_settle (r : resn) : list (N * N) :=
  match r with NSettle k p _ _ => [(k, p)] | NFail _ _ _ => [] end.

Definition settle_outs (o : reply * list resn) : list (N * N) :=
  match fst o with RpDirect (DRes r) => res_settle r | _ => [] end ++ flat_map res_settle (snd o).

Definition settled_in (l : list invoice) (k p : N) : Prop :=
  exists i h, In i l /\ In (k, h) (i_htlcs i) /\ h_state h = HSettled /\ i_pre i = Some p.

Ltac break_in U :=
  repeat match type of U with
         | context [if ?b then _ else _] => destruct b eqn:?
         | context [match ?x with Some _ => _ | None => _ end] => destruct x eqn:?
         | context [match ?x with COpen => _ | CSettled => _ | CCanceled => _ | CAccepted => _ end] =>
           destruct x eqn:?
         end; try discriminate.

Lemma update_settle_res c i h ns p oc :
  update_invoice H g c i = UAdd h ns (Some (p, oc)) ->
  i_pre i = Some p /\ h_state h = HAccepted /\
  ((ns = Some CSettled /\ i_state i = COpen) \/ (ns = None /\ i_state i = CSettled)).
Proof.
  intro U. unfold update_invoice in U.
  destruct (c_mpp c) as [[a t]|].
  - unfold update_mpp in U. break_in U. inv U. simpl. apply negb_false_iff in Heqb1.
    apply cstate_eqb_eq in Heqb1. auto.
  - destruct (c_amp c); [discriminate|]. destruct (c_path c).
    + unfold update_mpp in U. break_in U. inv U. simpl. apply negb_false_iff in Heqb1.
      apply cstate_eqb_eq in Heqb1. auto.
    + unfold update_legacy in U. break_in U; inv U; simpl; auto.
Qed.

Lemma ntf_settled i' p oc sb sb' out k0 p0 :
  deliver sb (map (fun kh => NSettle (fst kh) p (h_height (snd kh)) oc)
                  (htlcs_in HSettled (i_htlcs i'))) = (sb', out) ->
  In (k0, p0) (flat_map res_settle out) ->
  p0 = p /\ exists h, In (k0, h) (i_htlcs i') /\ h_state h = HSettled.
Proof.
  intros D I. apply in_flat_map in I. destruct I as [r [IR IS]].
  eapply deliver_in in IR; eauto. apply in_map_iff in IR. destruct IR as [[k1 h1] [E I1]].
  subst r. simpl in IS. destruct IS as [X|[]]. inv X.
  unfold htlcs_in in I1. apply filter_In in I1. destruct I1 as [I1 S]. simpl in S.
  apply is_state_iff in S. eauto.
Qed.

Lemma ntf_fail_nosettle (f : N * htlc -> resn) l sb sb' out x :
  (forall kh, res_settle (f kh) = []) ->
  deliver sb (map f l) = (sb', out) -> In x (flat_map res_settle out) -> False.
Proof.
  intros F D I. apply in_flat_map in I. destruct I as [r [IR IS]].
  eapply deliver_in in IR; eauto. apply in_map_iff in IR. destruct IR as [kh [E _]].
  subst r. rewrite F in IS. destruct IS.
Qed.

Lemma notify_locked_settles st c st' o k p :
  state_ok H g st -> notify_locked H g st c = (st', o) ->
  In (k, p) (settle_outs o) -> settled_in (invs st') k p.
Proof.
  intros SO. unfold notify_locked. destruct (ctx_ref c) as [rh ra] eqn:CR.
  destruct (lookup_ref (g_kv g) (invs st) rh ra) as [i|] eqn:L;
    [|unfold fail_now; intro X; inv X; simpl; tauto].
  destruct (i_amp i && c_amp c && _) eqn:G; [intro X; inv X; simpl; tauto|].
  assert (II : In i (invs st)) by (eapply lookup_ref_in; eauto).
  match goal with
  | |- (match ?u with Some _ => _ | None => _ end) = _ -> _ => destruct u as [[[i' r] ch]|] eqn:U
  end; [|intro X; inv X; simpl; tauto].
  assert (A : In i' (if ch then put_inv i' (invs st) else invs st) /\
              forall k1 p1 ah oc, r = Some (NSettle k1 p1 ah oc) ->
                (exists h, In (k1, h) (i_htlcs i') /\ h_state h = HSettled) /\ i_pre i' = Some p1).
  { destruct (find_htlc (c_key c) (i_htlcs i)) as [h0|] eqn:F.
    - destruct (h_state h0) eqn:HS.
      + inv U. split; [auto|]. intros; discriminate.
      + inv U. split; [auto|]. intros; discriminate.
      + destruct (i_pre i) eqn:P; [|discriminate]. destruct (N.eqb _ _); inv U.
        split; [auto|]. intros k1 p1 ah oc E. inv E. split; [|auto].
        exists h0. split; [apply find_htlc_in; auto|auto].
    - destruct (update_invoice H g c i) as [oc|h ns r0|] eqn:UI; try discriminate.
      + inv U. split; [auto|]. intros; discriminate.
      + destruct (apply_add H i rh (c_key c) h ns) as [i2|] eqn:AA; [|discriminate]. inv U.
        split.
        * eapply put_inv_in; eauto. unfold apply_add in AA.
          destruct (find_htlc _ _); [discriminate|].
          destruct (match ns with Some _ => _ | None => _ end); [|discriminate].
          destruct (align_htlcs _ _); [|discriminate]. inv AA. reflexivity.
        * intros k1 p1 ah oc E. destruct r0 as [[p0 oc0]|]; [|discriminate]. inv E.
          destruct (update_settle_res _ _ _ _ _ _ UI) as [P [HA [[NS ST]|[NS ST]]]]; subst ns.
          -- apply apply_add_some_open in AA; auto.
             destruct AA as [_ [[X _]|[_ [p' [P' [_ E]]]]]]; [discriminate|]. subst i'. simpl.
             split; [|auto]. exists (settle_f h). split; [left; reflexivity|].
             rewrite settle_f_state, HA. reflexivity.
          -- apply apply_add_none in AA; [|congruence].
             destruct AA as [_ [[_ E]|[[X|X] _]]]; try congruence. subst i'. simpl.
             split; [|auto]. exists (settle_f h). split; [left; reflexivity|].
             rewrite settle_f_state, HA. reflexivity. }
  destruct A as [IN RS].
  destruct r as [[k1 p1 ah oc|k1 ah oc]|].
  - destruct (RS k1 p1 ah oc eq_refl) as [[h1 [I1 S1]] P1].
    destruct (deliver _ _) as [sb out] eqn:D. intro X; inv X. unfold settle_outs. simpl.
    intros [E|I].
    + inv E. exists i', h1. auto.
    + destruct (ntf_settled _ _ _ _ _ _ _ _ D I) as [E [h2 [I2 S2]]]. subst.
      exists i', h2. auto.
  - destruct (deliver _ _) as [sb out] eqn:D. intro X; inv X. unfold settle_outs. simpl.
    intro I. exfalso. destruct (is_set_failure oc).
    + eapply ntf_fail_nosettle; [|exact D|exact I]. reflexivity.
    + simpl in D. inv D. destruct I.
  - destruct (find_htlc (c_key c) (i_htlcs i')); intro X; inv X; simpl; tauto.
Qed.

Theorem step_settles st e st' o k p :
  state_ok H g st -> step H g st e = (st', o) ->
  In (k, p) (settle_outs o) -> settled_in (invs st') k p.
Proof.
  intros SO. destruct e as [i|c|p0|h f|h a k0]; simpl.
  - destruct (add_invoice g st i) as [s1 a]. intro X; inv X. simpl. tauto.
  - unfold notify. destruct (g_keysend g && negb (c_amp c)).
    + destruct (process_keysend H g st c) as [st1|] eqn:PK.
      * apply notify_locked_settles.
        assert (SH : shape H g (invs st) (invs st1)).
        { unfold process_keysend in PK. destruct (c_ks c); try discriminate.
          - inv PK. apply S_same; reflexivity.
          - destruct (negb _); [discriminate|]. destruct (c_mpp c); [discriminate|].
            destruct (Z.ltb _ _); [discriminate|]. inv PK.
            match goal with |- shape _ _ _ (invs (fst ?x)) => destruct x as [s2 a2] eqn:AI end.
            simpl. eapply add_invoice_shape; eauto. }
        generalize (shape_ok H g st (invs st1) (subs st1) SO SH). destruct st1; auto.
      * unfold fail_now. intro X; inv X. simpl. tauto.
    + apply notify_locked_settles. exact SO.
  - unfold settle_hodl.
    destruct (lookup_ref _ _ _ _) as [i|] eqn:L; [|intro X; inv X; simpl; tauto].
    destruct (i_state i) eqn:S; try (intro X; inv X; simpl; tauto).
    destruct (apply_settle_hodl H i p0) as [i'|] eqn:A; [|intro X; inv X; simpl; tauto].
    destruct (deliver _ _) as [sb out] eqn:D. intro X; inv X. unfold settle_outs. simpl.
    intro I. destruct (ntf_settled _ _ _ _ _ _ _ _ D I) as [E [h2 [I2 S2]]]. subst.
    exists i', h2. repeat split; auto.
    + eapply put_inv_in; [eapply lookup_ref_in; eauto|].
      symmetry. apply (trans_hash H g). eapply T_settle; eauto.
    + unfold apply_settle_hodl in A. destruct (negb (i_hodl i)); [discriminate|].
      destruct (negb _); [discriminate|]. destruct (negb _); [discriminate|]. inv A. reflexivity.
  - unfold cancel_invoice.
    destruct (lookup_ref _ _ _ _) as [i|] eqn:L; [|intro X; inv X; simpl; tauto].
    destruct (i_state i) eqn:S; try (intro X; inv X; simpl; tauto).
    + simpl. destruct (apply_cancel i) as [i'|]; [|intro X; inv X; simpl; tauto].
      destruct (deliver _ _) as [sb out] eqn:D. intro X; inv X. unfold settle_outs. simpl.
      intro I. exfalso. eapply ntf_fail_nosettle; [|exact D|exact I]. reflexivity.
    + destruct (cstate_eqb CAccepted CAccepted && negb f); [intro X; inv X; simpl; tauto|].
      destruct (apply_cancel i) as [i'|]; [|intro X; inv X; simpl; tauto].
      destruct (deliver _ _) as [sb out] eqn:D. intro X; inv X. unfold settle_outs. simpl.
      intro I. exfalso. eapply ntf_fail_nosettle; [|exact D|exact I]. reflexivity.
  - unfold timeout_htlc.
    destruct (lookup_ref _ _ _ _) as [i|] eqn:L; [|intro X; inv X; simpl; tauto].
    destruct (negb (cstate_eqb (i_state i) COpen)); [intro X; inv X; simpl; tauto|].
    destruct (find_htlc k0 (i_htlcs i)) as [h0|]; [|intro X; inv X; simpl; tauto].
    destruct (negb (is_state HAccepted h0)); [intro X; inv X; simpl; tauto|].
    destruct (deliver _ _) as [sb out] eqn:D. intro X; inv X. unfold settle_outs. simpl.
    intro I. exfalso.
    eapply (ntf_fail_nosettle (fun _ => NFail k0 (h_height h0) F_MppTimeout) [(k0, h0)]);
      [|exact D|exact I]. reflexivity.
Qed.

End Outs.

(* ------------------------------------------------------------------ *)
(* replays, and the property-level corollaries                          *)

Section Final.
Variable H : N -> N.
Variable g : cfg.

Lemma process_keysend_none st c : c_ks c = KSNone -> process_keysend H g st c = Some st.
Proof. unfold process_keysend. intro E. rewrite E. reflexivity. Qed.

Theorem replay_same_verdict st c i h st' rp ntf :
  state_ok H g st ->
  g_keysend g = false \/ c_ks c = KSNone ->
  lookup_ref (g_kv g) (invs st) (fst (ctx_ref c)) (snd (ctx_ref c)) = Some i ->
  fst (ctx_ref c) = Some (c_hash c) -> i_amp i = false ->
  find_htlc (c_key c) (i_htlcs i) = Some h ->
  notify H g st c = (st', (rp, ntf)) ->
  invs st' = invs st /\
  match h_state h with
  | HAccepted => rp = RpDirect DNil
  | HCanceled => rp = RpDirect (DRes (NFail (c_key c) (h_height h) F_ReplayToCanceled))
  | HSettled => exists p, i_pre i = Some p /\ H p = c_hash c /\
                          rp = RpDirect (DRes (NSettle (c_key c) p (c_height c) S_ReplayToSettled))
  end.
Proof.
  intros SO NJ L RH NA F N.
  assert (NL : notify_locked H g st c = (st', (rp, ntf))).
  { unfold notify in N. destruct NJ as [E|E].
    - rewrite E in N. exact N.
    - rewrite (process_keysend_none st c E) in N. destruct (g_keysend g && negb (c_amp c)); exact N. }
  clear N. unfold notify_locked in NL. destruct (ctx_ref c) as [rh ra]. simpl in *.
  rewrite L, NA, F in NL. simpl in NL.
  assert (II : In i (invs st)) by (eapply lookup_ref_in; eauto).
  assert (OK : inv_ok H g i) by (destruct SO as [_ X]; auto).
  assert (EH : i_hash i = c_hash c) by (subst rh; eapply lookup_ref_hash; eauto).
  destruct (h_state h) eqn:HS.
  - rewrite F in NL. inv NL. auto.
  - rewrite F in NL. simpl in NL. inv NL. auto.
  - assert (ST : i_state i = CSettled).
    { destruct (i_state i) eqn:S; auto; exfalso;
        eapply (ok_nosettled H g i OK); eauto using find_htlc_in; congruence. }
    destruct (ok_settled H g i OK ST) as [_ [p [P [HP _]]]]. rewrite P in NL.
    rewrite HP, EH, N.eqb_refl in NL.
    destruct (deliver _ _) as [sb out]. inv NL. split; [reflexivity|]. exists p. repeat split; auto; congruence.
Qed.

(* what the invariant says about any settled record *)
Theorem settled_record_sound st i k h :
  state_ok H g st -> In i (invs st) -> In (k, h) (i_htlcs i) -> h_state h = HSettled ->
  i_state i = CSettled /\
  (exists p, i_pre i = Some p /\ H p = h_hash h /\ i_hash i = h_hash h) /\
  (* payment address *)
  match h_addr h with
  | Some a => a = i_addr i
  | None => i_addr_req i = false \/ h_ks h = true
  end /\
  (* final CLTV margins at acceptance *)
  (u32 (h_height h + g_rd g) <= h_expiry h)%Z /\ (u32 (h_height h + i_delta i) <= h_expiry h)%Z /\
  (* amounts *)
  (h_total h = 0%N -> (i_value i <= h_amt h)%N) /\
  (h_total h <> 0%N ->
     (i_value i <= h_total h)%N /\
     (forall k' h', In (k', h') (i_htlcs i) -> h_state h' = HSettled -> h_total h' <> 0%N ->
                    h_total h' = h_total h) /\
     (h_total h <= wsum (fun x => is_state HSettled x && negb (N.eqb (h_total x) 0)) (i_htlcs i))%N).
Proof.
  intros [_ OKS] II I HS. assert (OK := OKS i II).
  assert (ST : i_state i = CSettled).
  { destruct (i_state i) eqn:S; auto; exfalso; eapply (ok_nosettled H g i OK); eauto; congruence. }
  destruct (ok_data H g i OK k h I) as (D1 & D2 & D3 & D4 & D5 & D6).
  destruct (ok_settled H g i OK ST) as [_ [p [P [HP _]]]].
  split; [auto|]. split; [exists p; repeat split; congruence|].
  repeat split; auto.
  - intros k' h' I' S' T'. symmetry.
    eapply (ok_common H g i OK k h k' h'); eauto; rewrite ST; unfold mppl; simpl;
      apply andb_true_iff; split; try (apply is_state_iff; assumption);
      apply negb_true_iff; apply N.eqb_neq; assumption.
  - generalize (ok_complete H g i OK (or_intror ST) k h I). rewrite ST. unfold mppl at 1. simpl.
    intro X. apply X. apply andb_true_iff. split; [apply is_state_iff; auto|].
    apply negb_true_iff. apply N.eqb_neq. auto.
Qed.

Theorem records_forward st1 evs st2 outs i1 k h1 :
  state_ok H g st1 -> run H g st1 evs = (st2, outs) ->
  In i1 (invs st1) -> In (k, h1) (i_htlcs i1) ->
  exists i2 h2,
    In i2 (invs st2) /\ i_hash i2 = i_hash i1 /\ In (k, h2) (i_htlcs i2) /\
    (forall x, In (k, x) (i_htlcs i2) -> x = h2) /\
    (h_state h1 = HSettled -> h_state h2 = HSettled) /\
    (h_state h1 = HCanceled -> h_state h2 = HCanceled) /\
    same_rec h1 h2 /\
    (forall j x, In j (invs st2) -> In (k, x) (i_htlcs j) -> h_hash x = h_hash h1 -> j = i2).
Proof.
  intros SO R II I.
  assert (SO2 : state_ok H g st2) by (eapply run_ok; eauto).
  destruct (run_le H g st1 evs st2 outs SO R i1 II) as [i2 [I2 (L1 & _ & _ & _ & _ & L6)]].
  destruct (L6 k h1 I) as [h2 [IH [LE SR]]].
  exists i2, h2. destruct SO2 as [ND2 OK2]. assert (O2 := OK2 i2 I2).
  destruct SR as (R1 & R2 & R3 & R4 & R5). unfold same_rec.
  repeat split; auto.
  - intros x IX. apply (in_find_htlc _ _ _ (ok_nodup H g i2 O2)) in IX.
    apply (in_find_htlc _ _ _ (ok_nodup H g i2 O2)) in IH. congruence.
  - intro S. destruct LE; congruence.
  - intro S. destruct LE; congruence.
  - intros j x IJ IX EX. eapply nodup_hash_eq; eauto.
    destruct (ok_data H g j (OK2 j IJ) k x IX) as [DJ _].
    destruct SO as [_ OK1]. destruct (ok_data H g i1 (OK1 i1 II) k h1 I) as [D1 _].
    congruence.
Qed.

End Final.

(* ---- the JIT keysend pre-check refutes the replay clause (finding C15-F1) ---- *)
Definition wit_H (p : N) : N := if N.eqb p 1 then 1%N else 0%N.
Definition wit_cfg : cfg := mkCfg 4 true false true.
Definition wit_ctx (height : Z) : hctx :=
  mkCtx 1 3 1000 110 height None false None 0 (KSPre 1).
Definition wit_events : list event :=
  [EAdd (mkInv 1 0 1000 (Some 1%N) 9 false false false COpen [] 0); ENotify (wit_ctx 100)].

Lemma replay_keysend_refuted :
  let st := fst (run wit_H wit_cfg init wit_events) in
  snd (run wit_H wit_cfg init wit_events) =
    [(RpApi AOk, []); (RpDirect (DRes (NSettle 3 1 100 S_Settled)), [])] /\
  (exists i h, In i (invs st) /\ find_htlc 3 (i_htlcs i) = Some h /\ h_state h = HSettled) /\
  fst (snd (notify wit_H wit_cfg st (wit_ctx 117))) =
    RpDirect (DRes (NFail 3 117 F_KeySendError)).
Proof.
  vm_compute. split; [reflexivity|]. split; [|reflexivity].
  eexists. eexists. split; [left; reflexivity|]. split; reflexivity.
Qed.
