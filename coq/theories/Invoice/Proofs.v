(* C15 — proofs about the invoice registry model (Model.v). *)
From Coq Require Import List NArith ZArith Bool Lia.
From LV Require Import Invoice.Model.
Import ListNotations.

Ltac inv H := inversion H; subst; clear H.

(* ------------------------------------------------------------------ *)
(* small facts                                                         *)

Lemma cstate_eqb_eq a b : cstate_eqb a b = true <-> a = b.
Proof. destruct a, b; simpl; split; intro X; try reflexivity; discriminate. Qed.
Lemma hstate_eqb_eq a b : hstate_eqb a b = true <-> a = b.
Proof. destruct a, b; simpl; split; intro X; try reflexivity; discriminate. Qed.
Lemma is_state_iff s h : is_state s h = true <-> h_state h = s.
Proof. unfold is_state. apply hstate_eqb_eq. Qed.
Lemma is_state_false s h : is_state s h = false <-> h_state h <> s.
Proof.
  rewrite <- is_state_iff. destruct (is_state s h); split; intro X; congruence.
Qed.

Lemma find_htlc_in k l h : find_htlc k l = Some h -> In (k, h) l.
Proof.
  induction l as [|[k' h'] r IH]; simpl; [discriminate|].
  destruct (N.eqb_spec k k'); intro X.
  - inv X. left; reflexivity.
  - right; auto.
Qed.

Lemma find_htlc_none k l : find_htlc k l = None -> ~ In k (map fst l).
Proof.
  induction l as [|[k' h'] r IH]; simpl; [tauto|].
  destruct (N.eqb_spec k k'); [discriminate|]. intros X [Y|Y]; [congruence|]. apply IH; auto.
Qed.

Lemma in_find_htlc k l h : NoDup (map fst l) -> In (k, h) l -> find_htlc k l = Some h.
Proof.
  induction l as [|[k' h'] r IH]; simpl; [tauto|].
  intros ND [X|X].
  - inv X. rewrite N.eqb_refl. reflexivity.
  - inv ND. destruct (N.eqb_spec k k').
    + subst. exfalso. apply H1. apply (in_map fst) in X. exact X.
    + auto.
Qed.

Lemma map_htlcs_keys f l : map fst (map_htlcs f l) = map fst l.
Proof. unfold map_htlcs. rewrite map_map. reflexivity. Qed.

Lemma in_map_htlcs f l k h' :
  In (k, h') (map_htlcs f l) <-> exists h, In (k, h) l /\ h' = f h.
Proof.
  unfold map_htlcs. rewrite in_map_iff. split.
  - intros [[k0 h0] [E I]]. simpl in E. inv E. eauto.
  - intros [h [I E]]. exists (k, h). subst. auto.
Qed.

Lemma set_htlc_state_keys k s l : map fst (set_htlc_state k s l) = map fst l.
Proof.
  unfold set_htlc_state. rewrite map_map. apply map_ext. intros [a b]; simpl.
  destruct (N.eqb a k); reflexivity.
Qed.

Lemma in_set_htlc_state k s l k' h' :
  In (k', h') (set_htlc_state k s l) <->
  exists h, In (k', h) l /\ h' = if N.eqb k' k then set_hstate h s else h.
Proof.
  unfold set_htlc_state. rewrite in_map_iff. split.
  - intros [[k0 h0] [E I]]. simpl in E. destruct (N.eqb_spec k0 k); inv E.
    + exists h0. rewrite N.eqb_refl. auto.
    + exists h'. destruct (N.eqb_spec k' k); [congruence|]. auto.
  - intros [h [I E]]. exists (k', h). simpl. subst. destruct (N.eqb k' k); auto.
Qed.

Lemma any_htlc_false P l :
  any_htlc P l = false <-> forall k h, In (k, h) l -> P h = false.
Proof.
  unfold any_htlc. induction l as [|[k0 h0] r IH]; simpl.
  - split; [intros _ k h []|reflexivity].
  - rewrite orb_false_iff, IH. split.
    + intros [A B] k h [E|I]; [inv E; auto|eauto].
    + intros X. split; [apply (X k0); auto|]. intros; eapply X; eauto.
Qed.

Lemma any_htlc_true P l :
  any_htlc P l = true -> exists k h, In (k, h) l /\ P h = true.
Proof.
  unfold any_htlc. rewrite existsb_exists. intros [[k h] [I E]]. eauto.
Qed.

Lemma wsum_ext P Q l :
  (forall k h, In (k, h) l -> P h = Q h) -> wsum P l = wsum Q l.
Proof.
  induction l as [|[k h] r IH]; simpl; [reflexivity|]. intros X.
  rewrite (X k h) by auto. rewrite IH; [reflexivity|]. intros; eapply X; eauto.
Qed.

Lemma wsum_map P Q f l :
  (forall k h, In (k, h) l -> h_amt (f h) = h_amt h /\ P (f h) = Q h) ->
  wsum P (map_htlcs f l) = wsum Q l.
Proof.
  induction l as [|[k h] r IH]; simpl; [reflexivity|]. intros X.
  destruct (X k h) as [A B]; [auto|]. rewrite A, B. rewrite IH; [reflexivity|].
  intros; eapply X; eauto.
Qed.

Lemma wadd_comm a b : wadd a b = wadd b a.
Proof. unfold wadd. rewrite N.add_comm. reflexivity. Qed.

Lemma wsum_lt P l : (wsum P l < W64)%N.
Proof.
  induction l as [|[k h] r IH]; simpl; [reflexivity|].
  destruct (P h); [|exact IH]. unfold wadd. apply N.mod_lt. discriminate.
Qed.

(* the wrapped sum is the true sum modulo 2^64 *)
Fixpoint tsum (P : htlc -> bool) (l : list (N * htlc)) : N :=
  match l with
  | [] => 0%N
  | (_, h) :: r => if P h then (h_amt h + tsum P r)%N else tsum P r
  end.

Lemma wsum_tsum P l : wsum P l = (tsum P l mod W64)%N.
Proof.
  induction l as [|[k h] r IH]; simpl; [reflexivity|].
  destruct (P h); [|exact IH]. unfold wadd. rewrite IH.
  rewrite N.add_mod_idemp_r by discriminate. reflexivity.
Qed.

Lemma wsum_no_overflow P l : (tsum P l < W64)%N -> wsum P l = tsum P l.
Proof. intro X. rewrite wsum_tsum. apply N.mod_small. exact X. Qed.

Lemma u32_idem x d : u32 (u32 x + d) = u32 (x + d).
Proof. unfold u32. rewrite Zplus_mod_idemp_l. reflexivity. Qed.

(* ---- deliver only forwards what it was given ---- *)
Lemma deliver_in sb rs sb' out r :
  deliver sb rs = (sb', out) -> In r out -> In r rs.
Proof.
  revert sb sb' out. induction rs as [|x rest IH]; simpl; intros sb sb' out E I.
  - inv E. destruct I.
  - destruct (mem (res_key x) sb).
    + destruct (deliver (remove_key (res_key x) sb) rest) as [sb1 o1] eqn:D. inv E.
      destruct I as [I|I]; [left; auto|right; eapply IH; eauto].
    + right. eapply IH; eauto.
Qed.

(* ---- lookups ---- *)
Lemma find_by_hash_in h l i : find_by_hash h l = Some i -> In i l /\ i_hash i = h.
Proof.
  unfold find_by_hash. intro X. apply find_some in X. destruct X as [A B].
  apply N.eqb_eq in B. auto.
Qed.

Lemma find_by_addr_in a l i : find_by_addr a l = Some i -> In i l.
Proof. unfold find_by_addr. intro X. apply find_some in X. tauto. Qed.

Lemma lookup_ref_in kv l rh ra i : lookup_ref kv l rh ra = Some i -> In i l.
Proof.
  unfold lookup_ref. destruct kv.
  - destruct rh as [h|];
      destruct (match ra with Some a => if N.eqb a 0 then None else Some a | None => None end) as [a|].
    + destruct (find_by_addr a l) eqn:A; destruct (find_by_hash h l) eqn:B; try discriminate.
      * destruct (N.eqb _ _); [|discriminate]. intro X; inv X. eapply find_by_addr_in; eauto.
      * intro X; inv X. apply find_by_hash_in in B. tauto.
    + destruct (find_by_hash h l) eqn:B; [|discriminate]. intro X; inv X.
      apply find_by_hash_in in B. tauto.
    + destruct (find_by_addr a l) eqn:A; [|discriminate]. intro X; inv X.
      eapply find_by_addr_in; eauto.
    + discriminate.
  - destruct rh as [h|].
    + destruct (find_by_hash h l) eqn:B; [|discriminate].
      destruct (match ra with Some a => if N.eqb a 0 then None else Some a | None => None end) as [a|].
      * destruct (N.eqb _ _); [|discriminate]. intro X; inv X. apply find_by_hash_in in B. tauto.
      * intro X; inv X. apply find_by_hash_in in B. tauto.
    + destruct (match ra with Some a => if N.eqb a 0 then None else Some a | None => None end) as [a|];
        [|discriminate]. apply find_by_addr_in.
Qed.

Lemma lookup_ref_hash kv l h ra i : lookup_ref kv l (Some h) ra = Some i -> i_hash i = h.
Proof.
  unfold lookup_ref. destruct kv.
  - destruct (match ra with Some a => if N.eqb a 0 then None else Some a | None => None end) as [a|].
    + destruct (find_by_addr a l) eqn:A; destruct (find_by_hash h l) eqn:B; try discriminate.
      * destruct (N.eqb_spec (i_hash i0) (i_hash i1)); [|discriminate]. intro X; inv X.
        apply find_by_hash_in in B. destruct B. congruence.
      * intro X; inv X. apply find_by_hash_in in B. tauto.
    + destruct (find_by_hash h l) eqn:B; [|discriminate]. intro X; inv X.
      apply find_by_hash_in in B. tauto.
  - destruct (find_by_hash h l) eqn:B; [|discriminate].
    destruct (match ra with Some a => if N.eqb a 0 then None else Some a | None => None end) as [a|].
    + destruct (N.eqb _ _); [|discriminate]. intro X; inv X. apply find_by_hash_in in B. tauto.
    + intro X; inv X. apply find_by_hash_in in B. tauto.
Qed.

Lemma put_inv_hashes i' l : map i_hash (put_inv i' l) = map i_hash l.
Proof.
  unfold put_inv. rewrite map_map. apply map_ext_in. intros a _.
  destruct (N.eqb_spec (i_hash a) (i_hash i')); congruence.
Qed.

Lemma in_put_inv i' l x :
  In x (put_inv i' l) -> x = i' \/ (In x l /\ i_hash x <> i_hash i').
Proof.
  unfold put_inv. rewrite in_map_iff. intros [a [E I]].
  destruct (N.eqb_spec (i_hash a) (i_hash i')); subst; auto.
Qed.

Lemma put_inv_in i0 i' l :
  In i0 l -> i_hash i0 = i_hash i' -> In i' (put_inv i' l).
Proof.
  intros I E. unfold put_inv. apply in_map_iff. exists i0. rewrite E, N.eqb_refl. auto.
Qed.

Lemma put_inv_other i' l x :
  In x l -> i_hash x <> i_hash i' -> In x (put_inv i' l).
Proof.
  intros I E. unfold put_inv. apply in_map_iff. exists x.
  destruct (N.eqb_spec (i_hash x) (i_hash i')); [contradiction|auto].
Qed.

Lemma nodup_hash_eq l i j :
  NoDup (map i_hash l) -> In i l -> In j l -> i_hash i = i_hash j -> i = j.
Proof.
  induction l as [|a r IH]; simpl; [tauto|]. intros ND [A|A] [B|B] E; subst; auto.
  - inv ND. exfalso. apply H1. rewrite E. apply in_map. exact B.
  - inv ND. exfalso. apply H1. rewrite <- E. apply in_map. exact A.
  - inv ND. auto.
Qed.

(* ------------------------------------------------------------------ *)
(* the invariant                                                        *)

Section Inv.
Variable H : N -> N.
Variable g : cfg.

Definition data_ok (i : invoice) (h : htlc) : Prop :=
  h_hash h = i_hash i /\
  match h_addr h with
  | Some a => a = i_addr i
  | None => i_addr_req i = false \/ h_ks h = true
  end /\
  (u32 (h_height h + g_rd g) <= h_expiry h)%Z /\
  (u32 (h_height h + i_delta i) <= h_expiry h)%Z /\
  (h_total h = 0%N -> (i_value i <= h_amt h)%N) /\
  (h_total h <> 0%N -> (i_value i <= h_total h)%N).

(* htlcs that count towards the payment of an invoice in state s *)
Definition live (s : cstate) (h : htlc) : bool :=
  match s with CSettled => is_state HSettled h | _ => is_state HAccepted h end.
Definition mppl (s : cstate) (h : htlc) : bool := live s h && negb (N.eqb (h_total h) 0).

Record inv_ok (i : invoice) : Prop := mkOk {
  ok_nodup : NoDup (map fst (i_htlcs i));
  ok_data : forall k h, In (k, h) (i_htlcs i) -> data_ok i h;
  ok_nosettled : i_state i <> CSettled ->
                 forall k h, In (k, h) (i_htlcs i) -> h_state h <> HSettled;
  ok_settled : i_state i = CSettled ->
               (forall k h, In (k, h) (i_htlcs i) -> h_state h <> HAccepted) /\
               exists p, i_pre i = Some p /\ H p = i_hash i /\
                         i_paid i = wsum (is_state HSettled) (i_htlcs i);
  ok_canceled : i_state i = CCanceled ->
                forall k h, In (k, h) (i_htlcs i) -> h_state h = HCanceled;
  ok_common : forall k h k' h', In (k, h) (i_htlcs i) -> In (k', h') (i_htlcs i) ->
              mppl (i_state i) h = true -> mppl (i_state i) h' = true ->
              h_total h = h_total h';
  ok_complete : i_state i = CAccepted \/ i_state i = CSettled ->
                forall k h, In (k, h) (i_htlcs i) -> mppl (i_state i) h = true ->
                (h_total h <= wsum (mppl (i_state i)) (i_htlcs i))%N
}.

Definition state_ok (st : state) : Prop :=
  NoDup (map i_hash (invs st)) /\ forall i, In i (invs st) -> inv_ok i.

Lemma data_ok_terms i st pre hs paid h :
  data_ok i h -> data_ok (with_htlcs i st pre hs paid) h.
Proof. unfold data_ok. simpl. tauto. Qed.

Lemma data_ok_state i h s : data_ok i h -> data_ok i (set_hstate h s).
Proof. unfold data_ok. simpl. tauto. Qed.

Definition settle_f (h : htlc) : htlc := if is_state HAccepted h then set_hstate h HSettled else h.

Lemma settle_f_state h :
  h_state (settle_f h) = match h_state h with HAccepted => HSettled | s => s end.
Proof. unfold settle_f, is_state. destruct (h_state h) eqn:E; simpl; auto. Qed.

Lemma settle_f_data h :
  h_amt (settle_f h) = h_amt h /\ h_total (settle_f h) = h_total h.
Proof. unfold settle_f. destruct (is_state HAccepted h); simpl; auto. Qed.

Lemma data_ok_settle_f i h : data_ok i h -> data_ok i (settle_f h).
Proof. unfold settle_f. destruct (is_state HAccepted h); auto using data_ok_state. Qed.

(* T1: record a new accepted htlc, invoice state unchanged (open / accepted) *)
Lemma inv_ok_cons i k h paid :
  inv_ok i -> i_state i = COpen \/ i_state i = CAccepted ->
  find_htlc k (i_htlcs i) = None -> data_ok i h -> h_state h = HAccepted ->
  (h_total h <> 0%N -> forall k' h', In (k', h') (i_htlcs i) -> h_state h' = HAccepted ->
                                   h_total h' <> 0%N -> h_total h' = h_total h) ->
  (i_state i = CAccepted -> h_total h = 0%N) ->
  inv_ok (with_htlcs i (i_state i) (i_pre i) ((k, h) :: i_htlcs i) paid).
Proof.
  intros OK ST FR D HA CM AC.
  assert (LV : forall x, live (i_state i) x = is_state HAccepted x)
    by (intro x; destruct ST as [E|E]; rewrite E; reflexivity).
  constructor; simpl.
  - constructor; [apply find_htlc_none; exact FR | apply OK].
  - intros k0 h0 [E|I]; [inv E|]; apply data_ok_terms; auto. eapply ok_data; eauto.
  - intros NS k0 h0 [E|I]; [inv E; congruence|]. eapply ok_nosettled; eauto.
  - intro E. destruct ST; congruence.
  - intro E. destruct ST; congruence.
  - intros k1 h1 k2 h2 I1 I2 M1 M2. unfold mppl in M1, M2. rewrite LV in M1, M2.
    apply andb_true_iff in M1. apply andb_true_iff in M2.
    destruct M1 as [A1 B1], M2 as [A2 B2].
    apply is_state_iff in A1. apply is_state_iff in A2.
    apply negb_true_iff in B1. apply negb_true_iff in B2.
    apply N.eqb_neq in B1. apply N.eqb_neq in B2.
    destruct I1 as [E1|I1]; destruct I2 as [E2|I2]; try inv E1; try inv E2.
    + reflexivity.
    + symmetry. eapply CM; eauto.
    + eapply CM; eauto.
    + eapply (ok_common i OK); eauto; unfold mppl; rewrite LV;
        apply andb_true_iff; split; try (apply is_state_iff; assumption);
        apply negb_true_iff; apply N.eqb_neq; assumption.
  - intros [E|E]; [|destruct ST; congruence].
    intros k0 h0 I M. specialize (AC E).
    assert (M0 : mppl (i_state i) h = false).
    { unfold mppl. rewrite AC. simpl. apply andb_false_r. }
    rewrite M0. destruct I as [X|I]; [inv X; congruence|].
    eapply (ok_complete i OK); eauto.
Qed.

(* T4: a duplicate legacy htlc is recorded settled on a settled invoice *)
Lemma inv_ok_cons_settled i k h :
  inv_ok i -> i_state i = CSettled ->
  find_htlc k (i_htlcs i) = None -> data_ok i h -> h_state h = HSettled ->
  h_total h = 0%N ->
  inv_ok (with_htlcs i CSettled (i_pre i) ((k, h) :: i_htlcs i)
                     (wsum (is_state HSettled) ((k, h) :: i_htlcs i))).
Proof.
  intros OK ST FR D HS T0.
  constructor; simpl.
  - constructor; [apply find_htlc_none; exact FR | apply OK].
  - intros k0 h0 [E|I]; [inv E|]; apply data_ok_terms; auto. eapply ok_data; eauto.
  - congruence.
  - intros _. destruct (ok_settled i OK ST) as [NA [p [P1 [P2 P3]]]]. split.
    + intros k0 h0 [E|I]; [inv E; congruence|]. eapply NA; eauto.
    + exists p. auto.
  - discriminate.
  - intros k1 h1 k2 h2 I1 I2 M1 M2.
    assert (M0 : mppl CSettled h = false)
      by (unfold mppl; rewrite T0; simpl; apply andb_false_r).
    destruct I1 as [E1|I1]; [inv E1; congruence|].
    destruct I2 as [E2|I2]; [inv E2; congruence|].
    rewrite <- ST in M1, M2. eapply (ok_common i OK); eauto.
  - intros _ k0 h0 I M.
    assert (M0 : mppl CSettled h = false)
      by (unfold mppl; rewrite T0; simpl; apply andb_false_r).
    rewrite M0. destruct I as [X|I]; [inv X; congruence|].
    rewrite <- ST in *. eapply (ok_complete i OK); eauto.
Qed.

(* T2: settle every accepted htlc of an open/accepted invoice *)
Lemma inv_ok_settle_all i p paid :
  inv_ok i -> i_state i = COpen \/ i_state i = CAccepted ->
  H p = i_hash i ->
  (forall k h, In (k, h) (i_htlcs i) -> h_state h = HAccepted -> h_total h <> 0%N ->
               (h_total h <= wsum (fun x => is_state HAccepted x && negb (N.eqb (h_total x) 0))
                                  (i_htlcs i))%N) ->
  paid = wsum (is_state HAccepted) (i_htlcs i) ->
  inv_ok (with_htlcs i CSettled (Some p) (map_htlcs settle_f (i_htlcs i)) paid).
Proof.
  intros OK ST HP CP PD.
  assert (NS : forall k h, In (k, h) (i_htlcs i) -> h_state h <> HSettled).
  { apply (ok_nosettled i OK). destruct ST; congruence. }
  assert (LV : forall x, live (i_state i) x = is_state HAccepted x)
    by (intro x; destruct ST as [E|E]; rewrite E; reflexivity).
  assert (MS : forall k h, In (k, h) (i_htlcs i) ->
                           mppl CSettled (settle_f h) = mppl (i_state i) h).
  { intros k h I. unfold mppl. rewrite LV. destruct (settle_f_data h) as [_ T]. rewrite T.
    f_equal. unfold live, is_state. rewrite settle_f_state. specialize (NS k h I).
    destruct (h_state h); simpl; congruence. }
  constructor; simpl.
  - rewrite map_htlcs_keys. apply OK.
  - intros k h' I. apply in_map_htlcs in I. destruct I as [h [I E]]. subst.
    apply data_ok_terms. apply data_ok_settle_f. eapply ok_data; eauto.
  - congruence.
  - intros _. split.
    + intros k h' I. apply in_map_htlcs in I. destruct I as [h [I E]]. subst.
      rewrite settle_f_state. destruct (h_state h); congruence.
    + exists p. repeat split; auto. subst paid. symmetry. apply wsum_map.
      intros k h I. split; [apply settle_f_data|].
      unfold is_state. rewrite settle_f_state. specialize (NS k h I).
      destruct (h_state h); simpl; congruence.
  - discriminate.
  - intros k1 x1 k2 x2 I1 I2 M1 M2.
    apply in_map_htlcs in I1. destruct I1 as [h1 [I1 E1]].
    apply in_map_htlcs in I2. destruct I2 as [h2 [I2 E2]]. subst.
    rewrite (MS _ _ I1) in M1. rewrite (MS _ _ I2) in M2.
    destruct (settle_f_data h1) as [_ T1]. destruct (settle_f_data h2) as [_ T2].
    rewrite T1, T2. eapply (ok_common i OK); eauto.
  - intros _ k x I M. apply in_map_htlcs in I. destruct I as [h [I E]]. subst.
    rewrite (MS _ _ I) in M. destruct (settle_f_data h) as [_ T]. rewrite T.
    rewrite (wsum_map (mppl CSettled) (mppl (i_state i)) settle_f).
    + unfold mppl in M. rewrite LV in M. apply andb_true_iff in M. destruct M as [A B].
      apply is_state_iff in A. apply negb_true_iff in B. apply N.eqb_neq in B.
      specialize (CP k h I A B).
      erewrite (wsum_ext (mppl (i_state i))); [exact CP|].
      intros k0 h0 _. unfold mppl. rewrite LV. reflexivity.
    + intros k0 h0 I0. split; [apply settle_f_data|eapply MS; eauto].
Qed.

(* T3: an open hold invoice becomes accepted *)
Lemma inv_ok_to_accepted i paid :
  inv_ok i -> i_state i = COpen ->
  (forall k h, In (k, h) (i_htlcs i) -> h_state h = HAccepted -> h_total h <> 0%N ->
               (h_total h <= wsum (fun x => is_state HAccepted x && negb (N.eqb (h_total x) 0))
                                  (i_htlcs i))%N) ->
  inv_ok (with_htlcs i CAccepted (i_pre i) (i_htlcs i) paid).
Proof.
  intros OK ST CP. constructor; simpl.
  - apply OK.
  - intros. apply data_ok_terms. eapply ok_data; eauto.
  - intros _. apply (ok_nosettled i OK). congruence.
  - discriminate.
  - discriminate.
  - intros k1 h1 k2 h2 I1 I2 M1 M2. eapply (ok_common i OK); eauto; rewrite ST; assumption.
  - intros _ k h I M. unfold mppl in M. simpl in M. apply andb_true_iff in M.
    destruct M as [A B]. apply is_state_iff in A. apply negb_true_iff in B.
    apply N.eqb_neq in B. exact (CP k h I A B).
Qed.

(* T5: cancel the invoice *)
Lemma inv_ok_cancel_all i :
  inv_ok i -> i_state i <> CSettled ->
  inv_ok (with_htlcs i CCanceled (i_pre i)
                     (map_htlcs (fun h => set_hstate h HCanceled) (i_htlcs i)) (i_paid i)).
Proof.
  intros OK ST. constructor; simpl.
  - rewrite map_htlcs_keys. apply OK.
  - intros k h' I. apply in_map_htlcs in I. destruct I as [h [I E]]. subst.
    apply data_ok_terms. apply data_ok_state. eapply ok_data; eauto.
  - intros _ k h' I. apply in_map_htlcs in I. destruct I as [h [I E]]. subst. simpl. discriminate.
  - discriminate.
  - intros _ k h' I. apply in_map_htlcs in I. destruct I as [h [I E]]. subst. reflexivity.
  - intros k1 x1 k2 x2 I1 _ M1 _. apply in_map_htlcs in I1. destruct I1 as [h [I E]]. subst.
    unfold mppl, live, is_state in M1. simpl in M1. discriminate.
  - intros [E|E]; discriminate.
Qed.

(* T6: cancel a single accepted htlc of an open invoice *)
Lemma inv_ok_cancel_one i k :
  inv_ok i -> i_state i = COpen ->
  inv_ok (with_htlcs i (i_state i) (i_pre i) (set_htlc_state k HCanceled (i_htlcs i)) (i_paid i)).
Proof.
  intros OK ST. rewrite ST.
  assert (MP : forall k' h, mppl COpen (if N.eqb k' k then set_hstate h HCanceled else h) = true ->
                            mppl COpen h = true /\
                            (if N.eqb k' k then set_hstate h HCanceled else h) = h).
  { intros k' h. destruct (N.eqb k' k); [|auto]. unfold mppl, live, is_state. simpl. discriminate. }
  constructor; simpl.
  - rewrite set_htlc_state_keys. apply OK.
  - intros k0 h' I. apply in_set_htlc_state in I. destruct I as [h [I E]]. subst.
    apply data_ok_terms. destruct (N.eqb k0 k); [apply data_ok_state|]; eapply ok_data; eauto.
  - intros _ k0 h' I. apply in_set_htlc_state in I. destruct I as [h [I E]]. subst.
    destruct (N.eqb k0 k); simpl; [discriminate|]. eapply (ok_nosettled i OK); eauto. congruence.
  - discriminate.
  - discriminate.
  - intros k1 x1 k2 x2 I1 I2 M1 M2.
    apply in_set_htlc_state in I1. destruct I1 as [h1 [I1 E1]].
    apply in_set_htlc_state in I2. destruct I2 as [h2 [I2 E2]]. subst.
    apply MP in M1. apply MP in M2. destruct M1 as [M1 R1], M2 as [M2 R2]. rewrite R1, R2.
    eapply (ok_common i OK); eauto; rewrite ST; assumption.
  - intros [E|E]; discriminate.
Qed.

End Inv.

(* ------------------------------------------------------------------ *)
(* every step preserves the invariant                                   *)

Section Steps.
Variable H : N -> N.
Variable g : cfg.

Notation inv_ok := (inv_ok H g).
Notation state_ok := (state_ok H g).

Lemma state_ok_put st i0 i' sb :
  state_ok st -> In i0 (invs st) -> i_hash i' = i_hash i0 -> inv_ok i' ->
  state_ok (mkState (put_inv i' (invs st)) sb).
Proof.
  intros [ND OK] I E OI. split; simpl.
  - rewrite put_inv_hashes. exact ND.
  - intros x X. apply in_put_inv in X. destruct X as [X|[X _]]; subst; auto.
Qed.

Lemma state_ok_subs st sb : state_ok st -> state_ok (mkState (invs st) sb).
Proof. intros [A B]. split; auto. Qed.

Lemma map_htlcs_id f l :
  (forall k h, In (k, h) l -> f h = h) -> map_htlcs f l = l.
Proof.
  induction l as [|[k h] r IH]; simpl; [reflexivity|]. intro X.
  rewrite (X k h) by auto. rewrite IH; [reflexivity|]. intros; eapply X; eauto.
Qed.

Lemma add_invoice_ok st i st' a :
  state_ok st -> add_invoice g st i = (st', a) -> state_ok st'.
Proof.
  intros [ND OK]. unfold add_invoice.
  destruct (_ && _ && _); [intro X; inv X; split; auto|].
  destruct (find_by_hash (i_hash i) (invs st)) eqn:F; [intro X; inv X; split; auto|].
  destruct (_ && _); intro X; inv X; [split; auto|].
  split; simpl.
  - constructor; [|exact ND]. intro I. apply in_map_iff in I. destruct I as [x [E I]].
    unfold find_by_hash in F. eapply find_none in F; eauto. rewrite E, N.eqb_refl in F. discriminate.
  - intros x [E|I]; [|auto]. subst. constructor; simpl.
    + constructor.
    + intros k h [].
    + intros _ k h [].
    + discriminate.
    + discriminate.
    + intros k h k' h' [].
    + intros [E|E]; discriminate.
Qed.

Lemma new_htlc_data c i total addr :
  i_hash i = c_hash c -> expiry_ok g c i = true ->
  match addr with
  | Some a => a = i_addr i
  | None => i_addr_req i = false \/ valid_keysend H c = true
  end ->
  (total = 0%N -> (i_value i <= c_amt c)%N) -> (total <> 0%N -> (i_value i <= total)%N) ->
  data_ok g i (new_htlc H c total addr).
Proof.
  intros EH EX AD A0 A1. unfold expiry_ok in EX. apply andb_true_iff in EX. destruct EX as [E1 E2].
  apply negb_true_iff in E1. apply negb_true_iff in E2.
  apply Z.ltb_ge in E1. apply Z.ltb_ge in E2.
  unfold data_ok, new_htlc. simpl. rewrite !u32_idem. repeat split; auto.
Qed.

(* shapes of a successful addHTLCs *)
Lemma apply_add_none i rh k h i' :
  apply_add H i rh k h None = Some i' ->
  find_htlc k (i_htlcs i) = None /\
  ((i_state i = CSettled /\
    i' = with_htlcs i CSettled (i_pre i) (map_htlcs settle_f ((k, h) :: i_htlcs i))
           (wsum (fun x => is_state HAccepted x || is_state HSettled x)
                 (map_htlcs settle_f ((k, h) :: i_htlcs i)))) \/
   ((i_state i = COpen \/ i_state i = CAccepted) /\
    exists paid, i' = with_htlcs i (i_state i) (i_pre i) ((k, h) :: i_htlcs i) paid)).
Proof.
  unfold apply_add. destruct (find_htlc k (i_htlcs i)); [discriminate|].
  split; [reflexivity|].
  destruct (i_state i) eqn:ST; simpl in *.
  - destruct (is_state HSettled h || _); [discriminate|]. inv H0. right. eauto.
  - inv H0. left. split; reflexivity.
  - destruct (is_state HSettled h || _); discriminate.
  - destruct (is_state HSettled h || _); [discriminate|]. inv H0. right. eauto.
Qed.

Lemma apply_add_some_open i rh k h n i' :
  i_state i = COpen -> n = CAccepted \/ n = CSettled ->
  apply_add H i rh k h (Some n) = Some i' ->
  find_htlc k (i_htlcs i) = None /\
  ((n = CAccepted /\ exists paid, i' = with_htlcs i CAccepted (i_pre i) ((k, h) :: i_htlcs i) paid) \/
   (n = CSettled /\ exists p, i_pre i = Some p /\ rh = Some (H p) /\
    i' = with_htlcs i CSettled (i_pre i) (map_htlcs settle_f ((k, h) :: i_htlcs i))
           (wsum (fun x => is_state HAccepted x || is_state HSettled x)
                 (map_htlcs settle_f ((k, h) :: i_htlcs i))))).
Proof.
  intros ST N. unfold apply_add. destruct (find_htlc k (i_htlcs i)); [discriminate|].
  split; [reflexivity|]. rewrite ST in *. destruct N; subst n; simpl in *.
  - destruct (is_state HSettled h || _); [discriminate|]. inv H0. left. eauto.
  - destruct (i_pre i) as [p|] eqn:P; [|discriminate]. destruct rh as [rh|]; [|discriminate].
    destruct (N.eqb_spec (H p) rh); [|discriminate]. simpl in H0. inv H0.
    right. split; [reflexivity|]. exists p. auto.
Qed.

Lemma settle_map_cons_accepted i k h paid p :
  inv_ok i -> i_state i = COpen -> find_htlc k (i_htlcs i) = None ->
  data_ok g i h -> h_state h = HAccepted -> i_pre i = Some p -> H p = i_hash i ->
  (h_total h <> 0%N -> forall k' h', In (k', h') (i_htlcs i) -> h_state h' = HAccepted ->
                                   h_total h' <> 0%N -> h_total h' = h_total h) ->
  (forall k0 h0, In (k0, h0) ((k, h) :: i_htlcs i) -> h_state h0 = HAccepted -> h_total h0 <> 0%N ->
     (h_total h0 <= wsum (fun x => is_state HAccepted x && negb (N.eqb (h_total x) 0))
                         ((k, h) :: i_htlcs i))%N) ->
  paid = wsum (fun x => is_state HAccepted x || is_state HSettled x)
              (map_htlcs settle_f ((k, h) :: i_htlcs i)) ->
  inv_ok (with_htlcs i CSettled (i_pre i) (map_htlcs settle_f ((k, h) :: i_htlcs i)) paid).
Proof.
  intros OK ST FR D HA P HP CM CP PD.
  pose (j := with_htlcs i (i_state i) (i_pre i) ((k, h) :: i_htlcs i) 0%N).
  assert (OJ : inv_ok j).
  { apply inv_ok_cons; auto. intro E. congruence. }
  rewrite P.
  change (inv_ok (with_htlcs j CSettled (Some p) (map_htlcs settle_f (i_htlcs j)) paid)).
  apply inv_ok_settle_all; auto.
  - left. exact ST.
  - subst paid. apply wsum_map. intros k0 h0 I0. split; [apply settle_f_data|].
    unfold is_state. rewrite settle_f_state.
    assert (NS : h_state h0 <> HSettled).
    { eapply (ok_nosettled H g j OJ); eauto. simpl. congruence. }
    destruct (h_state h0); simpl; congruence.
Qed.

Lemma update_legacy_ok c i k h ns r i' :
  inv_ok i -> i_hash i = c_hash c ->
  update_legacy H g c i = UAdd h ns r ->
  apply_add H i (Some (c_hash c)) k h ns = Some i' ->
  inv_ok i'.
Proof.
  intros OK EH U A. unfold update_legacy in U.
  destruct (i_amp i); [discriminate|].
  destruct (cstate_eqb (i_state i) CCanceled) eqn:NC; [discriminate|].
  destruct (N.ltb_spec (c_amt c) (i_value i)) as [|AM]; [discriminate|].
  destruct (negb (valid_keysend H c) && i_addr_req i) eqn:KS; [discriminate|].
  destruct (any_htlc _ (i_htlcs i)) eqn:MP; [discriminate|].
  destruct (negb (expiry_ok g c i)) eqn:EX; [discriminate|].
  apply negb_false_iff in EX.
  assert (D : data_ok g i (new_htlc H c 0 None)).
  { apply new_htlc_data; auto.
    - apply andb_false_iff in KS. destruct KS as [X|X]; [right; apply negb_false_iff; exact X|left; exact X].
    - intro X; contradiction. }
  assert (NOMPP : forall k' h', In (k', h') (i_htlcs i) -> h_state h' = HAccepted -> h_total h' = 0%N).
  { intros k' h' I S. rewrite any_htlc_false in MP. specialize (MP k' h' I).
    apply andb_false_iff in MP. destruct MP as [X|X].
    - apply is_state_false in X. contradiction.
    - apply N.ltb_ge in X. lia. }
  destruct (i_state i) eqn:ST.
  - (* open *)
    destruct (i_hodl i).
    + inv U. apply apply_add_some_open in A; auto.
      destruct A as [FR [[_ [paid E]]|[X _]]]; [|discriminate]. subst i'.
      pose (j := with_htlcs i (i_state i) (i_pre i) ((k, new_htlc H c 0 None) :: i_htlcs i) 0%N).
      assert (OJ : inv_ok j).
      { apply inv_ok_cons; auto; try (simpl; intro; contradiction). intro; congruence. }
      change (inv_ok (with_htlcs j CAccepted (i_pre j) (i_htlcs j) paid)).
      apply inv_ok_to_accepted; auto. simpl.
      intros k0 h0 [X|I] S T; [inv X; simpl in T; contradiction|].
      exfalso. apply T. eapply NOMPP; eauto.
    + destruct (i_pre i) as [p|] eqn:P; [|discriminate]. inv U.
      apply apply_add_some_open in A; auto.
      destruct A as [FR [[X _]|[_ [p' [P' [RH E]]]]]]; [discriminate|]. subst i'.
      rewrite P in P'. inv P'. inv RH.
      eapply settle_map_cons_accepted; eauto; try congruence.
      * simpl. intro; contradiction.
      * intros k0 h0 [X|I] S T; [inv X; simpl in T; contradiction|].
        exfalso. apply T. eapply NOMPP; eauto.
  - (* settled: duplicate *)
    destruct (i_pre i) as [p|] eqn:P; [|discriminate]. inv U.
    apply apply_add_none in A. destruct A as [FR [[_ E]|[[X|X] _]]]; try congruence. subst i'.
    destruct (ok_settled H g i OK ST) as [NA _].
    assert (M : map_htlcs settle_f ((k, new_htlc H c 0 None) :: i_htlcs i) =
                (k, set_hstate (new_htlc H c 0 None) HSettled) :: i_htlcs i).
    { simpl. f_equal. apply map_htlcs_id. intros k0 h0 I0. unfold settle_f.
      destruct (is_state HAccepted h0) eqn:S; [|reflexivity].
      apply is_state_iff in S. exfalso. eapply NA; eauto. }
    rewrite M.
    erewrite (wsum_ext (fun x => is_state HAccepted x || is_state HSettled x) (is_state HSettled)).
    + apply inv_ok_cons_settled; auto. apply data_ok_state. exact D.
    + intros k0 h0 [X|I0].
      * inv X. reflexivity.
      * assert (S : is_state HAccepted h0 = false) by (apply is_state_false; eapply NA; eauto).
        rewrite S. reflexivity.
  - discriminate.
  - (* accepted: duplicate *)
    inv U. apply apply_add_none in A. destruct A as [FR [[X _]|[_ [paid E]]]]; [congruence|].
    subst i'. apply inv_ok_cons; auto; simpl; try tauto. intro; contradiction.
Qed.

Lemma update_mpp_ok c i k h ns r i' addr total :
  inv_ok i -> i_hash i = c_hash c ->
  update_mpp H g c i addr total = UAdd h ns r ->
  apply_add H i (Some (c_hash c)) k h ns = Some i' ->
  inv_ok i'.
Proof.
  intros OK EH U A. unfold update_mpp in U.
  destruct (i_amp i && negb (c_amp c)); [discriminate|].
  destruct (negb (i_amp i) && c_amp c); [discriminate|].
  destruct (negb (cstate_eqb (i_state i) COpen)) eqn:ST; [discriminate|].
  apply negb_false_iff in ST. apply cstate_eqb_eq in ST.
  destruct (N.eqb_spec addr (i_addr i)) as [EA|]; [|discriminate]. simpl in U.
  destruct (N.eqb_spec total 0) as [|T0]; [discriminate|].
  destruct (N.ltb_spec total (i_value i)) as [|TV]; [discriminate|].
  destruct (any_htlc _ (i_htlcs i)) eqn:MM; [discriminate|].
  destruct (negb (expiry_ok g c i)) eqn:EX; [discriminate|].
  apply negb_false_iff in EX.
  assert (D : data_ok g i (new_htlc H c total (Some addr))).
  { apply new_htlc_data; auto. intro; contradiction. }
  assert (SAME : forall k' h', In (k', h') (i_htlcs i) -> h_state h' = HAccepted -> h_total h' = total).
  { intros k' h' I S. rewrite any_htlc_false in MM. specialize (MM k' h' I).
    apply andb_false_iff in MM. destruct MM as [X|X].
    - apply is_state_false in X. contradiction.
    - apply negb_false_iff in X. apply N.eqb_eq in X. exact X. }
  assert (CM : h_total (new_htlc H c total (Some addr)) <> 0%N ->
               forall k' h', In (k', h') (i_htlcs i) -> h_state h' = HAccepted ->
                             h_total h' <> 0%N -> h_total h' = h_total (new_htlc H c total (Some addr))).
  { intros _ k' h' I S _. simpl. eauto. }
  destruct (N.ltb_spec (wadd (wsum (is_state HAccepted) (i_htlcs i)) (c_amt c)) total) as [|CPL].
  - (* partial *)
    inv U. apply apply_add_none in A. destruct A as [FR [[X _]|[_ [paid E]]]]; [congruence|].
    subst i'. apply inv_ok_cons; auto. intro; congruence.
  - assert (CP : forall k0 h0, In (k0, h0) ((k, new_htlc H c total (Some addr)) :: i_htlcs i) ->
                   h_state h0 = HAccepted -> h_total h0 <> 0%N ->
                   (h_total h0 <= wsum (fun x => is_state HAccepted x && negb (N.eqb (h_total x) 0))
                                       ((k, new_htlc H c total (Some addr)) :: i_htlcs i))%N).
    { intros k0 h0 I S T.
      assert (E0 : h_total h0 = total) by (destruct I as [X|I]; [inv X; reflexivity|eauto]).
      rewrite E0. simpl. destruct (N.eqb_spec total 0); [contradiction|]. simpl.
      rewrite wadd_comm.
      erewrite (wsum_ext _ (is_state HAccepted)); [exact CPL|].
      intros k1 h1 I1. destruct (is_state HAccepted h1) eqn:S1; [|reflexivity].
      apply is_state_iff in S1. rewrite (SAME _ _ I1 S1).
      destruct (N.eqb_spec total 0); [contradiction|reflexivity]. }
    destruct (i_hodl i).
    + inv U. apply apply_add_some_open in A; auto.
      destruct A as [FR [[_ [paid E]]|[X _]]]; [|discriminate]. subst i'.
      pose (j := with_htlcs i (i_state i) (i_pre i)
                            ((k, new_htlc H c total (Some addr)) :: i_htlcs i) 0%N).
      assert (OJ : inv_ok j) by (apply inv_ok_cons; auto; intro; congruence).
      change (inv_ok (with_htlcs j CAccepted (i_pre j) (i_htlcs j) paid)).
      apply inv_ok_to_accepted; auto.
    + destruct (i_pre i) as [p|] eqn:P; [|discriminate]. inv U.
      apply apply_add_some_open in A; auto.
      destruct A as [FR [[X _]|[_ [p' [P' [RH E]]]]]]; [discriminate|]. subst i'.
      rewrite P in P'. inv P'. inv RH.
      eapply settle_map_cons_accepted; eauto; congruence.
Qed.

End Steps.
