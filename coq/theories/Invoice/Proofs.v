(* C15 — proofs about the invoice registry model (Model.v), AMP included. *)
From Coq Require Import List NArith ZArith Bool Lia.
From LV Require Import Invoice.Model.
Import ListNotations.

Ltac inv H := inversion H; subst; clear H.

(* ------------------------------------------------------------------ *)
(* small facts                                                         *)

Lemma cstate_eqb_eq a b : cstate_eqb a b = true <-> a = b.
Proof. destruct a, b; simpl; split; intro X; try reflexivity; discriminate. Qed.
Lemma hstate_eqb_eq a b : hstate_eqb a b = true <-> a = b.
Proof. destruct a, b; simpl; split; intro X; try reflexivity; discriminate. Qed.
Lemma is_state_iff s h : is_state s h = true <-> h_state h = s.
Proof. unfold is_state. apply hstate_eqb_eq. Qed.
Lemma is_state_false s h : is_state s h = false <-> h_state h <> s.
Proof.
  rewrite <- is_state_iff. destruct (is_state s h); split; intro X; congruence.
Qed.

Lemma find_htlc_in k l h : find_htlc k l = Some h -> In (k, h) l.
Proof.
  induction l as [|[k' h'] r IH]; simpl; [discriminate|].
  destruct (N.eqb_spec k k'); intro X.
  - inv X. left; reflexivity.
  - right; auto.
Qed.

Lemma find_htlc_none k l : find_htlc k l = None -> ~ In k (map fst l).
Proof.
  induction l as [|[k' h'] r IH]; simpl; [tauto|].
  destruct (N.eqb_spec k k'); [discriminate|]. intros X [Y|Y]; [congruence|]. apply IH; auto.
Qed.

Lemma in_find_htlc k l h : NoDup (map fst l) -> In (k, h) l -> find_htlc k l = Some h.
Proof.
  induction l as [|[k' h'] r IH]; simpl; [tauto|].
  intros ND [X|X].
  - inv X. rewrite N.eqb_refl. reflexivity.
  - inv ND. destruct (N.eqb_spec k k').
    + subst. exfalso. apply H1. apply (in_map fst) in X. exact X.
    + auto.
Qed.

Lemma map_htlcs_keys f l : map fst (map_htlcs f l) = map fst l.
Proof. unfold map_htlcs. rewrite map_map. reflexivity. Qed.

Lemma in_map_htlcs f l k h' :
  In (k, h') (map_htlcs f l) <-> exists h, In (k, h) l /\ h' = f h.
Proof.
  unfold map_htlcs. rewrite in_map_iff. split.
  - intros [[k0 h0] [E I]]. simpl in E. inv E. eauto.
  - intros [h [I E]]. exists (k, h). subst. auto.
Qed.

Lemma set_htlc_state_keys k s l : map fst (set_htlc_state k s l) = map fst l.
Proof.
  unfold set_htlc_state. rewrite map_map. apply map_ext. intros [a b]; simpl.
  destruct (N.eqb a k); reflexivity.
Qed.

Lemma in_set_htlc_state k s l k' h' :
  In (k', h') (set_htlc_state k s l) <->
  exists h, In (k', h) l /\ h' = if N.eqb k' k then set_hstate h s else h.
Proof.
  unfold set_htlc_state. rewrite in_map_iff. split.
  - intros [[k0 h0] [E I]]. simpl in E. destruct (N.eqb_spec k0 k); inv E.
    + exists h0. rewrite N.eqb_refl. auto.
    + exists h'. destruct (N.eqb_spec k' k); [congruence|]. auto.
  - intros [h [I E]]. exists (k', h). simpl. subst. destruct (N.eqb k' k); auto.
Qed.

Lemma any_htlc_false P l :
  any_htlc P l = false <-> forall k h, In (k, h) l -> P h = false.
Proof.
  unfold any_htlc. induction l as [|[k0 h0] r IH]; simpl.
  - split; [intros _ k h []|reflexivity].
  - rewrite orb_false_iff, IH. split.
    + intros [A B] k h [E|I]; [inv E; auto|eauto].
    + intros X. split; [apply (X k0); auto|]. intros; eapply X; eauto.
Qed.

Lemma any_htlc_true P l :
  any_htlc P l = true -> exists k h, In (k, h) l /\ P h = true.
Proof.
  unfold any_htlc. rewrite existsb_exists. intros [[k h] [I E]]. eauto.
Qed.

Lemma wsum_ext P Q l :
  (forall k h, In (k, h) l -> P h = Q h) -> wsum P l = wsum Q l.
Proof.
  induction l as [|[k h] r IH]; simpl; [reflexivity|]. intros X.
  rewrite (X k h) by auto. rewrite IH; [reflexivity|]. intros; eapply X; eauto.
Qed.

Lemma wsum_map P Q f l :
  (forall k h, In (k, h) l -> h_amt (f h) = h_amt h /\ P (f h) = Q h) ->
  wsum P (map_htlcs f l) = wsum Q l.
Proof.
  induction l as [|[k h] r IH]; simpl; [reflexivity|]. intros X.
  destruct (X k h) as [A B]; [auto|]. rewrite A, B. rewrite IH; [reflexivity|].
  intros; eapply X; eauto.
Qed.

Lemma wadd_comm a b : wadd a b = wadd b a.
Proof. unfold wadd. rewrite N.add_comm. reflexivity. Qed.

Lemma wsum_lt P l : (wsum P l < W64)%N.
Proof.
  induction l as [|[k h] r IH]; simpl; [reflexivity|].
  destruct (P h); [|exact IH]. unfold wadd. apply N.mod_lt. discriminate.
Qed.

(* the wrapped sum is the true sum modulo 2^64 *)
Fixpoint tsum (P : htlc -> bool) (l : list (N * htlc)) : N :=
  match l with
  | [] => 0%N
  | (_, h) :: r => if P h then (h_amt h + tsum P r)%N else tsum P r
  end.

Lemma wsum_tsum P l : wsum P l = (tsum P l mod W64)%N.
Proof.
  induction l as [|[k h] r IH]; simpl; [reflexivity|].
  destruct (P h); [|exact IH]. unfold wadd. rewrite IH.
  rewrite N.add_mod_idemp_r by discriminate. reflexivity.
Qed.

Lemma wsum_no_overflow P l : (tsum P l < W64)%N -> wsum P l = tsum P l.
Proof. intro X. rewrite wsum_tsum. apply N.mod_small. exact X. Qed.

Lemma u32_idem x d : u32 (u32 x + d) = u32 (x + d).
Proof. unfold u32. rewrite Zplus_mod_idemp_l. reflexivity. Qed.

(* ---- deliver only forwards what it was given ---- *)
Lemma deliver_in sb rs sb' out r :
  deliver sb rs = (sb', out) -> In r out -> In r rs.
Proof.
  revert sb sb' out. induction rs as [|x rest IH]; simpl; intros sb sb' out E I.
  - inv E. destruct I.
  - destruct (mem (res_key x) sb).
    + destruct (deliver (remove_key (res_key x) sb) rest) as [sb1 o1] eqn:D. inv E.
      destruct I as [I|I]; [left; auto|right; eapply IH; eauto].
    + right. eapply IH; eauto.
Qed.

(* ---- lookups ---- *)
Lemma find_by_hash_in h l i : find_by_hash h l = Some i -> In i l /\ i_hash i = h.
Proof.
  unfold find_by_hash. intro X. apply find_some in X. destruct X as [A B].
  apply N.eqb_eq in B. auto.
Qed.

Lemma find_by_addr_in a l i : find_by_addr a l = Some i -> In i l.
Proof. unfold find_by_addr. intro X. apply find_some in X. tauto. Qed.

Lemma lookup_ref_in kv l rh ra i : lookup_ref kv l rh ra = Some i -> In i l.
Proof.
  unfold lookup_ref. destruct kv.
  - destruct rh as [h|];
      destruct (match ra with Some a => if N.eqb a 0 then None else Some a | None => None end) as [a|].
    + destruct (find_by_addr a l) eqn:A; destruct (find_by_hash h l) eqn:B; try discriminate.
      * destruct (N.eqb _ _); [|discriminate]. intro X; inv X. eapply find_by_addr_in; eauto.
      * intro X; inv X. apply find_by_hash_in in B. tauto.
    + destruct (find_by_hash h l) eqn:B; [|discriminate]. intro X; inv X.
      apply find_by_hash_in in B. tauto.
    + destruct (find_by_addr a l) eqn:A; [|discriminate]. intro X; inv X.
      eapply find_by_addr_in; eauto.
    + discriminate.
  - destruct rh as [h|].
    + destruct (find_by_hash h l) eqn:B; [|discriminate].
      destruct (match ra with Some a => if N.eqb a 0 then None else Some a | None => None end) as [a|].
      * destruct (N.eqb _ _); [|discriminate]. intro X; inv X. apply find_by_hash_in in B. tauto.
      * intro X; inv X. apply find_by_hash_in in B. tauto.
    + destruct (match ra with Some a => if N.eqb a 0 then None else Some a | None => None end) as [a|];
        [|discriminate]. apply find_by_addr_in.
Qed.

Lemma lookup_ref_hash kv l h ra i : lookup_ref kv l (Some h) ra = Some i -> i_hash i = h.
Proof.
  unfold lookup_ref. destruct kv.
  - destruct (match ra with Some a => if N.eqb a 0 then None else Some a | None => None end) as [a|].
    + destruct (find_by_addr a l) eqn:A; destruct (find_by_hash h l) eqn:B; try discriminate.
      * destruct (N.eqb_spec (i_hash i0) (i_hash i1)); [|discriminate]. intro X; inv X.
        apply find_by_hash_in in B. destruct B. congruence.
      * intro X; inv X. apply find_by_hash_in in B. tauto.
    + destruct (find_by_hash h l) eqn:B; [|discriminate]. intro X; inv X.
      apply find_by_hash_in in B. tauto.
  - destruct (find_by_hash h l) eqn:B; [|discriminate].
    destruct (match ra with Some a => if N.eqb a 0 then None else Some a | None => None end) as [a|].
    + destruct (N.eqb _ _); [|discriminate]. intro X; inv X. apply find_by_hash_in in B. tauto.
    + intro X; inv X. apply find_by_hash_in in B. tauto.
Qed.

Lemma put_inv_hashes i' l : map i_hash (put_inv i' l) = map i_hash l.
Proof.
  unfold put_inv. rewrite map_map. apply map_ext_in. intros a _.
  destruct (N.eqb_spec (i_hash a) (i_hash i')); congruence.
Qed.

Lemma in_put_inv i' l x :
  In x (put_inv i' l) -> x = i' \/ (In x l /\ i_hash x <> i_hash i').
Proof.
  unfold put_inv. rewrite in_map_iff. intros [a [E I]].
  destruct (N.eqb_spec (i_hash a) (i_hash i')); subst; auto.
Qed.

Lemma put_inv_in i0 i' l :
  In i0 l -> i_hash i0 = i_hash i' -> In i' (put_inv i' l).
Proof.
  intros I E. unfold put_inv. apply in_map_iff. exists i0. rewrite E, N.eqb_refl. auto.
Qed.

Lemma put_inv_other i' l x :
  In x l -> i_hash x <> i_hash i' -> In x (put_inv i' l).
Proof.
  intros I E. unfold put_inv. apply in_map_iff. exists x.
  destruct (N.eqb_spec (i_hash x) (i_hash i')); [contradiction|auto].
Qed.

Lemma nodup_hash_eq l i j :
  NoDup (map i_hash l) -> In i l -> In j l -> i_hash i = i_hash j -> i = j.
Proof.
  induction l as [|a r IH]; simpl; [tauto|]. intros ND [A|A] [B|B] E; subst; auto.
  - inv ND. exfalso. apply H1. rewrite E. apply in_map. exact B.
  - inv ND. exfalso. apply H1. rewrite <- E. apply in_map. exact A.
  - inv ND. auto.
Qed.

(* ------------------------------------------------------------------ *)
(* the invariant                                                        *)

Section Inv.
Variable H : N -> N.
Variable g : cfg.

Definition data_ok (i : invoice) (h : htlc) : Prop :=
  h_hash h = i_hash i /\
  match h_addr h with
  | Some a => a = i_addr i
  | None => i_addr_req i = false \/ h_ks h = true
  end /\
  (u32 (h_height h + g_rd g) <= h_expiry h)%Z /\
  (u32 (h_height h + i_delta i) <= h_expiry h)%Z /\
  (h_total h = 0%N -> (i_value i <= h_amt h)%N) /\
  (h_total h <> 0%N -> (i_value i <= h_total h)%N).

(* htlcs that count towards the payment of an invoice in state s *)
Definition live (s : cstate) (h : htlc) : bool :=
  match s with CSettled => is_state HSettled h | _ => is_state HAccepted h end.
Definition mppl (s : cstate) (h : htlc) : bool := live s h && negb (N.eqb (h_total h) 0).

Record inv_ok (i : invoice) : Prop := mkOk {
  ok_nodup : NoDup (map fst (i_htlcs i));
  ok_data : forall k h, In (k, h) (i_htlcs i) -> data_ok i h;
  ok_nosettled : i_state i <> CSettled ->
                 forall k h, In (k, h) (i_htlcs i) -> h_state h <> HSettled;
  ok_settled : i_state i = CSettled ->
               (forall k h, In (k, h) (i_htlcs i) -> h_state h <> HAccepted) /\
               exists p, i_pre i = Some p /\ H p = i_hash i /\
                         i_paid i = wsum (is_state HSettled) (i_htlcs i);
  ok_canceled : i_state i = CCanceled ->
                forall k h, In (k, h) (i_htlcs i) -> h_state h = HCanceled;
  ok_common : forall k h k' h', In (k, h) (i_htlcs i) -> In (k', h') (i_htlcs i) ->
              mppl (i_state i) h = true -> mppl (i_state i) h' = true ->
              h_total h = h_total h';
  ok_complete : i_state i = CAccepted \/ i_state i = CSettled ->
                forall k h, In (k, h) (i_htlcs i) -> mppl (i_state i) h = true ->
                (h_total h <= wsum (mppl (i_state i)) (i_htlcs i))%N
}.

(* ---- AMP invoices: htlcs are settled per set while the invoice stays open ---- *)
Definition amp_data_ok (i : invoice) (h : htlc) : Prop :=
  (exists s, h_set h = Some s) /\ h_addr h = Some (i_addr i) /\
  (u32 (h_height h + g_rd g) <= h_expiry h)%Z /\
  (u32 (h_height h + i_delta i) <= h_expiry h)%Z /\
  h_total h <> 0%N /\ (i_value i <= h_total h)%N.

(* the htlcs that were settled together by the arrival of htlc `gen` *)
Definition batch (gen : N) (h : htlc) : bool := is_state HSettled h && N.eqb (h_gen h) gen.

Record amp_ok (i : invoice) : Prop := mkAmpOk {
  ao_nodup : NoDup (map fst (i_htlcs i));
  ao_state : i_state i = COpen \/ i_state i = CCanceled;
  ao_data : forall k h, In (k, h) (i_htlcs i) -> amp_data_ok i h;
  ao_pre : forall k h, In (k, h) (i_htlcs i) -> h_state h = HSettled ->
           exists p, h_pre h = Some p /\ H p = h_hash h;
  ao_gen : forall k h, In (k, h) (i_htlcs i) -> h_state h = HSettled ->
           exists hg, In (h_gen h, hg) (i_htlcs i) /\ h_set hg = h_set h;
  ao_common : forall k h k' h', In (k, h) (i_htlcs i) -> In (k', h') (i_htlcs i) ->
              h_state h = HSettled -> h_state h' = HSettled -> h_gen h' = h_gen h ->
              h_set h' = h_set h /\ h_total h' = h_total h;
  ao_complete : forall k h, In (k, h) (i_htlcs i) -> h_state h = HSettled ->
                (h_total h <= wsum (batch (h_gen h)) (i_htlcs i))%N
}.

Definition ok (i : invoice) : Prop := if i_amp i then amp_ok i else inv_ok i.

Definition state_ok (st : state) : Prop :=
  NoDup (map i_hash (invs st)) /\ forall i, In i (invs st) -> ok i.

Lemma ok_amp i : i_amp i = true -> ok i -> amp_ok i.
Proof. unfold ok. intros E. rewrite E. auto. Qed.
Lemma ok_nonamp i : i_amp i = false -> ok i -> inv_ok i.
Proof. unfold ok. intros E. rewrite E. auto. Qed.
Lemma ok_nodup_keys i : ok i -> NoDup (map fst (i_htlcs i)).
Proof. unfold ok. destruct (i_amp i); intro X; apply X. Qed.

Lemma data_ok_terms i st pre hs paid h :
  data_ok i h -> data_ok (with_htlcs i st pre hs paid) h.
Proof. unfold data_ok. simpl. tauto. Qed.

Lemma data_ok_state i h s : data_ok i h -> data_ok i (set_hstate h s).
Proof. unfold data_ok. simpl. tauto. Qed.

Definition settle_f (h : htlc) : htlc := if is_state HAccepted h then set_hstate h HSettled else h.

Lemma settle_f_state h :
  h_state (settle_f h) = match h_state h with HAccepted => HSettled | s => s end.
Proof. unfold settle_f, is_state. destruct (h_state h) eqn:E; simpl; auto. Qed.

Lemma settle_f_data h :
  h_amt (settle_f h) = h_amt h /\ h_total (settle_f h) = h_total h.
Proof. unfold settle_f. destruct (is_state HAccepted h); simpl; auto. Qed.

Lemma data_ok_settle_f i h : data_ok i h -> data_ok i (settle_f h).
Proof. unfold settle_f. destruct (is_state HAccepted h); auto using data_ok_state. Qed.

(* T1: record a new accepted htlc, invoice state unchanged (open / accepted) *)
Lemma inv_ok_cons i k h paid :
  inv_ok i -> i_state i = COpen \/ i_state i = CAccepted ->
  find_htlc k (i_htlcs i) = None -> data_ok i h -> h_state h = HAccepted ->
  (h_total h <> 0%N -> forall k' h', In (k', h') (i_htlcs i) -> h_state h' = HAccepted ->
                                   h_total h' <> 0%N -> h_total h' = h_total h) ->
  (i_state i = CAccepted -> h_total h = 0%N) ->
  inv_ok (with_htlcs i (i_state i) (i_pre i) ((k, h) :: i_htlcs i) paid).
Proof.
  intros OK ST FR D HA CM AC.
  assert (LV : forall x, live (i_state i) x = is_state HAccepted x)
    by (intro x; destruct ST as [E|E]; rewrite E; reflexivity).
  constructor; simpl.
  - constructor; [apply find_htlc_none; exact FR | apply OK].
  - intros k0 h0 [E|I]; [inv E|]; apply data_ok_terms; auto. eapply ok_data; eauto.
  - intros NS k0 h0 [E|I]; [inv E; congruence|]. eapply ok_nosettled; eauto.
  - intro E. destruct ST; congruence.
  - intro E. destruct ST; congruence.
  - intros k1 h1 k2 h2 I1 I2 M1 M2. unfold mppl in M1, M2. rewrite LV in M1, M2.
    apply andb_true_iff in M1. apply andb_true_iff in M2.
    destruct M1 as [A1 B1], M2 as [A2 B2].
    apply is_state_iff in A1. apply is_state_iff in A2.
    apply negb_true_iff in B1. apply negb_true_iff in B2.
    apply N.eqb_neq in B1. apply N.eqb_neq in B2.
    destruct I1 as [E1|I1]; destruct I2 as [E2|I2]; try inv E1; try inv E2.
    + reflexivity.
    + symmetry. eapply CM; eauto.
    + eapply CM; eauto.
    + eapply (ok_common i OK); eauto; unfold mppl; rewrite LV;
        apply andb_true_iff; split; try (apply is_state_iff; assumption);
        apply negb_true_iff; apply N.eqb_neq; assumption.
  - intros [E|E]; [|destruct ST; congruence].
    intros k0 h0 I M. specialize (AC E).
    assert (M0 : mppl (i_state i) h = false).
    { unfold mppl. rewrite AC. simpl. apply andb_false_r. }
    rewrite M0. destruct I as [X|I]; [inv X; congruence|].
    eapply (ok_complete i OK); eauto.
Qed.

(* T4: a duplicate legacy htlc is recorded settled on a settled invoice *)
Lemma inv_ok_cons_settled i k h :
  inv_ok i -> i_state i = CSettled ->
  find_htlc k (i_htlcs i) = None -> data_ok i h -> h_state h = HSettled ->
  h_total h = 0%N ->
  inv_ok (with_htlcs i CSettled (i_pre i) ((k, h) :: i_htlcs i)
                     (wsum (is_state HSettled) ((k, h) :: i_htlcs i))).
Proof.
  intros OK ST FR D HS T0.
  constructor; simpl.
  - constructor; [apply find_htlc_none; exact FR | apply OK].
  - intros k0 h0 [E|I]; [inv E|]; apply data_ok_terms; auto. eapply ok_data; eauto.
  - congruence.
  - intros _. destruct (ok_settled i OK ST) as [NA [p [P1 [P2 P3]]]]. split.
    + intros k0 h0 [E|I]; [inv E; congruence|]. eapply NA; eauto.
    + exists p. auto.
  - discriminate.
  - intros k1 h1 k2 h2 I1 I2 M1 M2.
    assert (M0 : mppl CSettled h = false)
      by (unfold mppl; rewrite T0; simpl; apply andb_false_r).
    destruct I1 as [E1|I1]; [inv E1; congruence|].
    destruct I2 as [E2|I2]; [inv E2; congruence|].
    rewrite <- ST in M1, M2. eapply (ok_common i OK); eauto.
  - intros _ k0 h0 I M.
    assert (M0 : mppl CSettled h = false)
      by (unfold mppl; rewrite T0; simpl; apply andb_false_r).
    rewrite M0. destruct I as [X|I]; [inv X; congruence|].
    rewrite <- ST in *. eapply (ok_complete i OK); eauto.
Qed.

(* T2: settle every accepted htlc of an open/accepted invoice *)
Lemma inv_ok_settle_all i p paid :
  inv_ok i -> i_state i = COpen \/ i_state i = CAccepted ->
  H p = i_hash i ->
  (forall k h, In (k, h) (i_htlcs i) -> h_state h = HAccepted -> h_total h <> 0%N ->
               (h_total h <= wsum (fun x => is_state HAccepted x && negb (N.eqb (h_total x) 0))
                                  (i_htlcs i))%N) ->
  paid = wsum (is_state HAccepted) (i_htlcs i) ->
  inv_ok (with_htlcs i CSettled (Some p) (map_htlcs settle_f (i_htlcs i)) paid).
Proof.
  intros OK ST HP CP PD.
  assert (NS : forall k h, In (k, h) (i_htlcs i) -> h_state h <> HSettled).
  { apply (ok_nosettled i OK). destruct ST; congruence. }
  assert (LV : forall x, live (i_state i) x = is_state HAccepted x)
    by (intro x; destruct ST as [E|E]; rewrite E; reflexivity).
  assert (MS : forall k h, In (k, h) (i_htlcs i) ->
                           mppl CSettled (settle_f h) = mppl (i_state i) h).
  { intros k h I. unfold mppl. rewrite LV. destruct (settle_f_data h) as [_ T]. rewrite T.
    f_equal. unfold live, is_state. rewrite settle_f_state. specialize (NS k h I).
    destruct (h_state h); simpl; congruence. }
  constructor; simpl.
  - rewrite map_htlcs_keys. apply OK.
  - intros k h' I. apply in_map_htlcs in I. destruct I as [h [I E]]. subst.
    apply data_ok_terms. apply data_ok_settle_f. eapply ok_data; eauto.
  - congruence.
  - intros _. split.
    + intros k h' I. apply in_map_htlcs in I. destruct I as [h [I E]]. subst.
      rewrite settle_f_state. destruct (h_state h); congruence.
    + exists p. repeat split; auto. subst paid. symmetry. apply wsum_map.
      intros k h I. split; [apply settle_f_data|].
      unfold is_state. rewrite settle_f_state. specialize (NS k h I).
      destruct (h_state h); simpl; congruence.
  - discriminate.
  - intros k1 x1 k2 x2 I1 I2 M1 M2.
    apply in_map_htlcs in I1. destruct I1 as [h1 [I1 E1]].
    apply in_map_htlcs in I2. destruct I2 as [h2 [I2 E2]]. subst.
    rewrite (MS _ _ I1) in M1. rewrite (MS _ _ I2) in M2.
    destruct (settle_f_data h1) as [_ T1]. destruct (settle_f_data h2) as [_ T2].
    rewrite T1, T2. eapply (ok_common i OK); eauto.
  - intros _ k x I M. apply in_map_htlcs in I. destruct I as [h [I E]]. subst.
    rewrite (MS _ _ I) in M. destruct (settle_f_data h) as [_ T]. rewrite T.
    rewrite (wsum_map (mppl CSettled) (mppl (i_state i)) settle_f).
    + unfold mppl in M. rewrite LV in M. apply andb_true_iff in M. destruct M as [A B].
      apply is_state_iff in A. apply negb_true_iff in B. apply N.eqb_neq in B.
      specialize (CP k h I A B).
      erewrite (wsum_ext (mppl (i_state i))); [exact CP|].
      intros k0 h0 _. unfold mppl. rewrite LV. reflexivity.
    + intros k0 h0 I0. split; [apply settle_f_data|eapply MS; eauto].
Qed.

(* T3: an open hold invoice becomes accepted *)
Lemma inv_ok_to_accepted i paid :
  inv_ok i -> i_state i = COpen ->
  (forall k h, In (k, h) (i_htlcs i) -> h_state h = HAccepted -> h_total h <> 0%N ->
               (h_total h <= wsum (fun x => is_state HAccepted x && negb (N.eqb (h_total x) 0))
                                  (i_htlcs i))%N) ->
  inv_ok (with_htlcs i CAccepted (i_pre i) (i_htlcs i) paid).
Proof.
  intros OK ST CP. constructor; simpl.
  - apply OK.
  - intros. apply data_ok_terms. eapply ok_data; eauto.
  - intros _. apply (ok_nosettled i OK). congruence.
  - discriminate.
  - discriminate.
  - intros k1 h1 k2 h2 I1 I2 M1 M2. eapply (ok_common i OK); eauto; rewrite ST; assumption.
  - intros _ k h I M. unfold mppl in M. simpl in M. apply andb_true_iff in M.
    destruct M as [A B]. apply is_state_iff in A. apply negb_true_iff in B.
    apply N.eqb_neq in B. exact (CP k h I A B).
Qed.

(* T5: cancel the invoice *)
Lemma inv_ok_cancel_all i :
  inv_ok i -> i_state i <> CSettled ->
  inv_ok (with_htlcs i CCanceled (i_pre i)
                     (map_htlcs (fun h => set_hstate h HCanceled) (i_htlcs i)) (i_paid i)).
Proof.
  intros OK ST. constructor; simpl.
  - rewrite map_htlcs_keys. apply OK.
  - intros k h' I. apply in_map_htlcs in I. destruct I as [h [I E]]. subst.
    apply data_ok_terms. apply data_ok_state. eapply ok_data; eauto.
  - intros _ k h' I. apply in_map_htlcs in I. destruct I as [h [I E]]. subst. simpl. discriminate.
  - discriminate.
  - intros _ k h' I. apply in_map_htlcs in I. destruct I as [h [I E]]. subst. reflexivity.
  - intros k1 x1 k2 x2 I1 _ M1 _. apply in_map_htlcs in I1. destruct I1 as [h [I E]]. subst.
    unfold mppl, live, is_state in M1. simpl in M1. discriminate.
  - intros [E|E]; discriminate.
Qed.

(* T6: cancel a single accepted htlc of an open invoice *)
Lemma inv_ok_cancel_one i k :
  inv_ok i -> i_state i = COpen ->
  inv_ok (with_htlcs i (i_state i) (i_pre i) (set_htlc_state k HCanceled (i_htlcs i)) (i_paid i)).
Proof.
  intros OK ST. rewrite ST.
  assert (MP : forall k' h, mppl COpen (if N.eqb k' k then set_hstate h HCanceled else h) = true ->
                            mppl COpen h = true /\
                            (if N.eqb k' k then set_hstate h HCanceled else h) = h).
  { intros k' h. destruct (N.eqb k' k); [|auto]. unfold mppl, live, is_state. simpl. discriminate. }
  constructor; simpl.
  - rewrite set_htlc_state_keys. apply OK.
  - intros k0 h' I. apply in_set_htlc_state in I. destruct I as [h [I E]]. subst.
    apply data_ok_terms. destruct (N.eqb k0 k); [apply data_ok_state|]; eapply ok_data; eauto.
  - intros _ k0 h' I. apply in_set_htlc_state in I. destruct I as [h [I E]]. subst.
    destruct (N.eqb k0 k); simpl; [discriminate|]. eapply (ok_nosettled i OK); eauto. congruence.
  - discriminate.
  - discriminate.
  - intros k1 x1 k2 x2 I1 I2 M1 M2.
    apply in_set_htlc_state in I1. destruct I1 as [h1 [I1 E1]].
    apply in_set_htlc_state in I2. destruct I2 as [h2 [I2 E2]]. subst.
    apply MP in M1. apply MP in M2. destruct M1 as [M1 R1], M2 as [M2 R2]. rewrite R1, R2.
    eapply (ok_common i OK); eauto; rewrite ST; assumption.
  - intros [E|E]; discriminate.
Qed.

End Inv.

(* ------------------------------------------------------------------ *)
(* AMP transitions preserve amp_ok                                      *)

Section AmpInv.
Variable H : N -> N.
Variable R : list (N * N) -> list (N * N).
Variable g : cfg.

Notation amp_ok := (amp_ok H g).

Lemma wsum_mapf P Q (f : N * htlc -> N * htlc) l :
  (forall kh, In kh l -> h_amt (snd (f kh)) = h_amt (snd kh) /\ P (snd (f kh)) = Q (snd kh)) ->
  wsum P (map f l) = wsum Q l.
Proof.
  induction l as [|[k h] r IH]; simpl; [reflexivity|]. intros X.
  destruct (X (k, h)) as [A B]; [auto|]. simpl in A, B.
  destruct (f (k, h)) as [k' h'] eqn:F. simpl in *. rewrite A, B.
  rewrite IH; [reflexivity|]. intros; apply X; auto.
Qed.

Lemma wsum_filter P (q : N * htlc -> bool) l :
  (forall kh, In kh l -> P (snd kh) = true -> q kh = true) ->
  wsum P (filter q l) = wsum P l.
Proof.
  induction l as [|[k h] r IH]; simpl; [reflexivity|]. intros X.
  destruct (q (k, h)) eqn:Q; simpl.
  - rewrite IH; [reflexivity|]. intros; apply X; auto.
  - destruct (P h) eqn:PH.
    + rewrite (X (k, h)) in Q; auto. discriminate.
    + apply IH. intros; apply X; auto.
Qed.

Lemma wsum_filter_true (q : N * htlc -> bool) Q l :
  (forall kh, q kh = Q (snd kh)) ->
  wsum (fun _ => true) (filter q l) = wsum Q l.
Proof.
  intro E. induction l as [|[k h] r IH]; simpl; [reflexivity|].
  rewrite E. simpl. destruct (Q h); simpl; rewrite IH; reflexivity.
Qed.

Lemma nodup_map_filter (q : N * htlc -> bool) l :
  NoDup (map fst l) -> NoDup (map fst (filter q l)).
Proof.
  induction l as [|[k h] r IH]; simpl; [auto|]. intro ND. inv ND.
  destruct (q (k, h)); simpl; [|auto]. constructor; [|auto].
  intro X. apply H2. apply in_map_iff in X. destruct X as [[k' h'] [E I]]. simpl in E. subst.
  apply filter_In in I. destruct I as [I _]. apply (in_map fst) in I. exact I.
Qed.

Lemma amp_data_ok_terms i st hs paid sets h :
  amp_data_ok g i h -> amp_data_ok g (with_amp i st hs paid sets) h.
Proof. unfold amp_data_ok. simpl. tauto. Qed.

Lemma batch_accepted gen h : h_state h <> HSettled -> batch gen h = false.
Proof.
  unfold batch. intro X. apply is_state_false in X. rewrite X. reflexivity.
Qed.

(* A1: record a new accepted htlc *)
Lemma amp_ok_cons i k h paid sets :
  amp_ok i -> find_htlc k (i_htlcs i) = None -> amp_data_ok g i h -> h_state h = HAccepted ->
  amp_ok (with_amp i (i_state i) ((k, h) :: i_htlcs i) paid sets).
Proof.
  intros OK FR D HA. constructor; simpl.
  - constructor; [apply find_htlc_none; exact FR|apply OK].
  - apply OK.
  - intros k0 h0 [E|I]; [inv E|]; apply amp_data_ok_terms; auto. eapply ao_data; eauto.
  - intros k0 h0 [E|I] S; [inv E; congruence|]. eapply ao_pre; eauto.
  - intros k0 h0 [E|I] S; [inv E; congruence|].
    destruct (ao_gen H g i OK k0 h0 I S) as [hg [IG EG]]. exists hg. auto.
  - intros k1 h1 k2 h2 [E1|I1] [E2|I2] S1 S2 G; try (inv E1; congruence); try (inv E2; congruence).
    eapply (ao_common H g i OK); eauto.
  - intros k0 h0 [E|I] S; [inv E; congruence|].
    rewrite batch_accepted by congruence. eapply ao_complete; eauto.
Qed.

(* A2: some accepted htlcs become canceled (any state of the invoice) *)
Definition cancels (h h' : htlc) : Prop :=
  h' = h \/ (h_state h = HAccepted /\ h' = set_hstate h HCanceled).

Lemma amp_ok_mapf i st' (f : N * htlc -> N * htlc) paid sets :
  amp_ok i -> st' = COpen \/ st' = CCanceled ->
  (forall kh, fst (f kh) = fst kh) ->
  (forall kh, In kh (i_htlcs i) -> cancels (snd kh) (snd (f kh))) ->
  amp_ok (with_amp i st' (map f (i_htlcs i)) paid sets).
Proof.
  intros OK ST FK FC.
  assert (BACK : forall k h', In (k, h') (map f (i_htlcs i)) ->
                 exists h, In (k, h) (i_htlcs i) /\ cancels h h').
  { intros k h' I. apply in_map_iff in I. destruct I as [[k0 h0] [E I]].
    generalize (FK (k0, h0)) (FC (k0, h0) I). rewrite E. simpl. intros; subst. eauto. }
  assert (SET : forall h h', cancels h h' -> h_state h' = HSettled -> h' = h).
  { intros h h' [E|[A E]] S; [auto|]. subst. simpl in S. discriminate. }
  assert (FWD : forall k h, In (k, h) (i_htlcs i) -> exists h', In (k, h') (map f (i_htlcs i)) /\ cancels h h').
  { intros k h I. exists (snd (f (k, h))). split; [|apply (FC (k, h) I)].
    apply in_map_iff. exists (k, h). split; [|auto].
    generalize (FK (k, h)). destruct (f (k, h)); simpl. intros; subst; reflexivity. }
  assert (WS : forall gen, wsum (batch gen) (map f (i_htlcs i)) = wsum (batch gen) (i_htlcs i)).
  { intro gen. apply wsum_mapf. intros kh I. destruct (FC kh I) as [E|[A E]]; rewrite E.
    - auto.
    - simpl. split; [reflexivity|]. unfold batch, is_state. simpl. rewrite A. reflexivity. }
  constructor; simpl.
  - rewrite map_map. erewrite map_ext; [apply OK|]. intros; apply FK.
  - exact ST.
  - intros k h' I. destruct (BACK k h' I) as [h [IH C]]. apply amp_data_ok_terms.
    generalize (ao_data H g i OK k h IH). destruct C as [E|[A E]]; subst; auto.
  - intros k h' I S. destruct (BACK k h' I) as [h [IH C]]. assert (EQ := SET _ _ C S); subst h'.
    eapply (ao_pre H g i OK); eauto.
  - intros k h' I S. destruct (BACK k h' I) as [h [IH C]]. assert (EQ := SET _ _ C S); subst h'.
    destruct (ao_gen H g i OK k h IH S) as [hg [IG EG]].
    destruct (FWD _ _ IG) as [hg' [IG' CG]]. exists hg'. split; [auto|].
    destruct CG as [E|[A E]]; subst; auto.
  - intros k1 x1 k2 x2 I1 I2 S1 S2 G.
    destruct (BACK _ _ I1) as [h1 [J1 C1]]. destruct (BACK _ _ I2) as [h2 [J2 C2]].
    assert (EQ1 := SET _ _ C1 S1). assert (EQ2 := SET _ _ C2 S2). subst x1 x2.
    eapply (ao_common H g i OK); eauto.
  - intros k h' I S. destruct (BACK k h' I) as [h [IH C]]. assert (EQ := SET _ _ C S); subst h'.
    rewrite WS. eapply ao_complete; eauto.
Qed.

Lemma amp_cancel_invoice_ok i P i' :
  amp_ok i -> amp_cancel_invoice i P = Some i' -> amp_ok i' /\ i_hash i' = i_hash i /\ i_amp i' = i_amp i.
Proof.
  intros OK. unfold amp_cancel_invoice. destruct (any_htlc _ _); [discriminate|].
  destruct (amp_cancel_fold _ _ _) as [[paid sets]|]; [|discriminate]. intro X; inv X.
  split; [|split; reflexivity]. unfold map_htlcs.
  apply amp_ok_mapf; auto.
  intros [k h] _. simpl. unfold cancel_sel, cancels.
  destruct (P h && is_state HAccepted h) eqn:E; [|auto].
  right. apply andb_true_iff in E. destruct E as [_ E]. apply is_state_iff in E. auto.
Qed.

Lemma amp_cancel_one_ok i k h i' :
  amp_ok i -> find_htlc k (i_htlcs i) = Some h -> h_state h = HAccepted ->
  amp_cancel_one i k h = Some i' -> amp_ok i' /\ i_hash i' = i_hash i /\ i_amp i' = i_amp i.
Proof.
  intros OK F HA. unfold amp_cancel_one. destruct (amp_cancel_acct _ _) as [[paid sets]|]; [|discriminate].
  intro X; inv X. split; [|split; reflexivity]. unfold set_htlc_state.
  apply amp_ok_mapf; auto.
  - apply OK.
  - intros [k0 h0]. simpl. destruct (N.eqb k0 k); reflexivity.
  - intros [k0 h0] I. simpl. unfold cancels. destruct (N.eqb_spec k0 k); simpl; [|auto]. subst.
    right. apply (in_find_htlc _ _ _ (ao_nodup H g i OK)) in I. split; congruence.
Qed.

(* A3: settle the accepted htlcs of one set *)
Definition settles (sid gen : N) (h h' : htlc) : Prop :=
  (in_set sid h && is_state HAccepted h = false /\ h' = h) \/
  (in_set sid h = true /\ h_state h = HAccepted /\
   exists p, h' = amp_settled h p gen /\ H p = h_hash h).

Lemma amp_settle_spec sid gen pm l l' :
  amp_settle_htlcs H sid gen pm l = Some l' ->
  map fst l' = map fst l /\
  (forall k h', In (k, h') l' -> exists h, In (k, h) l /\ settles sid gen h h') /\
  (forall k h, In (k, h) l -> exists h', In (k, h') l' /\ settles sid gen h h') /\
  (forall P Q, (forall k h h', In (k, h) l -> settles sid gen h h' ->
                h_amt h' = h_amt h -> P h' = Q h) -> wsum P l' = wsum Q l).
Proof.
  revert l'. induction l as [|[k h] r IH]; simpl; intros l' E.
  - inv E. repeat split; intros; try contradiction; try reflexivity.
  - destruct (amp_settle_htlcs H sid gen pm r) as [r'|]; [|discriminate].
    destruct (IH r' eq_refl) as (K & B & F & W).
    destruct (in_set sid h && is_state HAccepted h) eqn:C.
    + destruct (match find_pre k pm with Some p => _ | None => _ end) as [[p|]|]; try discriminate.
      destruct (N.eqb_spec (H p) (h_hash h)) as [HP|]; [|discriminate]. inv E.
      apply andb_true_iff in C. destruct C as [C1 C2]. apply is_state_iff in C2.
      assert (S : settles sid gen h (amp_settled h p gen)) by (right; eauto).
      split; [|split; [|split]].
      * simpl. congruence.
      * intros k0 h' [X|X]; [inversion X; subst; eexists; split; [left; reflexivity|eassumption]|].
        destruct (B _ _ X) as [h0 [I0 S0]]. exists h0. split; [right; exact I0|exact S0].
      * intros k0 h0 [X|X]; [inversion X; subst; eexists; split; [left; reflexivity|eassumption]|].
        destruct (F _ _ X) as [h1 [I1 S1]]. exists h1. split; [right; exact I1|exact S1].
      * intros P Q X. simpl. rewrite (X k h (amp_settled h p gen)); auto.
        rewrite (W P Q); [reflexivity|]. intros; eapply X; eauto.
    + inv E. assert (S : settles sid gen h h) by (left; auto).
      split; [|split; [|split]].
      * simpl. congruence.
      * intros k0 h' [X|X]; [inversion X; subst; eexists; split; [left; reflexivity|eassumption]|].
        destruct (B _ _ X) as [h0 [I0 S0]]. exists h0. split; [right; exact I0|exact S0].
      * intros k0 h0 [X|X]; [inversion X; subst; eexists; split; [left; reflexivity|eassumption]|].
        destruct (F _ _ X) as [h1 [I1 S1]]. exists h1. split; [right; exact I1|exact S1].
      * intros P Q X. simpl. rewrite (X k h h); auto.
        rewrite (W P Q); [reflexivity|]. intros; eapply X; eauto.
Qed.

Lemma in_set_iff sid h : in_set sid h = true <-> h_set h = Some sid.
Proof.
  unfold in_set. destruct (h_set h) as [s|]; [|split; discriminate].
  destruct (N.eqb_spec s sid); split; intro X; try congruence; try discriminate.
Qed.

(* the htlcs of set sid that are accepted: same total, enough in sum *)
Lemma amp_ok_settle i sid gen pm l' paid sets st' total :
  amp_ok i ->
  amp_settle_htlcs H sid gen pm (i_htlcs i) = Some l' ->
  st' = COpen \/ st' = CCanceled ->
  (forall k h, In (k, h) (i_htlcs i) -> h_state h = HSettled -> h_gen h <> gen) ->
  (exists hg, In (gen, hg) (i_htlcs i) /\ in_set sid hg = true) ->
  (forall k h, In (k, h) (i_htlcs i) -> in_set sid h = true -> h_state h = HAccepted ->
               h_total h = total) ->
  (total <= wsum (fun h => in_set sid h && is_state HAccepted h) (i_htlcs i))%N ->
  amp_ok (with_amp i st' l' paid sets).
Proof.
  intros OK E ST FRESH [hg [IG SG]] TOT SUM.
  destruct (amp_settle_spec _ _ _ _ _ E) as (K & B & F & W).
  assert (OLD : forall h h', settles sid gen h h' -> h_state h = HSettled -> h' = h).
  { intros h h' [[_ X]|[_ [A _]]] S; [auto|congruence]. }
  assert (NEW : forall h h', settles sid gen h h' -> h_state h' = HSettled ->
                (h_state h = HSettled /\ h' = h) \/
                (in_set sid h = true /\ h_state h = HAccepted /\
                 exists p, h' = amp_settled h p gen /\ H p = h_hash h)).
  { intros h h' [[_ X]|X] S; [left; subst; auto|right; auto]. }
  constructor; simpl.
  - rewrite K. apply OK.
  - exact ST.
  - intros k h' I. destruct (B _ _ I) as [h [IH S]]. apply amp_data_ok_terms.
    generalize (ao_data H g i OK k h IH).
    destruct S as [[_ X]|[_ [_ [p [X _]]]]]; subst; auto.
  - intros k h' I S. destruct (B _ _ I) as [h [IH ST0]].
    destruct (NEW _ _ ST0 S) as [[S0 X]|[_ [_ [p [X HP]]]]]; subst.
    + eapply ao_pre; eauto.
    + exists p. simpl. auto.
  - intros k h' I S. destruct (B _ _ I) as [h [IH ST0]].
    destruct (NEW _ _ ST0 S) as [[S0 X]|[IS [_ [p [X HP]]]]]; subst.
    + destruct (ao_gen H g i OK k h IH S0) as [h1 [I1 E1]].
      destruct (F _ _ I1) as [h1' [I1' S1]]. exists h1'. split; [auto|].
      destruct S1 as [[_ X]|[_ [_ [p [X _]]]]]; subst; auto.
    + simpl. destruct (F _ _ IG) as [hg' [IG' S1]]. exists hg'. split; [auto|].
      apply in_set_iff in IS. apply in_set_iff in SG.
      destruct S1 as [[_ X]|[_ [_ [p' [X _]]]]]; subst; simpl; congruence.
  - intros k1 x1 k2 x2 I1 I2 S1 S2 G.
    destruct (B _ _ I1) as [h1 [J1 T1]]. destruct (B _ _ I2) as [h2 [J2 T2]].
    destruct (NEW _ _ T1 S1) as [[A1 X1]|[A1 [C1 [p1 [X1 _]]]]];
      destruct (NEW _ _ T2 S2) as [[A2 X2]|[A2 [C2 [p2 [X2 _]]]]]; subst; simpl in *.
    + eapply (ao_common H g i OK); eauto.
    + exfalso. apply (FRESH _ _ J1 A1). congruence.
    + exfalso. apply (FRESH _ _ J2 A2). congruence.
    + apply in_set_iff in A1. apply in_set_iff in A2. split; [congruence|].
      rewrite (TOT _ _ J1), (TOT _ _ J2); auto; apply in_set_iff; auto.
  - intros k h' I S. destruct (B _ _ I) as [h [IH ST0]].
    destruct (NEW _ _ ST0 S) as [[S0 X]|[IS [HA [p [X HP]]]]]; subst.
    + rewrite (W (batch (h_gen h)) (batch (h_gen h))); [eapply ao_complete; eauto|].
      intros k0 h0 h0' I0 T0 _.
      destruct T0 as [[_ X]|[_ [A0 [p [X _]]]]]; subst; [reflexivity|].
      unfold batch, is_state. simpl. rewrite A0. simpl.
      destruct (N.eqb_spec gen (h_gen h)); [|reflexivity]. exfalso. apply (FRESH _ _ IH S0). congruence.
    + simpl. rewrite (TOT _ _ IH IS HA).
      rewrite (W (batch gen) (fun h => in_set sid h && is_state HAccepted h)); [exact SUM|].
      intros k0 h0 h0' I0 T0 _.
      destruct T0 as [[C X]|[A0 [B0 [p0 [X _]]]]]; subst.
      * rewrite C. unfold batch. destruct (is_state HSettled h0) eqn:S0; [|reflexivity].
        apply is_state_iff in S0. simpl.
        destruct (N.eqb_spec (h_gen h0) gen); [|reflexivity]. exfalso. apply (FRESH _ _ I0 S0). congruence.
      * unfold batch, is_state. simpl. rewrite N.eqb_refl, A0, B0. reflexivity.
Qed.

(* A4: the KV store drops htlcs, whole batches at a time *)
Lemma amp_ok_filter i (q : N * htlc -> bool) st' paid sets :
  amp_ok i -> st' = COpen \/ st' = CCanceled ->
  (forall k h k' h', In (k, h) (i_htlcs i) -> In (k', h') (i_htlcs i) ->
     h_state h = HSettled -> h_state h' = HSettled -> h_gen h' = h_gen h ->
     q (k, h) = true -> q (k', h') = true) ->
  (forall k h hg, In (k, h) (i_htlcs i) -> h_state h = HSettled -> q (k, h) = true ->
     In (h_gen h, hg) (i_htlcs i) -> q (h_gen h, hg) = true) ->
  amp_ok (with_amp i st' (filter q (i_htlcs i)) paid sets).
Proof.
  intros OK ST CL GN. constructor; simpl.
  - apply nodup_map_filter. apply OK.
  - exact ST.
  - intros k h I. apply filter_In in I. destruct I as [I _]. apply amp_data_ok_terms.
    eapply ao_data; eauto.
  - intros k h I S. apply filter_In in I. destruct I as [I _]. eapply ao_pre; eauto.
  - intros k h I S. apply filter_In in I. destruct I as [I Q].
    destruct (ao_gen H g i OK k h I S) as [hg [IG EG]]. exists hg. split; [|auto].
    apply filter_In. split; [auto|]. eapply GN; eauto.
  - intros k1 h1 k2 h2 I1 I2. apply filter_In in I1. apply filter_In in I2.
    destruct I1 as [I1 _], I2 as [I2 _]. eapply (ao_common H g i OK); eauto.
  - intros k h I S. apply filter_In in I. destruct I as [I Q].
    rewrite wsum_filter; [eapply ao_complete; eauto|].
    intros [k' h'] I' BT. unfold batch in BT. apply andb_true_iff in BT. destruct BT as [S' G'].
    apply is_state_iff in S'. apply N.eqb_eq in G'. simpl in *. eapply CL; eauto.
Qed.

End AmpInv.

(* ------------------------------------------------------------------ *)
(* every step preserves the invariant                                   *)

Section Steps.
Variable H : N -> N.
Variable g : cfg.

Notation inv_ok := (inv_ok H g).

Lemma map_htlcs_id f l :
  (forall k h, In (k, h) l -> f h = h) -> map_htlcs f l = l.
Proof.
  induction l as [|[k h] r IH]; simpl; [reflexivity|]. intro X.
  rewrite (X k h) by auto. rewrite IH; [reflexivity|]. intros; eapply X; eauto.
Qed.

Lemma new_htlc_data c i total addr :
  i_hash i = c_hash c -> expiry_ok g c i = true ->
  match addr with
  | Some a => a = i_addr i
  | None => i_addr_req i = false \/ valid_keysend H c = true
  end ->
  (total = 0%N -> (i_value i <= c_amt c)%N) -> (total <> 0%N -> (i_value i <= total)%N) ->
  data_ok g i (new_htlc H c total addr).
Proof.
  intros EH EX AD A0 A1. unfold expiry_ok in EX. apply andb_true_iff in EX. destruct EX as [E1 E2].
  apply negb_true_iff in E1. apply negb_true_iff in E2.
  apply Z.ltb_ge in E1. apply Z.ltb_ge in E2.
  unfold data_ok, new_htlc. simpl. rewrite !u32_idem. repeat split; auto.
Qed.

(* shapes of a successful addHTLCs *)
Lemma apply_add_none i rh k h i' :
  i_state i <> CCanceled ->
  apply_add H i rh k h None = Some i' ->
  find_htlc k (i_htlcs i) = None /\
  ((i_state i = CSettled /\
    i' = with_htlcs i CSettled (i_pre i) (map_htlcs settle_f ((k, h) :: i_htlcs i))
           (wsum (fun x => is_state HAccepted x || is_state HSettled x)
                 (map_htlcs settle_f ((k, h) :: i_htlcs i)))) \/
   ((i_state i = COpen \/ i_state i = CAccepted) /\
    exists paid, i' = with_htlcs i (i_state i) (i_pre i) ((k, h) :: i_htlcs i) paid)).
Proof.
  intros NC A. unfold apply_add in A. destruct (find_htlc k (i_htlcs i)); [discriminate|].
  split; [reflexivity|].
  destruct (i_state i) eqn:ST; simpl in *.
  - destruct (is_state HSettled h || _); [discriminate|]. inv A. right. eauto.
  - inv A. left. split; reflexivity.
  - congruence.
  - destruct (is_state HSettled h || _); [discriminate|]. inv A. right. eauto.
Qed.

Lemma apply_add_some_open i rh k h n i' :
  i_state i = COpen -> n = CAccepted \/ n = CSettled ->
  apply_add H i rh k h (Some n) = Some i' ->
  find_htlc k (i_htlcs i) = None /\
  ((n = CAccepted /\ exists paid, i' = with_htlcs i CAccepted (i_pre i) ((k, h) :: i_htlcs i) paid) \/
   (n = CSettled /\ exists p, i_pre i = Some p /\ rh = Some (H p) /\
    i' = with_htlcs i CSettled (i_pre i) (map_htlcs settle_f ((k, h) :: i_htlcs i))
           (wsum (fun x => is_state HAccepted x || is_state HSettled x)
                 (map_htlcs settle_f ((k, h) :: i_htlcs i))))).
Proof.
  intros ST N A. unfold apply_add in A. destruct (find_htlc k (i_htlcs i)); [discriminate|].
  split; [reflexivity|]. rewrite ST in *. destruct N; subst n; simpl in *.
  - destruct (is_state HSettled h || _); [discriminate|]. inv A. left. eauto.
  - destruct (i_pre i) as [p|] eqn:P; [|discriminate]. destruct rh as [rh|]; [|discriminate].
    destruct (N.eqb_spec (H p) rh); [|discriminate]. simpl in A. inv A.
    right. split; [reflexivity|]. exists p. auto.
Qed.

Lemma settle_map_cons_accepted i k h paid p :
  inv_ok i -> i_state i = COpen -> find_htlc k (i_htlcs i) = None ->
  data_ok g i h -> h_state h = HAccepted -> i_pre i = Some p -> H p = i_hash i ->
  (h_total h <> 0%N -> forall k' h', In (k', h') (i_htlcs i) -> h_state h' = HAccepted ->
                                   h_total h' <> 0%N -> h_total h' = h_total h) ->
  (forall k0 h0, In (k0, h0) ((k, h) :: i_htlcs i) -> h_state h0 = HAccepted -> h_total h0 <> 0%N ->
     (h_total h0 <= wsum (fun x => is_state HAccepted x && negb (N.eqb (h_total x) 0))
                         ((k, h) :: i_htlcs i))%N) ->
  paid = wsum (fun x => is_state HAccepted x || is_state HSettled x)
              (map_htlcs settle_f ((k, h) :: i_htlcs i)) ->
  inv_ok (with_htlcs i CSettled (i_pre i) (map_htlcs settle_f ((k, h) :: i_htlcs i)) paid).
Proof.
  intros OK ST FR D HA P HP CM CP PD.
  pose (j := with_htlcs i (i_state i) (i_pre i) ((k, h) :: i_htlcs i) 0%N).
  assert (OJ : inv_ok j).
  { apply inv_ok_cons; auto. intro E. congruence. }
  rewrite P.
  change (inv_ok (with_htlcs j CSettled (Some p) (map_htlcs settle_f (i_htlcs j)) paid)).
  apply inv_ok_settle_all.
  - exact OJ.
  - left. exact ST.
  - exact HP.
  - exact CP.
  - subst paid. apply wsum_map. intros k0 h0 I0. split; [apply settle_f_data|].
    unfold is_state. rewrite settle_f_state.
    assert (NS : h_state h0 <> HSettled).
    { eapply (ok_nosettled H g j OJ); eauto. simpl. congruence. }
    destruct (h_state h0); simpl; congruence.
Qed.

Lemma update_legacy_ok c i k h ns r i' :
  inv_ok i -> i_hash i = c_hash c ->
  update_legacy H g c i = UAdd h ns r ->
  apply_add H i (Some (c_hash c)) k h ns = Some i' ->
  inv_ok i'.
Proof.
  intros OK EH U A. unfold update_legacy in U.
  destruct (i_amp i); [discriminate|].
  destruct (cstate_eqb (i_state i) CCanceled) eqn:NC; [discriminate|].
  destruct (N.ltb_spec (c_amt c) (i_value i)) as [|AM]; [discriminate|].
  destruct (negb (valid_keysend H c) && i_addr_req i) eqn:KS; [discriminate|].
  destruct (any_htlc _ (i_htlcs i)) eqn:MP; [discriminate|].
  destruct (negb (expiry_ok g c i)) eqn:EX; [discriminate|].
  apply negb_false_iff in EX.
  assert (D : data_ok g i (new_htlc H c 0 None)).
  { apply new_htlc_data; auto.
    - apply andb_false_iff in KS. destruct KS as [X|X]; [right; apply negb_false_iff; exact X|left; exact X].
    - intro X; contradiction. }
  assert (NOMPP : forall k' h', In (k', h') (i_htlcs i) -> h_state h' = HAccepted -> h_total h' = 0%N).
  { intros k' h' I S. rewrite any_htlc_false in MP. specialize (MP k' h' I).
    apply andb_false_iff in MP. destruct MP as [X|X].
    - apply is_state_false in X. contradiction.
    - apply N.ltb_ge in X. lia. }
  destruct (i_state i) eqn:ST.
  - (* open *)
    destruct (i_hodl i).
    + inv U. apply apply_add_some_open in A; auto.
      destruct A as [FR [[_ [paid E]]|[X _]]]; [|discriminate]. subst i'.
      pose (j := with_htlcs i (i_state i) (i_pre i) ((k, new_htlc H c 0 None) :: i_htlcs i) 0%N).
      assert (OJ : inv_ok j).
      { apply inv_ok_cons; auto; try (simpl; intros; first [contradiction|congruence]). }
      change (inv_ok (with_htlcs j CAccepted (i_pre j) (i_htlcs j) paid)).
      apply inv_ok_to_accepted; auto. simpl.
      intros k0 h0 [X|I] S T; [inv X; simpl in T; contradiction|].
      exfalso. apply T. eapply NOMPP; eauto.
    + destruct (i_pre i) as [p|] eqn:P; [|discriminate]. inv U.
      apply apply_add_some_open in A; auto.
      destruct A as [FR [[X _]|[_ [p' [P' [RH E]]]]]]; [discriminate|]. subst i'.
      rewrite P in P'. inv P'. inv RH.
      eapply settle_map_cons_accepted; eauto; try congruence;
        try (simpl; intro; contradiction).
      intros k0 h0 [X|I] S T; [inv X; simpl in T; contradiction|].
      exfalso. apply T. eapply NOMPP; eauto.
  - (* settled: duplicate *)
    destruct (i_pre i) as [p|] eqn:P; [|discriminate]. inv U.
    apply apply_add_none in A; [|congruence]. destruct A as [FR [[_ E]|[[X|X] _]]]; try congruence. subst i'.
    destruct (ok_settled H g i OK ST) as [NA _].
    assert (M : map_htlcs settle_f ((k, new_htlc H c 0 None) :: i_htlcs i) =
                (k, set_hstate (new_htlc H c 0 None) HSettled) :: i_htlcs i).
    { simpl. f_equal. apply map_htlcs_id. intros k0 h0 I0. unfold settle_f.
      destruct (is_state HAccepted h0) eqn:S; [|reflexivity].
      apply is_state_iff in S. exfalso. eapply NA; eauto. }
    rewrite M.
    erewrite (wsum_ext (fun x => is_state HAccepted x || is_state HSettled x) (is_state HSettled)).
    + apply inv_ok_cons_settled; auto using data_ok_state.
    + intros k0 h0 [X|I0].
      * inv X. reflexivity.
      * assert (S : is_state HAccepted h0 = false) by (apply is_state_false; eapply NA; eauto).
        rewrite S. reflexivity.
  - discriminate.
  - (* accepted: duplicate *)
    inv U. apply apply_add_none in A; [|congruence]. destruct A as [FR [[X _]|[_ [paid E]]]]; [congruence|].
    subst i'. apply inv_ok_cons; auto; simpl; try tauto; try (intro; contradiction).
Qed.

Lemma update_mpp_ok c i k h ns r i' addr total :
  inv_ok i -> i_hash i = c_hash c ->
  update_mpp H g c i addr total = UAdd h ns r ->
  apply_add H i (Some (c_hash c)) k h ns = Some i' ->
  inv_ok i'.
Proof.
  intros OK EH U A. unfold update_mpp in U.
  destruct (i_amp i && negb (c_amp c)); [discriminate|].
  destruct (negb (i_amp i) && c_amp c); [discriminate|].
  destruct (negb (cstate_eqb (i_state i) COpen)) eqn:ST; [discriminate|].
  apply negb_false_iff in ST. apply cstate_eqb_eq in ST.
  destruct (N.eqb_spec addr (i_addr i)) as [EA|]; [|discriminate]. simpl in U. subst addr.
  destruct (N.eqb_spec total 0) as [|T0]; [discriminate|].
  destruct (N.ltb_spec total (i_value i)) as [|TV]; [discriminate|].
  destruct (any_htlc _ (i_htlcs i)) eqn:MM; [discriminate|].
  destruct (negb (expiry_ok g c i)) eqn:EX; [discriminate|].
  apply negb_false_iff in EX.
  assert (D : data_ok g i (new_htlc H c total (Some (i_addr i)))).
  { apply new_htlc_data; auto. intro; contradiction. }
  assert (SAME : forall k' h', In (k', h') (i_htlcs i) -> h_state h' = HAccepted -> h_total h' = total).
  { intros k' h' I S. rewrite any_htlc_false in MM. specialize (MM k' h' I).
    apply andb_false_iff in MM. destruct MM as [X|X].
    - apply is_state_false in X. contradiction.
    - apply negb_false_iff in X. apply N.eqb_eq in X. exact X. }
  assert (CM : h_total (new_htlc H c total (Some (i_addr i))) <> 0%N ->
               forall k' h', In (k', h') (i_htlcs i) -> h_state h' = HAccepted ->
                             h_total h' <> 0%N -> h_total h' = h_total (new_htlc H c total (Some (i_addr i)))).
  { intros _ k' h' I S _. simpl. eauto. }
  destruct (N.ltb_spec (wadd (wsum (is_state HAccepted) (i_htlcs i)) (c_amt c)) total) as [|CPL].
  - (* partial *)
    inv U. apply apply_add_none in A; [|congruence]. destruct A as [FR [[X _]|[_ [paid E]]]]; [congruence|].
    subst i'. apply inv_ok_cons; auto. intro; congruence.
  - assert (CP : forall k0 h0, In (k0, h0) ((k, new_htlc H c total (Some (i_addr i))) :: i_htlcs i) ->
                   h_state h0 = HAccepted -> h_total h0 <> 0%N ->
                   (h_total h0 <= wsum (fun x => is_state HAccepted x && negb (N.eqb (h_total x) 0))
                                       ((k, new_htlc H c total (Some (i_addr i))) :: i_htlcs i))%N).
    { intros k0 h0 I S T.
      assert (E0 : h_total h0 = total) by (destruct I as [X|I]; [inv X; reflexivity|eauto]).
      rewrite E0. simpl. destruct (N.eqb_spec total 0); [contradiction|]. simpl.
      rewrite wadd_comm.
      erewrite (wsum_ext _ (is_state HAccepted)); [exact CPL|].
      intros k1 h1 I1. destruct (is_state HAccepted h1) eqn:S1; [|reflexivity].
      apply is_state_iff in S1. rewrite (SAME _ _ I1 S1).
      destruct (N.eqb_spec total 0); [contradiction|reflexivity]. }
    destruct (i_hodl i).
    + inv U. apply apply_add_some_open in A; auto.
      destruct A as [FR [[_ [paid E]]|[X _]]]; [|discriminate]. subst i'.
      pose (j := with_htlcs i (i_state i) (i_pre i)
                            ((k, new_htlc H c total (Some (i_addr i))) :: i_htlcs i) 0%N).
      assert (OJ : inv_ok j) by (apply inv_ok_cons; auto; intro; congruence).
      change (inv_ok (with_htlcs j CAccepted (i_pre j) (i_htlcs j) paid)).
      apply inv_ok_to_accepted; auto.
    + destruct (i_pre i) as [p|] eqn:P; [|discriminate]. inv U.
      apply apply_add_some_open in A; auto.
      destruct A as [FR [[X _]|[_ [p' [P' [RH E]]]]]]; [discriminate|]. subst i'.
      rewrite P in P'. inv P'. inv RH.
      eapply settle_map_cons_accepted; eauto; congruence.
Qed.

End Steps.


(* ------------------------------------------------------------------ *)
(* shape of a step: which invoice changes, and how                      *)

Section Shape.
Variable H : N -> N.
Variable R : list (N * N) -> list (N * N).
Variable g : cfg.

Notation inv_ok := (inv_ok H g).
Notation amp_ok := (amp_ok H g).
Notation oki := (ok H g).
Notation state_ok := (state_ok H g).

Inductive trans (i i' : invoice) : Prop :=
| T_add c h ns r :
    i_amp i = false ->
    i_hash i = c_hash c -> update_invoice H g c i = UAdd h ns r ->
    apply_add H i (Some (c_hash c)) (c_key c) h ns = Some i' -> trans i i'
| T_settle p : i_state i = CAccepted -> apply_settle_hodl H i p = Some i' -> trans i i'
| T_cancel : i_amp i = false ->
             i_state i = COpen \/ i_state i = CAccepted -> apply_cancel i = Some i' -> trans i i'
| T_timeout k h :
    i_amp i = false ->
    i_state i = COpen -> find_htlc k (i_htlcs i) = Some h -> h_state h = HAccepted ->
    i' = with_htlcs i (i_state i) (i_pre i) (set_htlc_state k HCanceled (i_htlcs i)) (i_paid i) ->
    trans i i'
| TA_accept c addr total h :
    i_amp i = true -> find_htlc (c_key c) (i_htlcs i) = None ->
    amp_update R g c i addr total = MAccept h ->
    amp_apply_accept i (c_key c) h (c_set c) = Some i' -> trans i i'
| TA_cancel P : i_amp i = true -> amp_cancel_invoice i P = Some i' -> trans i i'
| TA_one k h : i_amp i = true -> find_htlc k (i_htlcs i) = Some h -> h_state h = HAccepted ->
               amp_cancel_one i k h = Some i' -> trans i i'
| TA_settle c addr total h pm hs :
    i_amp i = true -> find_htlc (c_key c) (i_htlcs i) = None ->
    amp_update R g c i addr total = MSettle h pm ->
    amp_apply_settle H (g_kv g) i (c_key c) h (c_set c) pm = Some (i', hs) -> trans i i'.

Inductive shape (l l' : list invoice) : Prop :=
| S_same : l' = l -> shape l l'
| S_new i : find_by_hash (i_hash i) l = None ->
            l' = with_amp i COpen [] 0%N [] :: l -> shape l l'
| S_put i i' : In i l -> trans i i' -> l' = put_inv i' l -> shape l l'.

(* what amp_update's accepting outcomes say about the new htlc *)
Lemma amp_update_facts c i addr total h :
  (amp_update R g c i addr total = MAccept h \/ exists pm, amp_update R g c i addr total = MSettle h pm) ->
  h = new_amp_htlc c total addr /\ i_state i = COpen /\ amp_data_ok g i h /\
  (forall k0 h0, In (k0, h0) (i_htlcs i) -> in_set (c_set c) h0 = true -> h_state h0 = HAccepted ->
                 h_total h0 = total).
Proof.
  intro U. unfold amp_update in U.
  destruct (negb (cstate_eqb (i_state i) COpen)) eqn:ST; [destruct U as [U|[pm U]]; discriminate|].
  apply negb_false_iff in ST. apply cstate_eqb_eq in ST.
  destruct (negb (N.eqb addr (i_addr i))) eqn:EA; [destruct U as [U|[pm U]]; discriminate|].
  apply negb_false_iff in EA. apply N.eqb_eq in EA.
  destruct (N.eqb_spec total 0) as [|T0]; [destruct U as [U|[pm U]]; discriminate|].
  destruct (N.ltb_spec total (i_value i)) as [|TV]; [destruct U as [U|[pm U]]; discriminate|].
  destruct (any_htlc _ _) eqn:MM; [destruct U as [U|[pm U]]; discriminate|].
  destruct (negb (expiry_ok g c i)) eqn:EX; [destruct U as [U|[pm U]]; discriminate|].
  apply negb_false_iff in EX.
  destruct (N.eqb (c_set c) 0); [destruct U as [U|[pm U]]; discriminate|].
  assert (HH : h = new_amp_htlc c total addr).
  { destruct (N.ltb _ total); [destruct U as [U|[pm U]]; [inv U; reflexivity|discriminate]|].
    destruct (i_hodl i); [destruct U as [U|[pm U]]; discriminate|].
    destruct (hashes_match _ _); destruct U as [U|[pm U]]; try discriminate. inv U. reflexivity. }
  split; [exact HH|]. split; [exact ST|]. split.
  - subst h addr. unfold expiry_ok in EX. apply andb_true_iff in EX. destruct EX as [E1 E2].
    apply negb_true_iff in E1. apply negb_true_iff in E2.
    apply Z.ltb_ge in E1. apply Z.ltb_ge in E2.
    unfold amp_data_ok, new_amp_htlc. simpl. rewrite !u32_idem. repeat split; eauto.
  - intros k0 h0 I0 S0 A0. rewrite any_htlc_false in MM.
    assert (IF : In (k0, h0) (filter (fun kh => in_set (c_set c) (snd kh) && is_state HAccepted (snd kh))
                                      (i_htlcs i))).
    { apply filter_In. split; [auto|]. simpl. rewrite S0. apply is_state_iff in A0. rewrite A0. reflexivity. }
    specialize (MM _ _ IF). apply negb_false_iff in MM. apply N.eqb_eq in MM. exact MM.
Qed.

Lemma amp_update_settle_sum c i addr total h pm :
  amp_update R g c i addr total = MSettle h pm ->
  (total <= wadd (h_amt h) (wsum (fun x => in_set (c_set c) x && is_state HAccepted x) (i_htlcs i)))%N.
Proof.
  intro U. assert (HH : h = new_amp_htlc c total addr) by (eapply amp_update_facts; eauto).
  unfold amp_update in U.
  destruct (negb _); [discriminate|]. destruct (negb _); [discriminate|].
  destruct (N.eqb total 0); [discriminate|]. destruct (N.ltb total _); [discriminate|].
  destruct (any_htlc _ _); [discriminate|]. destruct (negb _); [discriminate|].
  destruct (N.eqb (c_set c) 0); [discriminate|].
  destruct (N.ltb_spec (wadd (wsum (fun _ => true)
     (filter (fun kh => in_set (c_set c) (snd kh) && is_state HAccepted (snd kh)) (i_htlcs i))) (c_amt c)) total)
    as [|GE]; [discriminate|].
  subst h. simpl. rewrite wadd_comm.
  rewrite (wsum_filter_true _ (fun x => in_set (c_set c) x && is_state HAccepted x)) in GE; [exact GE|].
  reflexivity.
Qed.

Lemma trans_hash i i' : trans i i' -> i_hash i' = i_hash i /\ i_amp i' = i_amp i.
Proof.
  intros [c h ns r NA E U A|p S A|NA S A|k hk NA S FK HK E|c addr total h NA F U A|P NA A|k h NA F HA A
         |c addr total h pm hs NA F U A].
  - unfold apply_add in A. destruct (find_htlc _ _); [discriminate|].
    destruct (match ns with Some _ => _ | None => _ end); [|discriminate].
    destruct (align_htlcs _ _); [|discriminate]. inv A. auto.
  - unfold apply_settle_hodl in A. destruct (negb (i_hodl i)); [discriminate|].
    destruct (negb _); [discriminate|]. destruct (negb _); [discriminate|]. inv A. auto.
  - unfold apply_cancel in A. destruct (align_htlcs _ _); [|discriminate]. inv A. auto.
  - subst. auto.
  - unfold amp_apply_accept in A. destruct (any_htlc _ _); inv A. auto.
  - unfold amp_cancel_invoice in A. destruct (any_htlc _ _); [discriminate|].
    destruct (amp_cancel_fold _ _ _) as [[a b]|]; inv A. auto.
  - unfold amp_cancel_one in A. destruct (amp_cancel_acct _ _) as [[a b]|]; inv A. auto.
  - unfold amp_apply_settle in A. destruct (i_pre i); [discriminate|].
    destruct (amp_settle_htlcs _ _ _ _ _); inv A. auto.
Qed.

Lemma update_invoice_ok c i h ns r i' :
  inv_ok i -> i_hash i = c_hash c -> update_invoice H g c i = UAdd h ns r ->
  apply_add H i (Some (c_hash c)) (c_key c) h ns = Some i' -> inv_ok i'.
Proof.
  intros OK E U A. unfold update_invoice in U.
  destruct (c_mpp c) as [[a t]|].
  - eapply update_mpp_ok; eauto.
  - destruct (c_amp c); [discriminate|]. destruct (c_path c).
    + eapply update_mpp_ok; eauto.
    + eapply update_legacy_ok; eauto.
Qed.

Lemma find_none_notin k (l : list (N * htlc)) h : find_htlc k l = None -> In (k, h) l -> False.
Proof. intros F I. apply find_htlc_none in F. apply F. apply (in_map fst) in I. exact I. Qed.

Lemma amp_settle_ok i c addr total h pm i' hs :
  amp_ok i -> find_htlc (c_key c) (i_htlcs i) = None ->
  amp_update R g c i addr total = MSettle h pm ->
  amp_apply_settle H (g_kv g) i (c_key c) h (c_set c) pm = Some (i', hs) -> amp_ok i'.
Proof.
  intros OK FR U A.
  destruct (amp_update_facts c i addr total h (or_intror (ex_intro _ pm U))) as (HH & ST & D & TOT).
  assert (SUM := amp_update_settle_sum _ _ _ _ _ _ U).
  assert (HA : h_state h = HAccepted) by (subst h; reflexivity).
  assert (HS : in_set (c_set c) h = true).
  { subst h. unfold in_set, new_amp_htlc. simpl. apply N.eqb_refl. }
  assert (HT : h_total h = total) by (subst h; reflexivity).
  unfold amp_apply_settle in A. destruct (i_pre i); [discriminate|].
  destruct (amp_settle_htlcs H (c_set c) (c_key c) pm ((c_key c, h) :: i_htlcs i)) as [hs2|] eqn:SE;
    [|discriminate].
  pose (j := with_amp i (i_state i) ((c_key c, h) :: i_htlcs i) 0%N []).
  assert (OJ : amp_ok j) by (apply amp_ok_cons; auto).
  assert (FRESH : forall k0 h0, In (k0, h0) (i_htlcs j) -> h_state h0 = HSettled -> h_gen h0 <> c_key c).
  { simpl. intros k0 h0 [X|I0] S0; [inv X; congruence|].
    destruct (ao_gen H g i OK k0 h0 I0 S0) as [hg [IG _]]. intro X. rewrite X in IG.
    eapply find_none_notin; eauto. }
  assert (O1 : forall st paid sets, st = COpen \/ st = CCanceled ->
                                    amp_ok (with_amp j st hs2 paid sets)).
  { intros st paid sets STX. eapply (amp_ok_settle H g j (c_set c) (c_key c) pm hs2 paid sets st total); eauto.
    - exists h. split; [left; reflexivity|exact HS].
    - simpl. intros k0 h0 [X|I0] S0 A0; [inv X; auto|eauto].
    - simpl. rewrite HS. apply is_state_iff in HA. rewrite HA. simpl. exact SUM. }
  destruct (g_kv g && match get_set (c_set c) (i_sets i) with Some (HSettled, _) => true | _ => false end);
    injection A as EI EH; subst i' hs.
  - (* KV: older records of the set are dropped *)
    pose (j1 := with_amp j (i_state i) hs2 0%N []).
    assert (OJ1 : amp_ok j1) by (apply O1; apply OK).
    destruct (amp_settle_spec H _ _ _ _ _ SE) as (K & B & F & W).
    match goal with |- amp_ok (with_amp i _ (filter ?q hs2) ?paid ?sets) =>
      change (amp_ok (with_amp j1 (i_state i) (filter q (i_htlcs j1)) paid sets)); set (keep := q) end.
    assert (ND1 : NoDup (map fst ((c_key c, h) :: i_htlcs i))) by apply (ao_nodup H g j OJ).
    assert (FH : forall k0, (if (k0 =? c_key c)%N then Some h else find_htlc k0 (i_htlcs i)) =
                            find_htlc k0 ((c_key c, h) :: i_htlcs i)) by reflexivity.
    assert (KEEP : forall k0 x, In (k0, x) hs2 -> keep (k0, x) = true ->
                   h_state x = HSettled -> in_set (c_set c) x = true -> h_gen x = c_key c).
    { intros k0 x I0 Q S0 IS0. destruct (B _ _ I0) as [h0 [J0 T0]].
      unfold keep in Q. cbn [fst snd] in Q. rewrite IS0 in Q. cbn [negb orb] in Q.
      rewrite FH, (in_find_htlc _ _ _ ND1 J0) in Q.
      destruct T0 as [[C X]|[_ [A0 [p [X _]]]]]; subst; [|reflexivity].
      apply is_state_iff in Q. congruence. }
    apply amp_ok_filter; [exact OJ1|apply OK| |]; cbn [i_htlcs j1 with_amp].
    + intros k1 x1 k2 x2 I1 I2 S1 S2 G Q1.
      destruct (in_set (c_set c) x2) eqn:IS2; [|unfold keep; cbn [fst snd]; rewrite IS2; reflexivity].
      destruct (ao_common H g j1 OJ1 k1 x1 k2 x2 I1 I2 S1 S2 G) as [ES _].
      assert (IS1 : in_set (c_set c) x1 = true) by (unfold in_set in *; rewrite <- ES; exact IS2).
      assert (G1 := KEEP _ _ I1 Q1 S1 IS1).
      destruct (B _ _ I2) as [h2 [J2 T2]]. unfold keep. cbn [fst snd]. rewrite IS2. cbn [negb orb].
      rewrite FH, (in_find_htlc _ _ _ ND1 J2).
      destruct T2 as [[C X]|[_ [A2 _]]]; [|apply is_state_iff; exact A2]. subst x2.
      exfalso. apply (FRESH _ _ J2 S2). congruence.
    + intros k1 x1 hg I1 S1 Q1 IG.
      destruct (in_set (c_set c) hg) eqn:ISG; [|unfold keep; cbn [fst snd]; rewrite ISG; reflexivity].
      destruct (ao_gen H g j1 OJ1 k1 x1 I1 S1) as [hg' [IG' EG']].
      assert (hg' = hg).
      { assert (NDJ := ao_nodup H g j1 OJ1). simpl in NDJ.
        apply (in_find_htlc _ _ _ NDJ) in IG. apply (in_find_htlc _ _ _ NDJ) in IG'. congruence. }
      subst hg'.
      assert (IS1 : in_set (c_set c) x1 = true) by (unfold in_set in *; rewrite <- EG'; exact ISG).
      rewrite (KEEP _ _ I1 Q1 S1 IS1). unfold keep. cbn [fst snd]. rewrite N.eqb_refl.
      apply is_state_iff in HA. rewrite HA. apply orb_true_r.
  - change (amp_ok (with_amp j (i_state i) hs2 (wadd (i_paid i) (h_amt h))
       match get_set (c_set c) (set_accept (c_set c) (h_amt h) (i_sets i)) with
       | Some (_, a) => put_set (c_set c) (HSettled, a) (set_accept (c_set c) (h_amt h) (i_sets i))
       | None => set_accept (c_set c) (h_amt h) (i_sets i)
       end)).
    apply O1. apply OK.
Qed.

Lemma trans_ok i i' : oki i -> trans i i' -> oki i'.
Proof.
  intros OK T. destruct (trans_hash i i' T) as [_ EA]. unfold ok in *. rewrite EA.
  destruct T as [c h ns r NA E U A|p S A|NA S A|k hk NA S FK HK E|c addr total h NA F U A|P NA A|k h NA F HA A
         |c addr total h pm hs NA F U A]; try rewrite NA in *.
  - eapply update_invoice_ok; eauto.
  - destruct (i_amp i).
    + exfalso. destruct (ao_state H g i OK); congruence.
    + unfold apply_settle_hodl in A. destruct (negb (i_hodl i)); [discriminate|].
      destruct (negb (any_htlc _ _)); [discriminate|].
      destruct (N.eqb_spec (H p) (i_hash i)) as [HP|]; [|discriminate]. simpl in A. inv A.
      apply inv_ok_settle_all; auto.
      intros k h I SA T.
      assert (M : mppl (i_state i) h = true).
      { unfold mppl. rewrite S. simpl. apply andb_true_iff. split; [apply is_state_iff; auto|].
        apply negb_true_iff. apply N.eqb_neq. exact T. }
      generalize (ok_complete H g i OK (or_introl S) k h I M). rewrite S. unfold mppl. simpl. auto.
  - unfold apply_cancel in A. unfold align_htlcs in A.
    destruct (any_htlc _ _); [discriminate|]. inv A.
    apply inv_ok_cancel_all; auto. destruct S; congruence.
  - subst. apply inv_ok_cancel_one; auto.
  - destruct (amp_update_facts c i addr total h (or_introl U)) as (HH & ST & D & _).
    unfold amp_apply_accept in A. destruct (any_htlc _ _); inv A.
    apply amp_ok_cons; auto; subst h; reflexivity.
  - eapply amp_cancel_invoice_ok; eauto.
  - eapply amp_cancel_one_ok; eauto.
  - eapply amp_settle_ok; eauto.
Qed.

Lemma state_ok_put' st i0 i' sb :
  state_ok st -> In i0 (invs st) -> i_hash i' = i_hash i0 -> oki i' ->
  state_ok (mkState (put_inv i' (invs st)) sb).
Proof.
  intros [ND OK] I E OI. split; simpl.
  - rewrite put_inv_hashes. exact ND.
  - intros x X. apply in_put_inv in X. destruct X as [X|[X _]]; subst; auto.
Qed.

Lemma ok_new i : oki (with_amp i COpen [] 0%N []).
Proof.
  unfold ok. simpl. destruct (i_amp i); constructor; simpl;
    try (intros; contradiction); try discriminate; try (constructor; fail); auto;
    intros [E|E]; discriminate.
Qed.

Lemma shape_ok st l' sb : state_ok st -> shape (invs st) l' -> state_ok (mkState l' sb).
Proof.
  intros SO [E|i F E|i i' I T E]; subst.
  - destruct SO as [A B]. split; auto.
  - destruct SO as [ND OK]. split; simpl.
    + constructor; [|exact ND]. intro X. apply in_map_iff in X. destruct X as [x [E I]].
      unfold find_by_hash in F. eapply find_none in F; eauto. rewrite E, N.eqb_refl in F. discriminate.
    + intros x [E|I]; [|auto]. subst. apply ok_new.
  - eapply state_ok_put'; eauto.
    + apply trans_hash. exact T.
    + eapply trans_ok; eauto. destruct SO as [_ OK]. auto.
Qed.

Lemma add_invoice_shape st i st' a :
  add_invoice g st i = (st', a) -> shape (invs st) (invs st') /\ subs st' = subs st.
Proof.
  unfold add_invoice. destruct (_ && _ && _); [intro X; inv X; split; [apply S_same|]; auto|].
  destruct (find_by_hash (i_hash i) (invs st)) eqn:F; [intro X; inv X; split; [apply S_same|]; auto|].
  destruct (_ && _); intro X; inv X; split; auto; [apply S_same; auto|].
  eapply S_new; eauto.
Qed.

(* a UAdd can only come out of a context whose invoice ref carries the hash,
   and never on an AMP invoice *)
Lemma uadd_ref c i h ns r :
  update_invoice H g c i = UAdd h ns r ->
  (i_amp i && c_amp c && match c_mpp c with Some _ => true | None => false end) = false ->
  fst (ctx_ref c) = Some (c_hash c) /\ i_amp i = false.
Proof.
  unfold update_invoice, ctx_ref. intros U G.
  destruct (c_mpp c) as [[a t]|].
  - unfold update_mpp in U. destruct (i_amp i) eqn:IA; destruct (c_amp c) eqn:CA; simpl in *;
      try discriminate; destruct (c_path c); auto.
  - destruct (c_amp c) eqn:CA; [discriminate|]. destruct (c_path c).
    + unfold update_mpp in U. rewrite CA in U. destruct (i_amp i); simpl in *; [discriminate|auto].
    + unfold update_legacy in U. destruct (i_amp i); [discriminate|auto].
Qed.

Lemma notify_amp_shape st c i addr total st' o :
  In i (invs st) -> i_amp i = true ->
  notify_amp H R g st c i addr total = (st', o) -> shape (invs st) (invs st').
Proof.
  intros II IA. unfold notify_amp.
  destruct (find_htlc (c_key c) (i_htlcs i)) as [h0|] eqn:F.
  - destruct (h_state h0).
    + intro X; inv X. apply S_same; reflexivity.
    + intro X; inv X. apply S_same; reflexivity.
    + destruct (h_pre h0); [|intro X; inv X; apply S_same; reflexivity].
      destruct (_ && _); [|intro X; inv X; apply S_same; reflexivity].
      destruct (deliver _ _). intro X; inv X. apply S_same; reflexivity.
  - destruct (amp_update R g c i addr total) as [oc|h|h|h|h pm] eqn:U.
    + destruct (deliver _ _). intro X; inv X. apply S_same; reflexivity.
    + destruct (g_kv g).
      * destruct (amp_apply_accept i (c_key c) h (c_set c)) as [i'|] eqn:A;
          [|intro X; inv X; apply S_same; reflexivity].
        destruct (dup_set st i (c_set c)); intro X; inv X; [apply S_same; reflexivity|].
        simpl. eapply S_put; eauto. eapply TA_accept; eauto.
      * destruct (dup_set st i (c_set c)); [intro X; inv X; apply S_same; reflexivity|].
        destruct (amp_apply_accept i (c_key c) h (c_set c)) as [i'|] eqn:A;
          intro X; inv X; [|apply S_same; reflexivity].
        simpl. eapply S_put; eauto. eapply TA_accept; eauto.
    + destruct (g_kv g); [|destruct (dup_set st i (c_set c))]; intro X; inv X; apply S_same; reflexivity.
    + destruct (amp_cancel_invoice i (in_set (c_set c))) as [i'|] eqn:A;
        [|intro X; inv X; apply S_same; reflexivity].
      destruct (deliver _ _). intro X; inv X. simpl. eapply S_put; eauto. eapply TA_cancel; eauto.
    + destruct (find_pre (c_key c) pm); [|intro X; inv X; apply S_same; reflexivity].
      destruct (g_kv g) eqn:KV.
      * destruct (amp_apply_settle H true i (c_key c) h (c_set c) pm) as [[i' hs]|] eqn:A;
          [|intro X; inv X; apply S_same; reflexivity].
        destruct (dup_set st i (c_set c)); [intro X; inv X; apply S_same; reflexivity|].
        simpl. destruct (deliver _ _). intro X; inv X. simpl.
        eapply S_put; eauto. eapply TA_settle; eauto. rewrite KV. eauto.
      * destruct (dup_set st i (c_set c)); [intro X; inv X; apply S_same; reflexivity|].
        destruct (amp_apply_settle H false i (c_key c) h (c_set c) pm) as [[i' hs]|] eqn:A;
          [|intro X; inv X; apply S_same; reflexivity].
        simpl. destruct (deliver _ _). intro X; inv X. simpl.
        eapply S_put; eauto. eapply TA_settle; eauto. rewrite KV. eauto.
Qed.

Lemma notify_locked_shape st c st' o :
  notify_locked H R g st c = (st', o) -> shape (invs st) (invs st').
Proof.
  unfold notify_locked. destruct (ctx_ref c) as [rh ra] eqn:CR.
  destruct (lookup_ref (g_kv g) (invs st) rh ra) as [i|] eqn:L;
    [|unfold fail_now; intro X; inv X; apply S_same; reflexivity].
  assert (II : In i (invs st)) by (eapply lookup_ref_in; eauto).
  destruct (i_amp i && match find_htlc (c_key c) (i_htlcs i) with Some h => _ | None => false end);
    [intro X; inv X; apply S_same; reflexivity|].
  destruct (i_amp i && c_amp c && match c_mpp c with Some _ => true | None => false end) eqn:G.
  { destruct (c_mpp c) as [[a t]|]; [|intro X; inv X; apply S_same; reflexivity].
    apply notify_amp_shape; auto.
    apply andb_true_iff in G. destruct G as [G _]. apply andb_true_iff in G. tauto. }
  match goal with
  | |- (match ?u with Some _ => _ | None => _ end) = _ -> _ => destruct u as [[[i' r] ch]|] eqn:U
  end; [|intro X; inv X; apply S_same; reflexivity].
  assert (SH : shape (invs st) (if ch then put_inv i' (invs st) else invs st)).
  { destruct (find_htlc (c_key c) (i_htlcs i)) as [h0|] eqn:F.
    - destruct (h_state h0); try (inv U; apply S_same; reflexivity).
      destruct (i_pre i); [|discriminate]. destruct (N.eqb _ _); inv U. apply S_same; reflexivity.
    - destruct (update_invoice H g c i) as [oc|h ns r0|] eqn:UI; try discriminate.
      + inv U. apply S_same; reflexivity.
      + destruct (apply_add H i rh (c_key c) h ns) as [i2|] eqn:A; [|discriminate]. inv U.
        destruct (uadd_ref c i h ns r0 UI G) as [RH NA]. rewrite CR in RH. simpl in RH.
        subst rh. eapply S_put; eauto.
        eapply T_add; eauto. eapply lookup_ref_hash; eauto. }
  destruct r as [[k p ah oc|k ah oc]|].
  - destruct (deliver _ _) as [sb out]. intro X; inv X. exact SH.
  - destruct (deliver _ _) as [sb out]. intro X; inv X. exact SH.
  - destruct (find_htlc (c_key c) (i_htlcs i')); intro X; inv X; [exact SH|apply S_same; reflexivity].
Qed.

Definition shape2 (l l' : list invoice) : Prop := exists l1, shape l l1 /\ shape l1 l'.

Lemma jit_shape st i : shape (invs st) (invs (fst (add_invoice g st i))).
Proof. destruct (add_invoice g st i) as [s2 a2] eqn:AI. simpl. eapply add_invoice_shape; eauto. Qed.

Lemma process_keysend_shape st c st1 :
  process_keysend H g st c = Some st1 -> shape (invs st) (invs st1).
Proof.
  unfold process_keysend. destruct (c_ks c); try discriminate.
  - intro X; inv X. apply S_same; reflexivity.
  - destruct (negb _); [discriminate|]. destruct (c_mpp c); [discriminate|].
    destruct (Z.ltb _ _); [discriminate|]. intro X; inv X. apply jit_shape.
Qed.

Lemma process_amp_shape st c st1 :
  process_amp g st c = Some st1 -> shape (invs st) (invs st1).
Proof.
  unfold process_amp. destruct (c_mpp c) as [[a t]|]; [|discriminate].
  destruct (Z.ltb _ _); [discriminate|]. intro X; inv X. apply jit_shape.
Qed.

Lemma step_shape st e st' o : step H R g st e = (st', o) -> shape2 (invs st) (invs st').
Proof.
  destruct e as [i|c|p|h f|h a k|sid k]; simpl.
  - destruct (add_invoice g st i) as [s1 a] eqn:A. intro X; inv X.
    exists (invs st). split; [apply S_same; reflexivity|]. eapply add_invoice_shape; eauto.
  - unfold notify. destruct (g_amp g && c_amp c).
    + destruct (process_amp g st c) as [st1|] eqn:PK.
      * intro NL. exists (invs st1). split; [eapply process_amp_shape; eauto|eapply notify_locked_shape; eauto].
      * unfold fail_now. intro X; inv X. exists (invs st'). split; apply S_same; reflexivity.
    + destruct (g_keysend g && negb (c_amp c)).
      * destruct (process_keysend H g st c) as [st1|] eqn:PK.
        -- intro NL. exists (invs st1). split; [eapply process_keysend_shape; eauto|eapply notify_locked_shape; eauto].
        -- unfold fail_now. intro X; inv X. exists (invs st'). split; apply S_same; reflexivity.
      * intro NL. exists (invs st). split; [apply S_same; reflexivity|eapply notify_locked_shape; eauto].
  - unfold settle_hodl. exists (invs st). split; [apply S_same; reflexivity|].
    destruct (lookup_ref _ _ _ _) as [i|] eqn:L; [|inv H0; apply S_same; reflexivity].
    destruct (i_state i) eqn:S; try (inv H0; apply S_same; reflexivity).
    destruct (apply_settle_hodl H i p) as [i'|] eqn:A; [|inv H0; apply S_same; reflexivity].
    destruct (deliver _ _) as [sb out]. inv H0. simpl.
    eapply S_put; eauto. eapply lookup_ref_in; eauto. eapply T_settle; eauto.
  - unfold cancel_invoice. exists (invs st). split; [apply S_same; reflexivity|].
    destruct (lookup_ref _ _ _ _) as [i|] eqn:L; [|inv H0; apply S_same; reflexivity].
    assert (II : In i (invs st)) by (eapply lookup_ref_in; eauto).
    assert (C : forall i', (if i_amp i then amp_cancel_invoice i (fun _ => true) else apply_cancel i) = Some i' ->
                           i_state i = COpen \/ i_state i = CAccepted -> trans i i').
    { intros i' A S. destruct (i_amp i) eqn:IA; [eapply TA_cancel; eauto|eapply T_cancel; eauto]. }
    destruct (i_state i) eqn:S; try (inv H0; apply S_same; reflexivity).
    + simpl in H0. destruct (if i_amp i then _ else _) as [i'|] eqn:A; [|inv H0; apply S_same; reflexivity].
      destruct (deliver _ _) as [sb out]. inv H0. simpl. eapply S_put; eauto.
    + destruct (cstate_eqb CAccepted CAccepted && negb f); [inv H0; apply S_same; reflexivity|].
      destruct (if i_amp i then _ else _) as [i'|] eqn:A; [|inv H0; apply S_same; reflexivity].
      destruct (deliver _ _) as [sb out]. inv H0. simpl. eapply S_put; eauto.
  - unfold timeout_htlc. exists (invs st). split; [apply S_same; reflexivity|].
    destruct (lookup_ref _ _ _ _) as [i|] eqn:L; [|inv H0; apply S_same; reflexivity].
    destruct (negb (cstate_eqb (i_state i) COpen)) eqn:S; [inv H0; apply S_same; reflexivity|].
    apply negb_false_iff in S. apply cstate_eqb_eq in S.
    destruct (find_htlc k (i_htlcs i)) as [h0|] eqn:FK; [|inv H0; apply S_same; reflexivity].
    destruct (negb (is_state HAccepted h0)) eqn:IA; [inv H0; apply S_same; reflexivity|].
    apply negb_false_iff in IA. apply is_state_iff in IA.
    destruct (i_amp i) eqn:AM.
    + destruct (amp_cancel_one i k h0) as [i'|] eqn:A; [|inv H0; apply S_same; reflexivity].
      destruct (deliver _ _) as [sb out]. inv H0. simpl.
      eapply S_put; eauto. eapply lookup_ref_in; eauto. eapply TA_one; eauto.
    + destruct (deliver _ _) as [sb out]. inv H0. simpl.
      eapply S_put; eauto. eapply lookup_ref_in; eauto. eapply T_timeout; eauto.
  - unfold timeout_set. exists (invs st). split; [apply S_same; reflexivity|].
    destruct (find _ (invs st)) as [i|] eqn:L; [|inv H0; apply S_same; reflexivity].
    apply find_some in L. destruct L as [II AH].
    destruct (negb (cstate_eqb (i_state i) COpen)) eqn:S; [inv H0; apply S_same; reflexivity|].
    destruct (find_htlc k (i_htlcs i)) as [h0|] eqn:FK; [|inv H0; apply S_same; reflexivity].
    destruct (negb (in_set sid h0)); [inv H0; apply S_same; reflexivity|].
    destruct (negb (is_state HAccepted h0)) eqn:IA; [inv H0; apply S_same; reflexivity|].
    apply negb_false_iff in IA. apply is_state_iff in IA.
    destruct (amp_cancel_one i k h0) as [i'|] eqn:A; [|inv H0; apply S_same; reflexivity].
    destruct (deliver _ _) as [sb out]. inv H0. simpl.
    apply andb_true_iff in AH. destruct AH as [AM _].
    eapply S_put; eauto. eapply TA_one; eauto.
Qed.

Theorem step_ok st e st' o : state_ok st -> step H R g st e = (st', o) -> state_ok st'.
Proof.
  intros SO ST. apply step_shape in ST. destruct ST as [l1 [S1 S2]].
  assert (O1 : state_ok (mkState l1 [])) by (eapply shape_ok; eauto).
  generalize (shape_ok (mkState l1 []) (invs st') (subs st') O1 S2).
  destruct st'; auto.
Qed.

Lemma init_ok : state_ok init.
Proof. split; simpl; [constructor|intros i []]. Qed.

Theorem run_ok st evs st' outs :
  state_ok st -> run H R g st evs = (st', outs) -> state_ok st'.
Proof.
  revert st st' outs. induction evs as [|e r IH]; simpl; intros st st' outs SO RR.
  - inv RR. exact SO.
  - destruct (step H R g st e) as [st1 o] eqn:S. destruct (run H R g st1 r) as [st2 os] eqn:R2.
    inv RR. eapply IH; [|eauto]. eapply step_ok; eauto.
Qed.

End Shape.

(* ------------------------------------------------------------------ *)
(* states only move forward                                             *)

Definition hstate_le (a b : hstate) : Prop := a = b \/ a = HAccepted.
Definition cstate_le (a b : cstate) : Prop :=
  a = b \/ a = COpen \/ (a = CAccepted /\ (b = CSettled \/ b = CCanceled)).
Definition same_rec (h h' : htlc) : Prop :=
  h_amt h = h_amt h' /\ h_total h = h_total h' /\ h_expiry h = h_expiry h' /\
  h_height h = h_height h' /\ h_hash h = h_hash h' /\ h_set h = h_set h'.
(* kv = the registry runs on the channeldb KV store: there the records of an
   AMP invoice are NOT guaranteed to persist (finding C15-F2, see
   amp_kv_reuse_refuted); everything else is. *)
Definition inv_le (kv : bool) (i i' : invoice) : Prop :=
  i_hash i' = i_hash i /\ i_value i' = i_value i /\ i_addr i' = i_addr i /\
  i_amp i' = i_amp i /\
  cstate_le (i_state i) (i_state i') /\
  (forall p, i_state i = CSettled -> i_pre i = Some p -> i_pre i' = Some p) /\
  (i_amp i = false \/ kv = false ->
   forall k h, In (k, h) (i_htlcs i) ->
               exists h', In (k, h') (i_htlcs i') /\ hstate_le (h_state h) (h_state h') /\ same_rec h h').
Definition state_le (kv : bool) (l l' : list invoice) : Prop :=
  forall i, In i l -> exists i', In i' l' /\ inv_le kv i i'.

Lemma same_rec_refl h : same_rec h h.
Proof. unfold same_rec. tauto. Qed.
Lemma same_rec_set h s : same_rec h (set_hstate h s).
Proof. unfold same_rec. simpl. tauto. Qed.

Lemma inv_le_refl kv i : inv_le kv i i.
Proof.
  unfold inv_le. repeat split; auto. left; reflexivity.
  intros _ k h I. exists h. split; [auto|]. split; [left; reflexivity|apply same_rec_refl].
Qed.

Lemma hstate_le_trans a b c : hstate_le a b -> hstate_le b c -> hstate_le a c.
Proof. unfold hstate_le. intros [X|X] [Y|Y]; subst; auto. Qed.

Lemma cstate_le_trans a b c : cstate_le a b -> cstate_le b c -> cstate_le a c.
Proof.
  unfold cstate_le. destruct a, b, c; intros X Y; try tauto;
    repeat match goal with
           | X : _ \/ _ |- _ => destruct X
           | X : _ /\ _ |- _ => destruct X
           end; try discriminate; tauto.
Qed.

Lemma cstate_le_settled b : cstate_le CSettled b -> b = CSettled.
Proof. unfold cstate_le. intros [X|[X|[X _]]]; congruence. Qed.

Lemma inv_le_trans kv a b c : inv_le kv a b -> inv_le kv b c -> inv_le kv a c.
Proof.
  intros (A1 & A2 & A3 & A4 & A5 & A6 & A7) (B1 & B2 & B3 & B4 & B5 & B6 & B7).
  unfold inv_le. repeat split; try congruence.
  - eapply cstate_le_trans; eauto.
  - intros p S P. apply B6; auto. rewrite S in A5. apply cstate_le_settled in A5. auto.
  - intros G k h I. destruct (A7 G k h I) as [h1 [I1 [L1 R1]]].
    assert (G' : i_amp b = false \/ kv = false) by (destruct G; [left; congruence|right; auto]).
    destruct (B7 G' k h1 I1) as [h2 [I2 [L2 R2]]].
    exists h2. split; [auto|]. split; [eapply hstate_le_trans; eauto|].
    unfold same_rec in *. intuition congruence.
Qed.

Lemma state_le_refl kv l : state_le kv l l.
Proof. intros i I. exists i. split; [auto|apply inv_le_refl]. Qed.

Lemma state_le_trans kv a b c : state_le kv a b -> state_le kv b c -> state_le kv a c.
Proof.
  intros X Y i I. destruct (X i I) as [i1 [I1 L1]]. destruct (Y i1 I1) as [i2 [I2 L2]].
  exists i2. split; [auto|eapply inv_le_trans; eauto].
Qed.

Section Mono.
Variable H : N -> N.
Variable R : list (N * N) -> list (N * N).
Variable g : cfg.

Lemma align_le s l l' :
  align_htlcs s l = Some l' ->
  forall k h, In (k, h) l ->
              exists h', In (k, h') l' /\ hstate_le (h_state h) (h_state h') /\ same_rec h h'.
Proof.
  unfold align_htlcs. intros A k h I.
  assert (ID : exists h', In (k, h') l /\ hstate_le (h_state h) (h_state h') /\ same_rec h h').
  { exists h. split; [auto|]. split; [left; reflexivity|apply same_rec_refl]. }
  destruct s.
  - destruct (any_htlc _ _); inv A. exact ID.
  - inv A. exists (settle_f h). split; [apply in_map_htlcs; eauto|].
    split.
    + rewrite settle_f_state. unfold hstate_le. destruct (h_state h); auto.
    + unfold settle_f. destruct (is_state HAccepted h); [apply same_rec_set|apply same_rec_refl].
  - destruct (any_htlc (is_state HSettled) l) eqn:AS; inv A.
    exists (set_hstate h HCanceled). split; [apply in_map_htlcs; eauto|].
    split; [|apply same_rec_set]. simpl. rewrite any_htlc_false in AS.
    specialize (AS k h I). apply is_state_false in AS. unfold hstate_le.
    destruct (h_state h); auto. congruence.
  - destruct (any_htlc _ _); inv A. exact ID.
Qed.

Lemma trans_le i i' : ok H g i -> trans H R g i i' -> inv_le (g_kv g) i i'.
Proof.
  intros OK T. destruct (trans_hash H R g i i' T) as [EH EA].
  unfold ok in OK.
  destruct T as [c h ns r NA E U A|p S A|NA S A|k hk NA S FK HK E|c addr total h NA F U A|P NA A|k h NA F HA A
         |c addr total h pm hs NA F U A]; try rewrite NA in OK.
  - unfold apply_add in A. destruct (find_htlc _ _); [discriminate|].
    destruct (match ns with Some _ => _ | None => _ end) as [s1|] eqn:S1; [|discriminate].
    destruct (align_htlcs s1 _) as [hs2|] eqn:AL; [|discriminate]. inv A.
    unfold inv_le. simpl. repeat split; auto.
    + destruct ns as [n|]; [|inv S1; left; reflexivity].
      unfold cstate_le. destruct (i_state i); try discriminate; auto.
      destruct n; simpl in S1; try discriminate; auto.
      * destruct (i_pre i); [|discriminate]. destruct (N.eqb _ _); inv S1. auto.
      * inv S1. auto.
    + intros _ k0 h0 I. eapply align_le; eauto. right. exact I.
  - unfold apply_settle_hodl in A. destruct (negb (i_hodl i)); [discriminate|].
    destruct (negb _); [discriminate|]. destruct (negb _); [discriminate|]. inv A.
    unfold inv_le. simpl. repeat split; auto.
    + unfold cstate_le. rewrite S. auto.
    + intros. congruence.
    + intros _ k0 h0 I. eapply (align_le CSettled); eauto. reflexivity.
  - unfold apply_cancel in A. destruct (align_htlcs _ _) eqn:AL; [|discriminate]. inv A.
    unfold inv_le. simpl. repeat split; auto.
    + unfold cstate_le. destruct S as [S|S]; rewrite S; auto.
    + intros _ k0 h0 I. eapply align_le; eauto.
  - subst. unfold inv_le. simpl. repeat split; auto.
    + left; reflexivity.
    + intros _ k0 h0 I. exists (if N.eqb k0 k then set_hstate h0 HCanceled else h0).
      split; [apply in_set_htlc_state; eauto|].
      destruct (N.eqb_spec k0 k); [|split; [left; reflexivity|apply same_rec_refl]].
      split; [|apply same_rec_set]. subst k0.
      assert (h0 = hk).
      { apply (in_find_htlc k (i_htlcs i) h0 (ok_nodup H g i OK)) in I. congruence. }
      subst. right. exact HK.
  - unfold amp_apply_accept in A. destruct (any_htlc _ _); inv A.
    unfold inv_le. simpl. repeat split; auto. left; reflexivity.
    intros _ k0 h0 I. exists h0. split; [right; auto|]. split; [left; reflexivity|apply same_rec_refl].
  - unfold amp_cancel_invoice in A. destruct (any_htlc _ _); [discriminate|].
    destruct (amp_cancel_fold _ _ _) as [[paid sets]|]; inv A.
    unfold inv_le. simpl. repeat split; auto.
    + unfold cstate_le. destruct (ao_state H g i OK) as [S|S]; rewrite S; auto.
    + intros _ k0 h0 I. exists (cancel_sel P h0). split; [apply in_map_htlcs; eauto|].
      unfold cancel_sel. destruct (P h0 && is_state HAccepted h0) eqn:C.
      * apply andb_true_iff in C. destruct C as [_ C]. apply is_state_iff in C.
        split; [right; auto|apply same_rec_set].
      * split; [left; reflexivity|apply same_rec_refl].
  - unfold amp_cancel_one in A. destruct (amp_cancel_acct _ _) as [[paid sets]|]; inv A.
    unfold inv_le. simpl. repeat split; auto. left; reflexivity.
    intros _ k0 h0 I. exists (if N.eqb k0 k then set_hstate h0 HCanceled else h0).
    split; [apply in_set_htlc_state; eauto|].
    destruct (N.eqb_spec k0 k); [|split; [left; reflexivity|apply same_rec_refl]].
    split; [|apply same_rec_set]. subst k0.
    assert (h0 = h).
    { apply (in_find_htlc k (i_htlcs i) h0 (ao_nodup H g i OK)) in I. congruence. }
    subst. right. exact HA.
  - unfold amp_apply_settle in A. destruct (i_pre i); [discriminate|].
    destruct (amp_settle_htlcs _ _ _ _ _) as [hs2|] eqn:SE; [|discriminate].
    destruct (amp_settle_spec H _ _ _ _ _ SE) as (K & B & FW & W).
    assert (SH : exists hs3 paid sets, i' = with_amp i (i_state i) hs3 paid sets /\
                                       (g_kv g = false -> hs3 = hs2)).
    { injection A as EI _. subst i'. eexists. eexists. eexists. split; [reflexivity|].
      intro G. rewrite G. reflexivity. }
    destruct SH as (hs3 & paid & sets & EI & HK). subst i'.
    unfold inv_le. simpl. repeat split; auto. left; reflexivity.
    intros [G|G]; [congruence|]. rewrite (HK G).
    intros k0 h0 I. destruct (FW k0 h0 (or_intror I)) as [h' [I' S']]. exists h'. split; [auto|].
    destruct S' as [[_ X]|[_ [A0 [p [X _]]]]]; subst.
    + split; [left; reflexivity|apply same_rec_refl].
    + split; [right; auto|]. unfold same_rec. simpl. tauto.
Qed.

Lemma shape_le l l' :
  NoDup (map i_hash l) -> (forall i, In i l -> ok H g i) -> shape H R g l l' -> state_le (g_kv g) l l'.
Proof.
  intros ND OK [E|i F E|i i' I T E]; subst.
  - apply state_le_refl.
  - intros x X. exists x. split; [right; auto|apply inv_le_refl].
  - intros x X. destruct (N.eqb_spec (i_hash x) (i_hash i')) as [EQ|NE].
    + assert (x = i).
      { eapply nodup_hash_eq; eauto. rewrite EQ. apply trans_hash in T. apply T. }
      subst x. exists i'. split; [eapply put_inv_in; eauto|apply trans_le; auto].
    + exists x. split; [apply put_inv_other; auto|apply inv_le_refl].
Qed.

Theorem step_le st e st' o :
  state_ok H g st -> step H R g st e = (st', o) -> state_le (g_kv g) (invs st) (invs st').
Proof.
  intros SO ST. generalize (step_shape H R g st e st' o ST). intros [l1 [S1 S2]].
  assert (O1 : state_ok H g (mkState l1 [])) by (eapply shape_ok; eauto).
  destruct SO as [ND OK]. destruct O1 as [ND1 OK1]. simpl in *.
  eapply state_le_trans; eapply shape_le; eauto.
Qed.

Theorem run_le st evs st' outs :
  state_ok H g st -> run H R g st evs = (st', outs) -> state_le (g_kv g) (invs st) (invs st').
Proof.
  revert st st' outs. induction evs as [|e r IH]; simpl; intros st st' outs SO RR.
  - inv RR. apply state_le_refl.
  - destruct (step H R g st e) as [st1 o] eqn:S. destruct (run H R g st1 r) as [st2 os] eqn:R2.
    inv RR. eapply state_le_trans; [eapply step_le; eauto|].
    eapply IH; [|eauto]. eapply step_ok; eauto.
Qed.

End Mono.

(* ------------------------------------------------------------------ *)
(* every settle resolution is backed by a settled record                *)

Section Outs.
Variable H : N -> N.
Variable R : list (N * N) -> list (N * N).
Variable g : cfg.

Definition res_settle (r : resn) : list (N * N) :=
  match r with NSettle k p _ _ => [(k, p)] | NFail _ _ _ => [] end.

Definition settle_outs (o : reply * list resn) : list (N * N) :=
  match fst o with RpDirect (DRes r) => res_settle r | _ => [] end ++ flat_map res_settle (snd o).

(* htlc k is recorded settled with preimage p: the invoice's preimage, or --
   AMP -- the htlc's own reconstructed preimage *)
Definition settled_in (l : list invoice) (k p : N) : Prop :=
  exists i h, In i l /\ In (k, h) (i_htlcs i) /\ h_state h = HSettled /\
              (if i_amp i then h_pre h = Some p else i_pre i = Some p).

(* ... in the state after the step, or (KV store rewriting a settled AMP set,
   finding C15-F2) in the state before it *)
Definition settled_around (st st' : state) (k p : N) : Prop :=
  settled_in (invs st') k p \/ (g_kv g = true /\ settled_in (invs st) k p).

Ltac break_in U :=
  repeat match type of U with
         | context [if ?b then _ else _] => destruct b eqn:?
         | context [match ?x with Some _ => _ | None => _ end] => destruct x eqn:?
         | context [match ?x with COpen => _ | CSettled => _ | CCanceled => _ | CAccepted => _ end] =>
           destruct x eqn:?
         end; try discriminate.

Lemma update_settle_res c i h ns p oc :
  update_invoice H g c i = UAdd h ns (Some (p, oc)) ->
  i_pre i = Some p /\ h_state h = HAccepted /\
  ((ns = Some CSettled /\ i_state i = COpen) \/ (ns = None /\ i_state i = CSettled)).
Proof.
  intro U. unfold update_invoice in U.
  destruct (c_mpp c) as [[a t]|].
  - unfold update_mpp in U. break_in U. inv U. simpl. apply negb_false_iff in Heqb1.
    apply cstate_eqb_eq in Heqb1. auto.
  - destruct (c_amp c); [discriminate|]. destruct (c_path c).
    + unfold update_mpp in U. break_in U. inv U. simpl. apply negb_false_iff in Heqb1.
      apply cstate_eqb_eq in Heqb1. auto.
    + unfold update_legacy in U. break_in U; inv U; simpl; auto.
Qed.

Lemma ntf_settled i' p oc sb sb' out k0 p0 :
  deliver sb (map (fun kh => NSettle (fst kh) p (h_height (snd kh)) oc)
                  (htlcs_in HSettled (i_htlcs i'))) = (sb', out) ->
  In (k0, p0) (flat_map res_settle out) ->
  p0 = p /\ exists h, In (k0, h) (i_htlcs i') /\ h_state h = HSettled.
Proof.
  intros D I. apply in_flat_map in I. destruct I as [r [IR IS]].
  eapply deliver_in in IR; eauto. apply in_map_iff in IR. destruct IR as [[k1 h1] [E I1]].
  subst r. simpl in IS. destruct IS as [X|[]]. inv X.
  unfold htlcs_in in I1. apply filter_In in I1. destruct I1 as [I1 S]. simpl in S.
  apply is_state_iff in S. eauto.
Qed.

Lemma ntf_amp_settled sid p oc l sb sb' out k0 p0 :
  deliver sb (amp_settle_ntf sid p oc l) = (sb', out) ->
  In (k0, p0) (flat_map res_settle out) ->
  exists h, In (k0, h) l /\ h_state h = HSettled /\ in_set sid h = true /\
            p0 = match h_pre h with Some q => q | None => p end.
Proof.
  intros D I. apply in_flat_map in I. destruct I as [r [IR IS]].
  eapply deliver_in in IR; eauto. unfold amp_settle_ntf in IR.
  apply in_map_iff in IR. destruct IR as [[k1 h1] [E I1]].
  subst r. simpl in IS. destruct IS as [X|[]]. inv X.
  apply filter_In in I1. destruct I1 as [I1 S]. simpl in S.
  apply andb_true_iff in S. destruct S as [S1 S2]. apply is_state_iff in S2. eauto.
Qed.

Lemma ntf_fail_nosettle (f : N * htlc -> resn) l sb sb' out x :
  (forall kh, res_settle (f kh) = []) ->
  deliver sb (map f l) = (sb', out) -> In x (flat_map res_settle out) -> False.
Proof.
  intros F D I. apply in_flat_map in I. destruct I as [r [IR IS]].
  eapply deliver_in in IR; eauto. apply in_map_iff in IR. destruct IR as [kh [E _]].
  subst r. rewrite F in IS. destruct IS.
Qed.

Lemma settled_here l k p : settled_in l k p -> forall st st', invs st' = l -> settled_around st st' k p.
Proof. intros X st st' E. left. rewrite E. exact X. Qed.

Lemma notify_amp_settles st c i addr total st' o k p :
  state_ok H g st -> In i (invs st) -> i_amp i = true ->
  notify_amp H R g st c i addr total = (st', o) ->
  In (k, p) (settle_outs o) -> settled_around st st' k p.
Proof.
  intros SO II IA. assert (OK : amp_ok H g i) by (apply ok_amp; [auto|apply SO; auto]).
  unfold notify_amp.
  destruct (find_htlc (c_key c) (i_htlcs i)) as [h0|] eqn:F.
  - destruct (h_state h0) eqn:HS0.
    + intro X; inv X. simpl. tauto.
    + intro X; inv X. simpl. tauto.
    + destruct (h_pre h0) as [p0|] eqn:P0; [|intro X; inv X; simpl; tauto].
      destruct (_ && _); [|intro X; inv X; simpl; tauto].
      destruct (deliver _ _) as [sb out] eqn:D. intro X; inv X. unfold settle_outs. simpl.
      intros [E|I]; left; simpl.
      * inv E. exists i, h0. rewrite IA. repeat split; auto. apply find_htlc_in; auto.
      * destruct (ntf_amp_settled _ _ _ _ _ _ _ _ _ D I) as [h1 [I1 [S1 [_ E1]]]].
        destruct (ao_pre H g i OK _ _ I1 S1) as [q [Q _]]. rewrite Q in E1. subst p.
        exists i, h1. rewrite IA. auto.
  - destruct (amp_update R g c i addr total) as [oc|h|h|h|h pm] eqn:U.
    + destruct (deliver _ _) as [sb out] eqn:D. intro X; inv X. unfold settle_outs. simpl.
      intro I. exfalso. destruct (is_set_failure oc).
      * unfold amp_fail_ntf in D. eapply ntf_fail_nosettle; [|exact D|exact I]. reflexivity.
      * simpl in D. inv D. destruct I.
    + destruct (g_kv g); [destruct (amp_apply_accept _ _ _ _)|];
        destruct (dup_set st i (c_set c)); try destruct (amp_apply_accept _ _ _ _);
        intro X; inv X; simpl; tauto.
    + destruct (g_kv g); [|destruct (dup_set st i (c_set c))]; intro X; inv X; simpl; tauto.
    + destruct (amp_cancel_invoice i (in_set (c_set c))) as [i'|]; [|intro X; inv X; simpl; tauto].
      destruct (deliver _ _) as [sb out] eqn:D. intro X; inv X. unfold settle_outs. simpl.
      intro I. exfalso. unfold amp_fail_ntf in D. eapply ntf_fail_nosettle; [|exact D|exact I]. reflexivity.
    + destruct (find_pre (c_key c) pm) as [p1|] eqn:FP; [|intro X; inv X; simpl; tauto].
      assert (MAIN : forall i' hs sb out,
                amp_apply_settle H (g_kv g) i (c_key c) h (c_set c) pm = Some (i', hs) ->
                deliver (subs st) (amp_settle_ntf (c_set c) p1 S_Settled hs) = (sb, out) ->
                In (k, p) ((c_key c, p1) :: flat_map res_settle out) ->
                settled_around st (mkState (put_inv i' (invs st)) sb) k p).
      { intros i' hs sb out A D I.
        assert (T : trans H R g i i') by (eapply TA_settle; eauto).
        destruct (trans_hash H R g i i' T) as [EH EA].
        assert (OK' : amp_ok H g i').
        { apply ok_amp; [congruence|]. eapply trans_ok; eauto. apply SO; auto. }
        assert (IN' : In i' (put_inv i' (invs st))) by (eapply put_inv_in; eauto).
        destruct (amp_update_facts R g c i addr total h (or_intror (ex_intro _ pm U))) as (HH & _).
        unfold amp_apply_settle in A. destruct (i_pre i); [discriminate|].
        destruct (amp_settle_htlcs H (c_set c) (c_key c) pm ((c_key c, h) :: i_htlcs i)) as [hs2|] eqn:SE;
          [|discriminate].
        destruct (amp_settle_spec H _ _ _ _ _ SE) as (K & B & FW & W).
        assert (ND1 : NoDup (map fst ((c_key c, h) :: i_htlcs i))).
        { simpl. constructor; [apply find_htlc_none; auto|apply OK]. }
        (* newly settled records are persisted on either store *)
        assert (KEPT : forall k0 h0 x, In (k0, h0) ((c_key c, h) :: i_htlcs i) -> h_state h0 = HAccepted ->
                                       In (k0, x) hs2 -> In (k0, x) (i_htlcs i')).
        { intros k0 h0 x J0 A0 IX. injection A as EI _. subst i'. simpl.
          destruct (g_kv g && _); [|exact IX]. apply filter_In. split; [exact IX|].
          cbn [fst snd].
          change (if (k0 =? c_key c)%N then Some h else find_htlc k0 (i_htlcs i))
            with (find_htlc k0 ((c_key c, h) :: i_htlcs i)).
          rewrite (in_find_htlc _ _ _ ND1 J0). apply is_state_iff in A0. rewrite A0. apply orb_true_r. }
        assert (HS2 : hs = hs2) by (injection A as _ E2; auto). subst hs.
        assert (REC : forall k0 x, In (k0, x) hs2 -> h_state x = HSettled ->
                      (In (k0, x) (i_htlcs i') \/
                       (In (k0, x) (i_htlcs i) /\
                        (g_kv g = true \/ In (k0, x) (i_htlcs i'))))).
        { intros k0 x IX SX. destruct (B _ _ IX) as [h0 [J0 T0]].
          destruct T0 as [[C X]|[_ [A0 _]]].
          - subst x. right. destruct J0 as [J0|J0]; [inversion J0; subst k0 h0; rewrite HH in SX; simpl in SX; discriminate|].
            split; [exact J0|]. injection A as EI. subst i'. simpl.
            destruct (g_kv g); [left; reflexivity|right; exact IX].
          - left. eapply KEPT; eauto. }
        destruct I as [E|I].
        - injection E as E1 E2. subst k p. left. simpl. exists i'.
          simpl in SE. destruct (amp_settle_htlcs H (c_set c) (c_key c) pm (i_htlcs i)) as [r'|]; [|discriminate].
          rewrite HH in SE. simpl in SE.
          assert (IS : in_set (c_set c) (new_amp_htlc c total addr) = true) by (unfold in_set; simpl; apply N.eqb_refl).
          rewrite IS in SE. unfold is_state in SE. simpl in SE. rewrite FP in SE.
          destruct (N.eqb (H p1) (c_hash c)); [|discriminate]. inv SE.
          eexists. split; [exact IN'|]. split; [eapply KEPT; [left; reflexivity|reflexivity|left; reflexivity]|].
          rewrite EA, IA. split; reflexivity.
        - destruct (ntf_amp_settled _ _ _ _ _ _ _ _ _ D I) as [x [IX [SX [_ EP]]]].
          destruct (REC _ _ IX SX) as [IN2|[IN1 KV]].
          + destruct (ao_pre H g i' OK' _ _ IN2 SX) as [q [Q _]]. rewrite Q in EP. subst p.
            left. simpl. exists i', x. rewrite EA, IA. auto.
          + destruct (ao_pre H g i OK _ _ IN1 SX) as [q [Q _]]. rewrite Q in EP. subst p.
            destruct KV as [KV|IN2].
            * right. split; [exact KV|]. exists i, x. rewrite IA. auto.
            * left. simpl. exists i', x. rewrite EA, IA. auto. }
      destruct (g_kv g) eqn:KV.
      * destruct (amp_apply_settle H true i (c_key c) h (c_set c) pm) as [[i' hs]|] eqn:A;
          [|intro X; inv X; simpl; tauto].
        destruct (dup_set st i (c_set c)); [intro X; inv X; simpl; tauto|].
        simpl. destruct (deliver _ _) as [sb out] eqn:D. intro X; inv X. unfold settle_outs. simpl.
        intro I. eapply MAIN; eauto.
      * destruct (dup_set st i (c_set c)); [intro X; inv X; simpl; tauto|].
        destruct (amp_apply_settle H false i (c_key c) h (c_set c) pm) as [[i' hs]|] eqn:A;
          [|intro X; inv X; simpl; tauto].
        simpl. destruct (deliver _ _) as [sb out] eqn:D. intro X; inv X. unfold settle_outs. simpl.
        intro I. eapply MAIN; eauto.
Qed.

Lemma notify_locked_settles st c st' o k p :
  state_ok H g st -> notify_locked H R g st c = (st', o) ->
  In (k, p) (settle_outs o) -> settled_around st st' k p.
Proof.
  intros SO. unfold notify_locked. destruct (ctx_ref c) as [rh ra] eqn:CR.
  destruct (lookup_ref (g_kv g) (invs st) rh ra) as [i|] eqn:L;
    [|unfold fail_now; intro X; inv X; simpl; tauto].
  assert (II : In i (invs st)) by (eapply lookup_ref_in; eauto).
  destruct (i_amp i && match find_htlc (c_key c) (i_htlcs i) with Some h => _ | None => false end) eqn:GD;
    [intro X; inv X; simpl; tauto|].
  destruct (i_amp i && c_amp c && match c_mpp c with Some _ => true | None => false end) eqn:G.
  { destruct (c_mpp c) as [[a t]|]; [|intro X; inv X; simpl; tauto].
    apply notify_amp_settles; auto.
    apply andb_true_iff in G. destruct G as [G _]. apply andb_true_iff in G. tauto. }
  match goal with
  | |- (match ?u with Some _ => _ | None => _ end) = _ -> _ => destruct u as [[[i' r] ch]|] eqn:U
  end; [|intro X; inv X; simpl; tauto].
  assert (A : In i' (if ch then put_inv i' (invs st) else invs st) /\
              forall k1 p1 ah oc, r = Some (NSettle k1 p1 ah oc) ->
                (exists h, In (k1, h) (i_htlcs i') /\ h_state h = HSettled) /\ i_pre i' = Some p1 /\
                i_amp i' = false).
  { destruct (find_htlc (c_key c) (i_htlcs i)) as [h0|] eqn:F.
    - assert (NA : i_amp i = false).
      { destruct (i_amp i); [|reflexivity]. destruct (c_amp c); destruct (c_mpp c); simpl in *; discriminate. }
      destruct (h_state h0) eqn:HS.
      + inv U. split; [auto|]. intros; discriminate.
      + inv U. split; [auto|]. intros; discriminate.
      + destruct (i_pre i) eqn:P; [|discriminate]. destruct (N.eqb _ _); inv U.
        split; [auto|]. intros k1 p1 ah oc E. inv E. split; [|auto].
        exists h0. split; [apply find_htlc_in; auto|auto].
    - destruct (update_invoice H g c i) as [oc|h ns r0|] eqn:UI; try discriminate.
      + inv U. split; [auto|]. intros; discriminate.
      + destruct (apply_add H i rh (c_key c) h ns) as [i2|] eqn:AA; [|discriminate]. inv U.
        destruct (uadd_ref H g c i h ns r0 UI G) as [_ NA].
        assert (SH : i_hash i' = i_hash i /\ i_amp i' = i_amp i).
        { unfold apply_add in AA.
          destruct (find_htlc _ _); [discriminate|].
          destruct (match ns with Some _ => _ | None => _ end); [|discriminate].
          destruct (align_htlcs _ _); [|discriminate]. inv AA. auto. }
        split.
        * eapply put_inv_in; eauto. symmetry. apply SH.
        * intros k1 p1 ah oc E. destruct r0 as [[p0 oc0]|]; [|discriminate]. inv E.
          destruct (update_settle_res _ _ _ _ _ _ UI) as [P [HA [[NS ST]|[NS ST]]]]; subst ns.
          -- apply apply_add_some_open in AA; auto.
             destruct AA as [_ [[X _]|[_ [p' [P' [_ E]]]]]]; [discriminate|]. subst i'. simpl.
             split; [|auto]. exists (settle_f h). split; [left; reflexivity|].
             rewrite settle_f_state, HA. reflexivity.
          -- apply apply_add_none in AA; [|congruence].
             destruct AA as [_ [[_ E]|[[X|X] _]]]; try congruence. subst i'. simpl.
             split; [|auto]. exists (settle_f h). split; [left; reflexivity|].
             rewrite settle_f_state, HA. reflexivity. }
  destruct A as [IN RS].
  destruct r as [[k1 p1 ah oc|k1 ah oc]|].
  - destruct (RS k1 p1 ah oc eq_refl) as [[h1 [I1 S1]] [P1 NA']].
    destruct (deliver _ _) as [sb out] eqn:D. intro X; inv X. unfold settle_outs. simpl.
    intros [E|I]; left; simpl.
    + inv E. exists i', h1. rewrite NA'. auto.
    + destruct (ntf_settled _ _ _ _ _ _ _ _ D I) as [E [h2 [I2 S2]]]. subst.
      exists i', h2. rewrite NA'. auto.
  - destruct (deliver _ _) as [sb out] eqn:D. intro X; inv X. unfold settle_outs. simpl.
    intro I. exfalso. destruct (is_set_failure oc).
    + eapply ntf_fail_nosettle; [|exact D|exact I]. reflexivity.
    + simpl in D. inv D. destruct I.
  - destruct (find_htlc (c_key c) (i_htlcs i')); intro X; inv X; simpl; tauto.
Qed.

Theorem step_settles st e st' o k p :
  state_ok H g st -> step H R g st e = (st', o) ->
  In (k, p) (settle_outs o) ->
  settled_in (invs st') k p \/
  (g_kv g = true /\ exists st1, state_ok H g st1 /\ settled_in (invs st1) k p).
Proof.
  intros SO. destruct e as [i|c|p0|h f|h a k0|sid k0]; simpl.
  - destruct (add_invoice g st i) as [s1 a]. intro X; inv X. simpl. tauto.
  - assert (NL : forall st1, state_ok H g st1 -> notify_locked H R g st1 c = (st', o) ->
                 In (k, p) (settle_outs o) ->
                 settled_in (invs st') k p \/
                 (g_kv g = true /\ exists st2, state_ok H g st2 /\ settled_in (invs st2) k p)).
    { intros st1 SO1 N I. destruct (notify_locked_settles st1 c st' o k p SO1 N I) as [X|[KV X]];
        [left; auto|right; split; [auto|exists st1; auto]]. }
    unfold notify. destruct (g_amp g && c_amp c).
    + destruct (process_amp g st c) as [st1|] eqn:PK.
      * apply NL. generalize (shape_ok H R g st (invs st1) (subs st1) SO (process_amp_shape H R g _ _ _ PK)).
        destruct st1; auto.
      * unfold fail_now. intro X; inv X. simpl. tauto.
    + destruct (g_keysend g && negb (c_amp c)).
      * destruct (process_keysend H g st c) as [st1|] eqn:PK.
        -- apply NL. generalize (shape_ok H R g st (invs st1) (subs st1) SO (process_keysend_shape H R g _ _ _ PK)).
           destruct st1; auto.
        -- unfold fail_now. intro X; inv X. simpl. tauto.
      * apply NL. exact SO.
  - unfold settle_hodl.
    destruct (lookup_ref _ _ _ _) as [i|] eqn:L; [|intro X; inv X; simpl; tauto].
    destruct (i_state i) eqn:S; try (intro X; inv X; simpl; tauto).
    destruct (apply_settle_hodl H i p0) as [i'|] eqn:A; [|intro X; inv X; simpl; tauto].
    destruct (deliver _ _) as [sb out] eqn:D. intro X; inv X. unfold settle_outs. simpl.
    intro I. destruct (ntf_settled _ _ _ _ _ _ _ _ D I) as [E [h2 [I2 S2]]]. subst.
    left. exists i', h2.
    assert (II : In i (invs st)) by (eapply lookup_ref_in; eauto).
    assert (NA : i_amp i = false).
    { destruct (i_amp i) eqn:IA; [|reflexivity]. exfalso.
      assert (OK : amp_ok H g i) by (apply ok_amp; [auto|apply SO; auto]).
      destruct (ao_state H g i OK); congruence. }
    assert (T : trans H R g i i') by (eapply T_settle; eauto).
    destruct (trans_hash H R g i i' T) as [EH EA]. rewrite EA, NA.
    repeat split; auto.
    + eapply put_inv_in; eauto.
    + unfold apply_settle_hodl in A. destruct (negb (i_hodl i)); [discriminate|].
      destruct (negb _); [discriminate|]. destruct (negb _); [discriminate|]. inv A. reflexivity.
  - unfold cancel_invoice.
    destruct (lookup_ref _ _ _ _) as [i|] eqn:L; [|intro X; inv X; simpl; tauto].
    destruct (i_state i) eqn:S; try (intro X; inv X; simpl; tauto).
    + simpl. destruct (if i_amp i then _ else _) as [i'|]; [|intro X; inv X; simpl; tauto].
      destruct (deliver _ _) as [sb out] eqn:D. intro X; inv X. unfold settle_outs. simpl.
      intro I. exfalso. eapply ntf_fail_nosettle; [|exact D|exact I]. reflexivity.
    + destruct (cstate_eqb CAccepted CAccepted && negb f); [intro X; inv X; simpl; tauto|].
      destruct (if i_amp i then _ else _) as [i'|]; [|intro X; inv X; simpl; tauto].
      destruct (deliver _ _) as [sb out] eqn:D. intro X; inv X. unfold settle_outs. simpl.
      intro I. exfalso. eapply ntf_fail_nosettle; [|exact D|exact I]. reflexivity.
  - unfold timeout_htlc.
    destruct (lookup_ref _ _ _ _) as [i|] eqn:L; [|intro X; inv X; simpl; tauto].
    destruct (negb (cstate_eqb (i_state i) COpen)); [intro X; inv X; simpl; tauto|].
    destruct (find_htlc k0 (i_htlcs i)) as [h0|]; [|intro X; inv X; simpl; tauto].
    destruct (negb (is_state HAccepted h0)); [intro X; inv X; simpl; tauto|].
    destruct (if i_amp i then _ else _) as [i'|]; [|intro X; inv X; simpl; tauto].
    destruct (deliver _ _) as [sb out] eqn:D. intro X; inv X. unfold settle_outs. simpl.
    intro I. exfalso.
    eapply (ntf_fail_nosettle (fun _ => NFail k0 (h_height h0) F_MppTimeout) [(k0, h0)]);
      [|exact D|exact I]. reflexivity.
  - unfold timeout_set.
    destruct (find _ (invs st)) as [i|]; [|intro X; inv X; simpl; tauto].
    destruct (negb (cstate_eqb (i_state i) COpen)); [intro X; inv X; simpl; tauto|].
    destruct (find_htlc k0 (i_htlcs i)) as [h0|]; [|intro X; inv X; simpl; tauto].
    destruct (negb (in_set sid h0)); [intro X; inv X; simpl; tauto|].
    destruct (negb (is_state HAccepted h0)); [intro X; inv X; simpl; tauto|].
    destruct (amp_cancel_one i k0 h0) as [i'|]; [|intro X; inv X; simpl; tauto].
    destruct (deliver _ _) as [sb out] eqn:D. intro X; inv X. unfold settle_outs. simpl.
    intro I. exfalso.
    eapply (ntf_fail_nosettle (fun _ => NFail k0 (h_height h0) F_MppTimeout) [(k0, h0)]);
      [|exact D|exact I]. reflexivity.
Qed.

End Outs.

(* ------------------------------------------------------------------ *)
(* replays, and the property-level corollaries                          *)

Section Final.
Variable H : N -> N.
Variable R : list (N * N) -> list (N * N).
Variable g : cfg.

Lemma process_keysend_none st c : c_ks c = KSNone -> process_keysend H g st c = Some st.
Proof. unfold process_keysend. intro E. rewrite E. reflexivity. Qed.

Theorem replay_same_verdict st c i h st' rp ntf :
  state_ok H g st ->
  g_keysend g = false \/ c_ks c = KSNone ->
  g_amp g = false \/ c_amp c = false ->
  lookup_ref (g_kv g) (invs st) (fst (ctx_ref c)) (snd (ctx_ref c)) = Some i ->
  fst (ctx_ref c) = Some (c_hash c) -> i_amp i = false ->
  find_htlc (c_key c) (i_htlcs i) = Some h ->
  notify H R g st c = (st', (rp, ntf)) ->
  invs st' = invs st /\
  match h_state h with
  | HAccepted => rp = RpDirect DNil
  | HCanceled => rp = RpDirect (DRes (NFail (c_key c) (h_height h) F_ReplayToCanceled))
  | HSettled => exists p, i_pre i = Some p /\ H p = c_hash c /\
                          rp = RpDirect (DRes (NSettle (c_key c) p (c_height c) S_ReplayToSettled))
  end.
Proof.
  intros SO NJ NJA L RH NA F N.
  assert (NL : notify_locked H R g st c = (st', (rp, ntf))).
  { unfold notify in N.
    assert (E0 : g_amp g && c_amp c = false) by (destruct NJA as [E|E]; rewrite E; auto using andb_false_r).
    rewrite E0 in N. destruct NJ as [E|E].
    - rewrite E in N. exact N.
    - rewrite (process_keysend_none st c E) in N. destruct (g_keysend g && negb (c_amp c)); exact N. }
  clear N. unfold notify_locked in NL. destruct (ctx_ref c) as [rh ra]. simpl in *.
  rewrite L, NA, F in NL. simpl in NL.
  assert (II : In i (invs st)) by (eapply lookup_ref_in; eauto).
  assert (OK : inv_ok H g i) by (apply ok_nonamp; [auto|destruct SO as [_ X]; auto]).
  assert (EH : i_hash i = c_hash c) by (subst rh; eapply lookup_ref_hash; eauto).
  destruct (h_state h) eqn:HS.
  - rewrite F in NL. inv NL. auto.
  - rewrite F in NL. simpl in NL. inv NL. auto.
  - assert (ST : i_state i = CSettled).
    { destruct (i_state i) eqn:S; auto; exfalso;
        eapply (ok_nosettled H g i OK); eauto using find_htlc_in; congruence. }
    destruct (ok_settled H g i OK ST) as [_ [p [P [HP _]]]]. rewrite P in NL.
    rewrite HP, EH, N.eqb_refl in NL.
    destruct (deliver _ _) as [sb out]. inv NL. split; [reflexivity|]. exists p. repeat split; auto; congruence.
Qed.

(* replay of an AMP htlc recorded in its set on its AMP invoice, no JIT pre-check *)
Theorem replay_same_verdict_amp st c i h a t st' rp ntf :
  state_ok H g st ->
  g_amp g = false ->
  c_amp c = true -> c_mpp c = Some (a, t) -> c_path c = None ->
  lookup_ref (g_kv g) (invs st) None (Some a) = Some i -> i_amp i = true ->
  find_htlc (c_key c) (i_htlcs i) = Some h -> h_set h = Some (c_set c) -> h_hash h = c_hash c ->
  notify H R g st c = (st', (rp, ntf)) ->
  invs st' = invs st /\
  match h_state h with
  | HAccepted => rp = RpDirect DNil
  | HCanceled => rp = RpDirect (DRes (NFail (c_key c) (h_height h) F_ReplayToCanceled))
  | HSettled => exists p, h_pre h = Some p /\ H p = c_hash c /\
                          rp = RpDirect (DRes (NSettle (c_key c) p (c_height c) S_ReplayToSettled))
  end.
Proof.
  intros SO GA CA CM CP L IA F HSET HH N.
  unfold notify in N. rewrite GA, CA in N. simpl in N. rewrite andb_false_r in N.
  unfold notify_locked, ctx_ref in N. rewrite CP, CM, CA in N. rewrite L, IA, F in N.
  assert (IS : in_set (c_set c) h = true) by (apply in_set_iff; auto).
  simpl in N. rewrite IS in N. simpl in N.
  assert (II : In i (invs st)) by (eapply lookup_ref_in; eauto).
  assert (OK : amp_ok H g i) by (apply ok_amp; [auto|destruct SO as [_ X]; auto]).
  unfold notify_amp in N. rewrite F in N.
  destruct (h_state h) eqn:HS.
  - inv N. auto.
  - inv N. auto.
  - destruct (ao_pre H g i OK _ _ (find_htlc_in _ _ _ F) HS) as [p [P HP]]. rewrite P in N.
    rewrite HH, HP, HH, N.eqb_refl in N. simpl in N.
    destruct (deliver _ _) as [sb out]. inv N. split; [reflexivity|]. exists p. repeat split; auto. congruence.
Qed.

(* what the invariant says about any settled record on a non-AMP invoice *)
Theorem settled_record_sound st i k h :
  state_ok H g st -> In i (invs st) -> i_amp i = false ->
  In (k, h) (i_htlcs i) -> h_state h = HSettled ->
  i_state i = CSettled /\
  (exists p, i_pre i = Some p /\ H p = h_hash h /\ i_hash i = h_hash h) /\
  match h_addr h with
  | Some a => a = i_addr i
  | None => i_addr_req i = false \/ h_ks h = true
  end /\
  (u32 (h_height h + g_rd g) <= h_expiry h)%Z /\ (u32 (h_height h + i_delta i) <= h_expiry h)%Z /\
  (h_total h = 0%N -> (i_value i <= h_amt h)%N) /\
  (h_total h <> 0%N ->
     (i_value i <= h_total h)%N /\
     (forall k' h', In (k', h') (i_htlcs i) -> h_state h' = HSettled -> h_total h' <> 0%N ->
                    h_total h' = h_total h) /\
     (h_total h <= wsum (fun x => is_state HSettled x && negb (N.eqb (h_total x) 0)) (i_htlcs i))%N).
Proof.
  intros [_ OKS] II NA I HS. assert (OK := ok_nonamp H g i NA (OKS i II)).
  assert (ST : i_state i = CSettled).
  { destruct (i_state i) eqn:S; auto; exfalso; eapply (ok_nosettled H g i OK); eauto; congruence. }
  destruct (ok_data H g i OK k h I) as (D1 & D2 & D3 & D4 & D5 & D6).
  destruct (ok_settled H g i OK ST) as [_ [p [P [HP _]]]].
  split; [auto|]. split; [exists p; repeat split; congruence|].
  repeat split; auto.
  - intros k' h' I' S' T'. symmetry.
    eapply (ok_common H g i OK k h k' h'); eauto; rewrite ST; unfold mppl; simpl;
      apply andb_true_iff; split; try (apply is_state_iff; assumption);
      apply negb_true_iff; apply N.eqb_neq; assumption.
  - generalize (ok_complete H g i OK (or_intror ST) k h I). rewrite ST. unfold mppl at 1. simpl.
    intro X. apply X. apply andb_true_iff. split; [apply is_state_iff; auto|].
    apply negb_true_iff. apply N.eqb_neq. auto.
Qed.

(* ... and on an AMP invoice: the htlc's own reconstructed preimage hashes to
   its payment hash, it carried the invoice's payment address and a set id,
   left both margins, and the htlcs settled together with it (same `h_gen`)
   belong to its set, declare its total (not below the invoice value) and pay
   at least that total *)
Theorem settled_record_sound_amp st i k h :
  state_ok H g st -> In i (invs st) -> i_amp i = true ->
  In (k, h) (i_htlcs i) -> h_state h = HSettled ->
  (i_state i = COpen \/ i_state i = CCanceled) /\
  (exists p, h_pre h = Some p /\ H p = h_hash h) /\
  (exists s, h_set h = Some s) /\ h_addr h = Some (i_addr i) /\
  (u32 (h_height h + g_rd g) <= h_expiry h)%Z /\ (u32 (h_height h + i_delta i) <= h_expiry h)%Z /\
  h_total h <> 0%N /\ (i_value i <= h_total h)%N /\
  (forall k' h', In (k', h') (i_htlcs i) -> h_state h' = HSettled -> h_gen h' = h_gen h ->
                 h_set h' = h_set h /\ h_total h' = h_total h) /\
  (h_total h <= wsum (batch (h_gen h)) (i_htlcs i))%N.
Proof.
  intros [_ OKS] II IA I HS. assert (OK := ok_amp H g i IA (OKS i II)).
  destruct (ao_data H g i OK k h I) as (D1 & D2 & D3 & D4 & D5 & D6).
  split; [apply OK|]. split; [eapply ao_pre; eauto|].
  repeat split; auto.
  - eapply (ao_common H g i OK k h k' h'); eauto.
  - eapply (ao_common H g i OK k h k' h'); eauto.
  - eapply ao_complete; eauto.
Qed.

Theorem records_forward st1 evs st2 outs i1 k h1 :
  state_ok H g st1 -> run H R g st1 evs = (st2, outs) ->
  In i1 (invs st1) -> In (k, h1) (i_htlcs i1) ->
  i_amp i1 = false \/ g_kv g = false ->
  exists i2 h2,
    In i2 (invs st2) /\ i_hash i2 = i_hash i1 /\ In (k, h2) (i_htlcs i2) /\
    (forall x, In (k, x) (i_htlcs i2) -> x = h2) /\
    (h_state h1 = HSettled -> h_state h2 = HSettled) /\
    (h_state h1 = HCanceled -> h_state h2 = HCanceled) /\
    same_rec h1 h2 /\
    (i_amp i1 = false ->
     forall j x, In j (invs st2) -> i_amp j = false -> In (k, x) (i_htlcs j) ->
                 h_hash x = h_hash h1 -> j = i2).
Proof.
  intros SO RR II I G.
  assert (SO2 : state_ok H g st2) by (eapply run_ok; eauto).
  destruct (run_le H R g st1 evs st2 outs SO RR i1 II) as [i2 [I2 (L1 & _ & _ & LA & _ & _ & L6)]].
  destruct (L6 G k h1 I) as [h2 [IH [LE SR]]].
  exists i2, h2. destruct SO2 as [ND2 OK2]. assert (O2 := OK2 i2 I2).
  assert (SR' := SR). destruct SR as (R1 & R2 & R3 & R4 & R5 & R6).
  repeat split; auto.
  - intros x IX. apply (in_find_htlc _ _ _ (ok_nodup_keys H g i2 O2)) in IX.
    apply (in_find_htlc _ _ _ (ok_nodup_keys H g i2 O2)) in IH. congruence.
  - intro S. destruct LE; congruence.
  - intro S. destruct LE; congruence.
  - intros NA j x IJ NJ IX EX. eapply nodup_hash_eq; eauto.
    destruct (ok_data H g j (ok_nonamp H g j NJ (OK2 j IJ)) k x IX) as [DJ _].
    destruct SO as [_ OK1]. destruct (ok_data H g i1 (ok_nonamp H g i1 NA (OK1 i1 II)) k h1 I) as [D1 _].
    congruence.
Qed.

End Final.

(* ---- the JIT keysend pre-check refutes the replay clause (finding C15-F1) ---- *)
Definition wit_H (p : N) : N := if N.eqb p 1 then 1%N else 0%N.
Definition wit_R (l : list (N * N)) : list (N * N) := [].
Definition wit_cfg : cfg := mkCfg 4 true false true false.
Definition wit_ctx (height : Z) : hctx :=
  mkCtx 1 3 1000 110 height None false None 0 (KSPre 1) 0 0 0.
Definition wit_events : list event :=
  [EAdd (mkInv 1 0 1000 (Some 1%N) 9 false false false COpen [] 0 []); ENotify (wit_ctx 100)].

Lemma replay_keysend_refuted :
  let st := fst (run wit_H wit_R wit_cfg init wit_events) in
  snd (run wit_H wit_R wit_cfg init wit_events) =
    [(RpApi AOk, []); (RpDirect (DRes (NSettle 3 1 100 S_Settled)), [])] /\
  (exists i h, In i (invs st) /\ find_htlc 3 (i_htlcs i) = Some h /\ h_state h = HSettled) /\
  fst (snd (notify wit_H wit_R wit_cfg st (wit_ctx 117))) =
    RpDirect (DRes (NFail 3 117 F_KeySendError)).
Proof.
  vm_compute. split; [reflexivity|]. split; [|reflexivity].
  eexists. eexists. split; [left; reflexivity|]. split; reflexivity.
Qed.

(* ---- AMP analogue of C15-F1: with AcceptAMP the expiry pre-check of processAMP
   runs before the replay lookup ---- *)
(* preimage 10+n hashes to 20+n; a single share s with index 0 reconstructs
   to (hash 20+s, preimage 10+s) *)
Definition ampw_H (p : N) : N := (p + 10)%N.
Definition ampw_R (l : list (N * N)) : list (N * N) :=
  match l with
  | [(s, _)] => [((s + 20)%N, (s + 10)%N)]
  | _ => []
  end.
Definition ampw_inv : invoice := mkInv 5 7 1000 None 4 false true false COpen [] 0 [].
(* htlc key k, share s (hash 20+s), set id sid, amount = total = 1000 *)
Definition ampw_ctx (k s sid : N) (height : Z) : hctx :=
  mkCtx (s + 20) k 1000 110 height (Some (7%N, 1000%N)) true None 0 KSNone sid s 0.

Lemma replay_amp_jit_refuted :
  let g := mkCfg 4 false false false true in
  let st := fst (run ampw_H ampw_R g init [EAdd ampw_inv; ENotify (ampw_ctx 1 1 3 100)]) in
  snd (run ampw_H ampw_R g init [EAdd ampw_inv; ENotify (ampw_ctx 1 1 3 100)]) =
    [(RpApi AOk, []); (RpDirect (DRes (NSettle 1 11 100 S_Settled)), [])] /\
  (exists i h, In i (invs st) /\ find_htlc 1 (i_htlcs i) = Some h /\ h_state h = HSettled) /\
  fst (snd (notify ampw_H ampw_R g st (ampw_ctx 1 1 3 117))) =
    RpDirect (DRes (NFail 1 117 F_AmpError)).
Proof.
  vm_compute. split; [reflexivity|]. split; [|reflexivity].
  eexists. eexists. split; [left; reflexivity|]. split; reflexivity.
Qed.

(* ---- finding C15-F2: on the KV store a complete AMP payment into an already
   settled set id rewrites the stored set; the settled record of htlc 1
   disappears, its replay is processed as a NEW htlc (outcome Settled, AmtPaid
   counted again) -- on the SQL store the record stays and the replay is
   answered ReplayToSettled ---- *)
Definition f2_events : list event :=
  [EAdd ampw_inv; ENotify (ampw_ctx 1 1 3 100); ENotify (ampw_ctx 2 2 3 100)].

Lemma amp_kv_reuse_refuted :
  let kv := mkCfg 4 false false true false in
  let sql := mkCfg 4 false false false false in
  let st1 := fst (run ampw_H ampw_R kv init [EAdd ampw_inv; ENotify (ampw_ctx 1 1 3 100)]) in
  let st2 := fst (run ampw_H ampw_R kv init f2_events) in
  let sq2 := fst (run ampw_H ampw_R sql init f2_events) in
  (* htlc 1 is recorded settled ... *)
  (exists i h, In i (invs st1) /\ find_htlc 1 (i_htlcs i) = Some h /\ h_state h = HSettled) /\
  (* ... and after the second payment into set 3 no invoice holds a record of it (KV) *)
  (forall i, In i (invs st2) -> find_htlc 1 (i_htlcs i) = None) /\
  (* its replay is settled as a new htlc and paid twice *)
  fst (snd (notify ampw_H ampw_R kv st2 (ampw_ctx 1 1 3 100))) =
    RpDirect (DRes (NSettle 1 11 100 S_Settled)) /\
  map i_paid (invs (fst (notify ampw_H ampw_R kv st2 (ampw_ctx 1 1 3 100)))) = [3000%N] /\
  (* SQL: record kept, replay answered from it, AmtPaid unchanged *)
  (exists i h, In i (invs sq2) /\ find_htlc 1 (i_htlcs i) = Some h /\ h_state h = HSettled) /\
  fst (snd (notify ampw_H ampw_R sql sq2 (ampw_ctx 1 1 3 100))) =
    RpDirect (DRes (NSettle 1 11 100 S_ReplayToSettled)) /\
  map i_paid (invs (fst (notify ampw_H ampw_R sql sq2 (ampw_ctx 1 1 3 100)))) = [2000%N].
Proof.
  vm_compute. repeat split; try reflexivity.
  - eexists. eexists. split; [left; reflexivity|]. split; reflexivity.
  - intros i [E|[]]. subst. reflexivity.
  - eexists. eexists. split; [left; reflexivity|]. split; reflexivity.
Qed.
