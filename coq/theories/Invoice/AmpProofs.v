(* C15 / AMP — proofs of the AMP theorems stated in AmpProps.v. *)
From Coq Require Import List NArith ZArith Bool Lia.
From LV Require Import Invoice.Model Invoice.Proofs Invoice.AmpModel.
Import ListNotations.

Local Open Scope N_scope.

(* ------------------------------------------------------------------ *)
(* uint64 arithmetic without overflow                                   *)

Lemma W64_nz : W64 <> 0.
Proof. discriminate. Qed.

Lemma wadd_exact a b : a + b < W64 -> wadd a b = a + b.
Proof. intro X. unfold wadd. apply N.mod_small. exact X. Qed.

Lemma wsub_exact a b : b <= a -> a < W64 -> wsub a b = a - b.
Proof.
  intros L B. unfold wsub. rewrite (N.mod_small b) by lia.
  replace (a + (W64 - b)) with ((a - b) + 1 * W64) by lia.
  rewrite N.mod_add by apply W64_nz. apply N.mod_small. lia.
Qed.

(* ------------------------------------------------------------------ *)
(* sums and tests over htlc lists                                       *)

Lemma asum_tsum P l : asum P l = tsum P l.
Proof. induction l as [|[k h] r IH]; simpl; [reflexivity|]. rewrite IH. reflexivity. Qed.

Lemma asum_app P a b : asum P (a ++ b) = asum P a + asum P b.
Proof.
  induction a as [|[k h] r IH]; simpl; [reflexivity|]. rewrite IH. destruct (P h); lia.
Qed.

Lemma asum_mid P a k x b :
  asum P (a ++ (k, x) :: b) = asum P a + (if P x then h_amt x else 0) + asum P b.
Proof. rewrite asum_app. simpl. destruct (P x); lia. Qed.

Lemma asum_le P Q l : (forall h, P h = true -> Q h = true) -> asum P l <= asum Q l.
Proof.
  intro X. induction l as [|[k h] r IH]; simpl; [lia|].
  destruct (P h) eqn:PH; [rewrite (X h PH); lia|]. destruct (Q h); lia.
Qed.

Lemma asum_le_all P l : asum P l <= asum all_h l.
Proof. apply asum_le. reflexivity. Qed.

Lemma asum_none P l : any_htlc P l = false -> forall Q, asum (fun h => P h && Q h) l = 0.
Proof.
  intros A Q. rewrite any_htlc_false in A.
  induction l as [|[k h] r IH]; simpl; [reflexivity|].
  rewrite (A k h) by (left; reflexivity). simpl. apply IH. intros; eapply A; right; eauto.
Qed.

Lemma any_app P a b : any_htlc P (a ++ b) = any_htlc P a || any_htlc P b.
Proof. unfold any_htlc. apply existsb_app. Qed.

Lemma any_mid P a k x b :
  any_htlc P (a ++ (k, x) :: b) = any_htlc P a || (P x || any_htlc P b).
Proof. rewrite any_app. reflexivity. Qed.

Lemma any_none_and P l : any_htlc P l = false -> forall Q, any_htlc (fun h => P h && Q h) l = false.
Proof.
  intros A Q. rewrite any_htlc_false in *. intros k h I. rewrite (A k h I). reflexivity.
Qed.

Lemma none_set_in sid st l : any_htlc (in_set sid) l = false -> any_htlc (set_in sid st) l = false.
Proof. intro A. apply (any_none_and _ _ A (is_state st)). Qed.

Lemma none_set_nc sid l : any_htlc (in_set sid) l = false -> asum (set_nc sid) l = 0.
Proof. intro A. apply (asum_none _ _ A nc). Qed.

Lemma in_set_other sid sid' h : in_set sid h = true -> sid' <> sid -> in_set sid' h = false.
Proof.
  unfold in_set. destruct (h_set h) as [s|]; [|discriminate].
  intros E NE. apply N.eqb_eq in E. subst s. apply N.eqb_neq. congruence.
Qed.

(* ------------------------------------------------------------------ *)
(* the AMPState association list                                        *)

Lemma get_put_same s v l : get_set s (put_set s v l) = Some v.
Proof.
  induction l as [|[s0 w] r IH]; simpl; [rewrite N.eqb_refl; reflexivity|].
  destruct (N.eqb_spec s0 s); simpl.
  - subst. rewrite N.eqb_refl. reflexivity.
  - destruct (N.eqb_spec s0 s); [contradiction|]. exact IH.
Qed.

Lemma get_put_other s s' v l : s' <> s -> get_set s' (put_set s v l) = get_set s' l.
Proof.
  intro NE. induction l as [|[s0 w] r IH]; simpl.
  - destruct (N.eqb_spec s s'); [congruence|reflexivity].
  - destruct (N.eqb_spec s0 s); simpl.
    + subst. destruct (N.eqb_spec s s'); [congruence|reflexivity].
    + destruct (N.eqb s0 s'); [reflexivity|exact IH].
Qed.

Lemma get_accept_same s a l :
  get_set s (set_accept s a l) =
  Some (match get_set s l with None => (HAccepted, wadd 0 a) | Some (st, x) => (st, wadd x a) end).
Proof.
  unfold set_accept. destruct (get_set s l) as [[st x]|]; apply get_put_same.
Qed.

Lemma get_accept_other s s' a l : s' <> s -> get_set s' (set_accept s a l) = get_set s' l.
Proof.
  intro NE. unfold set_accept. destruct (get_set s l) as [[st x]|]; apply get_put_other; auto.
Qed.

(* ------------------------------------------------------------------ *)
(* the bookkeeping invariant on (htlc list, AmtPaid, AMPState)           *)

Definition acct3 (l : list (N * htlc)) (paid : N) (sets : list (N * (hstate * N))) : Prop :=
  paid = asum nc l /\ forall sid, get_set sid sets = proj_entry sid l.

Lemma nc_accepted h : h_state h = HAccepted -> nc h = true.
Proof. unfold nc, is_state. intro E. rewrite E. reflexivity. Qed.

(* ---- A: one new accepted htlc is recorded in set sid ---- *)
Lemma accept_step sid k h L paid sets :
  in_set sid h = true -> h_state h = HAccepted ->
  any_htlc (set_in sid HSettled) L = false ->
  no_mixed L -> acct3 L paid sets -> asum all_h ((k, h) :: L) < W64 ->
  acct3 ((k, h) :: L) (wadd paid (h_amt h)) (set_accept sid (h_amt h) sets) /\
  no_mixed ((k, h) :: L).
Proof.
  intros IS HA NS NM [EP ES] B. simpl in B.
  assert (NC : nc h = true) by (apply nc_accepted; auto).
  assert (LE := asum_le_all nc L).
  split; [split|].
  - simpl. rewrite NC. rewrite wadd_exact by lia. lia.
  - intro s. unfold proj_entry, proj_state. simpl any_htlc. simpl asum.
    unfold set_in at 1 3, set_nc at 1, is_state. rewrite HA. cbn [hstate_eqb]. rewrite !andb_false_r.
    cbn [orb]. fold (set_in s HSettled). fold (set_in s HCanceled).
    destruct (N.eq_dec s sid) as [E|NE].
    + subst s. rewrite get_accept_same, ES. rewrite IS, NC. cbn [orb andb].
      unfold proj_entry, proj_state.
      assert (LS := asum_le_all (set_nc sid) L).
      destruct (any_htlc (in_set sid) L) eqn:AI.
      * rewrite wadd_exact by lia. f_equal. f_equal. lia.
      * rewrite wadd_exact by lia.
        rewrite (none_set_in _ HSettled _ AI), (none_set_in _ HCanceled _ AI), (none_set_nc _ _ AI).
        f_equal. f_equal. lia.
    + rewrite get_accept_other by auto. rewrite ES.
      rewrite (in_set_other sid s h IS NE). reflexivity.
  - intros s k1 h1 k2 h2 [E1|I1] [E2|I2] S1 S2 ST.
    + inv E1. congruence.
    + inv E1. congruence.
    + inv E2. exfalso. rewrite any_htlc_false in NS.
      destruct (N.eq_dec s sid) as [E|NE].
      * subst s. specialize (NS _ _ I1). unfold set_in in NS. rewrite S1 in NS.
        apply is_state_iff in ST. rewrite ST in NS. discriminate.
      * rewrite (in_set_other sid s h2 IS NE) in S2. discriminate.
    + exact (NM s k1 h1 k2 h2 I1 I2 S1 S2 ST).
Qed.

(* ---- C: one accepted htlc (anywhere in the list) is canceled ---- *)
Lemma in_mid_back (a : list (N * htlc)) k x y b k1 h1 :
  In (k1, h1) (a ++ (k, y) :: b) -> h1 <> y -> In (k1, h1) (a ++ (k, x) :: b).
Proof.
  intros I NE. apply in_app_or in I. apply in_or_app. destruct I as [I|[E|I]]; auto.
  - inv E. congruence.
  - right. right. exact I.
Qed.

Lemma cancel_step A k h B paid sets paid' sets' :
  no_mixed (A ++ (k, h) :: B) -> h_state h = HAccepted ->
  asum all_h (A ++ (k, h) :: B) < W64 ->
  acct3 (A ++ (k, h) :: B) paid sets ->
  amp_cancel_acct h (Some (paid, sets)) = Some (paid', sets') ->
  acct3 (A ++ (k, set_hstate h HCanceled) :: B) paid' sets' /\
  no_mixed (A ++ (k, set_hstate h HCanceled) :: B).
Proof.
  intros NM HA B0 [EP ES] AC.
  set (ch := set_hstate h HCanceled).
  assert (NC : nc h = true) by (apply nc_accepted; auto).
  assert (NCC : nc ch = false) by reflexivity.
  unfold amp_cancel_acct in AC. destruct (h_set h) as [s0|] eqn:HS; [|discriminate].
  assert (IS0 : in_set s0 h = true) by (unfold in_set; rewrite HS; apply N.eqb_refl).
  destruct (get_set s0 sets) as [[st0 a0]|] eqn:G0; [|discriminate].
  injection AC as EP' ES'. subst paid' sets'.
  rewrite asum_mid in B0. unfold all_h at 2 in B0.
  assert (LA := asum_le_all nc A). assert (LB := asum_le_all nc B).
  split; [split|].
  - rewrite asum_mid in EP. rewrite NC in EP. rewrite asum_mid, NCC.
    destruct (N.eqb_spec paid 0) as [Z|NZ]; [lia|].
    rewrite wsub_exact by lia. lia.
  - intro s. destruct (N.eq_dec s s0) as [E|NE].
    + subst s. rewrite get_put_same.
      generalize (ES s0). rewrite G0. unfold proj_entry, proj_state.
      rewrite !any_mid, !asum_mid. unfold set_in, set_nc. fold ch.
      change (in_set s0 ch) with (in_set s0 h). rewrite IS0, NC, NCC.
      unfold is_state. change (h_state ch) with HCanceled. rewrite HA. cbn [hstate_eqb andb orb].
      rewrite !orb_true_r. cbn [orb].
      (* no settled htlc in the set: h is an accepted member *)
      assert (NS : forall X, In X [A; B] -> any_htlc (fun x => in_set s0 x && hstate_eqb (h_state x) HSettled) X = false).
      { intros X IX. apply any_htlc_false. intros k1 h1 I1.
        destruct (in_set s0 h1) eqn:S1; [|reflexivity]. simpl.
        destruct (h_state h1) eqn:ST1; try reflexivity. exfalso.
        refine (NM s0 k1 h1 k h _ _ S1 IS0 ST1 HA).
        - apply in_or_app. destruct IX as [X1|[X1|[]]]; subst X; [left; auto|right; right; auto].
        - apply in_or_app. right. left. reflexivity. }
      rewrite (NS A) by (left; reflexivity). rewrite (NS B) by (right; left; reflexivity).
      cbn [orb]. intro X. inv X.
      assert (LSA := asum_le_all (fun x => in_set s0 x && nc x) A).
      assert (LSB := asum_le_all (fun x => in_set s0 x && nc x) B).
      rewrite wsub_exact by lia. f_equal. f_equal. lia.
    + rewrite get_put_other by auto. rewrite ES. unfold proj_entry, proj_state.
      rewrite !any_mid, !asum_mid. unfold set_in, set_nc. fold ch.
      change (in_set s ch) with (in_set s h). rewrite (in_set_other s0 s h IS0 NE). reflexivity.
  - intros s k1 h1 k2 h2 I1 I2 S1 S2 ST1 ST2.
    refine (NM s k1 h1 k2 h2 _ _ S1 S2 ST1 ST2).
    + eapply in_mid_back; eauto. intro X. subst h1. discriminate.
    + eapply in_mid_back; eauto. intro X. subst h2. discriminate.
Qed.

(* ---- cancelSingleHtlc: the canceled htlc sits somewhere in the list ---- *)
Lemma set_state_notin k s (l : list (N * htlc)) :
  ~ In k (map fst l) -> set_htlc_state k s l = l.
Proof.
  unfold set_htlc_state. induction l as [|[k0 h0] r IH]; simpl; intro NI; [reflexivity|].
  destruct (N.eqb_spec k0 k); [exfalso; apply NI; left; auto|].
  f_equal. apply IH. intro X. apply NI. right. exact X.
Qed.

Lemma set_state_split k s (l : list (N * htlc)) h :
  NoDup (map fst l) -> find_htlc k l = Some h ->
  exists A B, l = A ++ (k, h) :: B /\ set_htlc_state k s l = A ++ (k, set_hstate h s) :: B.
Proof.
  induction l as [|[k0 h0] r IH]; simpl; intros ND F; [discriminate|].
  inversion ND as [|x y NI ND']; subst.
  destruct (N.eqb_spec k k0) as [E|NE].
  - subst k0. inv F. exists [], r. split; [reflexivity|]. simpl.
    unfold set_htlc_state. simpl. rewrite N.eqb_refl. f_equal.
    apply (set_state_notin k s r NI).
  - destruct (IH ND' F) as [A [B [E1 E2]]]. exists ((k0, h0) :: A), B. split.
    + simpl. rewrite <- E1. reflexivity.
    + unfold set_htlc_state in *. simpl. destruct (N.eqb_spec k0 k); [congruence|].
      rewrite E2. reflexivity.
Qed.

(* ---- cancelInvoice: the fold over the fetched htlcs ---- *)
Lemma cancel_fold_none P l : amp_cancel_fold P l None = None.
Proof.
  induction l as [|[k h] r IH]; simpl; [reflexivity|]. destruct (P h && is_state HAccepted h); exact IH.
Qed.

Lemma cancel_fold_step P : forall l2 A paid sets paid' sets',
  no_mixed (A ++ l2) -> asum all_h (A ++ l2) < W64 -> acct3 (A ++ l2) paid sets ->
  amp_cancel_fold P l2 (Some (paid, sets)) = Some (paid', sets') ->
  acct3 (A ++ map_htlcs (cancel_sel P) l2) paid' sets' /\
  no_mixed (A ++ map_htlcs (cancel_sel P) l2).
Proof.
  induction l2 as [|[k h] r IH]; intros A paid sets paid' sets' NM B AC F.
  - simpl in *. inv F. auto.
  - cbn [amp_cancel_fold] in F. unfold map_htlcs. cbn [map fst snd]. unfold cancel_sel at 1 3.
    destruct (P h && is_state HAccepted h) eqn:C.
    + apply andb_true_iff in C. destruct C as [_ C]. apply is_state_iff in C.
      destruct (amp_cancel_acct h (Some (paid, sets))) as [[p1 s1]|] eqn:AA;
        [|rewrite cancel_fold_none in F; discriminate].
      destruct (cancel_step A k h r paid sets p1 s1 NM C B AC AA) as [AC1 NM1].
      specialize (IH (A ++ [(k, set_hstate h HCanceled)]) p1 s1 paid' sets').
      rewrite <- !app_assoc in IH. simpl in IH. apply IH; auto.
      rewrite asum_mid in *. exact B.
    + specialize (IH (A ++ [(k, h)]) paid sets paid' sets').
      rewrite <- !app_assoc in IH. simpl in IH. apply IH; auto.
Qed.

(* ---- S: the accepted htlcs of set sid (the new one first) are settled ---- *)
Inductive srel (sid gen : N) : N * htlc -> N * htlc -> Prop :=
| sr_same k h : in_set sid h && is_state HAccepted h = false -> srel sid gen (k, h) (k, h)
| sr_set k h p : in_set sid h = true -> h_state h = HAccepted ->
                 srel sid gen (k, h) (k, amp_settled h p gen).

Lemma srel_inv sid gen a b :
  srel sid gen a b ->
  (in_set sid (snd a) && is_state HAccepted (snd a) = false /\ b = a) \/
  (in_set sid (snd a) = true /\ h_state (snd a) = HAccepted /\
   exists p, b = (fst a, amp_settled (snd a) p gen)).
Proof. intro S. inversion S; subst; [left|right]; simpl; eauto. Qed.

Lemma amp_settle_F2 H sid gen pm l l' :
  amp_settle_htlcs H sid gen pm l = Some l' -> Forall2 (srel sid gen) l l'.
Proof.
  revert l'. induction l as [|[k h] r IH]; simpl; intros l' E.
  - inv E. constructor.
  - destruct (amp_settle_htlcs H sid gen pm r) as [r'|]; [|discriminate].
    destruct (in_set sid h && is_state HAccepted h) eqn:C.
    + destruct (match find_pre k pm with Some p => _ | None => _ end) as [[p|]|]; try discriminate.
      destruct (N.eqb (H p) (h_hash h)); [|discriminate]. inv E. constructor; [|auto].
      apply andb_true_iff in C. destruct C as [C1 C2]. apply is_state_iff in C2. apply sr_set; auto.
    + inv E. constructor; [apply sr_same; auto|auto].
Qed.

Lemma F2_asum sid gen P Q l l' :
  Forall2 (srel sid gen) l l' ->
  (forall a b, srel sid gen a b -> P (snd b) = Q (snd a)) -> asum P l' = asum Q l.
Proof.
  intros F X. induction F as [|a b l l' S F IH]; [reflexivity|].
  destruct a as [ka ha], b as [kb hb]. generalize (X _ _ S). simpl. intro XE. rewrite XE, IH.
  inv S; reflexivity.
Qed.

Lemma F2_any sid gen P Q l l' :
  Forall2 (srel sid gen) l l' ->
  (forall a b, srel sid gen a b -> P (snd b) = Q (snd a)) -> any_htlc P l' = any_htlc Q l.
Proof.
  intros F X. induction F as [|a b l l' S F IH]; [reflexivity|].
  unfold any_htlc in *. simpl. rewrite (X _ _ S), IH. reflexivity.
Qed.

Lemma F2_in sid gen l l' b :
  Forall2 (srel sid gen) l l' -> In b l' -> exists a, In a l /\ srel sid gen a b.
Proof.
  intros F. induction F as [|a0 b0 l l' S F IH]; intros I; [destruct I|].
  destruct I as [E|I]; [subst; exists a0; split; [left; auto|auto]|].
  destruct (IH I) as [a [IA SA]]. exists a. split; [right; auto|auto].
Qed.

Lemma settle_step H sid gen pm k h L L2 paid sets :
  amp_settle_htlcs H sid gen pm ((k, h) :: L) = Some L2 ->
  in_set sid h = true -> h_state h = HAccepted ->
  no_mixed L -> acct3 L paid sets -> asum all_h ((k, h) :: L) < W64 ->
  acct3 L2 (wadd paid (h_amt h))
        (match get_set sid (set_accept sid (h_amt h) sets) with
         | Some (_, a) => put_set sid (HSettled, a) (set_accept sid (h_amt h) sets)
         | None => set_accept sid (h_amt h) sets
         end) /\
  no_mixed L2.
Proof.
  intros SE IS HA NM [EP ES] B.
  assert (F := amp_settle_F2 _ _ _ _ _ _ SE).
  assert (NC : nc h = true) by (apply nc_accepted; auto).
  simpl in B. assert (LE := asum_le_all nc L).
  (* predicates that the settling of set sid does not change *)
  assert (PNC : forall a b, srel sid gen a b -> nc (snd b) = nc (snd a)).
  { intros a b S. destruct (srel_inv _ _ _ _ S) as [[_ E]|[_ [A0 [p E]]]]; subst b; [reflexivity|].
    simpl. rewrite (nc_accepted _ A0). reflexivity. }
  assert (PIN : forall s a b, srel sid gen a b -> in_set s (snd b) = in_set s (snd a)).
  { intros s a b S. destruct (srel_inv _ _ _ _ S) as [[_ E]|[_ [A0 [p E]]]]; subst b; reflexivity. }
  assert (POTH : forall s st a b, s <> sid -> srel sid gen a b -> set_in s st (snd b) = set_in s st (snd a)).
  { intros s st a b NE S. destruct (srel_inv _ _ _ _ S) as [[_ E]|[I0 [A0 [p E]]]]; subst b; [reflexivity|].
    simpl. unfold set_in.
    change (in_set s (amp_settled (snd a) p gen)) with (in_set s (snd a)).
    rewrite (in_set_other sid s (snd a)) by auto. reflexivity. }
  assert (HEAD : exists p L2', L2 = (k, amp_settled h p gen) :: L2').
  { inversion F as [|a b l l' S F']; subst.
    destruct (srel_inv _ _ _ _ S) as [[C _]|[_ [_ [p E]]]].
    - simpl in C. rewrite IS in C. apply is_state_iff in HA. rewrite HA in C. discriminate.
    - subst b. simpl. eauto. }
  split; [split|].
  - rewrite wadd_exact by lia. rewrite (F2_asum _ _ nc nc _ _ F PNC). simpl. rewrite NC. lia.
  - intro s. destruct (N.eq_dec s sid) as [E|NE].
    + subst s. rewrite get_accept_same.
      destruct (match get_set sid sets with None => _ | Some (st, x) => _ end) as [st1 a1] eqn:M.
      cbv iota beta. rewrite get_put_same. rewrite ES in M.
      unfold proj_entry. rewrite (F2_any _ _ (in_set sid) (in_set sid) _ _ F (PIN sid)).
      simpl any_htlc. rewrite IS. cbn [orb].
      assert (PS : proj_state sid L2 = HSettled).
      { destruct HEAD as [p [L2' E2]]. subst L2. unfold proj_state, any_htlc. simpl.
        unfold set_in at 1. change (in_set sid (amp_settled h p gen)) with (in_set sid h).
        rewrite IS. reflexivity. }
      rewrite PS.
      rewrite (F2_asum _ _ (set_nc sid) (set_nc sid) _ _ F).
      2:{ intros a b S. unfold set_nc. rewrite (PIN sid _ _ S), (PNC _ _ S). reflexivity. }
      simpl asum. unfold set_nc at 1. rewrite IS, NC. cbn [andb].
      assert (LS := asum_le_all (set_nc sid) L).
      unfold proj_entry in M. destruct (any_htlc (in_set sid) L) eqn:AI.
      * rewrite wadd_exact in M by lia. inversion M; subst. f_equal. f_equal. lia.
      * rewrite wadd_exact in M by lia. rewrite (none_set_nc _ _ AI). inversion M; subst.
        f_equal. f_equal. lia.
    + assert (G : get_set s
                    (match get_set sid (set_accept sid (h_amt h) sets) with
                     | Some (_, a) => put_set sid (HSettled, a) (set_accept sid (h_amt h) sets)
                     | None => set_accept sid (h_amt h) sets
                     end) = get_set s sets).
      { destruct (get_set sid (set_accept sid (h_amt h) sets)) as [[st a]|].
        - rewrite get_put_other by auto. apply get_accept_other; auto.
        - apply get_accept_other; auto. }
      rewrite G, ES. unfold proj_entry, proj_state.
      rewrite (F2_any _ _ (in_set s) (in_set s) _ _ F (PIN s)).
      rewrite (F2_any _ _ (set_in s HSettled) (set_in s HSettled) _ _ F (fun a b => POTH s HSettled a b NE)).
      rewrite (F2_any _ _ (set_in s HCanceled) (set_in s HCanceled) _ _ F (fun a b => POTH s HCanceled a b NE)).
      rewrite (F2_asum _ _ (set_nc s) (set_nc s) _ _ F).
      2:{ intros a b S. unfold set_nc. rewrite (PIN s _ _ S), (PNC _ _ S). reflexivity. }
      assert (Z0 := in_set_other sid s h IS NE).
      assert (Z1 : forall st, set_in s st h = false) by (intro st; unfold set_in; rewrite Z0; reflexivity).
      assert (Z3 : set_nc s h = false) by (unfold set_nc; rewrite Z0; reflexivity).
      unfold any_htlc. cbn [existsb asum snd fst]. rewrite Z0, !Z1, Z3. reflexivity.
  - intros s k1 x1 k2 x2 I1 I2 S1 S2 ST1 ST2.
    destruct (F2_in _ _ _ _ _ F I2) as [[ka2 h2] [J2 R2]].
    destruct (srel_inv _ _ _ _ R2) as [[C2 E2]|[_ [_ [p2 E2]]]];
      [|inversion E2; subst; simpl in ST2; discriminate].
    inversion E2; subst ka2 h2. simpl in C2.
    (* x2 is unchanged and accepted, hence not in set sid *)
    assert (NS2 : in_set sid x2 = false).
    { apply is_state_iff in ST2. rewrite ST2, andb_true_r in C2. exact C2. }
    assert (NE : s <> sid) by (intro X; subst s; congruence).
    destruct (F2_in _ _ _ _ _ F I1) as [[ka1 h1] [J1 R1]].
    destruct (srel_inv _ _ _ _ R1) as [[C1 E1]|[I0 [_ [p1 E1]]]]; inversion E1; subst; simpl in *.
    + destruct J1 as [E|J1]; [inversion E; subst; congruence|].
      destruct J2 as [E|J2]; [inversion E; subst; congruence|].
      exact (NM s _ _ _ _ J1 J2 S1 S2 ST1 ST2).
    + change (in_set s (amp_settled h1 p1 gen)) with (in_set s h1) in S1.
      rewrite (in_set_other sid s h1) in S1 by auto. discriminate.
Qed.

(* ------------------------------------------------------------------ *)
(* lifting to every reachable state (SQL store)                         *)

Section Lift.
Variable H : N -> N.
Variable R : list (N * N) -> list (N * N).
Variable g : cfg.

(* bookkeeping invariant of one invoice: AMP invoice on the SQL store whose
   total htlc volume fits uint64 *)
Definition ampQ (i : invoice) : Prop :=
  i_amp i = true -> g_kv g = false -> asum all_h (i_htlcs i) < W64 ->
  no_mixed (i_htlcs i) /\ acct3 (i_htlcs i) (i_paid i) (i_sets i).

Lemma trans_Q i i' : ok H g i -> ampQ i -> trans H R g i i' -> ampQ i'.
Proof.
  intros OK Q T. destruct (trans_hash H R g i i' T) as [_ EA].
  intros IA' KV B'. rewrite EA in IA'. specialize (Q IA' KV).
  assert (AO : amp_ok H g i) by (apply ok_amp; auto).
  destruct T as [c h ns r NA E U A|p S A|NA S A|k hk NA S FK HK E|c addr total h NA F U A|P NA A|k h NA F HA A
         |c addr total h pm hs NA F U A]; try congruence.
  - exfalso. destruct (ao_state H g i AO); congruence.
  - (* accept *)
    destruct (amp_update_facts R g c i addr total h (or_introl U)) as (HH & ST & D & _).
    unfold amp_apply_accept in A.
    destruct (any_htlc (fun x => in_set (c_set c) x && is_state HSettled x) (i_htlcs i)) eqn:NS; inv A.
    simpl in *.
    assert (IS : in_set (c_set c) (new_amp_htlc c total addr) = true)
      by (unfold in_set; simpl; apply N.eqb_refl).
    assert (B : asum all_h (i_htlcs i) < W64) by (unfold all_h in *; lia).
    destruct (Q B) as [NM AC].
    destruct (accept_step (c_set c) (c_key c) (new_amp_htlc c total addr) (i_htlcs i) (i_paid i) (i_sets i)
                          IS eq_refl NS NM AC B') as [X Y].
    split; [exact Y|exact X].
  - (* cancelInvoice over the fetched htlcs *)
    unfold amp_cancel_invoice in A. destruct (any_htlc _ _); [discriminate|].
    destruct (amp_cancel_fold P (i_htlcs i) (Some (i_paid i, i_sets i))) as [[paid sets]|] eqn:FO; inv A.
    simpl in *.
    assert (EB : asum all_h (map_htlcs (cancel_sel P) (i_htlcs i)) = asum all_h (i_htlcs i)).
    { clear. induction (i_htlcs i) as [|[k h] r IH]; simpl; [reflexivity|]. rewrite IH.
      unfold cancel_sel. destruct (P h && is_state HAccepted h); reflexivity. }
    rewrite EB in B'. destruct (Q B') as [NM AC].
    destruct (cancel_fold_step P (i_htlcs i) [] (i_paid i) (i_sets i) paid sets NM B' AC FO) as [X Y].
    split; [exact Y|exact X].
  - (* cancelSingleHtlc *)
    unfold amp_cancel_one in A.
    destruct (amp_cancel_acct h (Some (i_paid i, i_sets i))) as [[paid sets]|] eqn:AA; inv A.
    simpl in *.
    destruct (set_state_split k HCanceled (i_htlcs i) h (ao_nodup H g i AO) F) as [A0 [B0 [E1 E2]]].
    rewrite E2 in *. 
    assert (B : asum all_h (i_htlcs i) < W64).
    { rewrite E1. rewrite asum_mid in *. exact B'. }
    destruct (Q B) as [NM AC]. rewrite E1 in NM, AC, B.
    destruct (cancel_step A0 k h B0 (i_paid i) (i_sets i) paid sets NM HA B AC AA) as [X Y].
    split; [exact Y|exact X].
  - (* settle (SQL: nothing is dropped) *)
    destruct (amp_update_facts R g c i addr total h (or_intror (ex_intro _ pm U))) as (HH & ST & D & _).
    unfold amp_apply_settle in A. destruct (i_pre i); [discriminate|].
    destruct (amp_settle_htlcs H (c_set c) (c_key c) pm ((c_key c, h) :: i_htlcs i)) as [hs2|] eqn:SE;
      [|discriminate].
    rewrite KV in A. cbn [andb] in A. inv A. cbn [with_amp i_htlcs i_paid i_sets] in *.
    assert (IS : in_set (c_set c) (new_amp_htlc c total addr) = true)
      by (unfold in_set; simpl; apply N.eqb_refl).
    assert (F2 := amp_settle_F2 _ _ _ _ _ _ SE).
    assert (EB : asum all_h hs = asum all_h ((c_key c, new_amp_htlc c total addr) :: i_htlcs i)).
    { apply (F2_asum _ _ all_h all_h _ _ F2). reflexivity. }
    rewrite EB in B'.
    assert (B : asum all_h (i_htlcs i) < W64) by (cbn [asum] in B'; unfold all_h in *; lia).
    destruct (Q B) as [NM AC].
    destruct (settle_step H (c_set c) (c_key c) pm (c_key c) (new_amp_htlc c total addr) (i_htlcs i) hs
                          (i_paid i) (i_sets i) SE IS eq_refl NM AC B') as [X Y].
    split; [exact Y|exact X].
Qed.

Lemma new_Q i : ampQ (with_amp i COpen [] 0%N []).
Proof.
  intros _ _ _. simpl. split.
  - intros s k h k' h' [].
  - split; [reflexivity|]. intro s. reflexivity.
Qed.

Lemma shape_Q l l' :
  state_ok H g (mkState l []) -> (forall i, In i l -> ampQ i) -> shape H R g l l' ->
  forall i, In i l' -> ampQ i.
Proof.
  intros SO Q [E|i0 F E|i0 i' I T E]; subst; auto.
  - intros x [X|X]; [subst; apply new_Q|auto].
  - intros x X. apply in_put_inv in X. destruct X as [X|[X _]]; [|auto]. subst x.
    eapply trans_Q; eauto. destruct SO as [_ OK]. apply OK. exact I.
Qed.

Lemma step_Q st e st' o :
  state_ok H g st -> (forall i, In i (invs st) -> ampQ i) -> step H R g st e = (st', o) ->
  forall i, In i (invs st') -> ampQ i.
Proof.
  intros SO Q ST. destruct (step_shape H R g st e st' o ST) as [l1 [S1 S2]].
  assert (SO0 : state_ok H g (mkState (invs st) [])) by (destruct SO; split; auto).
  assert (O1 : state_ok H g (mkState l1 [])) by (eapply shape_ok; eauto).
  assert (Q1 : forall i, In i l1 -> ampQ i) by (exact (shape_Q (invs st) l1 SO0 Q S1)).
  exact (shape_Q l1 (invs st') O1 Q1 S2).
Qed.

Theorem run_Q st evs st' outs :
  state_ok H g st -> (forall i, In i (invs st) -> ampQ i) -> run H R g st evs = (st', outs) ->
  forall i, In i (invs st') -> ampQ i.
Proof.
  revert st st' outs. induction evs as [|e r IH]; simpl; intros st st' outs SO Q RR.
  - inv RR. exact Q.
  - destruct (step H R g st e) as [st1 o] eqn:S. destruct (run H R g st1 r) as [st2 os] eqn:R2.
    inv RR. eapply IH; [| |eauto]; [eapply step_ok; eauto|eapply step_Q; eauto].
Qed.

(* clause (c) for every history *)
Theorem amp_accounting evs st outs i :
  run H R g init evs = (st, outs) -> In i (invs st) -> i_amp i = true -> g_kv g = false ->
  asum all_h (i_htlcs i) < W64 ->
  i_paid i = asum nc (i_htlcs i) /\
  (forall sid, get_set sid (i_sets i) = proj_entry sid (i_htlcs i)) /\
  no_mixed (i_htlcs i) /\
  (any_htlc (is_state HAccepted) (i_htlcs i) = false -> i_paid i = asum (is_state HSettled) (i_htlcs i)).
Proof.
  intros RR I IA KV B.
  assert (Q : ampQ i).
  { eapply run_Q; eauto; [apply init_ok|]. intros x []. }
  destruct (Q IA KV B) as [NM [EP ES]]. repeat split; auto.
  intro NA. rewrite EP. rewrite any_htlc_false in NA.
  clear - NA. induction (i_htlcs i) as [|[k h] r IH]; simpl; [reflexivity|].
  assert (HA := NA k h (or_introl eq_refl)).
  rewrite IH by (intros; eapply NA; right; eauto).
  unfold nc, is_state in *. destruct (h_state h); simpl in *; try reflexivity. discriminate.
Qed.

End Lift.

(* ------------------------------------------------------------------ *)
(* the decision: complete set, set view, atomicity                      *)

Section Decide.
Variable H : N -> N.
Variable R : list (N * N) -> list (N * N).
Variable g : cfg.

Lemma amp_update_complete c i addr total h pm :
  amp_update R g c i addr total = MSettle h pm ->
  h = new_amp_htlc c total addr /\
  pm = pre_map (amp_batch c i addr total) (R (descs_of (amp_batch c i addr total))) /\
  complete_set R g c i addr total.
Proof.
  intro U. unfold amp_update in U. fold (acc_of (c_set c) i) in U.
  destruct (negb (cstate_eqb (i_state i) COpen)) eqn:ST; [discriminate|].
  apply negb_false_iff in ST. apply cstate_eqb_eq in ST.
  destruct (negb (N.eqb addr (i_addr i))) eqn:EA; [discriminate|].
  apply negb_false_iff in EA. apply N.eqb_eq in EA.
  destruct (N.eqb_spec total 0) as [|T0]; [discriminate|].
  destruct (N.ltb_spec total (i_value i)) as [|TV]; [discriminate|].
  destruct (any_htlc _ _) eqn:MM; [discriminate|].
  destruct (negb (expiry_ok g c i)) eqn:EX; [discriminate|]. apply negb_false_iff in EX.
  destruct (N.eqb_spec (c_set c) 0) as [|S0]; [discriminate|].
  destruct (N.ltb_spec (wadd (wsum (fun _ => true) (acc_of (c_set c) i)) (c_amt c)) total) as [|GE];
    [discriminate|].
  destruct (i_hodl i) eqn:HO; [discriminate|].
  fold (amp_batch c i addr total) in U.
  destruct (hashes_match _ _) eqn:HM; [|discriminate]. inv U.
  split; [reflexivity|]. split; [reflexivity|].
  rewrite any_htlc_false in MM.
  unfold complete_set. repeat split; auto.
  - intros k h [E|I]; [inv E; reflexivity|].
    specialize (MM _ _ I). apply negb_false_iff in MM. apply N.eqb_eq in MM. exact MM.
  - destruct H0 as [E|I]; [inv E; reflexivity|].
    unfold acc_of in I. apply filter_In in I. destruct I as [_ I]. simpl in I.
    apply andb_true_iff in I. destruct I as [I _]. apply in_set_iff in I. exact I.
  - destruct H0 as [E|I]; [inv E; reflexivity|].
    unfold acc_of in I. apply filter_In in I. destruct I as [_ I]. simpl in I.
    apply andb_true_iff in I. destruct I as [_ I]. apply is_state_iff in I. exact I.
  - unfold amp_batch. simpl. rewrite wadd_comm. exact GE.
Qed.

(* a fresh htlc (no record of its circuit key) gets or causes a Settle only
   through the complete-set branch *)
Lemma notify_amp_fresh_settle st c i addr total st' o :
  find_htlc (c_key c) (i_htlcs i) = None ->
  notify_amp H R g st c i addr total = (st', o) -> settle_outs o <> [] ->
  exists h pm, amp_update R g c i addr total = MSettle h pm.
Proof.
  intros F. unfold notify_amp. rewrite F.
  destruct (amp_update R g c i addr total) as [oc|h|h|h|h pm] eqn:U; [| | | |eauto].
  - destruct (deliver _ _) as [sb out] eqn:D. intro X; inv X. unfold settle_outs. simpl.
    intro NE. exfalso. apply NE. destruct (flat_map res_settle out) as [|x r] eqn:FM; [reflexivity|].
    exfalso. assert (I : In x (flat_map res_settle out)) by (rewrite FM; left; reflexivity).
    destruct (is_set_failure oc).
    + unfold amp_fail_ntf in D. eapply ntf_fail_nosettle; [|exact D|exact I]. reflexivity.
    + simpl in D. inv D. destruct I.
  - destruct (g_kv g); [destruct (amp_apply_accept _ _ _ _)|];
      destruct (dup_set st i (c_set c)); try destruct (amp_apply_accept _ _ _ _);
      intro X; inv X; unfold settle_outs; simpl; congruence.
  - destruct (g_kv g); [|destruct (dup_set st i (c_set c))]; intro X; inv X;
      unfold settle_outs; simpl; congruence.
  - destruct (amp_cancel_invoice i (in_set (c_set c))) as [i'|];
      [|intro X; inv X; unfold settle_outs; simpl; congruence].
    destruct (deliver _ _) as [sb out] eqn:D. intro X; inv X. unfold settle_outs. simpl.
    intro NE. exfalso. apply NE. destruct (flat_map res_settle out) as [|x r] eqn:FM; [reflexivity|].
    exfalso. assert (I : In x (flat_map res_settle out)) by (rewrite FM; left; reflexivity).
    unfold amp_fail_ntf in D. eapply ntf_fail_nosettle; [|exact D|exact I]. reflexivity.
Qed.

(* clause (d): the decision depends on the invoice terms and the set's own htlcs only *)
Lemma acc_view sid i :
  acc_of sid i = filter (fun kh => is_state HAccepted (snd kh)) (set_view sid (i_htlcs i)).
Proof.
  unfold acc_of, set_view. induction (i_htlcs i) as [|[k h] r IH]; simpl; [reflexivity|].
  destruct (in_set sid h); simpl; [|exact IH]. destruct (is_state HAccepted h); rewrite IH; reflexivity.
Qed.

Lemma amp_update_view c i j addr total :
  same_for_set (c_set c) i j -> amp_update R g c i addr total = amp_update R g c j addr total.
Proof.
  intros (E1 & E2 & E3 & E4 & E5 & E6).
  unfold amp_update, expiry_ok. fold (acc_of (c_set c) i). fold (acc_of (c_set c) j).
  rewrite !acc_view, E1, E2, E3, E4, E5, E6. reflexivity.
Qed.

(* atomicity under the secrecy hypothesis on R *)
Lemma hashes_match_nth : forall l ch j k h,
  hashes_match l ch = true -> nth_error l j = Some (k, h) ->
  exists p, nth_error ch j = Some (h_hash h, p).
Proof.
  induction l as [|[k0 h0] r IH]; intros ch j k h HM NT; [destruct j; discriminate|].
  destruct ch as [|[hh p] cr]; [discriminate|]. simpl in HM.
  apply andb_true_iff in HM. destruct HM as [E HM]. apply N.eqb_eq in E.
  destruct j as [|j]; simpl in *.
  - inv NT. exists p. congruence.
  - eapply IH; eauto.
Qed.

Lemma amp_atomic c i addr total D E j k h :
  complete_set R g c i addr total -> R_atomic R D E ->
  nth_error (amp_batch c i addr total) j = Some (k, h) ->
  In (h_share h, h_idx h) D -> h_hash h = E (h_share h, h_idx h) ->
  incl D (descs_of (amp_batch c i addr total)).
Proof.
  intros CS RA NT ID EH.
  destruct CS as (_ & _ & _ & _ & _ & _ & _ & _ & _ & _ & HM).
  destruct (hashes_match_nth _ _ _ _ _ HM NT) as [p NP].
  apply (RA (descs_of (amp_batch c i addr total)) j (h_share h, h_idx h)); auto.
  - unfold descs_of. erewrite map_nth_error; [|exact NT]. reflexivity.
  - exists p. rewrite <- EH. exact NP.
Qed.

(* under R_wellformed the second hash check of the code (getUpdatedHtlcState,
   H(preimage) = htlc hash) is implied by the first (child hash = htlc hash) *)
Lemma wellformed_second_check : forall l ch k p,
  (forall hh q, In (hh, q) ch -> H q = hh) ->
  hashes_match l ch = true ->
  find_pre k (pre_map l ch) = Some p ->
  exists h, In (k, h) l /\ H p = h_hash h.
Proof.
  induction l as [|[k0 h0] r IH]; intros ch k p WF HM FP; [discriminate|].
  destruct ch as [|[hh q] cr]; [discriminate|]. simpl in HM, FP.
  apply andb_true_iff in HM. destruct HM as [E HM]. apply N.eqb_eq in E.
  destruct (N.eqb_spec k k0).
  - inv FP. exists h0. split; [left; reflexivity|]. apply WF. left. reflexivity.
  - destruct (IH cr k p) as [h [I X]]; auto.
    + intros; apply WF; right; auto.
    + exists h. split; [right; auto|auto].
Qed.

End Decide.

(* ------------------------------------------------------------------ *)
(* witnesses (toy hash, toy XOR reconstruction)                         *)

(* toy crypto: H p = p + 5000; root = XOR of the shares; the child of
   descriptor (s, idx) under root r has preimage 1000 + 100 r + 10 s + idx *)
Definition xH (p : N) : N := p + 5000.
Definition xroot (q : list (N * N)) : N := fold_right N.lxor 0 (map fst q).
Definition xpre (r : N) (d : N * N) : N := 1000 + 100 * r + 10 * fst d + snd d.
Definition xR (q : list (N * N)) : list (N * N) :=
  map (fun d => (xH (xpre (xroot q) d), xpre (xroot q) d)) q.

(* two-shard payments towards AMP invoice 5 (address 7, value 1000):
   set 3 = children (1,0) 600 + (2,1) 400 (root 3); set 4 = (4,0) 500 + (8,1) 500 (root 12) *)
Definition xinv : invoice := mkInv 5 7 1000 None 4 false true false COpen [] 0 [].
Definition xctx (k s idx sid amt r : N) : hctx :=
  mkCtx (xH (xpre r (s, idx))) k amt 110 100 (Some (7, 1000)) true None 0 KSNone sid s idx.
Definition sql : cfg := mkCfg 4 false false false false.


(* set-level clause "a canceled / settled set is never re-opened or paid again":
   REFUTED by the code's own design (AMPState[set].State records the LAST
   cancel / settle of the set id; a timed-out shard may be sent again and the
   set then settles; a settled set id may be paid again by a self-contained
   payment).  Per-htlc finality is Props.C15_no_settle_and_cancel. *)
Definition ev_reopen1 : list event :=
  [EAdd xinv; ENotify (xctx 1 1 0 3 600 3); ETimeoutSet 3 1].
Definition ev_reopen2 : list event :=
  [ENotify (xctx 4 1 0 3 600 3); ENotify (xctx 3 2 1 3 400 3)].
Definition ev_twice : list event :=
  [EAdd xinv; ENotify (xctx 1 1 0 3 1000 1); ENotify (xctx 2 2 0 3 1000 2)].

Lemma amp_set_state_refuted :
  (exists i, In i (invs (fst (run xH xR sql init ev_reopen1))) /\
             get_set 3 (i_sets i) = Some (HCanceled, 0)) /\
  (exists i, In i (invs (fst (run xH xR sql init (ev_reopen1 ++ ev_reopen2)))) /\
             get_set 3 (i_sets i) = Some (HSettled, 1000)) /\
  snd (run xH xR sql init ev_twice) =
    [(RpApi AOk, []); (RpDirect (DRes (NSettle 1 1110 100 S_Settled)), []);
     (RpDirect (DRes (NSettle 2 1220 100 S_Settled)), [])].
Proof.
  vm_compute. split; [|split; [|reflexivity]]; eexists; (split; [left; reflexivity|reflexivity]).
Qed.

(* "AmtPaid = sum over the SETTLED sets" is not what the code keeps: a held
   (accepted) htlc of an incomplete set is counted *)
Lemma amp_paid_counts_held :
  exists i, In i (invs (fst (run xH xR sql init [EAdd xinv; ENotify (xctx 1 1 0 3 600 3)]))) /\
            i_paid i = 600 /\ asum (is_state HSettled) (i_htlcs i) = 0.
Proof. vm_compute. eexists. split; [left; reflexivity|split; reflexivity]. Qed.
