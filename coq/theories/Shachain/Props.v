(* C06 property theorems (store / producer / codec half).  Statements only;
   proofs are in Proofs.v.  The hash function H, the bit flip and the hash
   equality test are universally quantified: every theorem holds for ANY hash.
   The only hypothesis on them is that hash_eqb decides equality (Go compares
   [32]byte arrays).  k = length hs is the number of secrets received so far;
   the guard k <= 2^48-1 (= start_index) is the size of the index space. *)
From Coq Require Import List NArith.
From LV Require Import Shachain.Model Shachain.Proofs.
Import ListNotations.
Local Open Scope N_scope.

(* every accepted sequence of secrets is reproduced exactly *)
Theorem C06_store_exact :
  forall (hash : Type) (H : hash -> hash) (flip : N -> hash -> hash)
         (hash_eqb : hash -> hash -> bool),
    (forall a b, hash_eqb a b = true <-> a = b) ->
  forall (hs : list hash) (st : store hash),
    add_all hash H flip hash_eqb new_store hs = Some st ->
    N.of_nat (length hs) <= start_index ->
    forall i h, nth_error hs i = Some h ->
                lookup hash H flip st (N.of_nat i) = Some h.
Proof. exact store_exact. Qed.

(* ... and keeps being reproduced after any further accepted inserts *)
Theorem C06_store_stable :
  forall (hash : Type) (H : hash -> hash) (flip : N -> hash -> hash)
         (hash_eqb : hash -> hash -> bool),
    (forall a b, hash_eqb a b = true <-> a = b) ->
  forall (hs more : list hash) (st st' : store hash),
    add_all hash H flip hash_eqb new_store hs = Some st ->
    add_all hash H flip hash_eqb st more = Some st' ->
    N.of_nat (length hs + length more) <= start_index ->
    forall i h, nth_error hs i = Some h ->
                lookup hash H flip st' (N.of_nat i) = Some h.
Proof. exact store_stable. Qed.

(* ... and ONLY those: for an index not received yet (k <= v <= 2^48-1) the
   store answers nothing, whatever was inserted -- LookUp can never hand out a
   value for a commitment the peer has not revoked *)
Theorem C06_unreceived_unknown :
  forall (hash : Type) (H : hash -> hash) (flip : N -> hash -> hash)
         (hash_eqb : hash -> hash -> bool),
    (forall a b, hash_eqb a b = true <-> a = b) ->
  forall (hs : list hash) (st : store hash),
    add_all hash H flip hash_eqb new_store hs = Some st ->
    N.of_nat (length hs) <= start_index ->
    forall v, N.of_nat (length hs) <= v -> v <= start_index ->
              lookup hash H flip st v = None.
Proof. exact lookup_unreceived. Qed.

(* the producer's own sequence is always accepted, and the store then answers
   every lookup exactly like the producer *)
Theorem C06_producer_accepted :
  forall (hash : Type) (H : hash -> hash) (flip : N -> hash -> hash)
         (hash_eqb : hash -> hash -> bool),
    (forall a b, hash_eqb a b = true <-> a = b) ->
  forall (root : hash) (hs : list hash),
    N.of_nat (length hs) <= start_index ->
    (forall i, (i < length hs)%nat ->
               nth_error hs i = at_index hash H flip root (N.of_nat i)) ->
    exists st : store hash,
      add_all hash H flip hash_eqb new_store hs = Some st /\
      forall i, (i < length hs)%nat ->
                lookup hash H flip st (N.of_nat i) = at_index hash H flip root (N.of_nat i).
Proof. exact producer_accepted. Qed.

(* the (k+1)-th secret h is rejected iff for some b below the number of
   trailing zeros of its index 2^48-1-k the secret received 2^b steps earlier
   is not H(flip b h) *)
Theorem C06_reject_inconsistent :
  forall (hash : Type) (H : hash -> hash) (flip : N -> hash -> hash)
         (hash_eqb : hash -> hash -> bool),
    (forall a b, hash_eqb a b = true <-> a = b) ->
  forall (hs : list hash) (st : store hash) (h : hash),
    add_all hash H flip hash_eqb new_store hs = Some st ->
    N.of_nat (length hs) < start_index ->
    let k := N.of_nat (length hs) in
    (add_next hash H flip hash_eqb st h = None <->
     exists b, b < count_trailing_zeros (start_index - k) /\
               nth_error hs (N.to_nat (k - 2 ^ b)) <> Some (H (flip b h))).
Proof. exact reject_iff. Qed.

Theorem C06_accept_criterion :
  forall (hash : Type) (H : hash -> hash) (flip : N -> hash -> hash)
         (hash_eqb : hash -> hash -> bool),
    (forall a b, hash_eqb a b = true <-> a = b) ->
  forall (hs : list hash) (st : store hash) (h : hash),
    add_all hash H flip hash_eqb new_store hs = Some st ->
    N.of_nat (length hs) < start_index ->
    let k := N.of_nat (length hs) in
    (add_next hash H flip hash_eqb st h <> None <->
     forall b, b < count_trailing_zeros (start_index - k) ->
               2 ^ b <= k /\
               nth_error hs (N.to_nat (k - 2 ^ b)) = Some (H (flip b h))).
Proof. exact accept_iff. Qed.

(* the gap in "rejects any secret not consistent with the earlier ones": at an
   index without trailing zeros there is nothing to check against *)
Theorem C06_leaf_unchecked :
  forall (hash : Type) (H : hash -> hash) (flip : N -> hash -> hash)
         (hash_eqb : hash -> hash -> bool),
    (forall a b, hash_eqb a b = true <-> a = b) ->
  forall (hs : list hash) (st : store hash),
    add_all hash H flip hash_eqb new_store hs = Some st ->
    N.of_nat (length hs) < start_index ->
    count_trailing_zeros (start_index - N.of_nat (length hs)) = 0 ->
    forall h, add_next hash H flip hash_eqb st h <> None.
Proof. exact leaf_unchecked. Qed.

(* at most 48 buckets (+ the index) are ever stored *)
Theorem C06_bounded :
  forall (hash : Type) (H : hash -> hash) (flip : N -> hash -> hash)
         (hash_eqb : hash -> hash -> bool),
    (forall a b, hash_eqb a b = true <-> a = b) ->
  forall (hs : list hash) (st : store hash),
    add_all hash H flip hash_eqb new_store hs = Some st ->
    N.of_nat (length hs) <= start_index ->
    len_buckets st <= 48.
Proof. exact bounded. Qed.

(* Serialisation (byte-level instance: SHA-256, 32-byte secrets, store.go
   Encode / NewRevocationStoreFromBytes).  For every sequence of accepted
   inserts arbitrarily interleaved with encode->decode reloads: the final store
   re-encodes and decodes to a store that agrees on every observable (so no
   reload in such a sequence can fail), every accepted secret is still looked
   up exactly, at most 48 buckets are held and the encoding has exactly
   9 + 40*lenBuckets (<= 1929) bytes. *)
Theorem C06_codec_roundtrip :
  forall (ops : list sop) (st : Exec.bstore),
    run_ops new_store ops = Some st ->
    Forall (fun h => length h = 32%nat) (adds_of ops) ->
    N.of_nat (length (adds_of ops)) <= start_index ->
    (exists st', Exec.decode (Exec.encode st) = Some st' /\ store_eq Exec.bytes st st') /\
    (forall i h, nth_error (adds_of ops) i = Some h ->
                 Exec.b_lookup st (N.of_nat i) = Some h) /\
    len_buckets st <= 48 /\
    N.of_nat (length (Exec.encode st)) = 9 + 40 * len_buckets st.
Proof. exact codec_roundtrip. Qed.

(* ------------------------------------------------------------------------- *)
(* "the secrets and next commitment points it sends follow its own derivation
   chain without gaps or repeats" -- slot model (SlotModel.v): a run is ANY
   sequence of outgoing slots (open/accept, channel_ready first or RE-SENT at
   any later time, fresh revoke_and_ack, retransmitted revoke_and_ack,
   channel_reestablish) that the model allows, of any length.  The model is
   tied to the real messages by SlotExec.v (tie only: the theorems are about
   the index discipline, the harness checks that lnd's messages carry exactly
   these indices of the chain recomputed from the producer root). *)
From LV Require Import Shachain.SlotModel Shachain.SlotProofs.

(* the distinct POINT indices handed out, in order of first appearance, are
   exactly 0,1,2,...: no gap, whatever is re-sent in between *)
Theorem C06_own_points_no_gap :
  forall (es : list slot) (s : st) (os : list out),
    run st0 es = Some (s, os) ->
    firsts (points os) = seqN 0 (N.to_nat (pfrontier s)).
Proof. exact own_points_no_gap. Qed.

(* the distinct SECRET indices released, in order of first appearance, are
   exactly 0,1,...,n-1 (n = number of fresh revocations) *)
Theorem C06_own_secrets_no_gap :
  forall (es : list slot) (s : st) (os : list out),
    run st0 es = Some (s, os) ->
    firsts (secrets os) = seqN 0 (N.to_nat (revoked s)).
Proof. exact own_secrets_no_gap. Qed.

(* nothing beyond the frontier ever leaves: every point index is < n+2 (< 1
   before channel_ready), every secret index < n: the secret of the current,
   not yet revoked commitment n is never in any message *)
Theorem C06_own_chain_bounded :
  forall (es : list slot) (s : st) (os : list out),
    run st0 es = Some (s, os) ->
    (forall x, In x (points os) -> x < pfrontier s) /\
    (forall x, In x (secrets os) -> x < revoked s).
Proof. exact own_chain_bounded. Qed.

(* the slot -> index function at ANY position of ANY run, and: a slot that must
   be fresh (open/accept, the first channel_ready, a fresh revoke_and_ack) never
   repeats a point handed out earlier; a re-sent channel_ready carries index 1
   however far the channel has advanced *)
Theorem C06_slot_index :
  forall (es1 : list slot) (e : slot) (es2 : list slot) (s : st) (os : list out),
    run st0 (es1 ++ e :: es2) = Some (s, os) ->
    exists s1 os1 o os2,
      run st0 es1 = Some (s1, os1) /\ os = os1 ++ o :: os2 /\
      o = match e with
          | SOpen => (None, 0)
          | SReady => (None, 1)
          | SRevoke => (Some (revoked s1), revoked s1 + 2)
          | SRetransmit => (Some (revoked s1 - 1), revoked s1 + 1)
          | SReestablish => (None, revoked s1)
          end /\
      ((e = SOpen \/ e = SRevoke \/ (e = SReady /\ ready s1 = false)) ->
       forall x, In x (points os1) -> x <> snd o).
Proof. exact slot_index. Qed.
