(* Trace checker of the slot model: an observed history of ONE party is the list
   of its outgoing slots together with the chain indices that the values it
   really carried resolve to (resolved by the python driver against the chain
   recomputed from the producer root: 2^48 = "not an element of the chain",
   None = the slot carries no secret).  Messages built as probes ("if the peer
   connected now") are events like any other: SReady / SReestablish do not
   change the model state. *)
From Coq Require Import List NArith Bool.
From LV Require Import Shachain.SlotModel.
Import ListNotations.
Local Open Scope N_scope.

Definition ev := (slot * (option N * N))%type.

(* (open/accept exchange is part of the history?, events) *)
Definition case := (bool * list ev)%type.

Definition opt_eqb (a b : option N) : bool :=
  match a, b with
  | None, None => true
  | Some x, Some y => x =? y
  | _, _ => false
  end.

Definition out_eqb (a b : out) : bool :=
  opt_eqb (fst a) (fst b) && (snd a =? snd b).

(* an event the model does not allow in the state (a revoke_and_ack before
   channel_ready, a retransmission with nothing revoked, ...) is a mismatch and
   leaves the state unchanged *)
Fixpoint check (s : st) (evs : list ev) (i : N) (bad : list N) : list N :=
  match evs with
  | [] => rev bad
  | (e, o) :: r =>
      match step s e with
      | None => check s r (i + 1) (i :: bad)
      | Some (s', o') =>
          check s' r (i + 1) (if out_eqb o o' then bad else i :: bad)
      end
  end.

Definition check_case (c : case) : list N :=
  check (if fst c then st0 else st_opened) (snd c) 0 [].

Fixpoint mismatches (cases : list case) (i : N) : list (N * list N) :=
  match cases with
  | [] => []
  | c :: r =>
    match check_case c with
    | [] => mismatches r (i + 1)
    | bad => (i, bad) :: mismatches r (i + 1)
    end
  end.
