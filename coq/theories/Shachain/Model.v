(* Executable model of lnd/shachain (element.go, utils.go, store.go,
   producer.go).  Definitions only; proofs live in Proofs.v, property
   theorems in Props.v.  The hash function and the bit-flip are Section
   variables: theorems hold for ANY hash; execution instantiates SHA-256. *)
From Coq Require Import List NArith Bool.
Import ListNotations.
Local Open Scope N_scope.

Definition max_height : N := 48.                  (* shachain.maxHeight *)
Definition start_index : N := 2 ^ 48 - 1.        (* (1 << maxHeight) - 1 *)
Definition u64_max : N := 18446744073709551615.
Definition two64 : N := 18446744073709551616.

(* utils.go: getBit — uint8((uint64(index) >> position) & 1) *)
Definition get_bit (idx pos : N) : N := N.land (N.shiftr idx pos) 1.

(* utils.go: getPrefix — index & ((0-1) - ((1<<position)-1)) on uint64 *)
Definition get_prefix (idx pos : N) : N :=
  N.land idx (u64_max - (N.shiftl 1 pos - 1)).

(* utils.go: countTrailingZeros — for zeros := 0; zeros < maxHeight; zeros++ *)
Fixpoint ctz_from (fuel : nat) (idx zeros : N) : N :=
  match fuel with
  | O => zeros
  | S f => if N.eqb (get_bit idx zeros) 0 then ctz_from f idx (zeros + 1) else zeros
  end.
Definition count_trailing_zeros (idx : N) : N := ctz_from 48 idx 0.

(* element.go: deriveBitTransformations.  Positions from zeros-1 down to 0
   whose bit in [to] is set. *)
Fixpoint positions_below (n : nat) (to : N) : list N :=
  match n with
  | O => []
  | S p => (if N.eqb (get_bit to (N.of_nat p)) 1 then [N.of_nat p] else [])
           ++ positions_below p to
  end.

Definition derive_bits (from to : N) : option (list N) :=
  if N.eqb from to then Some []
  else
    let zeros := count_trailing_zeros from in
    if N.eqb from (get_prefix to zeros)
    then Some (positions_below (N.to_nat zeros) to)
    else None.

Section WithHash.
  Variable hash : Type.
  Variable H : hash -> hash.             (* sha256.Sum256 *)
  Variable flip : N -> hash -> hash.     (* buf[pos/8] ^= 1 << (pos%8) *)
  Variable hash_eqb : hash -> hash -> bool.

  Record element := mkEl { el_index : N; el_hash : hash }.

  (* element.go: derive *)
  Definition derive (e : element) (to : N) : option element :=
    match derive_bits (el_index e) to with
    | None => None
    | Some ps =>
      Some (mkEl to (fold_left (fun buf p => H (flip p buf)) ps (el_hash e)))
    end.

  Definition el_eqb (a b : element) : bool :=
    N.eqb (el_index a) (el_index b) && hash_eqb (el_hash a) (el_hash b).

  (* store.go: RevocationStore.  buckets is a total map bucket# -> element
     (the Go array has maxHeight slots); only slots < lenBuckets matter. *)
  Record store := mkStore {
    len_buckets : N;
    buckets : list (N * element);     (* association list, newest binding first *)
    st_index : N
  }.

  Definition new_store : store := mkStore 0 [] start_index.

  Fixpoint bucket_get (bs : list (N * element)) (i : N) : option element :=
    match bs with
    | [] => None
    | (j, e) :: r => if N.eqb i j then Some e else bucket_get r i
    end.

  Definition bucket_set (bs : list (N * element)) (i : N) (e : element) :=
    (i, e) :: filter (fun p => negb (N.eqb (fst p) i)) bs.

  (* the check loop of AddNextEntry: for i in [0, bucket) *)
  Fixpoint check_lower (n : nat) (bs : list (N * element)) (ne : element) : bool :=
    match n with
    | O => true
    | S p =>
      check_lower p bs ne &&
      match bucket_get bs (N.of_nat p) with
      | None => false       (* unreachable below lenBuckets; Go would compare with the zero element *)
      | Some b =>
        match derive ne (el_index b) with
        | None => false
        | Some e => el_eqb e b
        end
      end
    end.

  Definition add_next (st : store) (h : hash) : option store :=
    let ne := mkEl (st_index st) h in
    let bucket := count_trailing_zeros (st_index st) in
    if check_lower (N.to_nat bucket) (buckets st) ne
    then Some (mkStore
                 (if N.ltb (len_buckets st) (bucket + 1) then bucket + 1 else len_buckets st)
                 (bucket_set (buckets st) bucket ne)
                 (st_index st - 1))
    else None.

  (* LookUp: first bucket (ascending) from which the index derives *)
  Fixpoint lookup_from (n : nat) (i : N) (st : store) (ind : N) : option hash :=
    match n with
    | O => None
    | S p =>
      match bucket_get (buckets st) i with
      | None => lookup_from p (i + 1) st ind
      | Some b =>
        match derive b ind with
        | Some e => Some (el_hash e)
        | None => lookup_from p (i + 1) st ind
        end
      end
    end.

  (* element.go newIndex: startIndex - index(v) on uint64, i.e. it wraps for
     v > startIndex (such an index then derives from nothing) *)
  Definition new_index (v : N) : N :=
    (start_index + two64 - v mod two64) mod two64.

  Definition lookup (st : store) (v : N) : option hash :=
    lookup_from (N.to_nat (len_buckets st)) 0 st (new_index v).

  (* producer.go: AtIndex *)
  Definition at_index (root : hash) (v : N) : option hash :=
    match derive (mkEl 0 root) (new_index v) with
    | Some e => Some (el_hash e)
    | None => None
    end.

  Fixpoint add_all (st : store) (hs : list hash) : option store :=
    match hs with
    | [] => Some st
    | h :: r => match add_next st h with
                | Some st' => add_all st' r
                | None => None
                end
    end.
End WithHash.

Arguments mkEl {hash}.
Arguments el_index {hash}.
Arguments el_hash {hash}.
Arguments mkStore {hash}.
Arguments len_buckets {hash}.
Arguments buckets {hash}.
Arguments st_index {hash}.
Arguments new_store {hash}.
Arguments bucket_get {hash}.
