(* Concrete instantiation of the shachain model on byte lists with SHA-256,
   the store codec, and the trace checker used by the correspondence run. *)
From Coq Require Import List NArith Bool.
From LV Require Import Common.Sha256 Shachain.Model.
Import ListNotations.
Local Open Scope N_scope.

Definition bytes := list N.

Fixpoint bytes_eqb (a b : bytes) : bool :=
  match a, b with
  | [], [] => true
  | x :: a', y :: b' => N.eqb x y && bytes_eqb a' b'
  | _, _ => false
  end.

Fixpoint upd_nth (n : nat) (f : N -> N) (l : bytes) : bytes :=
  match l, n with
  | [], _ => []
  | x :: r, O => f x :: r
  | x :: r, S n' => x :: upd_nth n' f r
  end.

(* buf[position/8] ^= 1 << (position%8) *)
Definition flip_bytes (pos : N) (buf : bytes) : bytes :=
  upd_nth (N.to_nat (pos / 8)) (fun b => N.lxor b (N.shiftl 1 (pos mod 8))) buf.

Definition bstore := store bytes.
Definition b_add := add_next bytes sha256 flip_bytes bytes_eqb.
Definition b_lookup := lookup bytes sha256 flip_bytes.
Definition b_at_index := at_index bytes sha256 flip_bytes.

(* ---- codec (store.go Encode / NewRevocationStoreFromBytes) ---- *)
Definition be (n : nat) (x : N) : bytes := be_bytes n x.

Fixpoint of_be (bs : bytes) (acc : N) : N :=
  match bs with [] => acc | b :: r => of_be r (acc * 256 + b) end.

Fixpoint enc_buckets (n : nat) (i : N) (bs : list (N * element bytes)) : bytes :=
  match n with
  | O => []
  | S p =>
    match bucket_get bs i with
    | Some e => be 8 (el_index e) ++ el_hash e ++ enc_buckets p (i + 1) bs
    | None => be 8 0 ++ repeat 0 32 ++ enc_buckets p (i + 1) bs
    end
  end.

Definition encode (st : bstore) : bytes :=
  be 1 (len_buckets st) ++
  enc_buckets (N.to_nat (len_buckets st)) 0 (buckets st) ++
  be 8 (st_index st).

Fixpoint dec_buckets (n : nat) (i : N) (bs : bytes) (acc : list (N * element bytes))
  : option (list (N * element bytes) * bytes) :=
  match n with
  | O => Some (acc, bs)
  | S p =>
    if Nat.ltb (length bs) 40 then None
    else
      let idx := of_be (firstn 8 bs) 0 in
      let h := firstn 32 (skipn 8 bs) in
      dec_buckets p (i + 1) (skipn 40 bs) ((i, mkEl idx h) :: acc)
  end.

(* lenBuckets > 48 makes Go index out of the [48]element array: modelled as a
   decode failure (the harness never feeds such input; see DESIGN C06). *)
Definition decode (bs : bytes) : option bstore :=
  match bs with
  | [] => None
  | n :: r =>
    if N.ltb 48 n then None else
    match dec_buckets (N.to_nat n) 0 r [] with
    | None => None
    | Some (bk, rest) =>
      if Nat.ltb (length rest) 8 then None
      else Some (mkStore n bk (of_be (firstn 8 rest) 0))
    end
  end.

(* ---- trace checker ---- *)
Inductive op :=
| OAdd (h : bytes) (ok : bool)
| OLookup (v : N) (res : option bytes)
| OEncDec (enc : bytes)
| OProd (root : bytes) (v : N) (res : option bytes)
| OSha (msg : bytes) (dig : bytes)
| OLoad (enc : bytes) (ok : bool).

Definition opt_bytes_eqb (a b : option bytes) : bool :=
  match a, b with
  | None, None => true
  | Some x, Some y => bytes_eqb x y
  | _, _ => false
  end.

(* returns (new store, agreed?) *)
Definition step (st : bstore) (o : op) : bstore * bool :=
  match o with
  | OAdd h ok =>
    match b_add st h with
    | Some st' => (st', ok)
    | None => (st, negb ok)
    end
  | OLookup v res => (st, opt_bytes_eqb (b_lookup st v) res)
  | OEncDec enc =>
    if bytes_eqb (encode st) enc then
      match decode enc with
      | Some st' => (st', true)
      | None => (st, false)
      end
    else (st, false)
  | OProd root v res => (st, opt_bytes_eqb (b_at_index root v) res)
  | OSha m d => (st, bytes_eqb (sha256 m) d)
  | OLoad enc ok =>
    match decode enc with
    | Some st' => (st', ok)
    | None => (st, negb ok)
    end
  end.

Fixpoint run (st : bstore) (ops : list op) (i : N) (bad : list N) : list N :=
  match ops with
  | [] => rev bad
  | o :: r =>
    let '(st', ok) := step st o in
    run st' r (i + 1) (if ok then bad else i :: bad)
  end.

(* indices of ops on which model and implementation disagree *)
Definition check_case (ops : list op) : list N := run new_store ops 0 [].

Fixpoint mismatches (cases : list (list op)) (i : N) : list (N * list N) :=
  match cases with
  | [] => []
  | c :: r =>
    match check_case c with
    | [] => mismatches r (i + 1)
    | bad => (i, bad) :: mismatches r (i + 1)
    end
  end.

(* bound of the property: number of stored values *)
Definition stored_values (st : bstore) : N := len_buckets st.
