(* Non-vacuity of the hypotheses carried by the C06 theorems. *)
From Coq Require Import List NArith Bool.
From LV Require Import Common.Sha256 Shachain.Model Shachain.Exec Shachain.Proofs Shachain.Props.
Import ListNotations.
Local Open Scope N_scope.

(* 1. The only hypothesis on the Section variables -- hash_eqb decides
      equality -- holds for the instance the model is executed with. *)
Example hash_eqb_hypothesis_satisfied :
  forall a b, bytes_eqb a b = true <-> a = b.
Proof. exact bytes_eqb_eq. Qed.

(* 2. A small non-trivial hash to exercise accepted / rejected inserts. *)
Definition tH (x : N) : N := (x * 48271 + 11) mod 2147483647.
Definition tflip (p x : N) : N := N.lxor x (N.shiftl 1 p).
Definition t_at := at_index N tH tflip.
Definition t_add_all := add_all N tH tflip N.eqb.
Definition t_add := add_next N tH tflip N.eqb.
Definition t_lookup := lookup N tH tflip.

Definition opt_get (o : option N) : N := match o with Some x => x | None => 0 end.
Definition t_prod (root : N) (k : nat) : list N :=
  map (fun i => opt_get (t_at root (N.of_nat i))) (seq 0 k).

(* 20 producer secrets are accepted (hypothesis of C06_store_exact,
   C06_bounded, C06_reject_inconsistent), and 5 buckets are then in use. *)
Example accepted_sequence_exists :
  exists st, t_add_all new_store (t_prod 12345 20) = Some st /\ len_buckets st = 5.
Proof. vm_compute. eexists. split; reflexivity. Qed.

(* the secrets are pairwise different, so exact reproduction is not trivial *)
Example accepted_sequence_nontrivial : NoDup (t_prod 12345 20).
Proof.
  vm_compute.
  repeat (constructor; [cbn [In]; intros X;
    repeat (destruct X as [X|X]; [discriminate X|]); exact X|]).
  constructor.
Qed.

(* both sides of C06_reject_inconsistent occur: after 3 secrets (next index
   ...100, two trailing zeros) the right secret is accepted, a wrong one is
   rejected; after 4 secrets (next index odd) ANY value is accepted
   (C06_leaf_unchecked is not vacuous). *)
Example reject_and_accept_occur :
  match t_add_all new_store (t_prod 12345 3) with
  | Some st =>
    t_add st (opt_get (t_at 12345 3)) <> None /\
    t_add st 424242 = None /\
    count_trailing_zeros (start_index - 3) = 2
  | None => False
  end.
Proof. vm_compute. repeat split; discriminate. Qed.

Example leaf_unchecked_occurs :
  count_trailing_zeros (start_index - N.of_nat (length (t_prod 12345 4))) = 0 /\
  match t_add_all new_store (t_prod 12345 4) with
  | Some st => t_add st 424242 <> None
  | None => False
  end.
Proof. vm_compute. split; [reflexivity|discriminate]. Qed.

(* 3. Real SHA-256, 32-byte secrets, with reloads through the codec
      (hypotheses of C06_codec_roundtrip). *)
Definition root0 : bytes := repeat 7 32.
Definition sha_secret (i : N) : bytes :=
  match b_at_index root0 i with Some h => h | None => [] end.
Definition ops0 : list sop :=
  [SAdd (sha_secret 0); SReload; SAdd (sha_secret 1); SAdd (sha_secret 2); SReload].

Example codec_hypotheses_satisfied :
  (exists st, run_ops new_store ops0 = Some st /\ len_buckets st = 2) /\
  forallb (fun h => Nat.eqb (length h) 32) (adds_of ops0) = true /\
  N.of_nat (length (adds_of ops0)) <= start_index.
Proof.
  split; [|split].
  - vm_compute. eexists. split; reflexivity.
  - vm_compute. reflexivity.
  - vm_compute. discriminate.
Qed.

(* Slot model: a run in which channel_ready is re-sent after two revocations
   (the scid-alias upgrade on reconnect) is a run of the model, and the re-sent
   message carries index 1 -- the hypothesis `run st0 es = Some _` of the
   C06_own_* theorems is satisfiable by a non-trivial history. *)
From LV Require Import Shachain.SlotModel.
Example slot_run_with_resend :
  run st0 [SOpen; SReady; SRevoke; SRevoke; SReady; SRetransmit; SReestablish; SRevoke] =
  Some (mk_st true true 3,
        [(None, 0); (None, 1); (Some 0, 2); (Some 1, 3); (None, 1); (Some 1, 3); (None, 2);
         (Some 2, 4)]).
Proof. reflexivity. Qed.
Example slot_run_firsts :
  firsts [0; 1; 2; 3; 1; 3; 2; 4] = seqN 0 5 /\ firsts [0; 1; 1; 2] = seqN 0 3.
Proof. split; reflexivity. Qed.
(* a revoke_and_ack before channel_ready is not a run *)
Example slot_run_rejects : run st0 [SOpen; SRevoke] = None.
Proof. reflexivity. Qed.

(* C06_unreceived_unknown is not vacuous and not trivially about an empty
   store: after 20 accepted secrets (5 buckets in use) the received index 19
   is answered, the unreceived indices 20, 21 and 2^48-1 are not. *)
Example unreceived_unknown_occurs :
  match t_add_all new_store (t_prod 12345 20) with
  | Some st => (match t_lookup st 19 with Some _ => true | None => false end)
               && (match t_lookup st 20 with Some _ => false | None => true end)
               && (match t_lookup st 21 with Some _ => false | None => true end)
               && (match t_lookup st start_index with Some _ => false | None => true end)
  | None => false
  end = true.
Proof. vm_compute. reflexivity. Qed.
