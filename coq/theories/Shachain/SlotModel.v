(* C06, clause "the secrets and next commitment points it sends follow its own
   derivation chain without gaps or repeats": which INDEX of the node's own
   chain every outgoing message slot carries.  Executable definitions only.

   A node's chain: secret S(i) = producer.AtIndex(i), point P(i) = S(i)*G.
   Messages that hand out a value of the own chain (lnd call sites in
   notes/C06.md):
     open_channel / accept_channel . first_per_commitment_point        P(0)
     channel_ready . next_per_commitment_point (first time AND every
        later re-send: link resend, funding manager restart, scid-alias
        upgrade on reconnect, zero-conf)                                P(1)
     revoke_and_ack of commitment n: per_commitment_secret S(n),
        next_per_commitment_point                                       P(n+2)
     the same message retransmitted after channel_reestablish           S(n-1), P(n+1)
     channel_reestablish . my_current_per_commitment_point             P(n)
   where n = number of own commitments revoked so far (local tail height). *)
From Coq Require Import List NArith Bool.
Import ListNotations.
Local Open Scope N_scope.

Inductive slot :=
| SOpen          (* open_channel / accept_channel *)
| SReady         (* channel_ready, first or re-sent at ANY later time *)
| SRevoke        (* fresh revoke_and_ack: revokes commitment n, n := n+1 *)
| SRetransmit    (* last revoke_and_ack again (ProcessChanSyncMsg) *)
| SReestablish.  (* channel_reestablish *)

Record st := mk_st { opened : bool; ready : bool; revoked : N }.

Definition st0 : st := mk_st false false 0.
(* a channel whose open/accept exchange is not part of the observed history *)
Definition st_opened : st := mk_st true false 0.

(* (index of the secret carried, if the slot has one; index of the point) *)
Definition out := (option N * N)%type.

Definition step (s : st) (e : slot) : option (st * out) :=
  match e with
  | SOpen =>
      if opened s then None else Some (mk_st true false 0, (None, 0))
  | SReady =>
      if opened s then Some (mk_st true true (revoked s), (None, 1)) else None
  | SRevoke =>
      if ready s
      then Some (mk_st true true (revoked s + 1), (Some (revoked s), revoked s + 2))
      else None
  | SRetransmit =>
      if ready s && (0 <? revoked s)
      then Some (s, (Some (revoked s - 1), revoked s + 1))
      else None
  | SReestablish =>
      if opened s then Some (s, (None, revoked s)) else None
  end.

Fixpoint run (s : st) (es : list slot) : option (st * list out) :=
  match es with
  | [] => Some (s, [])
  | e :: r =>
      match step s e with
      | None => None
      | Some (s', o) =>
          match run s' r with
          | None => None
          | Some (s'', os) => Some (s'', o :: os)
          end
      end
  end.

(* number of points / secrets of the chain handed out so far: exactly the
   indices below the frontier *)
Definition pfrontier (s : st) : N :=
  if ready s then revoked s + 2 else if opened s then 1 else 0.
Definition sfrontier (s : st) : N := revoked s.

Definition points (os : list out) : list N := map snd os.
Fixpoint secrets (os : list out) : list N :=
  match os with
  | [] => []
  | (Some x, _) :: r => x :: secrets r
  | (None, _) :: r => secrets r
  end.

(* distinct values in order of first appearance *)
Fixpoint firsts_aux (seen l : list N) : list N :=
  match l with
  | [] => []
  | x :: r =>
      if existsb (N.eqb x) seen then firsts_aux seen r
      else x :: firsts_aux (x :: seen) r
  end.
Definition firsts (l : list N) : list N := firsts_aux [] l.

Fixpoint seqN (a : N) (k : nat) : list N :=
  match k with O => [] | S k' => a :: seqN (a + 1) k' end.

(* slots that must carry a value never handed out before *)
Definition fresh_slot (e : slot) : bool :=
  match e with SOpen | SRevoke => true | _ => false end.
