(* Lemmas about the slot model (SlotModel.v): for EVERY run (any length, channel_ready
   re-sent at any time, retransmissions and reestablishes anywhere) the distinct
   point / secret indices handed out, in order of first appearance, are
   0,1,2,... up to the frontier: no gap, and a fresh slot never repeats. *)
From Coq Require Import List NArith Bool Lia.
From LV Require Import Shachain.SlotModel.
Import ListNotations.
Local Open Scope N_scope.

Definition wf (s : st) : Prop :=
  (ready s = true -> opened s = true) /\ (ready s = false -> revoked s = 0).

Lemma wf_st0 : wf st0.
Proof. split; cbn; intros; congruence. Qed.

Lemma wf_st_opened : wf st_opened.
Proof. split; cbn; intros; congruence. Qed.

Ltac step_cases s e H W1 W2 :=
  destruct s as [op rd n]; cbn in *;
  destruct e; cbn in H; destruct op, rd; cbn in H; try discriminate;
  try (specialize (W1 eq_refl); discriminate);
  try (destruct (0 <? n) eqn:Z; [apply N.ltb_lt in Z|discriminate]);
  inversion H; subst; cbn; try specialize (W2 eq_refl); subst.

Lemma step_wf : forall s e s' o, wf s -> step s e = Some (s', o) -> wf s'.
Proof.
  intros s e s' o [W1 W2] H. unfold wf.
  step_cases s e H W1 W2; split; intros; congruence.
Qed.

Lemma step_pfrontier : forall s e s' o, wf s -> step s e = Some (s', o) ->
  (snd o < pfrontier s /\ pfrontier s' = pfrontier s) \/
  (snd o = pfrontier s /\ pfrontier s' = pfrontier s + 1).
Proof.
  intros s e s' o [W1 W2] H. unfold pfrontier.
  step_cases s e H W1 W2; lia.
Qed.

Lemma step_sfrontier : forall s e s' o, wf s -> step s e = Some (s', o) ->
  match fst o with
  | None => sfrontier s' = sfrontier s
  | Some x => (x < sfrontier s /\ sfrontier s' = sfrontier s) \/
              (x = sfrontier s /\ sfrontier s' = sfrontier s + 1)
  end.
Proof.
  intros s e s' o [W1 W2] H. unfold sfrontier.
  step_cases s e H W1 W2; lia.
Qed.

Lemma existsb_eqb_in : forall x l, existsb (N.eqb x) l = true <-> In x l.
Proof.
  intros x l. rewrite existsb_exists. split.
  - intros [y [Hin He]]. apply N.eqb_eq in He. subst; assumption.
  - intros Hin. exists x. split; [assumption | apply N.eqb_refl].
Qed.

Lemma seqN_step : forall a k, (0 < k)%nat -> seqN a k = a :: seqN (a + 1) (k - 1).
Proof. intros a k H. destruct k; [lia|]. cbn. replace (k - 0)%nat with k by lia. reflexivity. Qed.

(* points: generalised over the start state and the set already handed out *)
Lemma run_points_gen : forall es s s' os, wf s -> run s es = Some (s', os) ->
  forall seen, (forall x, In x seen <-> x < pfrontier s) ->
  pfrontier s <= pfrontier s' /\
  firsts_aux seen (points os) = seqN (pfrontier s) (N.to_nat (pfrontier s' - pfrontier s)).
Proof.
  induction es as [|e r IH]; intros s s' os W H seen HS; cbn in H.
  - inversion H; subst. split; [lia|]. rewrite N.sub_diag. reflexivity.
  - destruct (step s e) as [[s1 o]|] eqn:St; [|discriminate].
    destruct (run s1 r) as [[s2 os2]|] eqn:Rn; [|discriminate].
    inversion H; subst. clear H.
    pose proof (step_wf _ _ _ _ W St) as W1.
    destruct (step_pfrontier _ _ _ _ W St) as [[Hlt Heq]|[Hv Heq]].
    + (* a value already handed out *)
      assert (HS1 : forall x, In x seen <-> x < pfrontier s1) by (intro x; rewrite Heq; apply HS).
      destruct (IH _ _ _ W1 Rn seen HS1) as [Hle Hf].
      split; [lia|]. cbn [points map firsts_aux].
      assert (E : existsb (N.eqb (snd o)) seen = true) by (apply existsb_eqb_in, HS, Hlt).
      rewrite E. fold (points os2). rewrite Hf, Heq. reflexivity.
    + (* the next value of the chain *)
      assert (HS1 : forall x, In x (snd o :: seen) <-> x < pfrontier s1).
      { intro x. rewrite Heq. cbn [In]. rewrite HS. lia. }
      destruct (IH _ _ _ W1 Rn (snd o :: seen) HS1) as [Hle Hf].
      split; [lia|]. cbn [points map firsts_aux].
      assert (E : existsb (N.eqb (snd o)) seen = false).
      { destruct (existsb (N.eqb (snd o)) seen) eqn:X; [|reflexivity].
        apply existsb_eqb_in, HS in X. lia. }
      rewrite E. fold (points os2). rewrite Hf.
      rewrite (seqN_step (pfrontier s)) by lia.
      rewrite Hv, Heq. f_equal. f_equal. lia.
Qed.

Lemma run_secrets_gen : forall es s s' os, wf s -> run s es = Some (s', os) ->
  forall seen, (forall x, In x seen <-> x < sfrontier s) ->
  sfrontier s <= sfrontier s' /\
  firsts_aux seen (secrets os) = seqN (sfrontier s) (N.to_nat (sfrontier s' - sfrontier s)).
Proof.
  induction es as [|e r IH]; intros s s' os W H seen HS; cbn in H.
  - inversion H; subst. split; [lia|]. rewrite N.sub_diag. reflexivity.
  - destruct (step s e) as [[s1 o]|] eqn:St; [|discriminate].
    destruct (run s1 r) as [[s2 os2]|] eqn:Rn; [|discriminate].
    inversion H; subst. clear H.
    pose proof (step_wf _ _ _ _ W St) as W1.
    pose proof (step_sfrontier _ _ _ _ W St) as Hs.
    destruct o as [[x|] pt]; cbn [fst] in Hs; cbn [secrets].
    + destruct Hs as [[Hlt Heq]|[Hv Heq]].
      * assert (HS1 : forall y, In y seen <-> y < sfrontier s1) by (intro y; rewrite Heq; apply HS).
        destruct (IH _ _ _ W1 Rn seen HS1) as [Hle Hf].
        split; [lia|]. cbn [firsts_aux].
        assert (E : existsb (N.eqb x) seen = true) by (apply existsb_eqb_in, HS, Hlt).
        rewrite E, Hf, Heq. reflexivity.
      * assert (HS1 : forall y, In y (x :: seen) <-> y < sfrontier s1).
        { intro y. rewrite Heq. cbn [In]. rewrite HS. lia. }
        destruct (IH _ _ _ W1 Rn (x :: seen) HS1) as [Hle Hf].
        split; [lia|]. cbn [firsts_aux].
        assert (E : existsb (N.eqb x) seen = false).
        { destruct (existsb (N.eqb x) seen) eqn:X; [|reflexivity].
          apply existsb_eqb_in, HS in X. lia. }
        rewrite E, Hf.
        rewrite (seqN_step (sfrontier s)) by lia.
        rewrite Hv, Heq. f_equal. f_equal. lia.
    + assert (HS1 : forall y, In y seen <-> y < sfrontier s1) by (intro y; rewrite Hs; apply HS).
      destruct (IH _ _ _ W1 Rn seen HS1) as [Hle Hf].
      split; [lia|]. rewrite Hf, Hs. reflexivity.
Qed.

(* every value handed out lies below the final frontier: in particular no secret
   of a commitment that is not yet revoked (index >= revoked) ever leaves *)
Lemma run_bounded : forall es s s' os, wf s -> run s es = Some (s', os) ->
  pfrontier s <= pfrontier s' /\ sfrontier s <= sfrontier s' /\
  (forall x, In x (points os) -> x < pfrontier s') /\
  (forall x, In x (secrets os) -> x < sfrontier s').
Proof.
  induction es as [|e r IH]; intros s s' os W H; cbn in H.
  - inversion H; subst. repeat split; try lia; cbn; intros x [].
  - destruct (step s e) as [[s1 o]|] eqn:St; [|discriminate].
    destruct (run s1 r) as [[s2 os2]|] eqn:Rn; [|discriminate].
    inversion H; subst. clear H.
    pose proof (step_wf _ _ _ _ W St) as W1.
    destruct (IH _ _ _ W1 Rn) as [P1 [P2 [P3 P4]]].
    pose proof (step_pfrontier _ _ _ _ W St) as Hp.
    pose proof (step_sfrontier _ _ _ _ W St) as Hs.
    repeat split.
    + destruct Hp as [[? ?]|[? ?]]; lia.
    + destruct (fst o); [destruct Hs as [[? ?]|[? ?]]|]; lia.
    + intros x Hin. cbn [points map In] in Hin. destruct Hin as [Hx|Hin]; [|apply P3, Hin].
      subst x. destruct Hp as [[? ?]|[? ?]]; lia.
    + intros x Hin. destruct o as [[y|] pt]; cbn [secrets In fst] in *.
      * destruct Hin as [Hx|Hin]; [|apply P4, Hin]. subst x.
        destruct Hs as [[? ?]|[? ?]]; lia.
      * apply P4, Hin.
Qed.

(* the slot function: channel_ready carries index 1 whenever it is (re-)sent,
   a revoke_and_ack the pair (n, n+2), a retransmission (n-1, n+1), a
   reestablish n, open/accept 0 -- n the number of revocations before it *)
Lemma run_app : forall es1 es2 s s' os, run s (es1 ++ es2) = Some (s', os) ->
  exists s1 os1 os2, run s es1 = Some (s1, os1) /\ run s1 es2 = Some (s', os2) /\ os = os1 ++ os2.
Proof.
  induction es1 as [|e r IH]; intros es2 s s' os H; cbn in H.
  - exists s, [], os. repeat split; assumption.
  - destruct (step s e) as [[s1 o]|] eqn:St; [|discriminate].
    destruct (run s1 (r ++ es2)) as [[s2 os2]|] eqn:Rn; [|discriminate].
    inversion H; subst. destruct (IH _ _ _ _ Rn) as [sa [oa [ob [Ha [Hb Hc]]]]].
    exists sa, (o :: oa), ob. cbn. rewrite St, Ha. subst. repeat split; assumption.
Qed.

Lemma fresh_step : forall s e s' o, wf s -> step s e = Some (s', o) ->
  (e = SOpen \/ e = SRevoke \/ (e = SReady /\ ready s = false)) -> snd o = pfrontier s.
Proof.
  intros s e s' o [W1 W2] H F. unfold pfrontier.
  step_cases s e H W1 W2; try lia;
    destruct F as [F|[F|[F F2]]]; discriminate.
Qed.

Lemma slot_index_at : forall es1 e es2 s s' os, wf s ->
  run s (es1 ++ e :: es2) = Some (s', os) ->
  exists s1 os1 o os2, run s es1 = Some (s1, os1) /\ os = os1 ++ o :: os2 /\ wf s1 /\
    o = match e with
        | SOpen => (None, 0)
        | SReady => (None, 1)
        | SRevoke => (Some (revoked s1), revoked s1 + 2)
        | SRetransmit => (Some (revoked s1 - 1), revoked s1 + 1)
        | SReestablish => (None, revoked s1)
        end /\
    (* a fresh slot (open/accept, the FIRST channel_ready, a fresh revoke_and_ack)
       carries a point never handed out before *)
    ((e = SOpen \/ e = SRevoke \/ (e = SReady /\ ready s1 = false)) ->
       forall x, In x (points os1) -> x <> snd o).
Proof.
  intros es1 e es2 s s' os W H.
  destruct (run_app _ _ _ _ _ H) as [s1 [os1 [osr [H1 [H2 Ho]]]]].
  cbn in H2. destruct (step s1 e) as [[s2 o]|] eqn:St; [|discriminate].
  destruct (run s2 es2) as [[s3 os3]|] eqn:Rn; [|discriminate].
  inversion H2; subst. clear H2.
  assert (W1 : wf s1).
  { clear -W H1. revert s s1 os1 W H1. induction es1 as [|a r IH]; intros s s1 os1 W H1; cbn in H1.
    - inversion H1; subst; assumption.
    - destruct (step s a) as [[sa oa]|] eqn:Sa; [|discriminate].
      destruct (run sa r) as [[sb ob]|] eqn:Rb; [|discriminate].
      inversion H1; subst. eapply IH; [eapply step_wf; eassumption | eassumption]. }
  exists s1, os1, o, os3.
  split; [assumption|]. split; [reflexivity|]. split; [assumption|]. split.
  - destruct e; cbn in St.
    + destruct (opened s1); inversion St; reflexivity.
    + destruct (opened s1); inversion St; reflexivity.
    + destruct (ready s1); inversion St; reflexivity.
    + destruct (ready s1 && (0 <? revoked s1)); inversion St; reflexivity.
    + destruct (opened s1); inversion St; reflexivity.
  - intros Hfresh x Hin.
    destruct (run_bounded _ _ _ _ W H1) as [_ [_ [P3 _]]].
    specialize (P3 x Hin).
    pose proof (fresh_step _ _ _ _ W1 St Hfresh) as Hf. lia.
Qed.

(* ---- statements used by Props.v ---- *)
(* the distinct POINT indices handed out, in order of first appearance, are
   exactly 0,1,2,...: no gap, whatever is re-sent in between *)
Lemma own_points_no_gap :
  forall (es : list slot) (s : st) (os : list out),
    run st0 es = Some (s, os) ->
    firsts (points os) = seqN 0 (N.to_nat (pfrontier s)).
Proof.
  intros es s os H.
  destruct (run_points_gen es st0 s os wf_st0 H []) as [_ E].
  - intro x; cbn; split; [intros [] | intro L; destruct x; discriminate L].
  - unfold firsts. rewrite E. cbn. rewrite N.sub_0_r. reflexivity.
Qed.

(* the distinct SECRET indices released, in order of first appearance, are
   exactly 0,1,...,n-1 (n = number of fresh revocations) *)
Lemma own_secrets_no_gap :
  forall (es : list slot) (s : st) (os : list out),
    run st0 es = Some (s, os) ->
    firsts (secrets os) = seqN 0 (N.to_nat (revoked s)).
Proof.
  intros es s os H.
  destruct (run_secrets_gen es st0 s os wf_st0 H []) as [_ E].
  - intro x; cbn; split; [intros [] | intro L; destruct x; discriminate L].
  - unfold firsts. rewrite E. cbn. rewrite N.sub_0_r. reflexivity.
Qed.

(* nothing beyond the frontier ever leaves: every point index is < n+2 (< 1
   before channel_ready), every secret index < n: the secret of the current,
   not yet revoked commitment n is never in any message *)
Lemma own_chain_bounded :
  forall (es : list slot) (s : st) (os : list out),
    run st0 es = Some (s, os) ->
    (forall x, In x (points os) -> x < pfrontier s) /\
    (forall x, In x (secrets os) -> x < revoked s).
Proof.
  intros es s os H.
  destruct (run_bounded es st0 s os wf_st0 H) as [_ [_ [P S]]]. split; assumption.
Qed.

(* the slot -> index function at ANY position of ANY run, and: a slot that must
   be fresh (open/accept, the first channel_ready, a fresh revoke_and_ack) never
   repeats a point handed out earlier; a re-sent channel_ready carries index 1
   however far the channel has advanced *)
Lemma slot_index :
  forall (es1 : list slot) (e : slot) (es2 : list slot) (s : st) (os : list out),
    run st0 (es1 ++ e :: es2) = Some (s, os) ->
    exists s1 os1 o os2,
      run st0 es1 = Some (s1, os1) /\ os = os1 ++ o :: os2 /\
      o = match e with
          | SOpen => (None, 0)
          | SReady => (None, 1)
          | SRevoke => (Some (revoked s1), revoked s1 + 2)
          | SRetransmit => (Some (revoked s1 - 1), revoked s1 + 1)
          | SReestablish => (None, revoked s1)
          end /\
      ((e = SOpen \/ e = SRevoke \/ (e = SReady /\ ready s1 = false)) ->
       forall x, In x (points os1) -> x <> snd o).
Proof.
  intros es1 e es2 s os H.
  destruct (slot_index_at es1 e es2 st0 s os wf_st0 H) as [s1 [os1 [o [os2 [A [B [_ [C D]]]]]]]].
  exists s1, os1, o, os2. repeat split; assumption.
Qed.
