(* C06 bridge (tie T1): the shachain bit helpers REGENERATED from the lnd tree
   (Gen/GenArith.v: getBit, getPrefix, countTrailingZeros; Gen/GenConsts.v:
   maxHeight) equal the hand-written N-valued model Shachain/Model.v that the
   C06 theorems are stated about.  A source edit of shachain/utils.go or of
   maxHeight changes the generated side and breaks a lemma here. *)
From Coq Require Import ZArith NArith Bool Lia Znat.
From LV Require Import Common.GoInt Gen.GenConsts Gen.GenArith Shachain.Model.
Local Open Scope Z_scope.

Lemma gen_max_height_eq : shachain_maxHeight = Z.of_N max_height.
Proof. reflexivity. Qed.

(* N <-> Z transfer of the bit operations (not in the 8.16 library) *)
Lemma of_N_land a b : Z.of_N (N.land a b) = Z.land (Z.of_N a) (Z.of_N b).
Proof.
  apply Z.bits_inj'. intros n Hn.
  rewrite Z.land_spec, !Z.testbit_of_N' by lia. apply N.land_spec.
Qed.

Lemma of_N_shiftr a n : Z.of_N (N.shiftr a n) = Z.shiftr (Z.of_N a) (Z.of_N n).
Proof.
  rewrite N.shiftr_div_pow2, Z.shiftr_div_pow2 by lia.
  rewrite N2Z.inj_div, N2Z.inj_pow. reflexivity.
Qed.

Lemma land_1_bound x : 0 <= Z.land x 1 < 2.
Proof.
  change 1 with (Z.ones 1). rewrite Z.land_ones by lia.
  change (2 ^ 1) with 2. apply Z.mod_pos_bound. lia.
Qed.

(* getBit(index, position) *)
Lemma gen_get_bit_eq : forall idx pos : N,
  shachain_getBit (Z.of_N idx) (Z.of_N pos) = Z.of_N (get_bit idx pos).
Proof.
  intros. unfold shachain_getBit, get_bit.
  rewrite of_N_land, of_N_shiftr. change (Z.of_N 1) with 1.
  apply wrap_u8_small. pose proof (land_1_bound (Z.shiftr (Z.of_N idx) (Z.of_N pos))).
  unfold in_u8. lia.
Qed.

(* getPrefix(index, position) for a position inside the word *)
Lemma gen_get_prefix_eq : forall idx pos : N, (pos < 64)%N ->
  shachain_getPrefix (Z.of_N idx) (Z.of_N pos) = Z.of_N (get_prefix idx pos).
Proof.
  intros idx pos Hpos. unfold shachain_getPrefix, get_prefix.
  rewrite of_N_land. f_equal.
  rewrite N.shiftl_1_l. rewrite Z.shiftl_1_l.
  assert (Hp : 1 <= 2 ^ Z.of_N pos <= 2 ^ 63).
  { split.
    - pose proof (Z.pow_pos_nonneg 2 (Z.of_N pos)). lia.
    - apply Z.pow_le_mono_r; lia. }
  change (2 ^ 63) with 9223372036854775808 in Hp.
  assert (HN : (1 <= 2 ^ pos <= u64_max)%N).
  { split.
    - pose proof (N.pow_nonzero 2 pos). lia.
    - apply N2Z.inj_le. rewrite N2Z.inj_pow. unfold u64_max.
      change (Z.of_N 2) with 2.
      change (Z.of_N 18446744073709551615) with 18446744073709551615. lia. }
  rewrite (N2Z.inj_sub u64_max (2 ^ pos - 1)) by lia.
  rewrite N2Z.inj_sub by lia. rewrite N2Z.inj_pow.
  change (Z.of_N 2) with 2. change (Z.of_N 1) with 1.
  unfold u64_max. change (Z.of_N 18446744073709551615) with 18446744073709551615.
  replace (wrap_u64 (0 - 1)) with 18446744073709551615 by reflexivity.
  rewrite (wrap_u64_small (2 ^ Z.of_N pos)) by (unfold in_u64; lia).
  rewrite (wrap_u64_small (2 ^ Z.of_N pos - 1)) by (unfold in_u64; lia).
  apply wrap_u64_small. unfold in_u64. lia.
Qed.

(* the loop of countTrailingZeros against the model's fuelled recursion *)
Lemma gen_ctz_loop_eq : forall (f : nat) (idx z : N),
  (z + N.of_nat f = 48)%N ->
  shachain_countTrailingZeros_loop1 (S f) (Z.of_N idx) (Z.of_N z)
  = Z.of_N (ctz_from f idx z).
Proof.
  induction f as [|f IH]; intros idx z Hz.
  - assert (z = 48%N) by lia. subst z. reflexivity.
  - cbn [shachain_countTrailingZeros_loop1 ctz_from].
    rewrite gen_max_height_eq, gen_get_bit_eq.
    destruct (Z.ltb_spec (Z.of_N z) (Z.of_N max_height)) as [_|Hge];
      [|unfold max_height in Hge; lia].
    replace (Z.of_N (get_bit idx z) =? 0) with (N.eqb (get_bit idx z) 0)
      by (destruct (N.eqb_spec (get_bit idx z) 0) as [->|Hne]; [reflexivity|];
          symmetry; apply Z.eqb_neq; lia).
    destruct (N.eqb (get_bit idx z) 0); cbn [negb]; [|reflexivity].
    replace (wrap_u8 (Z.of_N z + 1)) with (Z.of_N (z + 1))
      by (rewrite wrap_u8_small; [lia | unfold in_u8; lia]).
    apply IH. lia.
Qed.

(* countTrailingZeros(index): for EVERY index (the fuel 49 chosen by the
   generator is sufficient, the out-of-fuel arm is never the answer) *)
Lemma gen_count_trailing_zeros_eq : forall idx : N,
  shachain_countTrailingZeros (Z.of_N idx) = Z.of_N (count_trailing_zeros idx).
Proof.
  intros. unfold shachain_countTrailingZeros, count_trailing_zeros.
  apply (gen_ctz_loop_eq 48 idx 0%N). reflexivity.
Qed.
