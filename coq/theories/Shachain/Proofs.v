(* Proofs about the shachain model (Model.v) and its byte-level codec (Exec.v).
   Part A: the Go-shaped bit helpers (getBit / getPrefix / countTrailingZeros)
           characterised arithmetically.
   Part B: derivation paths: following the path from a prefix of [to] down to
           [to] through values that are consistent along tree edges.
   Part C: the store invariant, preserved by every accepted AddNextEntry.
   Part D: the producer's values are consistent along tree edges.
   Part E: main lemmas over insert sequences (exactness, acceptance criterion,
           bound), stated for ANY hash H and ANY flip.
   Part F: codec round trip (Exec.encode / Exec.decode). *)
From Coq Require Import List NArith Bool Lia.
From Coq Require Import ZifyBool ZifyN ZifyNat.
From LV Require Import Shachain.Model.
Import ListNotations.
Local Open Scope N_scope.

(* ------------------------------------------------------------------ *)
(* Part A: bit helpers                                                 *)

Lemma pow2_pos n : 0 < 2 ^ n.
Proof. apply N.neq_0_lt_0, N.pow_nonzero. discriminate. Qed.

Lemma pow2_succ n : 2 ^ (n + 1) = 2 * 2 ^ n.
Proof. rewrite N.add_1_r. apply N.pow_succ_r'. Qed.

Lemma pow2_split a b : a <= b -> 2 ^ b = 2 ^ a * 2 ^ (b - a).
Proof. intros L. rewrite <- N.pow_add_r. f_equal. lia. Qed.

Lemma get_bit_testbit i p : get_bit i p = N.b2n (N.testbit i p).
Proof.
  unfold get_bit. rewrite N.testbit_spec', N.shiftr_div_pow2.
  change 1 with (N.ones 1). rewrite N.land_ones. reflexivity.
Qed.

Lemma get_bit_eqb1 i p : N.eqb (get_bit i p) 1 = N.testbit i p.
Proof. rewrite get_bit_testbit. destruct (N.testbit i p); reflexivity. Qed.

Lemma get_bit_eqb0 i p : N.eqb (get_bit i p) 0 = negb (N.testbit i p).
Proof. rewrite get_bit_testbit. destruct (N.testbit i p); reflexivity. Qed.

Lemma testbit_small i n m : i < 2 ^ n -> n <= m -> N.testbit i m = false.
Proof.
  intros L1 L2. destruct (N.eq_dec i 0) as [->|NZ]; [apply N.bits_0|].
  apply N.bits_above_log2.
  assert (N.log2 i < n) by (apply N.log2_lt_pow2; lia). lia.
Qed.

Lemma get_prefix_spec i p :
  i < 2 ^ 64 -> p <= 64 -> get_prefix i p = 2 ^ p * (i / 2 ^ p).
Proof.
  intros Li Lp. unfold get_prefix. rewrite N.shiftl_1_l.
  assert (EM : u64_max - (2 ^ p - 1) = N.shiftl (N.ones (64 - p)) p).
  { rewrite N.shiftl_mul_pow2, N.ones_equiv.
    pose proof (pow2_split p 64 Lp) as E.
    pose proof (pow2_pos p). pose proof (pow2_pos (64 - p)).
    change (2 ^ 64) with 18446744073709551616 in E. unfold u64_max.
    set (P := 2 ^ p) in *. set (Q := 2 ^ (64 - p)) in *.
    rewrite <- N.sub_1_r, N.mul_sub_distr_r. lia. }
  rewrite EM. apply N.bits_inj. intros n.
  rewrite N.land_spec, N.mul_comm, <- N.shiftl_mul_pow2, <- N.shiftr_div_pow2.
  destruct (N.ltb_spec n p) as [L|L].
  - rewrite !N.shiftl_spec_low by assumption. apply andb_false_r.
  - rewrite !N.shiftl_spec_high' by assumption.
    rewrite N.shiftr_spec'. replace (n - p + p) with n by lia.
    destruct (N.ltb_spec (n - p) (64 - p)) as [L2|L2].
    + rewrite N.ones_spec_low by assumption. apply andb_true_r.
    + rewrite N.ones_spec_high by assumption. rewrite andb_false_r.
      symmetry. apply (testbit_small i 64); [assumption|lia].
Qed.

Lemma ctz_from_spec : forall fuel idx zeros,
  let z := ctz_from fuel idx zeros in
  zeros <= z <= zeros + N.of_nat fuel /\
  (forall p, zeros <= p < z -> N.testbit idx p = false) /\
  (z < zeros + N.of_nat fuel -> N.testbit idx z = true).
Proof.
  induction fuel as [|f IH]; intros idx zeros; cbn [ctz_from].
  - cbv zeta. repeat split; try lia.
  - rewrite get_bit_eqb0. destruct (N.testbit idx zeros) eqn:B; cbn [negb].
    + cbv zeta. repeat split; try lia.
    + specialize (IH idx (zeros + 1)). cbv zeta in IH |- *.
      destruct IH as [[I1 I2] [I3 I4]]. split; [lia|]. split.
      * intros p Hp. destruct (N.eq_dec p zeros) as [->|NE]; [exact B|].
        apply I3. lia.
      * intros Hz. apply I4. lia.
Qed.

Lemma low_bits_zero i z :
  (forall p, p < z -> N.testbit i p = false) -> i mod 2 ^ z = 0.
Proof.
  intros Hb. apply N.bits_inj. intros m. rewrite N.bits_0.
  destruct (N.ltb_spec m z) as [L|L].
  - rewrite N.mod_pow2_bits_low by assumption. apply Hb. assumption.
  - apply N.mod_pow2_bits_high. assumption.
Qed.

(* j has exactly z trailing zeros *)
Definition ctzP (j z : N) : Prop := exists t, j = 2 ^ z * (2 * t + 1).

Lemma ctz_divides j :
  let z := count_trailing_zeros j in
  z <= 48 /\ j = 2 ^ z * (j / 2 ^ z) /\ (z < 48 -> N.testbit j z = true).
Proof.
  cbv zeta. unfold count_trailing_zeros.
  pose proof (ctz_from_spec 48 j 0) as S. cbv zeta in S.
  set (z := ctz_from 48 j 0) in *. destruct S as [[_ S2] [S3 S4]].
  split; [lia|]. split.
  - apply N.div_exact; [apply N.pow_nonzero; discriminate|].
    apply low_bits_zero. intros p Hp. apply S3. lia.
  - intros L. apply S4. lia.
Qed.

Lemma ctz_spec j :
  0 < j -> j < 2 ^ 48 ->
  count_trailing_zeros j < 48 /\ ctzP j (count_trailing_zeros j).
Proof.
  intros J0 J1. destruct (ctz_divides j) as [Z1 [Z2 Z3]].
  set (z := count_trailing_zeros j) in *.
  assert (ZL : z < 48).
  { destruct (N.eq_dec z 48) as [E|NE]; [|lia]. exfalso.
    rewrite E in Z2. rewrite N.div_small in Z2 by assumption. lia. }
  split; [assumption|].
  specialize (Z3 ZL).
  pose proof (N.testbit_spec' j z) as T. rewrite Z3 in T. cbn [N.b2n] in T.
  exists ((j / 2 ^ z) / 2).
  pose proof (N.div_mod (j / 2 ^ z) 2 ltac:(discriminate)) as DM.
  rewrite <- T in DM. rewrite <- DM. exact Z2.
Qed.

Lemma ctz_zero : count_trailing_zeros 0 = 48.
Proof. reflexivity. Qed.

Lemma ctzP_lt_aux j z z' t t' :
  z < z' -> j = 2 ^ z * (2 * t + 1) -> j = 2 ^ z' * t' -> False.
Proof.
  intros L E1 E2.
  rewrite (pow2_split (z + 1) z') in E2 by lia. rewrite pow2_succ in E2.
  rewrite E1 in E2.
  replace (2 * 2 ^ z * 2 ^ (z' - (z + 1)) * t')
    with (2 ^ z * (2 * (2 ^ (z' - (z + 1)) * t'))) in E2 by ring.
  apply N.mul_cancel_l in E2; [|apply N.pow_nonzero; discriminate]. lia.
Qed.

(* divisibility by 2^m bounds the number of trailing zeros from below *)
Lemma ctz_ge j m s z : j = 2 ^ m * s -> ctzP j z -> m <= z.
Proof.
  intros E [t Et]. destruct (N.le_gt_cases m z) as [L|L]; [assumption|].
  exfalso. eapply ctzP_lt_aux; eassumption.
Qed.

Lemma ctzP_unique j z z' : ctzP j z -> ctzP j z' -> z = z'.
Proof.
  intros [t Et] [t' Et'].
  destruct (N.lt_trichotomy z z') as [L|[E|L]]; [exfalso|assumption|exfalso].
  - eapply ctzP_lt_aux; eassumption.
  - eapply ctzP_lt_aux; eassumption.
Qed.

Lemma ctzP_pos j z : ctzP j z -> 0 < j.
Proof. intros [t ->]. pose proof (pow2_pos z). nia. Qed.

Lemma ctzP_ctz j z : ctzP j z -> j < 2 ^ 48 -> count_trailing_zeros j = z.
Proof.
  intros C L. pose proof (ctzP_pos _ _ C) as P.
  destruct (ctz_spec j P L) as [_ C']. eapply ctzP_unique; eassumption.
Qed.

Lemma ctzP_div j z b : ctzP j z -> b < z -> exists s, j = 2 ^ (b + 1) * s.
Proof.
  intros [t ->] L. exists (2 ^ (z - (b + 1)) * (2 * t + 1)).
  rewrite (pow2_split (b + 1) z) by lia. ring.
Qed.

Lemma ctzP_add j b s : j = 2 ^ (b + 1) * s -> ctzP (j + 2 ^ b) b.
Proof. intros ->. exists s. rewrite pow2_succ. ring. Qed.

Lemma ctzP_uniq_near x y b :
  ctzP x b -> ctzP y b -> x < y + 2 ^ (b + 1) -> y < x + 2 ^ (b + 1) -> x = y.
Proof.
  intros [t ->] [t' ->]. rewrite pow2_succ. pose proof (pow2_pos b).
  set (P := 2 ^ b) in *. intros L1 L2.
  assert (t = t') by nia. subst. reflexivity.
Qed.

Lemma ctzP_lt48 j z : ctzP j z -> j < 2 ^ 48 -> z < 48.
Proof.
  intros [t ->] L. apply (N.pow_lt_mono_r_iff 2); [lia|].
  pose proof (pow2_pos z). nia.
Qed.

Lemma ctzP_room j z : ctzP j z -> j < 2 ^ 48 -> j + 2 ^ z <= 2 ^ 48.
Proof.
  intros C L. pose proof (ctzP_lt48 _ _ C L) as Z. destruct C as [t ->].
  rewrite (pow2_split z 48) in * by lia. pose proof (pow2_pos z).
  set (P := 2 ^ z) in *. set (Q := 2 ^ (48 - z)) in *.
  assert (2 * t + 1 < Q) by nia. nia.
Qed.

(* [from] is a multiple of P: from <= to < from + P iff from is to's prefix *)
Lemma prefix_arith P t to :
  0 < P -> (P * t <= to < P * t + P <-> P * t = P * (to / P)).
Proof.
  intros HP. split.
  - intros [L1 L2]. f_equal. apply (N.div_unique to P t (to - P * t)); lia.
  - intros E. rewrite E. split.
    + apply N.mul_div_le. lia.
    + pose proof (N.mul_succ_div_gt to P). lia.
Qed.

Lemma prefix_step to p :
  2 ^ p * (to / 2 ^ p) =
  2 ^ (p + 1) * (to / 2 ^ (p + 1)) + (if N.testbit to p then 2 ^ p else 0).
Proof.
  rewrite pow2_succ.
  assert (D : to / (2 * 2 ^ p) = to / 2 ^ p / 2).
  { rewrite (N.mul_comm 2). symmetry. apply N.div_div;
      [apply N.pow_nonzero|]; discriminate. }
  rewrite D. pose proof (N.testbit_spec' to p) as T.
  pose proof (N.div_mod (to / 2 ^ p) 2 ltac:(discriminate)) as DM.
  set (q := to / 2 ^ p) in *. set (P := 2 ^ p).
  destruct (N.testbit to p); cbn [N.b2n] in T; nia.
Qed.

(* bits of j + 2^b when 2^(b+1) divides j *)
Lemma testbit_add_pow2 s b p :
  N.testbit (2 ^ (b + 1) * s + 2 ^ b) p =
  xorb (N.testbit (2 ^ (b + 1) * s) p) (N.eqb b p).
Proof.
  rewrite N.add_nocarry_lxor.
  - rewrite N.lxor_spec, N.pow2_bits_eqb. reflexivity.
  - apply N.bits_inj. intros m. rewrite N.land_spec, N.bits_0, N.pow2_bits_eqb.
    destruct (N.eqb_spec b m) as [<-|NE]; [|apply andb_false_r].
    rewrite N.mul_comm, N.mul_pow2_bits_low by lia. reflexivity.
Qed.

Lemma testbit_mul_pow2_low s n p : p < n -> N.testbit (2 ^ n * s) p = false.
Proof. intros L. rewrite N.mul_comm. apply N.mul_pow2_bits_low. assumption. Qed.

(* positions_below *)
Lemma pb_none n x :
  (forall p, p < N.of_nat n -> N.testbit x p = false) -> positions_below n x = [].
Proof.
  induction n as [|n IH]; intros Hb; cbn [positions_below]; [reflexivity|].
  rewrite get_bit_eqb1, Hb by lia. cbn [app]. apply IH. intros p Hp. apply Hb. lia.
Qed.

Lemma pb_single n x b :
  (forall p, p < N.of_nat n -> N.testbit x p = N.eqb b p) -> b < N.of_nat n ->
  positions_below n x = [b].
Proof.
  induction n as [|n IH]; intros Hb L; [lia|]. cbn [positions_below].
  rewrite get_bit_eqb1, Hb by lia.
  destruct (N.eqb_spec b (N.of_nat n)) as [E|NE].
  - cbn [app]. rewrite pb_none; [congruence|].
    intros p Hp. rewrite Hb by lia. apply N.eqb_neq. lia.
  - cbn [app]. apply IH; [|lia]. intros p Hp. apply Hb. lia.
Qed.

(* ------------------------------------------------------------------ *)
(* derive_bits characterised                                           *)

Lemma derive_bits_some from to ps :
  to < 2 ^ 64 ->
  derive_bits from to = Some ps ->
  (from = to /\ ps = []) \/
  (let z := count_trailing_zeros from in
   from = 2 ^ z * (to / 2 ^ z) /\ ps = positions_below (N.to_nat z) to).
Proof.
  intros Lt. unfold derive_bits.
  destruct (N.eqb_spec from to) as [E|NE].
  - intros [= <-]. left. split; [assumption|reflexivity].
  - destruct (ctz_divides from) as [Z1 _].
    rewrite get_prefix_spec by (assumption || lia).
    destruct (N.eqb_spec from (2 ^ count_trailing_zeros from *
                                (to / 2 ^ count_trailing_zeros from))) as [E|NE'].
    + intros [= <-]. right. cbv zeta. split; [assumption|reflexivity].
    + discriminate.
Qed.

(* arithmetic sufficient condition for derivability *)
Lemma derive_bits_ok from to :
  to < 2 ^ 64 ->
  from <= to < from + 2 ^ count_trailing_zeros from ->
  derive_bits from to <> None.
Proof.
  intros Lt [L1 L2]. unfold derive_bits.
  destruct (N.eqb_spec from to) as [E|NE]; [discriminate|].
  destruct (ctz_divides from) as [Z1 [Z2 _]].
  rewrite get_prefix_spec by (assumption || lia).
  set (z := count_trailing_zeros from) in *.
  assert (E : from = 2 ^ z * (to / 2 ^ z)).
  { rewrite Z2 at 1. apply prefix_arith; [apply pow2_pos|]. rewrite <- Z2. lia. }
  rewrite <- E, N.eqb_refl. discriminate.
Qed.

Lemma new_index_small v : v <= start_index -> new_index v = start_index - v.
Proof.
  intros L. unfold new_index, start_index, two64 in *.
  change (2 ^ 48) with 281474976710656 in *.
  rewrite (N.mod_small v) by lia.
  replace (281474976710656 - 1 + 18446744073709551616 - v)
    with (281474976710656 - 1 - v + 1 * 18446744073709551616) by lia.
  rewrite N.mod_add by discriminate. apply N.mod_small. lia.
Qed.

(* ------------------------------------------------------------------ *)
(* Part B/C: generic in the hash                                       *)

Section WithHash.
  Variable hash : Type.
  Variable H : hash -> hash.
  Variable flip : N -> hash -> hash.
  Variable hash_eqb : hash -> hash -> bool.
  Hypothesis hash_eqb_eq : forall a b, hash_eqb a b = true <-> a = b.

  Notation element := (element hash).
  Notation store := (store hash).
  Notation derive := (derive hash H flip).
  Notation add_next := (add_next hash H flip hash_eqb).
  Notation add_all := (add_all hash H flip hash_eqb).
  Notation check_lower := (check_lower hash H flip hash_eqb).
  Notation lookup := (lookup hash H flip).
  Notation lookup_from := (lookup_from hash H flip).
  Notation at_index := (at_index hash H flip).
  Notation el_eqb := (el_eqb hash hash_eqb).

  Definition walk (ps : list N) (h : hash) : hash :=
    fold_left (fun buf p => H (flip p buf)) ps h.

  (* [val] is consistent along every tree edge j -> j + 2^b (b below the
     trailing zeros of j) for the nodes j in (lo, 2^48) *)
  Definition edges (lo : N) (val : N -> hash) : Prop :=
    forall j b s, lo < j -> j < 2 ^ 48 -> j = 2 ^ (b + 1) * s ->
                  val (j + 2 ^ b) = H (flip b (val j)).

  Lemma walk_prefix lo val to :
    edges lo val -> to < 2 ^ 48 ->
    forall m, lo < 2 ^ N.of_nat m * (to / 2 ^ N.of_nat m) ->
    walk (positions_below m to) (val (2 ^ N.of_nat m * (to / 2 ^ N.of_nat m))) = val to.
  Proof.
    intros E Lt. induction m as [|m IH]; intros Llo.
    - cbn [positions_below walk fold_left N.of_nat].
      rewrite N.pow_0_r, N.div_1_r, N.mul_1_l. reflexivity.
    - cbn [positions_below]. rewrite get_bit_eqb1.
      rewrite Nat2N.inj_succ, <- N.add_1_r in *.
      pose proof (prefix_step to (N.of_nat m)) as PS.
      set (p := N.of_nat m) in *.
      set (c1 := 2 ^ (p + 1) * (to / 2 ^ (p + 1))) in *.
      set (c0 := 2 ^ p * (to / 2 ^ p)) in *.
      assert (C1 : c1 <= to) by (apply N.mul_div_le, N.pow_nonzero; discriminate).
      destruct (N.testbit to p).
      + unfold walk. rewrite fold_left_app. cbn [fold_left].
        rewrite <- (E c1 p (to / 2 ^ (p + 1))) by (lia || reflexivity).
        rewrite <- PS. apply IH. lia.
      + cbn [app]. replace c1 with c0 by lia. apply IH. lia.
  Qed.

  Lemma derive_val lo val from to e :
    edges lo val -> lo < from -> to < 2 ^ 48 ->
    derive (mkEl from (val from)) to = Some e -> e = mkEl to (val to).
  Proof.
    intros E L1 L2. unfold derive. cbn [el_index el_hash].
    destruct (derive_bits from to) as [ps|] eqn:D; [|discriminate].
    intros [= <-]. f_equal.
    apply derive_bits_some in D; [|change (2 ^ 64) with (2 ^ 48 * 2 ^ 16); lia].
    destruct D as [[-> ->]|[D1 ->]]; [reflexivity|].
    set (z := count_trailing_zeros from) in *.
    pose proof (walk_prefix lo val to E L2 (N.to_nat z)) as W.
    rewrite N2Nat.id in W. rewrite <- D1 in W. apply W. assumption.
  Qed.

  (* ---- buckets ---- *)
  Lemma bucket_get_filter (bs : list (N * element)) i j :
    j <> i ->
    bucket_get (filter (fun p => negb (N.eqb (fst p) i)) bs) j = bucket_get bs j.
  Proof.
    intros NE. induction bs as [|[k e] r IH]; [reflexivity|].
    cbn [filter fst bucket_get].
    destruct (N.eqb_spec k i) as [->|NK]; cbn [negb bucket_get].
    - rewrite IH. destruct (N.eqb_spec j i); [contradiction|reflexivity].
    - rewrite IH. reflexivity.
  Qed.

  Lemma bucket_get_set (bs : list (N * element)) i e j :
    bucket_get (bucket_set hash bs i e) j =
    if N.eqb j i then Some e else bucket_get bs j.
  Proof.
    unfold bucket_set. cbn [bucket_get].
    destruct (N.eqb_spec j i) as [E|NE]; [reflexivity|].
    apply bucket_get_filter. assumption.
  Qed.

  (* ---- the store invariant ---- *)
  Record Inv (st : store) (val : N -> hash) : Prop := {
    inv_idx : st_index st < 2 ^ 48;
    inv_len : len_buckets st <= 48;
    inv_bucket : forall b e, bucket_get (buckets st) b = Some e ->
       b < len_buckets st /\ ctzP (el_index e) b /\
       st_index st < el_index e /\ el_index e < 2 ^ 48 /\
       el_index e <= st_index st + 2 ^ (b + 1) /\ el_hash e = val (el_index e);
    inv_present : forall x, st_index st < x -> x < 2 ^ 48 ->
       bucket_get (buckets st) (count_trailing_zeros x) <> None;
    inv_dense : forall b, b < len_buckets st -> bucket_get (buckets st) b <> None;
    inv_cover : forall to, st_index st < to -> to < 2 ^ 48 ->
       exists b e, bucket_get (buckets st) b = Some e /\
                   el_index e <= to < el_index e + 2 ^ b;
    inv_edges : edges (st_index st) val
  }.

  Lemma two48 : 2 ^ 48 = 281474976710656. Proof. reflexivity. Qed.

  Lemma Inv_new val : Inv new_store val.
  Proof.
    constructor; cbn [new_store st_index len_buckets buckets bucket_get];
      unfold start_index; rewrite ?two48.
    - lia.
    - lia.
    - discriminate.
    - intros x L1 L2. lia.
    - intros b L. lia.
    - intros to L1 L2. lia.
    - intros j b s L1 L2. lia.
  Qed.

  Lemma Inv_ext st val val' :
    (forall x, st_index st < x -> x < 2 ^ 48 -> val' x = val x) ->
    Inv st val -> Inv st val'.
  Proof.
    intros EX I. destruct I as [I1 I2 I3 I4 I5 I6 I7].
    constructor; try assumption.
    - intros b e G. destruct (I3 b e G) as (A & B & C & D & E & F).
      repeat (split; [assumption|]). rewrite EX by assumption. assumption.
    - intros j b s L1 L2 EJ.
      assert (CP : ctzP (j + 2 ^ b) b) by (eapply ctzP_add; eassumption).
      assert (R : j + 2 ^ b < 2 ^ 48).
      { assert (0 < j) by lia.
        destruct (ctz_spec j ltac:(assumption) L2) as [Z1 Z2].
        pose proof (ctz_ge _ _ _ _ EJ Z2) as GE.
        pose proof (ctzP_room _ _ Z2 L2) as RM.
        assert (2 ^ b < 2 ^ count_trailing_zeros j)
          by (apply N.pow_lt_mono_r; lia). lia. }
      pose proof (pow2_pos b).
      rewrite !EX by lia. eapply I7; eassumption.
  Qed.

  Section Step.
    Variable st : store.
    Variable val : N -> hash.
    Hypothesis I : Inv st val.
    Hypothesis Ipos : 0 < st_index st.

    Let idx := st_index st.
    Let z := count_trailing_zeros idx.

    Lemma step_z : z < 48 /\ ctzP idx z.
    Proof. apply ctz_spec; [assumption|apply (inv_idx _ _ I)]. Qed.

    Lemma child_range b : b < z ->
      ctzP (idx + 2 ^ b) b /\ idx + 2 ^ b < 2 ^ 48 /\
      count_trailing_zeros (idx + 2 ^ b) = b.
    Proof.
      intros L. destruct step_z as [Z1 Z2].
      destruct (ctzP_div _ _ _ Z2 L) as [s Es].
      pose proof (ctzP_add _ _ _ Es) as CP.
      pose proof (ctzP_room _ _ Z2 (inv_idx _ _ I)) as RM.
      assert (2 ^ b < 2 ^ z) by (apply N.pow_lt_mono_r; lia).
      assert (R : idx + 2 ^ b < 2 ^ 48) by (fold idx in RM; lia).
      split; [assumption|]. split; [assumption|].
      apply ctzP_ctz; assumption.
    Qed.

    Lemma bucket_below b : b < z ->
      bucket_get (buckets st) b = Some (mkEl (idx + 2 ^ b) (val (idx + 2 ^ b))).
    Proof.
      intros L. destruct (child_range b L) as (CP & R & CZ).
      pose proof (pow2_pos b).
      pose proof (inv_present _ _ I (idx + 2 ^ b)) as PR.
      rewrite CZ in PR. fold idx in PR.
      destruct (bucket_get (buckets st) b) as [e|] eqn:G;
        [|exfalso; apply PR; [lia|assumption|reflexivity]].
      destruct (inv_bucket _ _ I b e G) as (_ & B & C & D & E & F).
      fold idx in C, E.
      assert (EI : el_index e = idx + 2 ^ b).
      { apply (ctzP_uniq_near _ _ b); try assumption; rewrite pow2_succ in *; lia. }
      destruct e as [ei eh]. cbn [el_index el_hash] in *. subst. reflexivity.
    Qed.

    Lemma derive_child h b : b < z ->
      derive (mkEl idx h) (idx + 2 ^ b) =
      Some (mkEl (idx + 2 ^ b) (H (flip b h))).
    Proof.
      intros L. destruct step_z as [Z1 Z2].
      destruct (child_range b L) as (CP & R & CZ).
      pose proof (pow2_pos b).
      assert (LT : 2 ^ b < 2 ^ z) by (apply N.pow_lt_mono_r; lia).
      unfold derive, derive_bits. cbn [el_index el_hash]. fold z.
      destruct (N.eqb_spec idx (idx + 2 ^ b)) as [E|_]; [lia|].
      rewrite get_prefix_spec;
        [|change (2 ^ 64) with (2 ^ 48 * 2 ^ 16); lia|lia].
      assert (EP : idx = 2 ^ z * ((idx + 2 ^ b) / 2 ^ z)).
      { destruct Z2 as [t Et]. rewrite Et at 1.
        apply prefix_arith; [apply pow2_pos|]. rewrite <- Et. lia. }
      rewrite <- EP, N.eqb_refl.
      rewrite (pb_single (N.to_nat z) (idx + 2 ^ b) b).
      - reflexivity.
      - rewrite N2Nat.id. intros p Lp.
        destruct (ctzP_div _ _ _ Z2 L) as [s Es].
        rewrite Es, testbit_add_pow2, <- Es.
        destruct Z2 as [t Et]. rewrite Et, testbit_mul_pow2_low by assumption.
        apply xorb_false_l.
      - rewrite N2Nat.id. assumption.
    Qed.

    Lemma check_lower_iff h : forall n, N.of_nat n <= z ->
      (check_lower n (buckets st) (mkEl idx h) = true <->
       forall b, b < N.of_nat n -> H (flip b h) = val (idx + 2 ^ b)).
    Proof.
      induction n as [|n IH]; intros L.
      - cbn [check_lower]. split; [intros _ b Lb; lia|reflexivity].
      - cbn [check_lower]. rewrite Nat2N.inj_succ in *.
        rewrite andb_true_iff, IH by lia.
        rewrite bucket_below by lia. cbn [el_index].
        rewrite derive_child by lia. unfold Model.el_eqb. cbn [el_index el_hash].
        rewrite N.eqb_refl. cbn [andb]. rewrite hash_eqb_eq.
        split.
        + intros [A B] b Lb.
          destruct (N.eq_dec b (N.of_nat n)) as [->|NE]; [assumption|].
          apply A. lia.
        + intros A. split; [intros b Lb|]; apply A; lia.
    Qed.

    Definition accept_cond (h : hash) : Prop :=
      forall b, b < z -> H (flip b h) = val (idx + 2 ^ b).

    Lemma add_next_accept_iff h :
      add_next st h <> None <-> accept_cond h.
    Proof.
      unfold Model.add_next, accept_cond. fold idx z.
      pose proof (check_lower_iff h (N.to_nat z)) as C.
      rewrite N2Nat.id in C. specialize (C (N.le_refl _)).
      destruct (check_lower (N.to_nat z) (buckets st) (mkEl idx h)).
      - split; [intros _; apply (proj1 C); reflexivity|discriminate].
      - split; [intros X; contradiction|].
        intros A. apply (proj2 C) in A. discriminate.
    Qed.

    Definition next_store (h : hash) : store :=
      mkStore (if N.ltb (len_buckets st) (z + 1) then z + 1 else len_buckets st)
              (bucket_set hash (buckets st) z (mkEl idx h))
              (idx - 1).

    Lemma add_next_result h st' :
      add_next st h = Some st' -> st' = next_store h.
    Proof.
      unfold Model.add_next. fold idx z.
      destruct (check_lower _ _ _); [|discriminate]. intros [= <-]. reflexivity.
    Qed.

    Lemma Inv_next :
      accept_cond (val idx) -> Inv (next_store (val idx)) val.
    Proof.
      intros AC. destruct step_z as [Z1 Z2].
      pose proof (inv_idx _ _ I) as Iidx. fold idx in Iidx.
      pose proof (pow2_pos z) as Pz.
      constructor; unfold next_store; cbn [st_index len_buckets buckets].
      - lia.
      - destruct (N.ltb_spec (len_buckets st) (z + 1)); [lia|apply (inv_len _ _ I)].
      - intros b e. rewrite bucket_get_set.
        assert (LL : len_buckets st <=
                     (if N.ltb (len_buckets st) (z + 1) then z + 1 else len_buckets st))
          by (destruct (N.ltb_spec (len_buckets st) (z + 1)); lia).
        destruct (N.eqb_spec b z) as [->|NE].
        + intros [= <-]. cbn [el_index el_hash].
          pose proof (pow2_pos (z + 1)).
          repeat split; try assumption; try lia.
          destruct (N.ltb_spec (len_buckets st) (z + 1)); lia.
        + intros G. destruct (inv_bucket _ _ I b e G) as (A & B & C & D & E & F).
          fold idx in C, E.
          repeat split; try assumption; try lia.
          (* the bucket's element is still the most recent of its class *)
          destruct (N.eq_dec (el_index e) (idx + 2 ^ (b + 1))) as [EQ|NQ]; [|lia].
          exfalso. apply NE. apply (ctzP_unique idx); [|assumption].
          destruct B as [t Et]. rewrite pow2_succ in EQ. pose proof (pow2_pos b).
          exists (t - 1). set (P := 2 ^ b) in *.
          assert (1 <= t) by nia. nia.
      - intros x L1 L2. rewrite bucket_get_set.
        destruct (N.eqb_spec (count_trailing_zeros x) z) as [_|NE]; [discriminate|].
        apply (inv_present _ _ I); [|assumption]. fold idx.
        destruct (N.eq_dec x idx) as [->|NX]; [contradiction NE; reflexivity|lia].
      - intros b L. rewrite bucket_get_set.
        destruct (N.eqb_spec b z) as [_|NE]; [discriminate|].
        destruct (N.ltb_spec b (len_buckets st)) as [Lb|Lb];
          [apply (inv_dense _ _ I); assumption|].
        destruct (N.ltb_spec (len_buckets st) (z + 1)); [|lia].
        rewrite bucket_below by lia. discriminate.
      - intros to L1 L2.
        destruct (N.eq_dec to idx) as [->|NT].
        { exists z, (mkEl idx (val idx)). rewrite bucket_get_set, N.eqb_refl.
          cbn [el_index]. split; [reflexivity|lia]. }
        destruct (inv_cover _ _ I to ltac:(fold idx; lia) L2) as (b & e & G & R).
        destruct (N.eq_dec b z) as [->|NE].
        2:{ exists b, e. rewrite bucket_get_set.
            destruct (N.eqb_spec b z); [contradiction|]. split; assumption. }
        (* the witness was in the bucket that is being overwritten: the node
           idx + 2^z, one level up, covers [to] as well *)
        destruct (inv_bucket _ _ I z e G) as (_ & B & C & D & E & _).
        fold idx in C, E.
        assert (EI : el_index e = idx + 2 ^ (z + 1)).
        { destruct B as [t Et]. destruct Z2 as [t0 Et0]. rewrite pow2_succ in *.
          set (P := 2 ^ z) in *. assert (t = t0 + 1) by nia. nia. }
        rewrite EI, pow2_succ in R.
        set (x := idx + 2 ^ z).
        assert (X0 : 0 < x) by (unfold x; lia).
        assert (X1 : x < 2 ^ 48) by (unfold x; lia).
        destruct (ctz_spec x X0 X1) as [W1 W2].
        set (z' := count_trailing_zeros x) in *.
        assert (GE : z + 1 <= z').
        { destruct Z2 as [t0 Et0]. apply (ctz_ge x (z + 1) (t0 + 1)); [|assumption].
          unfold x. rewrite Et0, pow2_succ. ring. }
        assert (PW : 2 ^ (z + 1) <= 2 ^ z') by (apply N.pow_le_mono_r; lia).
        rewrite pow2_succ in PW.
        pose proof (inv_present _ _ I x ltac:(fold idx; unfold x; lia) X1) as PR.
        fold z' in PR.
        destruct (bucket_get (buckets st) z') as [e'|] eqn:G'; [|contradiction].
        destruct (inv_bucket _ _ I z' e' G') as (_ & B' & C' & D' & E' & _).
        fold idx in C', E'.
        assert (EI' : el_index e' = x).
        { apply (ctzP_uniq_near _ _ z'); try assumption;
            rewrite pow2_succ in *; unfold x; lia. }
        exists z', e'. rewrite bucket_get_set.
        destruct (N.eqb_spec z' z); [lia|]. split; [assumption|].
        rewrite EI'. unfold x. lia.
      - intros j b s L1 L2 EJ.
        destruct (N.eq_dec j idx) as [->|NJ].
        + symmetry. apply AC. pose proof (ctz_ge _ _ _ _ EJ Z2). lia.
        + apply (inv_edges _ _ I j b s); [fold idx; lia|assumption|assumption].
    Qed.
  End Step.

  (* ---- LookUp ---- *)
  Lemma lookup_from_spec st val to :
    Inv st val -> st_index st < to -> to < 2 ^ 48 ->
    forall n i,
      (exists b e, i <= b < i + N.of_nat n /\
                   bucket_get (buckets st) b = Some e /\
                   el_index e <= to < el_index e + 2 ^ b) ->
      lookup_from n i st to = Some (val to).
  Proof.
    intros I L1 L2. induction n as [|n IH]; intros i (b & e & Rb & G & R).
    - lia.
    - cbn [Model.lookup_from]. rewrite Nat2N.inj_succ in Rb.
      destruct (bucket_get (buckets st) i) as [e0|] eqn:G0.
      + destruct (inv_bucket _ _ I i e0 G0) as (_ & B & C & D & _ & F).
        destruct e0 as [j jh]. cbn [el_index el_hash] in *. subst jh.
        destruct (derive (mkEl j (val j)) to) as [e'|] eqn:DV.
        * apply (derive_val (st_index st) val j to e' (inv_edges _ _ I) C L2) in DV.
          subst e'. reflexivity.
        * apply IH. exists b, e. split; [|split; assumption].
          destruct (N.eq_dec b i) as [->|NE]; [exfalso|lia].
          rewrite G0 in G. injection G as <-. cbn [el_index] in R.
          unfold Model.derive in DV. cbn [el_index el_hash] in DV.
          destruct (derive_bits j to) eqn:DB; [discriminate|].
          revert DB. apply derive_bits_ok.
          -- change (2 ^ 64) with (2 ^ 48 * 2 ^ 16). lia.
          -- rewrite (ctzP_ctz _ _ B D). assumption.
      + apply IH. exists b, e. split; [|split; assumption].
        destruct (N.eq_dec b i) as [->|NE]; [congruence|lia].
  Qed.

  Lemma lookup_inv st val v :
    Inv st val -> st_index st < start_index - v ->
    lookup st v = Some (val (start_index - v)).
  Proof.
    intros I L. unfold Model.lookup. rewrite new_index_small by lia.
    assert (L2 : start_index - v < 2 ^ 48) by (unfold start_index; lia).
    apply (lookup_from_spec st val _ I L L2).
    destruct (inv_cover _ _ I _ L L2) as (b & e & G & R).
    exists b, e. destruct (inv_bucket _ _ I b e G) as (A & _).
    rewrite N2Nat.id. split; [lia|]. split; assumption.
  Qed.

  (* ---- insert sequences ---- *)
  Definition upd (val : N -> hash) (i : N) (h : hash) : N -> hash :=
    fun x => if N.eqb x i then h else val x.

  Lemma add_next_step st val h st' :
    Inv st val -> 0 < st_index st -> add_next st h = Some st' ->
    Inv st' (upd val (st_index st) h) /\ st_index st' = st_index st - 1 /\
    st' = next_store st h.
  Proof.
    intros I P A.
    assert (I1 : Inv st (upd val (st_index st) h)).
    { apply (Inv_ext st val); [|assumption]. intros x L _. unfold upd.
      destruct (N.eqb_spec x (st_index st)); [lia|reflexivity]. }
    pose proof (add_next_result st h st' A) as ->.
    split; [|split; reflexivity].
    replace h with (upd val (st_index st) h (st_index st)) at 1
      by (unfold upd; rewrite N.eqb_refl; reflexivity).
    apply Inv_next; try assumption.
    apply (add_next_accept_iff st _ I1 P).
    unfold upd. rewrite N.eqb_refl. congruence.
  Qed.

  Lemma add_all_inv : forall hs st val st',
    Inv st val -> N.of_nat (length hs) <= st_index st ->
    add_all st hs = Some st' ->
    exists val', Inv st' val' /\
      st_index st' = st_index st - N.of_nat (length hs) /\
      (forall x, st_index st < x -> val' x = val x) /\
      (forall i h, nth_error hs i = Some h -> val' (st_index st - N.of_nat i) = h).
  Proof.
    induction hs as [|h r IH]; intros st val st' I L A.
    - cbn [Model.add_all] in A. injection A as <-. exists val.
      cbn [length N.of_nat]. split; [assumption|]. split; [lia|]. split.
      + reflexivity.
      + intros [|i] h0; discriminate.
    - cbn [Model.add_all] in A. cbn [length] in L. rewrite Nat2N.inj_succ in L.
      destruct (add_next st h) as [st1|] eqn:A1; [|discriminate].
      destruct (add_next_step st val h st1 I ltac:(lia) A1) as (I1 & X1 & _).
      destruct (IH st1 _ st' I1 ltac:(lia) A) as (val' & I' & X' & AG & NT).
      exists val'. split; [assumption|]. split; [|split].
      + cbn [length]. rewrite Nat2N.inj_succ. lia.
      + intros x Lx. rewrite AG by lia. unfold upd.
        destruct (N.eqb_spec x (st_index st)); [lia|reflexivity].
      + intros [|i] h0 E; cbn [nth_error] in E.
        * injection E as <-. cbn [N.of_nat]. rewrite N.sub_0_r, AG by lia.
          unfold upd. rewrite N.eqb_refl. reflexivity.
        * rewrite Nat2N.inj_succ.
          replace (st_index st - N.succ (N.of_nat i))
            with (st_index st1 - N.of_nat i) by lia.
          apply NT. assumption.
  Qed.

  (* values that are consistent along all edges are always accepted *)
  Lemma add_all_accepts : forall hs st val,
    Inv st val -> N.of_nat (length hs) <= st_index st -> edges 0 val ->
    (forall i h, nth_error hs i = Some h -> h = val (st_index st - N.of_nat i)) ->
    exists st', add_all st hs = Some st' /\ Inv st' val.
  Proof.
    induction hs as [|h r IH]; intros st val I L E NT.
    - exists st. split; [reflexivity|assumption].
    - cbn [length] in L. rewrite Nat2N.inj_succ in L.
      assert (P : 0 < st_index st) by lia.
      assert (EH : h = val (st_index st)).
      { rewrite (NT 0%nat h eq_refl). cbn [N.of_nat]. f_equal. lia. }
      assert (AC : accept_cond st val (val (st_index st))).
      { intros b Lb. symmetry.
        destruct (step_z st val I P) as [Z1 Z2].
        destruct (ctzP_div _ _ _ Z2 Lb) as [s Es].
        apply (E _ b s); [assumption|apply (inv_idx _ _ I)|assumption]. }
      pose proof (proj2 (add_next_accept_iff st val I P _) AC) as NN.
      cbn [Model.add_all]. rewrite EH.
      destruct (add_next st (val (st_index st))) as [st1|] eqn:A1; [|contradiction].
      pose proof (add_next_result st _ st1 A1) as ->.
      apply IH.
      + apply Inv_next; assumption.
      + cbn [next_store st_index]. lia.
      + assumption.
      + intros i h0 E0. cbn [next_store st_index].
        rewrite (NT (S i) h0 E0), Nat2N.inj_succ. f_equal. lia.
  Qed.

  (* ---- producer ---- *)
  Definition pval (root : hash) (j : N) : hash := walk (positions_below 48 j) root.

  Lemma pb_add s b : forall n,
    positions_below n (2 ^ (b + 1) * s + 2 ^ b) =
    positions_below n (2 ^ (b + 1) * s) ++ (if N.ltb b (N.of_nat n) then [b] else []).
  Proof.
    induction n as [|n IH].
    - cbn [positions_below N.of_nat]. destruct (N.ltb_spec b 0); [lia|reflexivity].
    - cbn [positions_below]. rewrite !get_bit_eqb1, testbit_add_pow2, IH.
      rewrite Nat2N.inj_succ.
      destruct (N.lt_trichotomy b (N.of_nat n)) as [L|[E|L]].
      + destruct (N.eqb_spec b (N.of_nat n)); [lia|]. rewrite xorb_false_r.
        destruct (N.ltb_spec b (N.of_nat n)); [|lia].
        destruct (N.ltb_spec b (N.succ (N.of_nat n))); [|lia].
        rewrite app_assoc. reflexivity.
      + subst b. rewrite N.eqb_refl.
        rewrite (testbit_mul_pow2_low s (N.of_nat n + 1) (N.of_nat n)) by lia.
        cbn [xorb app].
        destruct (N.ltb_spec (N.of_nat n) (N.of_nat n)); [lia|].
        destruct (N.ltb_spec (N.of_nat n) (N.succ (N.of_nat n))); [|lia].
        rewrite app_nil_r.
        rewrite (pb_none n (2 ^ (N.of_nat n + 1) * s)).
        * reflexivity.
        * intros p Lp. apply testbit_mul_pow2_low. lia.
      + destruct (N.eqb_spec b (N.of_nat n)); [lia|]. rewrite xorb_false_r.
        destruct (N.ltb_spec b (N.of_nat n)); [lia|].
        destruct (N.ltb_spec b (N.succ (N.of_nat n))); [lia|].
        rewrite !app_nil_r. reflexivity.
  Qed.

  Lemma pval_edges root : edges 0 (pval root).
  Proof.
    intros j b s L1 L2 ->. unfold pval. rewrite (pb_add s b 48).
    assert (Lb : b < 48).
    { assert (b + 1 < 48); [|lia]. apply (N.pow_lt_mono_r_iff 2); [lia|].
      destruct s; [rewrite N.mul_0_r in L1; lia|]. nia. }
    destruct (N.ltb_spec b (N.of_nat 48)) as [_|X]; [|cbn in X; lia].
    unfold walk. rewrite fold_left_app. reflexivity.
  Qed.

  Lemma at_index_pval root v :
    v <= start_index ->
    at_index root v = Some (pval root (start_index - v)).
  Proof.
    intros Lv. unfold Model.at_index, Model.derive. rewrite new_index_small by assumption.
    cbn [el_index el_hash].
    set (to := start_index - v).
    assert (Lt : to < 2 ^ 48) by (unfold to, start_index; lia).
    unfold derive_bits. destruct (N.eqb_spec 0 to) as [E|NE].
    - rewrite <- E. reflexivity.
    - rewrite ctz_zero.
      rewrite get_prefix_spec;
        [|change (2 ^ 64) with (2 ^ 48 * 2 ^ 16); lia|lia].
      rewrite N.div_small by assumption. rewrite N.mul_0_r. cbn [N.eqb].
      reflexivity.
  Qed.

  (* ---------------------------------------------------------------- *)
  (* Part E: main lemmas over insert sequences from new_store          *)

  Lemma reach_inv (d : hash) hs (st : store) :
    add_all new_store hs = Some st -> N.of_nat (length hs) <= start_index ->
    exists val, Inv st val /\
      st_index st = start_index - N.of_nat (length hs) /\
      (forall i h, nth_error hs i = Some h -> val (start_index - N.of_nat i) = h).
  Proof.
    intros A L.
    destruct (add_all_inv hs new_store (fun _ => d) st
                (Inv_new _) L A) as (val & I & X & _ & NT).
    exists val. split; [assumption|]. split; assumption.
  Qed.

  Lemma store_exact hs (st : store) :
    add_all new_store hs = Some st -> N.of_nat (length hs) <= start_index ->
    forall i h, nth_error hs i = Some h -> lookup st (N.of_nat i) = Some h.
  Proof.
    intros A L i h E.
    destruct (reach_inv h hs st A L) as (val & I & X & NT).
    assert (Li : (i < length hs)%nat) by (apply nth_error_Some; congruence).
    rewrite (lookup_inv st val (N.of_nat i) I) by lia.
    f_equal. apply NT. assumption.
  Qed.

  (* nothing is derivable for an index the store has not reached yet *)
  Lemma lookup_from_none st val to :
    Inv st val -> to <= st_index st ->
    forall n i, lookup_from n i st to = None.
  Proof.
    intros I L. induction n as [|n IH]; intros i; [reflexivity|].
    cbn [Model.lookup_from].
    destruct (bucket_get (buckets st) i) as [e0|] eqn:G0; [|apply IH].
    destruct (inv_bucket _ _ I i e0 G0) as (_ & _ & C & D & _).
    pose proof (inv_idx _ _ I) as LI.
    unfold Model.derive.
    destruct (derive_bits (el_index e0) to) as [ps|] eqn:DB; [exfalso|apply IH].
    apply derive_bits_some in DB; [|change (2 ^ 64) with (2 ^ 48 * 2 ^ 16); lia].
    destruct DB as [[E _]|[E _]]; [lia|].
    assert (M : 2 ^ count_trailing_zeros (el_index e0) *
                (to / 2 ^ count_trailing_zeros (el_index e0)) <= to)
      by (apply N.mul_div_le, N.pow_nonzero; discriminate).
    lia.
  Qed.

  Lemma lookup_unreceived hs (st : store) :
    add_all new_store hs = Some st -> N.of_nat (length hs) <= start_index ->
    forall v, N.of_nat (length hs) <= v -> v <= start_index -> lookup st v = None.
  Proof.
    intros A L v L1 L2. unfold Model.lookup. rewrite new_index_small by assumption.
    destruct hs as [|d r].
    - cbn [Model.add_all] in A. injection A as <-. reflexivity.
    - destruct (reach_inv d _ st A L) as (val & I & X & _).
      apply (lookup_from_none st val _ I). rewrite X. lia.
  Qed.

  Lemma add_all_app : forall a b (st : store),
    add_all st (a ++ b) =
    match add_all st a with Some s => add_all s b | None => None end.
  Proof.
    induction a as [|h r IH]; intros b st; [reflexivity|].
    cbn [app Model.add_all]. destruct (add_next st h); [apply IH|reflexivity].
  Qed.

  (* an accepted store never later returns a different value for an old index *)
  Lemma store_stable hs more (st st' : store) :
    add_all new_store hs = Some st -> add_all st more = Some st' ->
    N.of_nat (length hs + length more) <= start_index ->
    forall i h, nth_error hs i = Some h -> lookup st' (N.of_nat i) = Some h.
  Proof.
    intros A1 A2 L i h E.
    apply (store_exact (hs ++ more)).
    - rewrite add_all_app, A1. assumption.
    - rewrite app_length. assumption.
    - rewrite nth_error_app1; [assumption|]. apply nth_error_Some. congruence.
  Qed.

  Lemma bounded hs (st : store) :
    add_all new_store hs = Some st -> N.of_nat (length hs) <= start_index ->
    len_buckets st <= 48.
  Proof.
    intros A L. destruct hs as [|h r].
    - injection A as <-. cbn. lia.
    - destruct (reach_inv h _ st A L) as (val & I & _). apply (inv_len _ _ I).
  Qed.

  (* acceptance criterion, purely in terms of the history *)
  Lemma accept_iff hs (st : store) h :
    add_all new_store hs = Some st ->
    N.of_nat (length hs) < start_index ->
    let k := N.of_nat (length hs) in
    (add_next st h <> None <->
     forall b, b < count_trailing_zeros (start_index - k) ->
               2 ^ b <= k /\
               nth_error hs (N.to_nat (k - 2 ^ b)) = Some (H (flip b h))).
  Proof.
    intros A L k.
    destruct (reach_inv h hs st A ltac:(lia)) as (val & I & X & NT).
    fold k in X.
    assert (P : 0 < st_index st) by lia.
    rewrite (add_next_accept_iff st val I P h).
    unfold accept_cond. rewrite X.
    assert (CH : forall b, b < count_trailing_zeros (start_index - k) ->
                 2 ^ b <= k /\ (N.to_nat (k - 2 ^ b) < length hs)%nat /\
                 start_index - k + 2 ^ b = start_index - N.of_nat (N.to_nat (k - 2 ^ b))).
    { intros b Lb. pose proof (child_range st val I P b) as CR.
      rewrite X in CR. destruct (CR Lb) as (_ & R & _).
      pose proof (pow2_pos b). unfold start_index in *. rewrite two48 in R.
      rewrite N2Nat.id. unfold k in *. lia. }
    split.
    - intros AC b Lb. destruct (CH b Lb) as (C1 & C2 & C3). split; [assumption|].
      destruct (nth_error hs (N.to_nat (k - 2 ^ b))) as [h'|] eqn:E;
        [|apply nth_error_None in E; lia].
      rewrite (AC b Lb), C3. f_equal. symmetry. apply NT. assumption.
    - intros AC b Lb. destruct (CH b Lb) as (C1 & C2 & C3).
      destruct (AC b Lb) as [_ E]. rewrite C3. symmetry. apply NT. assumption.
  Qed.

  Lemma bounded_search (P : N -> Prop) (dec : forall b, {P b} + {~ P b}) :
    forall n, (forall b, b < N.of_nat n -> P b) \/
              (exists b, b < N.of_nat n /\ ~ P b).
  Proof.
    induction n as [|n [IH|(b & Lb & NP)]].
    - left. intros b Lb. lia.
    - destruct (dec (N.of_nat n)) as [Y|NP].
      + left. intros b Lb. rewrite Nat2N.inj_succ in Lb.
        destruct (N.eq_dec b (N.of_nat n)) as [->|NE]; [assumption|apply IH; lia].
      + right. exists (N.of_nat n). split; [lia|assumption].
    - right. exists b. split; [lia|assumption].
  Qed.

  Lemma opt_hash_dec (a b : option hash) : {a = b} + {a <> b}.
  Proof.
    destruct a as [x|], b as [y|]; try (right; discriminate); [|left; reflexivity].
    destruct (hash_eqb x y) eqn:E.
    - left. f_equal. apply hash_eqb_eq. assumption.
    - right. intros [= ->]. assert (hash_eqb y y = true) by (apply hash_eqb_eq; reflexivity).
      congruence.
  Qed.

  Lemma reject_iff hs (st : store) h :
    add_all new_store hs = Some st ->
    N.of_nat (length hs) < start_index ->
    let k := N.of_nat (length hs) in
    (add_next st h = None <->
     exists b, b < count_trailing_zeros (start_index - k) /\
               nth_error hs (N.to_nat (k - 2 ^ b)) <> Some (H (flip b h))).
  Proof.
    intros A L k. pose proof (accept_iff hs st h A L) as AI. cbv zeta in AI. fold k in AI.
    set (z := count_trailing_zeros (start_index - k)) in *.
    split.
    - intros E.
      destruct (bounded_search
                  (fun b => nth_error hs (N.to_nat (k - 2 ^ b)) = Some (H (flip b h)))
                  (fun b => opt_hash_dec _ _) (N.to_nat z)) as [ALL|(b & Lb & NP)].
      + exfalso. rewrite N2Nat.id in ALL.
        assert (NN : add_next st h <> None).
        { apply AI. intros b Lb. split; [|apply ALL; assumption].
          destruct (reach_inv h hs st A ltac:(lia)) as (val & I & X & _).
          pose proof (child_range st val I ltac:(lia) b) as CR.
          rewrite X in CR. fold k in CR. destruct (CR Lb) as (_ & R & _).
          unfold start_index in *. rewrite two48 in R. lia. }
        congruence.
      + exists b. rewrite N2Nat.id in Lb. split; assumption.
    - intros (b & Lb & NP). destruct (add_next st h) eqn:E; [|reflexivity].
      exfalso. apply NP. apply AI; [congruence|assumption].
  Qed.

  Lemma producer_accepted root hs :
    N.of_nat (length hs) <= start_index ->
    (forall i, (i < length hs)%nat -> nth_error hs i = at_index root (N.of_nat i)) ->
    exists st : store, add_all new_store hs = Some st /\
      forall i, (i < length hs)%nat -> lookup st (N.of_nat i) = at_index root (N.of_nat i).
  Proof.
    intros L PR.
    destruct (add_all_accepts hs new_store (pval root)
                (Inv_new _) L (pval_edges root)) as (st & A & I).
    - intros i h E.
      assert (Li : (i < length hs)%nat) by (apply nth_error_Some; congruence).
      rewrite (PR i Li), at_index_pval in E by lia. injection E as <-. reflexivity.
    - exists st. split; [assumption|]. intros i Li.
      destruct (nth_error hs i) as [h|] eqn:E; [|apply nth_error_None in E; lia].
      rewrite (store_exact hs st A L i h E), <- (PR i Li). symmetry. exact E.
  Qed.

  (* the gap: a secret whose index has no trailing zeros (every second insert,
     starting with the very first) has nothing to be checked against *)
  Lemma leaf_unchecked hs (st : store) :
    add_all new_store hs = Some st ->
    N.of_nat (length hs) < start_index ->
    count_trailing_zeros (start_index - N.of_nat (length hs)) = 0 ->
    forall h, add_next st h <> None.
  Proof.
    intros A L Z h. apply (accept_iff hs st h A L). rewrite Z. intros b Lb. lia.
  Qed.

  (* ---- stores that agree on every observable ---- *)
  Definition store_eq (a b : store) : Prop :=
    len_buckets a = len_buckets b /\ st_index a = st_index b /\
    forall i, bucket_get (buckets a) i = bucket_get (buckets b) i.

  Lemma Inv_eq st st' val : store_eq st st' -> Inv st val -> Inv st' val.
  Proof.
    intros (E1 & E2 & E3) I. destruct I as [I1 I2 I3 I4 I5 I6 I7].
    constructor; rewrite <- ?E1, <- ?E2; try assumption.
    - intros b e. rewrite <- E3. apply I3.
    - intros x. rewrite <- E3. apply I4.
    - intros b. rewrite <- E3. apply I5.
    - intros to L1 L2. destruct (I6 to L1 L2) as (b & e & G & R).
      exists b, e. rewrite <- E3. split; assumption.
  Qed.
End WithHash.

(* ------------------------------------------------------------------ *)
(* Part F: the byte-level instance and the codec                        *)
From Coq Require Import PeanoNat.
From LV Require Import Common.Sha256 Shachain.Exec.

Lemma bytes_eqb_eq a b : bytes_eqb a b = true <-> a = b.
Proof.
  revert b. induction a as [|x a IH]; intros [|y b]; cbn [bytes_eqb];
    split; try discriminate; try reflexivity.
  - intros E. apply andb_true_iff in E. destruct E as [E1 E2].
    apply N.eqb_eq in E1. apply IH in E2. congruence.
  - intros [= -> ->]. rewrite N.eqb_refl. cbn [andb]. apply IH. reflexivity.
Qed.

Lemma be_bytes_S n x :
  be_bytes (S n) x = N.land (N.shiftr x (8 * N.of_nat n)) 255 :: be_bytes n x.
Proof. unfold be_bytes. rewrite seq_S, rev_unit. reflexivity. Qed.

Lemma be_bytes_length n x : length (be_bytes n x) = n.
Proof. unfold be_bytes. rewrite map_length, rev_length, seq_length. reflexivity. Qed.

Lemma of_be_be n : forall x acc,
  of_be (be_bytes n x) acc = acc * 256 ^ N.of_nat n + x mod 256 ^ N.of_nat n.
Proof.
  induction n as [|n IH]; intros x acc.
  - cbn. rewrite N.mod_1_r. lia.
  - rewrite be_bytes_S. cbn [of_be]. rewrite IH, Nat2N.inj_succ, N.pow_succ_r'.
    change 255 with (N.ones 8). rewrite N.land_ones, N.shiftr_div_pow2, N.pow_mul_r.
    change (2 ^ 8) with 256.
    rewrite (N.mul_comm 256 (256 ^ N.of_nat n)).
    rewrite (N.mod_mul_r x (256 ^ N.of_nat n) 256)
      by (try apply N.pow_nonzero; discriminate).
    ring.
Qed.

Lemma of_be_be8 x : x < 2 ^ 64 -> of_be (be 8 x) 0 = x.
Proof.
  intros L. unfold be. rewrite of_be_be. change (256 ^ N.of_nat 8) with (2 ^ 64).
  rewrite N.mod_small by assumption. lia.
Qed.

Lemma be1 x : x < 256 -> be 1 x = [x].
Proof.
  intros L. unfold be. rewrite be_bytes_S. cbn [N.of_nat be_bytes map rev seq].
  rewrite N.mul_0_r, N.shiftr_0_r. change 255 with (N.ones 8).
  rewrite N.land_ones. change (2 ^ 8) with 256. rewrite N.mod_small by assumption.
  reflexivity.
Qed.

Lemma firstn_app_len {A} (a b : list A) n : length a = n -> firstn n (a ++ b) = a.
Proof.
  intros <-. rewrite firstn_app, Nat.sub_diag, firstn_all. cbn [firstn].
  apply app_nil_r.
Qed.

Lemma skipn_app_len {A} (a b : list A) n : length a = n -> skipn n (a ++ b) = b.
Proof. intros <-. rewrite skipn_app, Nat.sub_diag, skipn_all. reflexivity. Qed.

Ltac bool_cases :=
  repeat match goal with
         | |- context [N.leb ?a ?b] => destruct (N.leb_spec a b)
         | |- context [N.ltb ?a ?b] => destruct (N.ltb_spec a b)
         end; cbn [andb]; try reflexivity; try lia.

Definition wf_el (e : element bytes) : Prop :=
  el_index e < 2 ^ 64 /\ length (el_hash e) = 32%nat.

Lemma dec_enc_buckets : forall n i bs rest acc,
  (forall b, i <= b < i + N.of_nat n ->
             exists e, bucket_get bs b = Some e /\ wf_el e) ->
  exists acc', dec_buckets n i (enc_buckets n i bs ++ rest) acc = Some (acc', rest) /\
    forall b, bucket_get acc' b =
              if (N.leb i b && N.ltb b (i + N.of_nat n))%bool
              then bucket_get bs b else bucket_get acc b.
Proof.
  induction n as [|n IH]; intros i bs rest acc WF.
  - exists acc. cbn [enc_buckets dec_buckets app N.of_nat]. split; [reflexivity|].
    intros b. destruct (N.leb_spec i b), (N.ltb_spec b (i + 0)); cbn [andb];
      try reflexivity; lia.
  - rewrite Nat2N.inj_succ in WF.
    destruct (WF i ltac:(lia)) as ([ei eh] & G & W1 & W2). cbn [el_index el_hash] in *.
    cbn [enc_buckets dec_buckets]. rewrite G. cbn [el_index el_hash].
    rewrite <- !app_assoc.
    assert (L8 : length (be 8 ei) = 8%nat) by apply be_bytes_length.
    destruct (Nat.ltb_spec
                (length (be 8 ei ++ eh ++ enc_buckets n (i + 1) bs ++ rest)) 40) as [X|_].
    { rewrite !app_length, L8, W2 in X. lia. }
    set (tl := enc_buckets n (i + 1) bs ++ rest).
    rewrite (firstn_app_len (be 8 ei) (eh ++ tl) 8 L8).
    rewrite (skipn_app_len (be 8 ei) (eh ++ tl) 8 L8).
    rewrite (firstn_app_len eh tl 32 W2), of_be_be8 by assumption.
    rewrite (app_assoc (be 8 ei) eh).
    rewrite (skipn_app_len (be 8 ei ++ eh) tl 40)
      by (rewrite app_length, L8, W2; reflexivity).
    unfold tl.
    destruct (IH (i + 1) bs rest ((i, mkEl ei eh) :: acc)) as (acc' & D & B).
    { intros b Lb. apply WF. lia. }
    exists acc'. split; [exact D|]. intros b. rewrite B, Nat2N.inj_succ. cbn [bucket_get].
    destruct (N.eqb_spec b i) as [->|NE]; [rewrite G|]; bool_cases.
Qed.

Definition wf_store (st : bstore) : Prop :=
  len_buckets st <= 48 /\ st_index st < 2 ^ 64 /\
  forall b, b < len_buckets st ->
            exists e, bucket_get (buckets st) b = Some e /\ wf_el e.

Lemma encode_length st :
  wf_store st -> N.of_nat (length (encode st)) = 9 + 40 * len_buckets st.
Proof.
  intros (W1 & W2 & W3). unfold encode. rewrite !app_length.
  unfold be. rewrite !be_bytes_length.
  assert (EL : forall n i, (forall b, i <= b < i + N.of_nat n ->
                             exists e, bucket_get (buckets st) b = Some e /\ wf_el e) ->
               length (enc_buckets n i (buckets st)) = (40 * n)%nat).
  { induction n as [|n IH]; intros i WF; [reflexivity|].
    rewrite Nat2N.inj_succ in WF.
    destruct (WF i ltac:(lia)) as (e & G & _ & WL).
    cbn [enc_buckets]. rewrite G, !app_length. unfold be.
    rewrite be_bytes_length, WL, IH; [lia|]. intros b Lb. apply WF. lia. }
  rewrite EL; [lia|]. rewrite N2Nat.id. intros b Lb. apply W3. lia.
Qed.

Lemma decode_encode st :
  wf_store st ->
  exists st', decode (encode st) = Some st' /\
    len_buckets st' = len_buckets st /\ st_index st' = st_index st /\
    forall b, bucket_get (buckets st') b =
              if N.ltb b (len_buckets st) then bucket_get (buckets st) b else None.
Proof.
  intros (W1 & W2 & W3). unfold encode. rewrite be1 by lia.
  cbn [app decode].
  destruct (N.ltb_spec 48 (len_buckets st)) as [X|_]; [lia|].
  destruct (dec_enc_buckets (N.to_nat (len_buckets st)) 0 (buckets st)
              (be 8 (st_index st)) []) as (acc' & D & B).
  { rewrite N2Nat.id. intros b Lb. apply W3. lia. }
  rewrite D.
  assert (L8 : length (be 8 (st_index st)) = 8%nat) by apply be_bytes_length.
  destruct (Nat.ltb_spec (length (be 8 (st_index st))) 8) as [X|_]; [lia|].
  rewrite (firstn_all2 (be 8 (st_index st))) by lia.
  rewrite of_be_be8 by assumption.
  eexists. split; [reflexivity|]. cbn [len_buckets st_index buckets].
  split; [reflexivity|]. split; [reflexivity|].
  intros b. rewrite B, N2Nat.id. cbn [bucket_get].
  destruct (N.leb_spec 0 b), (N.ltb_spec b (0 + len_buckets st)),
    (N.ltb_spec b (len_buckets st)); cbn [andb]; try reflexivity; lia.
Qed.

(* ---- operation sequences with reloads through the codec ---- *)
Inductive sop := SAdd (h : bytes) | SReload.

Definition reload (st : bstore) : option bstore := decode (encode st).

Fixpoint run_ops (st : bstore) (ops : list sop) : option bstore :=
  match ops with
  | [] => Some st
  | SAdd h :: r =>
    match b_add st h with Some st' => run_ops st' r | None => None end
  | SReload :: r =>
    match reload st with Some st' => run_ops st' r | None => None end
  end.

Fixpoint adds_of (ops : list sop) : list bytes :=
  match ops with
  | [] => []
  | SAdd h :: r => h :: adds_of r
  | SReload :: r => adds_of r
  end.

Notation BInv := (Inv bytes sha256 flip_bytes).
Notation bstore_eq := (store_eq bytes).

Definition len32 (lo : N) (val : N -> bytes) : Prop :=
  forall x, lo < x -> x < 2 ^ 48 -> length (val x) = 32%nat.

Lemma Inv_wf st val : BInv st val -> len32 (st_index st) val -> wf_store st.
Proof.
  intros I L. split; [apply (inv_len _ _ _ _ _ I)|]. split.
  - pose proof (inv_idx _ _ _ _ _ I). change (2 ^ 64) with (2 ^ 48 * 2 ^ 16). lia.
  - intros b Lb. pose proof (inv_dense _ _ _ _ _ I b Lb) as D.
    destruct (bucket_get (buckets st) b) as [e|] eqn:G; [|contradiction].
    exists e. split; [reflexivity|].
    destruct (inv_bucket _ _ _ _ _ I b e G) as (_ & _ & C & D' & _ & F).
    split; [change (2 ^ 64) with (2 ^ 48 * 2 ^ 16); lia|].
    rewrite F. apply L; assumption.
Qed.

Lemma reload_eq st val :
  BInv st val -> len32 (st_index st) val ->
  exists st', reload st = Some st' /\ bstore_eq st st'.
Proof.
  intros I L. destruct (decode_encode st (Inv_wf st val I L)) as (st' & D & E1 & E2 & E3).
  exists st'. split; [exact D|]. split; [congruence|]. split; [congruence|].
  intros b. rewrite E3. destruct (N.ltb_spec b (len_buckets st)) as [Lb|Lb]; [reflexivity|].
  destruct (bucket_get (buckets st) b) as [e|] eqn:G; [|reflexivity].
  destruct (inv_bucket _ _ _ _ _ I b e G) as (A & _). lia.
Qed.

Lemma run_ops_inv : forall ops st val st',
  BInv st val -> len32 (st_index st) val ->
  Forall (fun h => length h = 32%nat) (adds_of ops) ->
  N.of_nat (length (adds_of ops)) <= st_index st ->
  run_ops st ops = Some st' ->
  exists val', BInv st' val' /\ len32 (st_index st') val' /\
    st_index st' = st_index st - N.of_nat (length (adds_of ops)) /\
    (forall x, st_index st < x -> val' x = val x) /\
    (forall i h, nth_error (adds_of ops) i = Some h ->
                 val' (st_index st - N.of_nat i) = h).
Proof.
  induction ops as [|[h|] r IH]; intros st val st' I L32 F L A.
  - cbn [run_ops] in A. injection A as <-. exists val. cbn [adds_of length N.of_nat].
    split; [assumption|]. split; [assumption|]. split; [lia|]. split; [reflexivity|].
    intros [|i] h0; discriminate.
  - cbn [run_ops adds_of length] in *. rewrite Nat2N.inj_succ in L.
    inversion F as [|? ? F1 F2]; subst.
    destruct (b_add st h) as [st1|] eqn:A1; [|discriminate].
    destruct (add_next_step bytes sha256 flip_bytes bytes_eqb bytes_eqb_eq
                st val h st1 I ltac:(lia) A1) as (I1 & X1 & _).
    assert (L1 : len32 (st_index st1) (upd bytes val (st_index st) h)).
    { intros x Lx1 Lx2. unfold upd. destruct (N.eqb_spec x (st_index st)); [assumption|].
      apply L32; [lia|assumption]. }
    destruct (IH st1 _ st' I1 L1 F2 ltac:(lia) A) as (val' & I' & L' & X' & AG & NT).
    exists val'. split; [assumption|]. split; [assumption|]. split; [|split].
    + rewrite Nat2N.inj_succ. lia.
    + intros x Lx. rewrite AG by lia. unfold upd.
      destruct (N.eqb_spec x (st_index st)); [lia|reflexivity].
    + intros [|i] h0 E; cbn [nth_error] in E.
      * injection E as <-. cbn [N.of_nat]. rewrite N.sub_0_r, AG by lia.
        unfold upd. rewrite N.eqb_refl. reflexivity.
      * rewrite Nat2N.inj_succ.
        replace (st_index st - N.succ (N.of_nat i))
          with (st_index st1 - N.of_nat i) by lia.
        apply NT. assumption.
  - cbn [run_ops adds_of] in *.
    destruct (reload_eq st val I L32) as (st1 & R & EQ). rewrite R in A.
    pose proof (Inv_eq _ _ _ _ _ _ EQ I) as I1.
    destruct EQ as (_ & EI & _).
    rewrite EI in *.
    apply (IH st1 val st' I1 L32 F L A).
Qed.

Lemma codec_roundtrip ops st :
  run_ops new_store ops = Some st ->
  Forall (fun h => length h = 32%nat) (adds_of ops) ->
  N.of_nat (length (adds_of ops)) <= start_index ->
  (exists st', decode (encode st) = Some st' /\ bstore_eq st st') /\
  (forall i h, nth_error (adds_of ops) i = Some h -> b_lookup st (N.of_nat i) = Some h) /\
  len_buckets st <= 48 /\
  N.of_nat (length (encode st)) = 9 + 40 * len_buckets st.
Proof.
  intros A F L.
  assert (L0 : len32 (st_index (@new_store bytes)) (fun _ => [])).
  { intros x L1 L2. cbn [new_store st_index] in L1. unfold start_index in L1.
    rewrite two48 in L2. lia. }
  destruct (run_ops_inv ops new_store (fun _ => []) st
              (Inv_new bytes sha256 flip_bytes bytes_eqb bytes_eqb_eq _) L0 F L A)
    as (val & I & L32 & X & _ & NT).
  cbn [new_store st_index] in X, NT.
  split; [apply (reload_eq st val I L32)|]. split; [|split].
  - intros i h E.
    assert (Li : (i < length (adds_of ops))%nat) by (apply nth_error_Some; congruence).
    unfold b_lookup.
    rewrite (lookup_inv bytes sha256 flip_bytes st val (N.of_nat i) I) by lia.
    f_equal. apply NT. assumption.
  - apply (inv_len _ _ _ _ _ I).
  - apply encode_length. apply (Inv_wf st val I L32).
Qed.
