(* Executable model of lnd's handling of REMOTE gossip (gossip v1):
     discovery/gossiper.go   ProcessRemoteAnnouncement, networkHandler (reject
                             cache), handleChanAnnouncement, handleChanUpdate,
                             handleNodeAnnouncement, validateFundingTransaction,
                             premature-update cache and its replay
     netann/*.go             ValidateChannelAnn, ValidateChannelUpdateAnn,
                             ValidateNodeAnn
     graph/builder.go        AddEdge, UpdateEdge, AddNode, IsStaleEdgePolicy,
                             assertNodeAnnFreshness, IsKnownEdge, IsPublicNode
     lnwallet/chanvalidate   Validate (script equality)
     graph/builder.go        networkHandler: connected / disconnected blocks,
                             Start (PruneGraphNodes)
     graph/db                PruneGraph, DisconnectBlockAtHeight,
                             DeleteChannelEdges (+ zombie marking,
                             makeZombiePubkeys), PruneGraphNodes
   Definitions only.  Signature verification, digests, the chain backend and
   the funding-script constructor are Section variables (oracles): theorems
   are implications over them; the correspondence run instantiates them with
   tables computed by real btcec verification over the real digests.

   Keys, signatures, digests, scripts and opaque blobs are abstract names (N);
   0 is the all-zero key.  Timestamps are uint32 seconds, [now] is the wall
   clock (seconds) of the step. *)
From Coq Require Import List NArith Bool.
Import ListNotations.
Local Open Scope N_scope.

(* ---- association lists keyed by N, kept sorted (canonical) ---- *)
Fixpoint alookup {A : Type} (k : N) (l : list (N * A)) : option A :=
  match l with
  | [] => None
  | (k', v) :: r => if N.eqb k k' then Some v else alookup k r
  end.

Fixpoint ainsert {A : Type} (k : N) (v : A) (l : list (N * A)) : list (N * A) :=
  match l with
  | [] => [(k, v)]
  | (k', v') :: r =>
    if N.eqb k k' then (k, v) :: r
    else if N.ltb k k' then (k, v) :: (k', v') :: r
    else (k', v') :: ainsert k v r
  end.

Fixpoint aremove {A : Type} (k : N) (l : list (N * A)) : list (N * A) :=
  match l with
  | [] => []
  | (k', v') :: r => if N.eqb k k' then aremove k r else (k', v') :: aremove k r
  end.

Fixpoint sinsert (k : N) (l : list N) : list N :=
  match l with
  | [] => [k]
  | k' :: r => if N.eqb k k' then l else if N.ltb k k' then k :: l else k' :: sinsert k r
  end.

Definition smem (k : N) (l : list N) : bool := existsb (N.eqb k) l.

(* ---- graph ---- *)
Record policy := mkPol {
  p_ts : N; p_mf : N; p_cf : N; p_tld : N; p_min : N; p_max : N;
  p_base : N; p_rate : N; p_extra : N; p_sig : N }.

Record edge := mkEdge {
  e_n1 : N; e_n2 : N; e_b1 : N; e_b2 : N;
  e_cap : N;                      (* satoshi; 0 = unknown (AssumeChannelValid) *)
  e_proof : bool;
  e_p1 : option policy; e_p2 : option policy }.

Record node := mkNode { nd_ts : N; nd_sig : N }.   (* shell node = (0, 0) *)
Definition shell : node := mkNode 0 0.

(* ---- messages ---- *)
Record chan_ann := mkCA {
  ca_chain : N; ca_scid : N;
  ca_n1 : N; ca_n2 : N; ca_b1 : N; ca_b2 : N;
  ca_ns1 : N; ca_ns2 : N; ca_bs1 : N; ca_bs2 : N;
  ca_dg : N;                      (* digest of every field except the signatures *)
  ca_tap : bool }.                (* simple-taproot feature bit present *)

Record chan_upd := mkCU {
  cu_chain : N; cu_scid : N; cu_ts : N; cu_mf : N; cu_cf : N; cu_tld : N;
  cu_min : N; cu_max : N; cu_base : N; cu_rate : N; cu_extra : N;
  cu_sig : N; cu_dg : N }.

Record node_ann := mkNA {
  na_node : N; na_ts : N; na_sig : N; na_dg : N;
  na_fields_ok : bool }.          (* netann.ValidateNodeAnnFields (DNS address rules) *)

Inductive msg := MCA (a : chan_ann) | MCU (u : chan_upd) | MNA (n : node_ann).

(* ---- chain backend answers ---- *)
Inductive utxo_st := UUnspent | USpent | UErr.
Inductive funding :=
| FNotFound                      (* block / tx index not found: "not found" / "out of range" *)
| FRpcErr                        (* any other backend failure *)
| FTx (script : option N) (value : N) (u : utxo_st).
                                 (* script = None: output index beyond the tx outputs *)

(* ---- verdicts ---- *)
Inductive errc :=
| EOwn | ERejected | EChain | EAlias | EClosed | ECaInvalid
| ENoFund | EBadOut | ESpent | EOther
| EZeroTs | ESkew | EZombieKey | EZombieSig | ECuInvalid | ENaInvalid
| EOutdated | EIgnored.

Inductive verdict := VOk | VErr (c : errc) | VPending.

Record config := mkCfg {
  c_own : N;             (* our node key *)
  c_chain : N;           (* genesis hash of our chain *)
  c_best : N;            (* best known block height *)
  c_assume_valid : bool; (* cfg.AssumeChannelValid *)
  c_rebroadcast : N;     (* RebroadcastInterval, seconds *)
  c_prune : N;           (* graph.DefaultChannelPruneExpiry, seconds *)
  c_burst : N }.         (* MaxChannelUpdateBurst *)

Record pending := mkPend { pd_id : N; pd_peer : N; pd_upd : chan_upd }.

Record state := mkSt {
  s_edges : list (N * edge);
  s_nodes : list (N * node);
  s_zombies : list (N * (N * N));
  s_closed : list N;
  s_rejects : list (N * N);              (* recentRejects: (scid, peer) *)
  s_premature : list (N * list pending); (* prematureChannelUpdates *)
  s_tokens : list (N * N);               (* chanUpdateRateLimiter: 2*scid+dir -> tokens left *)
  s_bans : list (N * N) }.               (* ban score per peer *)

Definition init (own : N) : state :=
  mkSt [] [(own, shell)] [] [] [] [] [] [].

(* a node is an endpoint of a stored channel.  The edge index is a map: every
   key is looked up (for the canonical, duplicate-free tables of this model
   this is the same as scanning the bindings). *)
Definition has_chan (es : list (N * edge)) (n : N) : bool :=
  existsb (fun x => match alookup (fst x) es with
                    | Some e => N.eqb (e_n1 e) n || N.eqb (e_n2 e) n
                    | None => false
                    end) es.

(* graph/db pruneGraphNodes: every node without a channel is deleted, except
   the source node *)
Definition sweep_nodes (own : N) (st : state) : state :=
  mkSt (s_edges st)
       (filter (fun x => N.eqb (fst x) own || has_chan (s_edges st) (fst x)) (s_nodes st))
       (s_zombies st) (s_closed st) (s_rejects st) (s_premature st) (s_tokens st) (s_bans st).

(* lnd restarts: everything the gossiper keeps in memory (reject cache,
   premature updates, rate limiters, ban scores) is gone; the graph, the zombie
   index and the closed-scid index are persisted.  graph.Builder.Start sweeps
   the unconnected nodes (PruneGraphNodes).  The graph store's lookup caches
   are an implementation detail with no counterpart here. *)
Definition restart (own : N) (st : state) : state :=
  sweep_nodes own (mkSt (s_edges st) (s_nodes st) (s_zombies st) (s_closed st) [] [] [] []).

Definition height_of (scid : N) : N := N.shiftr scid 40.
Definition dir_of (cf : N) : N := N.land cf 1.
Definition disabled (cf : N) : bool := negb (N.eqb (N.land cf 2) 0).
Definition has_max (mf : N) : bool := negb (N.eqb (N.land mf 1) 0).

Definition pol_of (u : chan_upd) : policy :=
  mkPol (cu_ts u) (cu_mf u) (cu_cf u) (cu_tld u) (cu_min u) (cu_max u)
        (cu_base u) (cu_rate u) (cu_extra u) (cu_sig u).

Definition pol_dir (e : edge) (d : N) : option policy :=
  if N.eqb d 0 then e_p1 e else e_p2 e.
Definition key_dir (e : edge) (d : N) : N :=
  if N.eqb d 0 then e_n1 e else e_n2 e.
Definition set_pol (e : edge) (d : N) (p : policy) : edge :=
  if N.eqb d 0
  then mkEdge (e_n1 e) (e_n2 e) (e_b1 e) (e_b2 e) (e_cap e) (e_proof e) (Some p) (e_p2 e)
  else mkEdge (e_n1 e) (e_n2 e) (e_b1 e) (e_b2 e) (e_cap e) (e_proof e) (e_p1 e) (Some p).

(* small state updaters *)
Definition rejected (st : state) (scid peer : N) : bool :=
  existsb (fun x => N.eqb (fst x) scid && N.eqb (snd x) peer) (s_rejects st).

Definition add_reject (st : state) (scid peer : N) : state :=
  mkSt (s_edges st) (s_nodes st) (s_zombies st) (s_closed st)
       (if rejected st scid peer then s_rejects st else (scid, peer) :: s_rejects st)
       (s_premature st) (s_tokens st) (s_bans st).

Definition add_zombie (st : state) (scid : N) : state :=
  mkSt (s_edges st) (s_nodes st) (ainsert scid (0, 0) (s_zombies st)) (s_closed st)
       (s_rejects st) (s_premature st) (s_tokens st) (s_bans st).

Definition set_zombie (st : state) (scid : N) (keys : N * N) : state :=
  mkSt (s_edges st) (s_nodes st) (ainsert scid keys (s_zombies st)) (s_closed st)
       (s_rejects st) (s_premature st) (s_tokens st) (s_bans st).

Definition del_zombie (st : state) (scid : N) : state :=
  mkSt (s_edges st) (s_nodes st) (aremove scid (s_zombies st)) (s_closed st)
       (s_rejects st) (s_premature st) (s_tokens st) (s_bans st).

Definition add_closed (st : state) (scid : N) : state :=
  mkSt (s_edges st) (s_nodes st) (s_zombies st) (sinsert scid (s_closed st))
       (s_rejects st) (s_premature st) (s_tokens st) (s_bans st).

Definition ban (st : state) (peer : N) : state :=
  mkSt (s_edges st) (s_nodes st) (s_zombies st) (s_closed st) (s_rejects st)
       (s_premature st) (s_tokens st)
       (ainsert peer (match alookup peer (s_bans st) with Some n => n + 1 | None => 1 end)
                (s_bans st)).

Definition set_edges (st : state) (es : list (N * edge)) : state :=
  mkSt es (s_nodes st) (s_zombies st) (s_closed st) (s_rejects st)
       (s_premature st) (s_tokens st) (s_bans st).

Definition set_nodes (st : state) (ns : list (N * node)) : state :=
  mkSt (s_edges st) ns (s_zombies st) (s_closed st) (s_rejects st)
       (s_premature st) (s_tokens st) (s_bans st).

Definition set_premature (st : state) (pm : list (N * list pending)) : state :=
  mkSt (s_edges st) (s_nodes st) (s_zombies st) (s_closed st) (s_rejects st)
       pm (s_tokens st) (s_bans st).

Definition set_tokens (st : state) (tk : list (N * N)) : state :=
  mkSt (s_edges st) (s_nodes st) (s_zombies st) (s_closed st) (s_rejects st)
       (s_premature st) tk (s_bans st).

Definition add_premature (st : state) (scid : N) (p : pending) : state :=
  set_premature st
    (ainsert scid (match alookup scid (s_premature st) with
                   | Some l => l ++ [p] | None => [p] end) (s_premature st)).

Definition ensure_node (k : N) (ns : list (N * node)) : list (N * node) :=
  match alookup k ns with Some _ => ns | None => ainsert k shell ns end.

(* graph/db isPublic: some channel of the node does not involve the source
   node, or carries a proof *)
Definition is_public (own : N) (st : state) (n : N) : bool :=
  existsb (fun x => let e := snd x in
             (N.eqb (e_n1 e) n || N.eqb (e_n2 e) n) &&
             ((negb (N.eqb (e_n1 e) own) && negb (N.eqb (e_n2 e) own)) || e_proof e))
          (s_edges st).

(* ---- graph maintenance by the Builder and the graph store (no gossip
        message involved) ---- *)
Definition drop_edges (f : N -> bool) (st : state) : state :=
  mkSt (filter (fun x => negb (f (fst x))) (s_edges st)) (s_nodes st) (s_zombies st)
       (s_closed st) (s_rejects st) (s_premature st) (s_tokens st) (s_bans st).

(* graph/db makeZombiePubkeys, AS DOCUMENTED there (strict zombie pruning):
   only the side whose policy is missing or older may resurrect the channel;
   with no policy at all either side may.  t1, t2: last-update timestamps of
   the two policies. *)
Definition make_zombie_keys (n1 n2 : N) (t1 t2 : option N) : N * N :=
  match t1, t2 with
  | None, None => (n1, n2)
  | None, Some _ => (n1, 0)
  | Some a, Some b => if N.ltb a b then (n1, 0) else (0, n2)
  | Some _, None => (0, n2)
  end.

Inductive gop :=
| OConnect (spent : list N)      (* a block is connected; it spends the funding outputs of these scids *)
| ODisconnect (lo hi : N)        (* DisconnectBlockAtHeight: every channel with lo <= scid < hi goes *)
| ODelete (scid : N) (zombie strict : bool)   (* DeleteChannelEdges(strictZombiePruning, markZombie, scid) *)
| OSweep.                        (* PruneGraphNodes *)

(* sweep_always: KVStore.PruneGraph sweeps the unconnected nodes after EVERY
   connected block; SQLStore.PruneGraph only when the block closed a known
   channel. *)
Definition op_closes (st : state) (spent : list N) : bool :=
  existsb (fun x => smem (fst x) spent) (s_edges st).

Definition op_sweeps (sweep_always : bool) (st : state) (o : gop) : bool :=
  match o with
  | OConnect spent => sweep_always || op_closes st spent
  | OSweep => true
  | _ => false
  end.

Definition apply_op (sweep_always : bool) (own : N) (st : state) (o : gop) : state :=
  match o with
  | OConnect spent =>
    let st1 := drop_edges (fun k => smem k spent) st in
    if sweep_always || op_closes st spent then sweep_nodes own st1 else st1
  | ODisconnect lo hi => drop_edges (fun k => N.leb lo k && N.ltb k hi) st
  | ODelete scid z strict =>
    match alookup scid (s_edges st) with
    | None => st                                   (* ErrEdgeNotFound: nothing is written *)
    | Some e =>
      let st1 := drop_edges (N.eqb scid) st in
      if z then
        set_zombie st1 scid
          (if strict
           then make_zombie_keys (e_n1 e) (e_n2 e)
                                 (option_map p_ts (e_p1 e)) (option_map p_ts (e_p2 e))
           else (e_n1 e, e_n2 e))
      else st1
    end
  | OSweep => sweep_nodes own st
  end.

(* removal of a channel that is NOT followed by a node sweep inside the store *)
Definition is_unswept_removal (o : gop) : bool :=
  match o with ODisconnect _ _ | ODelete _ _ _ => true | _ => false end.

Section Handlers.
  Variable cfg : config.
  Variable verify : N -> N -> N -> bool.            (* key digest sig: parses and verifies *)
  Variable fund : N -> funding.                     (* chain backend, by scid *)
  Variable expected_script : N -> N -> bool -> option N.
                                                    (* 2-of-2 funding pkScript of two bitcoin keys *)
  Variable is_alias : N -> bool.                    (* cfg.IsAlias *)

  (* netann.validateChannelAnn1: bitcoin sigs first, then node sigs *)
  Definition ca_sigs_ok (a : chan_ann) : bool :=
    verify (ca_b1 a) (ca_dg a) (ca_bs1 a) && verify (ca_b2 a) (ca_dg a) (ca_bs2 a) &&
    verify (ca_n1 a) (ca_dg a) (ca_ns1 a) && verify (ca_n2 a) (ca_dg a) (ca_ns2 a).

  (* builder.IsKnownEdge: live or zombie *)
  Definition known_edge (st : state) (scid : N) : bool :=
    match alookup scid (s_edges st), alookup scid (s_zombies st) with
    | None, None => false
    | _, _ => true
    end.

  Definition new_edge (a : chan_ann) (cap : N) : edge :=
    mkEdge (ca_n1 a) (ca_n2 a) (ca_b1 a) (ca_b2 a) cap true None None.

  (* builder.AddEdge -> AddChannelEdge: stores the edge, creates shell nodes *)
  Definition add_edge (st : state) (a : chan_ann) (cap : N) : state :=
    set_nodes (set_edges st (ainsert (ca_scid a) (new_edge a cap) (s_edges st)))
              (ensure_node (ca_n2 a) (ensure_node (ca_n1 a) (s_nodes st))).

  (* the not-yet-replayed premature updates of a channel; replaying marks them
     processed, modelled as removal *)
  Definition take_premature (st : state) (scid : N) : state * list pending :=
    match alookup scid (s_premature st) with
    | Some l => (set_premature st (aremove scid (s_premature st)), l)
    | None => (st, [])
    end.

  (* result: new state, verdict for the sender, relayed?, updates to replay *)
  Definition handle_chan_ann (peer : N) (st : state) (a : chan_ann)
    : state * verdict * bool * list pending :=
    let scid := ca_scid a in
    (* ProcessRemoteAnnouncement *)
    if N.eqb (ca_n1 a) (c_own cfg) || N.eqb (ca_n2 a) (c_own cfg)
    then (st, VErr EOwn, false, [])
    (* networkHandler: isRecentlyRejectedMsg *)
    else if rejected st scid peer then (st, VErr ERejected, false, [])
    else if negb (N.eqb (ca_chain a) (c_chain cfg))
    then (add_reject st scid peer, VErr EChain, false, [])
    else if is_alias scid then (add_reject st scid peer, VErr EAlias, false, [])
    (* isPremature: kept in futureMsgs, answered nil *)
    else if N.ltb (c_best cfg) (height_of scid) then (st, VOk, false, [])
    else if known_edge st scid then (st, VOk, false, [])
    else if smem scid (s_closed st) then (ban st peer, VErr EClosed, false, [])
    else if negb (ca_sigs_ok a)
    then (add_reject st scid peer, VErr ECaInvalid, false, [])
    else
      let accept cap :=
        let '(st1, rp) := take_premature (add_edge st a cap) scid in
        (st1, VOk, true, rp) in
      if c_assume_valid cfg then accept 0
      else
        (* validateFundingTransaction *)
        match fund scid with
        | FNotFound =>
          (ban (add_reject (add_zombie st scid) scid peer) peer, VErr ENoFund, false, [])
        | FRpcErr =>
          (ban (add_reject st scid peer) peer, VErr ENoFund, false, [])
        | FTx so value u =>
          match expected_script (ca_b1 a) (ca_b2 a) (ca_tap a) with
          | None => (add_reject st scid peer, VErr EOther, false, [])
          | Some es =>
            if match so with Some s => N.eqb s es | None => false end
            then
              match u with
              | UUnspent => accept value
              | USpent =>
                (ban (add_closed (add_reject (add_zombie st scid) scid peer) scid) peer,
                 VErr ESpent, false, [])
              | UErr =>
                (ban (add_closed (add_reject st scid peer) scid) peer,
                 VErr ESpent, false, [])
              end
            else (ban (add_reject (add_zombie st scid) scid peer) peer,
                  VErr EBadOut, false, [])
          end
        end.

  (* builder.IsStaleEdgePolicy *)
  Definition stale_policy (now : N) (st : state) (scid ts cf : N) : bool :=
    match alookup scid (s_edges st) with
    | Some e =>
      match pol_dir e (dir_of cf) with
      | Some p => negb (N.ltb (p_ts p) ts)
      | None => false
      end
    | None =>
      match alookup scid (s_zombies st) with
      | Some _ => N.ltb (ts + c_prune cfg) now     (* time.Since(ts) > ChannelPruneExpiry *)
      | None => false
      end
    end.

  (* netann.validateChannelUpdate1Fields *)
  Definition upd_fields_ok (cap : N) (u : chan_upd) : bool :=
    has_max (cu_mf u) &&
    negb (N.eqb (cu_max u) 0) && negb (N.ltb (cu_max u) (cu_min u)) &&
    (N.eqb (cap * 1000) 0 || N.leb (cu_max u) (cap * 1000)).

  (* discovery.IsKeepAliveUpdate (the timestamp is already known to be newer) *)
  Definition is_keepalive (u : chan_upd) (p : policy) : bool :=
    N.eqb (dir_of (cu_cf u)) (dir_of (p_cf p)) &&
    N.ltb (p_ts p) (cu_ts u) &&
    Bool.eqb (disabled (cu_cf u)) (disabled (p_cf p)) &&
    N.eqb (cu_base u) (p_base p) && N.eqb (cu_rate u) (p_rate p) &&
    N.eqb (cu_tld u) (p_tld p) && N.eqb (cu_min u) (p_min p) &&
    negb (has_max (cu_mf u) && negb (has_max (p_mf p))) &&
    N.eqb (cu_max u) (p_max p) && N.eqb (cu_extra u) (p_extra p).

  (* builder.updateEdge: re-checks existence and freshness, then stores *)
  Definition builder_update_edge (now : N) (st : state) (scid : N) (p : policy)
    : state + errc :=
    match alookup scid (s_edges st) with
    | None => inr EIgnored
    | Some e =>
      let d := dir_of (p_cf p) in
      match pol_dir e d with
      | Some old => if negb (N.ltb (p_ts old) (p_ts p)) then inr EOutdated
                    else inl (set_edges st (ainsert scid (set_pol e d p) (s_edges st)))
      | None => inl (set_edges st (ainsert scid (set_pol e d p) (s_edges st)))
      end
    end.

  Definition tok_key (scid d : N) : N := 2 * scid + d.

  Definition handle_chan_upd (now peer id : N) (st : state) (u : chan_upd)
    : state * verdict * bool :=
    let scid := cu_scid u in
    let d := dir_of (cu_cf u) in
    if rejected st scid peer then (st, VErr ERejected, false)
    else if negb (N.eqb (cu_chain u) (c_chain cfg))
    then (add_reject st scid peer, VErr EChain, false)
    else if negb (is_alias scid) && N.ltb (c_best cfg) (height_of scid)
    then (st, VOk, false)
    else if N.eqb (cu_ts u) 0 then (ban st peer, VErr EZeroTs, false)
    else if stale_policy now st scid (cu_ts u) (cu_cf u) then (st, VOk, false)
    else if N.ltb (now + c_prune cfg) (cu_ts u) then (ban st peer, VErr ESkew, false)
    else
      match alookup scid (s_edges st) with
      | None =>
        match alookup scid (s_zombies st) with
        | Some (k1, k2) =>
          (* processZombieUpdate *)
          let k := if N.eqb d 0 then k1 else k2 in
          if N.eqb k 0 then (st, VErr EZombieKey, false)
          else if verify k (cu_dg u) (cu_sig u)
          then (add_premature (del_zombie st scid) scid (mkPend id peer u), VPending, false)
          else (st, VErr EZombieSig, false)
        | None => (add_premature st scid (mkPend id peer u), VPending, false)
        end
      | Some e =>
        (* netann.ValidateChannelUpdateAnn: fields, then signature under the
           node key selected by the direction bit *)
        if negb (upd_fields_ok (e_cap e) u) then (st, VErr ECuInvalid, false)
        else if negb (verify (key_dir e d) (cu_dg u) (cu_sig u))
        then (st, VErr ECuInvalid, false)
        else
          let apply st0 :=
            match builder_update_edge now st0 scid (pol_of u) with
            | inl st' => (st', VOk, e_proof e && negb (is_alias scid))
            | inr c => (st0, VErr c, false)
            end in
          match pol_dir e d with
          | None => apply st
          | Some old =>
            if is_keepalive u old then
              if N.ltb (cu_ts u - p_ts old) (c_rebroadcast cfg) then (st, VOk, false)
              else apply st
            else
              let t := match alookup (tok_key scid d) (s_tokens st) with
                       | Some t => t | None => c_burst cfg end in
              if N.eqb t 0 then (st, VOk, false)
              else apply (set_tokens st (ainsert (tok_key scid d) (t - 1) (s_tokens st)))
          end
      end.

  (* graph.Builder.ApplyChannelUpdate: the SECOND entry point for channel
     updates (payloads of onion failure messages of payment attempts).  The
     channel is looked up (unknown or zombie: false), the update is validated
     against the key its direction bit selects and the capacity
     (netann.ValidateChannelUpdateAnn), then Builder.UpdateEdge; ErrIgnored /
     ErrOutdated still answer true.  No chain-hash, zero-timestamp, skew,
     reject-cache or rate-limit check on this path, nothing is relayed. *)
  Definition apply_chan_upd (now : N) (st : state) (u : chan_upd) : state * bool :=
    match alookup (cu_scid u) (s_edges st) with
    | None => (st, false)
    | Some e =>
      if negb (upd_fields_ok (e_cap e) u) then (st, false)
      else if negb (verify (key_dir e (dir_of (cu_cf u))) (cu_dg u) (cu_sig u)) then (st, false)
      else match builder_update_edge now st (cu_scid u) (pol_of u) with
           | inl st' => (st', true)
           | inr _ => (st, true)
           end
    end.

  (* builder.assertNodeAnnFreshness *)
  Definition node_fresh (st : state) (n ts : N) : bool :=
    match alookup n (s_nodes st) with
    | None => false
    | Some nd => N.ltb (nd_ts nd) ts
    end.

  Definition handle_node_ann (st : state) (a : node_ann) : state * verdict * bool :=
    if N.eqb (na_ts a) 0 then (st, VErr EZeroTs, false)
    else if negb (node_fresh st (na_node a) (na_ts a)) then (st, VOk, false)   (* IsStaleNode *)
    else if negb (na_fields_ok a) then (st, VErr ENaInvalid, false)
    else if negb (verify (na_node a) (na_dg a) (na_sig a)) then (st, VErr ENaInvalid, false)
    else
      (* builder.addNode re-asserts freshness before storing *)
      if negb (node_fresh st (na_node a) (na_ts a)) then (st, VErr EOutdated, false)
      else
        let st' := set_nodes st (ainsert (na_node a) (mkNode (na_ts a) (na_sig a)) (s_nodes st)) in
        (st', VOk, is_public (c_own cfg) st' (na_node a)).

  (* replay of the premature updates after their channel was added: each goes
     through the whole of handle_chan_upd again *)
  Fixpoint replay (now : N) (st : state) (ps : list pending)
    : state * list (N * verdict * bool) :=
    match ps with
    | [] => (st, [])
    | p :: r =>
      let '(st1, v, rl) := handle_chan_upd now (pd_peer p) (pd_id p) st (pd_upd p) in
      let '(st2, outs) := replay now st1 r in
      (st2, (pd_id p, v, rl) :: outs)
    end.

  (* one message from the network: outcomes are (message id, verdict, relayed) *)
  Definition step (now peer id : N) (st : state) (m : msg)
    : state * list (N * verdict * bool) :=
    match m with
    | MCA a =>
      let '(st1, v, rl, rp) := handle_chan_ann peer st a in
      let '(st2, outs) := replay now st1 rp in
      (st2, (id, v, rl) :: outs)
    | MCU u =>
      let '(st1, v, rl) := handle_chan_upd now peer id st u in
      (st1, [(id, v, rl)])
    | MNA a =>
      let '(st1, v, rl) := handle_node_ann st a in
      (st1, [(id, v, rl)])
    end.

  (* a history: (now, peer, message); ids are positions *)
  Fixpoint run (st : state) (i : N) (h : list (N * N * msg)) : state :=
    match h with
    | [] => st
    | (now, peer, m) :: r => run (fst (step now peer i st m)) (i + 1) r
    end.

  (* histories of gossip messages, graph maintenance events and restarts.  The
     boolean carried along ("dirty") says that a channel was removed by a path
     that does not sweep the nodes (re-org, explicit deletion) and no sweep
     (block connect that sweeps, PruneGraphNodes, restart) has happened since. *)
  Inductive event :=
  | EMsg (now peer : N) (m : msg)
  | EApply (now : N) (u : chan_upd)       (* Builder.ApplyChannelUpdate *)
  | EOp (o : gop)
  | ERestart.

  Definition ev_step (sweep_always : bool) (i : N) (sd : state * bool) (e : event)
    : state * bool :=
    let (st, dirty) := sd in
    match e with
    | EMsg now peer m => (fst (step now peer i st m), dirty)
    | EApply now u => (fst (apply_chan_upd now st u), dirty)
    | EOp o =>
      (apply_op sweep_always (c_own cfg) st o,
       if op_sweeps sweep_always st o then false else dirty || is_unswept_removal o)
    | ERestart => (restart (c_own cfg) st, false)
    end.

  Fixpoint run_events (sweep_always : bool) (sd : state * bool) (i : N) (h : list event)
    : state * bool :=
    match h with
    | [] => sd
    | e :: r => run_events sweep_always (ev_step sweep_always i sd e) (i + 1) r
    end.
End Handlers.

(* ---- concurrent updates of ONE policy slot (one channel direction).  Every
   update k with timestamp [ts k] performs a CHECK (Builder.updateEdge compares
   with the stored timestamp: strictly newer?) and, if it passed, a WRITE
   (Graph.UpdateEdgePolicy).  A schedule is an interleaving of these events.
   [cw_log] records (timestamp held by the store, timestamp written). ---- *)
Inductive cw := CwCheck (k : nat) | CwWrite (k : nat).

Record cwst := mkCw { cw_store : N; cw_passed : list nat; cw_log : list (N * N) }.

Definition cw_step (ts : nat -> N) (s : cwst) (e : cw) : cwst :=
  match e with
  | CwCheck k =>
    if N.ltb (cw_store s) (ts k) then mkCw (cw_store s) (k :: cw_passed s) (cw_log s) else s
  | CwWrite k =>
    if existsb (Nat.eqb k) (cw_passed s)
    then mkCw (ts k) (filter (fun j => negb (Nat.eqb k j)) (cw_passed s))
              (cw_log s ++ [(cw_store s, ts k)])
    else s
  end.

Definition cw_run (ts : nat -> N) (s : cwst) (l : list cw) : cwst := fold_left (cw_step ts) l s.

(* under the per-channel mutex check and write of one update are adjacent *)
Definition atomic_schedule (ks : list nat) : list cw :=
  flat_map (fun k => [CwCheck k; CwWrite k]) ks.
