(* Lemmas for C20: characterisation of each handler (either the graph is left
   untouched and nothing is relayed, or every validation fact holds and the
   graph is extended in exactly one place), lifted to replays and steps. *)
From Coq Require Import List NArith Bool Lia Arith.
From LV Require Import Gossip.Model.
Import ListNotations.
Local Open Scope N_scope.

(* ---- association lists ---- *)
Lemma alookup_ainsert_same {A} (k : N) (v : A) l : alookup k (ainsert k v l) = Some v.
Proof.
  induction l as [|[k' v'] r IH]; cbn [ainsert alookup].
  - now rewrite N.eqb_refl.
  - destruct (N.eqb k k') eqn:E.
    + cbn [alookup]. now rewrite N.eqb_refl.
    + destruct (N.ltb k k'); cbn [alookup].
      * now rewrite N.eqb_refl.
      * now rewrite E.
Qed.

Lemma alookup_ainsert_other {A} (k k2 : N) (v : A) l :
  k2 <> k -> alookup k2 (ainsert k v l) = alookup k2 l.
Proof.
  intros Hne. induction l as [|[k' v'] r IH]; cbn [ainsert alookup].
  - destruct (N.eqb k2 k) eqn:E; [apply N.eqb_eq in E; contradiction | reflexivity].
  - destruct (N.eqb k k') eqn:E.
    + apply N.eqb_eq in E. subst k'. cbn [alookup].
      destruct (N.eqb k2 k) eqn:E2; [apply N.eqb_eq in E2; contradiction | reflexivity].
    + destruct (N.ltb k k'); cbn [alookup].
      * destruct (N.eqb k2 k) eqn:E2; [apply N.eqb_eq in E2; contradiction | reflexivity].
      * destruct (N.eqb k2 k'); [reflexivity | apply IH].
Qed.

Lemma alookup_ainsert {A} (k k2 : N) (v : A) l :
  alookup k2 (ainsert k v l) = if N.eqb k2 k then Some v else alookup k2 l.
Proof.
  destruct (N.eqb k2 k) eqn:E.
  - apply N.eqb_eq in E. subst. apply alookup_ainsert_same.
  - apply alookup_ainsert_other. now apply N.eqb_neq.
Qed.

Lemma ainsert_neq_lookup {A} (k : N) (v : A) l :
  alookup k l <> Some v -> ainsert k v l <> l.
Proof.
  intros H E. apply H. rewrite <- E at 1. apply alookup_ainsert_same.
Qed.

Lemma ensure_node_lookup k k2 ns :
  alookup k2 (ensure_node k ns) =
  match alookup k2 ns with
  | Some x => Some x
  | None => if N.eqb k2 k then Some shell else None
  end.
Proof.
  unfold ensure_node. destruct (alookup k ns) eqn:E.
  - destruct (alookup k2 ns) eqn:E2; [reflexivity|].
    destruct (N.eqb k2 k) eqn:E3; [|reflexivity].
    apply N.eqb_eq in E3. subst. congruence.
  - rewrite alookup_ainsert. destruct (N.eqb k2 k) eqn:E3.
    + apply N.eqb_eq in E3. subst. now rewrite E.
    + now destruct (alookup k2 ns).
Qed.

(* ---- small facts ---- *)
Lemma dir_of_01 cf : dir_of cf = 0 \/ dir_of cf = 1.
Proof.
  unfold dir_of.
  assert (E : N.land cf 1 = cf mod 2).
  { change 1 with (N.ones 1). rewrite N.land_ones. reflexivity. }
  rewrite E. pose proof (N.mod_lt cf 2 ltac:(discriminate)) as H. lia.
Qed.

Lemma pol_dir_set_same e d p : pol_dir (set_pol e d p) d = Some p.
Proof. unfold pol_dir, set_pol. now destruct (N.eqb d 0). Qed.

Lemma pol_dir_set_other e d d2 p :
  (d = 0 \/ d = 1) -> (d2 = 0 \/ d2 = 1) -> d2 <> d ->
  pol_dir (set_pol e d p) d2 = pol_dir e d2.
Proof.
  intros [->| ->] [->| ->] Hne; try congruence; reflexivity.
Qed.

Definition same_static (e e' : edge) : Prop :=
  e_n1 e = e_n1 e' /\ e_n2 e = e_n2 e' /\ e_b1 e = e_b1 e' /\ e_b2 e = e_b2 e' /\
  e_cap e = e_cap e' /\ e_proof e = e_proof e'.

Lemma same_static_refl e : same_static e e.
Proof. repeat split. Qed.

Lemma same_static_trans a b c : same_static a b -> same_static b c -> same_static a c.
Proof. unfold same_static. intuition congruence. Qed.

Lemma same_static_set_pol e d p : same_static e (set_pol e d p).
Proof. unfold set_pol. destruct (N.eqb d 0); repeat split. Qed.

Lemma key_dir_static e e' d : same_static e e' -> key_dir e d = key_dir e' d.
Proof. intros (H1 & H2 & _). unfold key_dir. now destruct (N.eqb d 0). Qed.

Lemma policy_eq_dec (a b : policy) : {a = b} + {a <> b}.
Proof. decide equality; apply N.eq_dec. Qed.

Lemma option_eq_dec_pol (a b : option policy) : {a = b} + {a <> b}.
Proof. decide equality. apply policy_eq_dec. Qed.

Lemma option_node_eq_dec (a b : option node) : {a = b} + {a <> b}.
Proof. decide equality. decide equality; apply N.eq_dec. Qed.

(* a restart keeps channels, zombie index and closed index; the node table is
   swept (Builder.Start -> PruneGraphNodes): only nodes without a channel go *)
Lemma restart_graph_same own st :
  s_edges (restart own st) = s_edges st /\
  s_nodes (restart own st) =
    filter (fun x => N.eqb (fst x) own || has_chan (s_edges st) (fst x)) (s_nodes st) /\
  s_zombies (restart own st) = s_zombies st /\ s_closed (restart own st) = s_closed st.
Proof. repeat split. Qed.

Lemma alookup_filter_some {A} (p : N * A -> bool) k v l :
  alookup k (filter p l) = Some v -> p (k, v) = true.
Proof.
  induction l as [|[k' v'] r IH]; cbn [filter alookup]; [discriminate|].
  destruct (p (k', v')) eqn:Ep; cbn [alookup]; [|exact IH].
  destruct (N.eqb k k') eqn:E; [|exact IH].
  apply N.eqb_eq in E. subst. intros H. injection H as <-. exact Ep.
Qed.

Lemma alookup_drop {A} (f : N -> bool) k (l : list (N * A)) :
  alookup k (filter (fun x => negb (f (fst x))) l) = if f k then None else alookup k l.
Proof.
  induction l as [|[k' v'] r IH]; cbn [filter alookup fst].
  - now destruct (f k).
  - destruct (f k') eqn:Ef; cbn [negb alookup].
    + destruct (N.eqb k k') eqn:E; [|exact IH].
      apply N.eqb_eq in E. subst. now rewrite IH, Ef.
    + destruct (N.eqb k k') eqn:E; [|exact IH].
      apply N.eqb_eq in E. subst. now rewrite Ef.
Qed.

Lemma filter_no_match {A} (f : N -> bool) (l : list (N * A)) :
  existsb (fun x => f (fst x)) l = false -> filter (fun x => negb (f (fst x))) l = l.
Proof.
  induction l as [|x r IH]; cbn [existsb filter]; [reflexivity|].
  intros H. apply orb_false_iff in H. destruct H as [H1 H2]. rewrite H1. cbn [negb].
  now rewrite IH.
Qed.

Lemma alookup_aremove {A} (k k2 : N) (l : list (N * A)) :
  alookup k2 (aremove k l) = if N.eqb k2 k then None else alookup k2 l.
Proof.
  induction l as [|[k' v'] r IH]; cbn [aremove alookup].
  - now destruct (N.eqb k2 k).
  - destruct (N.eqb k k') eqn:E.
    + apply N.eqb_eq in E. subst k'. rewrite IH. now destruct (N.eqb k2 k).
    + cbn [alookup]. destruct (N.eqb k2 k') eqn:E2; [|exact IH].
      apply N.eqb_eq in E2. subst k'.
      destruct (N.eqb k2 k) eqn:E3; [|reflexivity].
      apply N.eqb_eq in E3. subst. now rewrite N.eqb_refl in E.
Qed.

Lemma has_chan_spec es n :
  has_chan es n = true ->
  exists scid e, alookup scid es = Some e /\ (e_n1 e = n \/ e_n2 e = n).
Proof.
  unfold has_chan. intros H. apply existsb_exists in H. destruct H as ([k e0] & _ & H).
  cbn [fst] in H. destruct (alookup k es) as [e|] eqn:E; [|discriminate].
  exists k, e. split; [assumption|].
  apply orb_true_iff in H. destruct H as [H|H]; apply N.eqb_eq in H; auto.
Qed.

(* DeleteChannelEdges with zombie marking: per direction the zombie index holds
   either no key or the key of the node that owns that direction in the deleted
   channel, and at least one direction keeps its owner; the channel is gone *)
Lemma delete_zombie_keys sa own st scid strict e :
  alookup scid (s_edges st) = Some e ->
  exists k1 k2,
    alookup scid (s_zombies (apply_op sa own st (ODelete scid true strict))) = Some (k1, k2) /\
    (k1 = 0 \/ k1 = e_n1 e) /\ (k2 = 0 \/ k2 = e_n2 e) /\ (k1 = e_n1 e \/ k2 = e_n2 e) /\
    alookup scid (s_edges (apply_op sa own st (ODelete scid true strict))) = None.
Proof.
  intros He. cbn [apply_op]. rewrite He. cbn [set_zombie drop_edges s_zombies s_edges].
  rewrite alookup_ainsert_same, alookup_drop, N.eqb_refl.
  destruct strict.
  - unfold make_zombie_keys.
    destruct (option_map p_ts (e_p1 e)) as [a|], (option_map p_ts (e_p2 e)) as [b|];
      try destruct (N.ltb a b); eexists _, _; repeat split; auto.
  - eexists _, _; repeat split; auto.
Qed.

Ltac break_match H :=
  repeat match type of H with
         | context [match ?x with _ => _ end] =>
           let E := fresh "E" in destruct x eqn:E
         end.

Section WithOracles.
  Variable cfg : config.
  Variable verify : N -> N -> N -> bool.
  Variable fund : N -> funding.
  Variable expected_script : N -> N -> bool -> option N.
  Variable is_alias : N -> bool.

  Notation handle_chan_ann := (handle_chan_ann cfg verify fund expected_script is_alias).
  Notation handle_chan_upd := (handle_chan_upd cfg verify is_alias).
  Notation handle_node_ann := (handle_node_ann cfg verify).
  Notation replay := (replay cfg verify is_alias).
  Notation step := (step cfg verify fund expected_script is_alias).

  (* the facts a channel update must satisfy to touch a policy *)
  Definition upd_valid (st : state) (e : edge) (u : chan_upd) : Prop :=
    cu_chain u = c_chain cfg /\ cu_ts u <> 0 /\
    upd_fields_ok (e_cap e) u = true /\
    verify (key_dir e (dir_of (cu_cf u))) (cu_dg u) (cu_sig u) = true /\
    match pol_dir e (dir_of (cu_cf u)) with
    | Some old => p_ts old < cu_ts u
    | None => True
    end.

  Definition graph_same (st st' : state) : Prop :=
    s_edges st' = s_edges st /\ s_nodes st' = s_nodes st.

  (* ---- channel update ---- *)
  Lemma upd_char now peer id st u st' v r :
    handle_chan_upd now peer id st u = (st', v, r) ->
    (graph_same st st' /\ r = false) \/
    (exists e, alookup (cu_scid u) (s_edges st) = Some e /\ upd_valid st e u /\
               s_edges st' = ainsert (cu_scid u) (set_pol e (dir_of (cu_cf u)) (pol_of u)) (s_edges st) /\
               s_nodes st' = s_nodes st /\ v = VOk).
  Proof.
    unfold Model.handle_chan_upd. intros H.
    destruct (rejected st (cu_scid u) peer); [inversion H; subst; left; repeat split|].
    destruct (negb (N.eqb (cu_chain u) (c_chain cfg))) eqn:Echain;
      [inversion H; subst; left; repeat split|].
    destruct (negb (is_alias (cu_scid u)) && N.ltb (c_best cfg) (height_of (cu_scid u)));
      [inversion H; subst; left; repeat split|].
    destruct (N.eqb (cu_ts u) 0) eqn:Ets; [inversion H; subst; left; repeat split|].
    destruct (stale_policy cfg now st (cu_scid u) (cu_ts u) (cu_cf u)) eqn:Estale;
      [inversion H; subst; left; repeat split|].
    destruct (N.ltb (now + c_prune cfg) (cu_ts u)); [inversion H; subst; left; repeat split|].
    destruct (alookup (cu_scid u) (s_edges st)) as [e|] eqn:Ee.
    2:{ left. break_match H; inversion H; subst; repeat split. }
    destruct (negb (upd_fields_ok (e_cap e) u)) eqn:Ef; [inversion H; subst; left; repeat split|].
    destruct (negb (verify (key_dir e (dir_of (cu_cf u))) (cu_dg u) (cu_sig u))) eqn:Ev;
      [inversion H; subst; left; repeat split|].
    apply negb_false_iff in Echain, Ef, Ev. apply N.eqb_eq in Echain. apply N.eqb_neq in Ets.
    assert (Hfresh : match pol_dir e (dir_of (cu_cf u)) with
                     | Some old => p_ts old < cu_ts u | None => True end).
    { unfold stale_policy in Estale. rewrite Ee in Estale.
      destruct (pol_dir e (dir_of (cu_cf u))); [|exact I].
      apply negb_false_iff in Estale. now apply N.ltb_lt in Estale. }
    assert (Hval : upd_valid st e u) by (repeat split; assumption).
    (* the three ways to reach [apply] *)
    assert (Happly : forall st0, s_edges st0 = s_edges st -> s_nodes st0 = s_nodes st ->
              (match builder_update_edge now st0 (cu_scid u) (pol_of u) with
               | inl st1 => (st1, VOk, e_proof e && negb (is_alias (cu_scid u)))
               | inr c => (st0, VErr c, false)
               end) = (st', v, r) ->
              (graph_same st st' /\ r = false) \/
              (exists e0, Some e = Some e0 /\ upd_valid st e0 u /\
                 s_edges st' = ainsert (cu_scid u) (set_pol e0 (dir_of (cu_cf u)) (pol_of u)) (s_edges st) /\
                 s_nodes st' = s_nodes st /\ v = VOk)).
    { intros st0 He0 Hn0 Hb. unfold builder_update_edge in Hb. rewrite He0, Ee in Hb.
      cbn [pol_of p_cf p_ts] in Hb.
      destruct (pol_dir e (dir_of (cu_cf u))) as [old|].
      - destruct (negb (N.ltb (p_ts old) (cu_ts u))) eqn:Eo.
        + inversion Hb; subst. left. repeat split; assumption.
        + inversion Hb; subst. right. exists e. cbn [s_edges s_nodes set_edges].
          repeat split; try assumption; apply Hval.
      - inversion Hb; subst. right. exists e. cbn [s_edges s_nodes set_edges].
        repeat split; try assumption; apply Hval. }
    destruct (pol_dir e (dir_of (cu_cf u))) as [old|] eqn:Eold.
    - destruct (is_keepalive u old).
      + destruct (N.ltb (cu_ts u - p_ts old) (c_rebroadcast cfg)).
        * inversion H; subst. left. repeat split.
        * apply (Happly st); [reflexivity | reflexivity | exact H].
      + match type of H with
        | context [N.eqb ?t 0] => destruct (N.eqb t 0)
        end.
        * inversion H; subst. left. repeat split.
        * eapply Happly; [| | exact H]; reflexivity.
    - apply (Happly st); [reflexivity | reflexivity | exact H].
  Qed.

  Lemma upd_err_unchanged now peer id st u st' c r :
    handle_chan_upd now peer id st u = (st', VErr c, r) -> graph_same st st' /\ r = false.
  Proof.
    intros H. destruct (upd_char _ _ _ _ _ _ _ _ H) as [?|(e & _ & _ & _ & _ & Hv)];
      [assumption | discriminate].
  Qed.

  (* relayed => accepted and the graph really changed *)
  Lemma upd_relay_changed now peer id st u st' v r :
    handle_chan_upd now peer id st u = (st', v, r) -> r = true ->
    v = VOk /\ s_edges st' <> s_edges st.
  Proof.
    intros H Hr. destruct (upd_char _ _ _ _ _ _ _ _ H) as [[_ Hf]|(e & He & Hval & Hed & _ & Hv)].
    - congruence.
    - split; [assumption|]. rewrite Hed. apply ainsert_neq_lookup. rewrite He.
      intros Heq. injection Heq as Heq.
      destruct Hval as (_ & _ & _ & _ & Hfresh).
      assert (Hp : pol_dir e (dir_of (cu_cf u)) = Some (pol_of u))
        by (rewrite Heq at 1; apply pol_dir_set_same).
      rewrite Hp in Hfresh. cbn [pol_of p_ts] in Hfresh. lia.
  Qed.

  (* effect of one update on the edge table, pointwise *)
  Definition edges_ext (es es' : list (N * edge)) : Prop :=
    forall k, match alookup k es, alookup k es' with
              | None, None => True
              | Some e, Some e' => same_static e e'
              | _, _ => False
              end.

  Lemma edges_ext_refl es : edges_ext es es.
  Proof. intros k. destruct (alookup k es); [apply same_static_refl | exact I]. Qed.

  Lemma edges_ext_trans a b c : edges_ext a b -> edges_ext b c -> edges_ext a c.
  Proof.
    intros H1 H2 k. specialize (H1 k). specialize (H2 k).
    destruct (alookup k a), (alookup k b), (alookup k c); try contradiction; try exact I.
    eapply same_static_trans; eassumption.
  Qed.

  Lemma upd_edges_ext now peer id st u st' v r :
    handle_chan_upd now peer id st u = (st', v, r) -> edges_ext (s_edges st) (s_edges st').
  Proof.
    intros H. destruct (upd_char _ _ _ _ _ _ _ _ H) as [[[He _] _]|(e & He & _ & Hed & _ & _)].
    - rewrite He. apply edges_ext_refl.
    - rewrite Hed. intros k. rewrite alookup_ainsert. destruct (N.eqb k (cu_scid u)) eqn:E.
      + apply N.eqb_eq in E. subst. rewrite He. apply same_static_set_pol.
      + destruct (alookup k (s_edges st)); [apply same_static_refl | exact I].
  Qed.

  Lemma upd_nodes_same now peer id st u st' v r :
    handle_chan_upd now peer id st u = (st', v, r) -> s_nodes st' = s_nodes st.
  Proof.
    intros H. destruct (upd_char _ _ _ _ _ _ _ _ H) as [[[_ Hn] _]|(e & _ & _ & _ & Hn & _)];
      assumption.
  Qed.

  (* a policy that differs after one update is that update's, fully validated *)
  Lemma upd_authentic now peer id st u st' v r :
    handle_chan_upd now peer id st u = (st', v, r) ->
    forall scid e e' d, (d = 0 \/ d = 1) ->
      alookup scid (s_edges st) = Some e -> alookup scid (s_edges st') = Some e' ->
      pol_dir e' d <> pol_dir e d ->
      scid = cu_scid u /\ d = dir_of (cu_cf u) /\ upd_valid st e u /\
      pol_dir e' d = Some (pol_of u).
  Proof.
    intros H scid e e' d Hd He He' Hne.
    destruct (upd_char _ _ _ _ _ _ _ _ H) as [[[Hed _] _]|(e0 & He0 & Hval & Hed & _ & _)].
    - rewrite Hed in He'. congruence.
    - rewrite Hed, alookup_ainsert in He'. destruct (N.eqb scid (cu_scid u)) eqn:E.
      + apply N.eqb_eq in E. subst scid. injection He' as <-.
        rewrite He0 in He. injection He as <-.
        destruct (N.eq_dec d (dir_of (cu_cf u))) as [->|Hd2].
        * repeat split; try apply Hval. apply pol_dir_set_same.
        * exfalso. apply Hne. apply pol_dir_set_other; [apply dir_of_01 | assumption | assumption].
      + congruence.
  Qed.

  (* the zombie index under a channel update: untouched, or the update passed
     processZombieUpdate — a non-blank key is stored for its direction and the
     signature verifies under THAT key — and the entry is removed *)
  Definition zkey (ks : N * N) (u : chan_upd) : N :=
    if N.eqb (dir_of (cu_cf u)) 0 then fst ks else snd ks.

  Definition resurrect_ok (ks : N * N) (u : chan_upd) : Prop :=
    zkey ks u <> 0 /\ verify (zkey ks u) (cu_dg u) (cu_sig u) = true /\
    cu_chain u = c_chain cfg /\ cu_ts u <> 0.

  Lemma bue_zombies now st scid p st' :
    builder_update_edge now st scid p = inl st' -> s_zombies st' = s_zombies st.
  Proof.
    unfold builder_update_edge. intros H. break_match H; inversion H; subst; reflexivity.
  Qed.

  Lemma upd_zombie_char now peer id st u st' v r :
    handle_chan_upd now peer id st u = (st', v, r) ->
    s_zombies st' = s_zombies st \/
    (exists ks, alookup (cu_scid u) (s_zombies st) = Some ks /\
                alookup (cu_scid u) (s_edges st) = None /\ resurrect_ok ks u /\
                s_zombies st' = aremove (cu_scid u) (s_zombies st)).
  Proof.
    unfold Model.handle_chan_upd. intros H.
    destruct (rejected st (cu_scid u) peer); [inversion H; subst; now left|].
    destruct (negb (N.eqb (cu_chain u) (c_chain cfg))) eqn:Echain;
      [inversion H; subst; now left|].
    destruct (negb (is_alias (cu_scid u)) && N.ltb (c_best cfg) (height_of (cu_scid u)));
      [inversion H; subst; now left|].
    destruct (N.eqb (cu_ts u) 0) eqn:Ets; [inversion H; subst; now left|].
    destruct (stale_policy cfg now st (cu_scid u) (cu_ts u) (cu_cf u));
      [inversion H; subst; now left|].
    destruct (N.ltb (now + c_prune cfg) (cu_ts u)); [inversion H; subst; now left|].
    apply negb_false_iff in Echain. apply N.eqb_eq in Echain. apply N.eqb_neq in Ets.
    destruct (alookup (cu_scid u) (s_edges st)) as [e|] eqn:Ee.
    - left. break_match H; inversion H; subst; try reflexivity;
        match goal with
        | Eb : builder_update_edge _ _ _ _ = inl _ |- _ =>
          apply bue_zombies in Eb; rewrite Eb; reflexivity
        end.
    - destruct (alookup (cu_scid u) (s_zombies st)) as [[k1 k2]|] eqn:Ez;
        [|inversion H; subst; now left].
      destruct (N.eqb (if N.eqb (dir_of (cu_cf u)) 0 then k1 else k2) 0) eqn:Ek;
        [inversion H; subst; now left|].
      destruct (verify (if N.eqb (dir_of (cu_cf u)) 0 then k1 else k2) (cu_dg u) (cu_sig u)) eqn:Ev;
        [|inversion H; subst; now left].
      inversion H; subst. right. exists (k1, k2). apply N.eqb_neq in Ek.
      unfold resurrect_ok, zkey. cbn [fst snd]. repeat split; assumption.
  Qed.

  Lemma take_premature_zombies st scid st1 rp :
    take_premature st scid = (st1, rp) -> s_zombies st1 = s_zombies st.
  Proof.
    unfold take_premature. destruct (alookup scid (s_premature st));
      intros H; inversion H; subst; reflexivity.
  Qed.

  Lemma ca_zombie_char peer st a st' v r rp :
    handle_chan_ann peer st a = (st', v, r, rp) ->
    s_zombies st' = s_zombies st \/
    (rp = [] /\ s_zombies st' = ainsert (ca_scid a) (0, 0) (s_zombies st)).
  Proof.
    unfold Model.handle_chan_ann. cbv beta zeta. intros H.
    break_match H; inversion H; subst;
      try solve [left; reflexivity | right; split; reflexivity];
      match goal with
      | Et : take_premature _ _ = _ |- _ =>
        apply take_premature_zombies in Et; left; rewrite Et; reflexivity
      end.
  Qed.

  Lemma na_zombie_same st a st' v r :
    handle_node_ann st a = (st', v, r) -> s_zombies st' = s_zombies st.
  Proof.
    unfold Model.handle_node_ann. intros H. break_match H; inversion H; subst; reflexivity.
  Qed.

  (* ---- node announcement ---- *)
  Lemma na_char st a st' v r :
    handle_node_ann st a = (st', v, r) ->
    (graph_same st st' /\ r = false) \/
    (exists old, alookup (na_node a) (s_nodes st) = Some old /\ nd_ts old < na_ts a /\
                 na_ts a <> 0 /\ na_fields_ok a = true /\
                 verify (na_node a) (na_dg a) (na_sig a) = true /\
                 s_edges st' = s_edges st /\
                 s_nodes st' = ainsert (na_node a) (mkNode (na_ts a) (na_sig a)) (s_nodes st) /\
                 v = VOk /\ r = is_public (c_own cfg) st' (na_node a)).
  Proof.
    unfold Model.handle_node_ann. intros H.
    destruct (N.eqb (na_ts a) 0) eqn:Ets; [inversion H; subst; left; repeat split|].
    destruct (negb (node_fresh st (na_node a) (na_ts a))) eqn:Efresh;
      [inversion H; subst; left; repeat split|].
    destruct (negb (na_fields_ok a)) eqn:Ef; [inversion H; subst; left; repeat split|].
    destruct (negb (verify (na_node a) (na_dg a) (na_sig a))) eqn:Ev;
      [inversion H; subst; left; repeat split|].
    inversion H; subst. right.
    apply negb_false_iff in Efresh, Ef, Ev. apply N.eqb_neq in Ets.
    unfold node_fresh in Efresh. destruct (alookup (na_node a) (s_nodes st)) as [old|]; [|discriminate].
    apply N.ltb_lt in Efresh. exists old. repeat split; assumption.
  Qed.

  (* ---- channel announcement ---- *)
  Definition ca_valid (st : state) (a : chan_ann) (cap : N) : Prop :=
    ca_n1 a <> c_own cfg /\ ca_n2 a <> c_own cfg /\
    ca_chain a = c_chain cfg /\ is_alias (ca_scid a) = false /\
    alookup (ca_scid a) (s_edges st) = None /\
    verify (ca_b1 a) (ca_dg a) (ca_bs1 a) = true /\ verify (ca_b2 a) (ca_dg a) (ca_bs2 a) = true /\
    verify (ca_n1 a) (ca_dg a) (ca_ns1 a) = true /\ verify (ca_n2 a) (ca_dg a) (ca_ns2 a) = true /\
    (c_assume_valid cfg = false ->
     exists s, fund (ca_scid a) = FTx (Some s) cap UUnspent /\
               expected_script (ca_b1 a) (ca_b2 a) (ca_tap a) = Some s).

  Definition pending_of (st : state) (scid : N) : list pending :=
    match alookup scid (s_premature st) with Some l => l | None => [] end.

  Lemma take_premature_graph st scid st1 rp :
    take_premature st scid = (st1, rp) ->
    s_edges st1 = s_edges st /\ s_nodes st1 = s_nodes st /\ rp = pending_of st scid.
  Proof.
    unfold take_premature, pending_of. destruct (alookup scid (s_premature st));
      intros H; inversion H; subst; repeat split.
  Qed.

  Lemma ca_char peer st a st' v r rp :
    handle_chan_ann peer st a = (st', v, r, rp) ->
    (graph_same st st' /\ r = false /\ rp = []) \/
    (exists cap, ca_valid st a cap /\
                 s_edges st' = ainsert (ca_scid a) (new_edge a cap) (s_edges st) /\
                 s_nodes st' = ensure_node (ca_n2 a) (ensure_node (ca_n1 a) (s_nodes st)) /\
                 v = VOk /\ r = true /\ rp = pending_of st (ca_scid a)).
  Proof.
    unfold Model.handle_chan_ann. intros H.
    destruct (N.eqb (ca_n1 a) (c_own cfg) || N.eqb (ca_n2 a) (c_own cfg)) eqn:Eown;
      [inversion H; subst; left; repeat split|].
    destruct (rejected st (ca_scid a) peer); [inversion H; subst; left; repeat split|].
    destruct (negb (N.eqb (ca_chain a) (c_chain cfg))) eqn:Echain;
      [inversion H; subst; left; repeat split|].
    destruct (is_alias (ca_scid a)) eqn:Ealias; [inversion H; subst; left; repeat split|].
    destruct (N.ltb (c_best cfg) (height_of (ca_scid a))); [inversion H; subst; left; repeat split|].
    destruct (known_edge st (ca_scid a)) eqn:Eknown; [inversion H; subst; left; repeat split|].
    destruct (smem (ca_scid a) (s_closed st)); [inversion H; subst; left; repeat split|].
    destruct (negb (ca_sigs_ok verify a)) eqn:Esig; [inversion H; subst; left; repeat split|].
    apply orb_false_iff in Eown. destruct Eown as [Eo1 Eo2].
    apply N.eqb_neq in Eo1, Eo2.
    apply negb_false_iff in Echain, Esig. apply N.eqb_eq in Echain.
    unfold ca_sigs_ok in Esig.
    apply andb_true_iff in Esig. destruct Esig as [Esig Es4].
    apply andb_true_iff in Esig. destruct Esig as [Esig Es3].
    apply andb_true_iff in Esig. destruct Esig as [Es1 Es2].
    assert (Hnone : alookup (ca_scid a) (s_edges st) = None).
    { unfold known_edge in Eknown. destruct (alookup (ca_scid a) (s_edges st)); [discriminate|reflexivity]. }
    assert (Hacc : forall cap,
               (c_assume_valid cfg = false ->
                exists s, fund (ca_scid a) = FTx (Some s) cap UUnspent /\
                          expected_script (ca_b1 a) (ca_b2 a) (ca_tap a) = Some s) ->
               (let '(st1, rp0) := take_premature (add_edge st a cap) (ca_scid a) in
                (st1, VOk, true, rp0)) = (st', v, r, rp) ->
               exists cap0, ca_valid st a cap0 /\
                 s_edges st' = ainsert (ca_scid a) (new_edge a cap0) (s_edges st) /\
                 s_nodes st' = ensure_node (ca_n2 a) (ensure_node (ca_n1 a) (s_nodes st)) /\
                 v = VOk /\ r = true /\ rp = pending_of st (ca_scid a)).
    { intros cap Hf Ht.
      destruct (take_premature (add_edge st a cap) (ca_scid a)) as [st1 rp0] eqn:Etp.
      apply take_premature_graph in Etp. destruct Etp as (He & Hn & Hrp).
      inversion Ht; subst. exists cap.
      split; [repeat split; assumption|].
      rewrite He, Hn. repeat split. }
    destruct (c_assume_valid cfg) eqn:Eav.
    { right. apply (Hacc 0); [discriminate | exact H]. }
    destruct (fund (ca_scid a)) as [| |so value ut] eqn:Efund;
      [inversion H; subst; left; repeat split | inversion H; subst; left; repeat split |].
    destruct (expected_script (ca_b1 a) (ca_b2 a) (ca_tap a)) as [es|] eqn:Ees;
      [|inversion H; subst; left; repeat split].
    destruct so as [s|]; [|inversion H; subst; left; repeat split].
    destruct (N.eqb s es) eqn:Ese; [|inversion H; subst; left; repeat split].
    apply N.eqb_eq in Ese. subst es.
    destruct ut; [| inversion H; subst; left; repeat split | inversion H; subst; left; repeat split].
    right. apply (Hacc value); [|exact H].
    intros _. exists s. split; (reflexivity || assumption).
  Qed.

  (* ---- replay of premature updates ---- *)
  Lemma replay_edges_ext now ps : forall st st' outs,
    replay now st ps = (st', outs) ->
    edges_ext (s_edges st) (s_edges st') /\ s_nodes st' = s_nodes st.
  Proof.
    induction ps as [|p ps IH]; intros st st' outs H; cbn [Model.replay] in H.
    - inversion H; subst. split; [apply edges_ext_refl | reflexivity].
    - destruct (handle_chan_upd now (pd_peer p) (pd_id p) st (pd_upd p)) as [[st1 v1] r1] eqn:E1.
      destruct (replay now st1 ps) as [st2 outs2] eqn:E2.
      inversion H; subst.
      destruct (IH _ _ _ E2) as [Hx Hn]. split.
      + eapply edges_ext_trans; [eapply upd_edges_ext; eassumption | assumption].
      + rewrite Hn. eapply upd_nodes_same; eassumption.
  Qed.

  (* every policy that differs after a replay is the content of one of the
     replayed updates, and that update passed the FULL validation against the
     channel as it is now known; timestamps only moved forward *)
  Lemma replay_authentic now ps : forall st st' outs,
    replay now st ps = (st', outs) ->
    forall scid e e' d, (d = 0 \/ d = 1) ->
      alookup scid (s_edges st) = Some e -> alookup scid (s_edges st') = Some e' ->
      pol_dir e' d <> pol_dir e d ->
      exists p, In p ps /\ cu_scid (pd_upd p) = scid /\ dir_of (cu_cf (pd_upd p)) = d /\
        cu_chain (pd_upd p) = c_chain cfg /\ cu_ts (pd_upd p) <> 0 /\
        upd_fields_ok (e_cap e) (pd_upd p) = true /\
        verify (key_dir e d) (cu_dg (pd_upd p)) (cu_sig (pd_upd p)) = true /\
        pol_dir e' d = Some (pol_of (pd_upd p)) /\
        match pol_dir e d with Some old => p_ts old < cu_ts (pd_upd p) | None => True end.
  Proof.
    induction ps as [|p ps IH]; intros st st' outs H scid e e' d Hd He He' Hne;
      cbn [Model.replay] in H.
    - inversion H; subst. congruence.
    - destruct (handle_chan_upd now (pd_peer p) (pd_id p) st (pd_upd p)) as [[st1 v1] r1] eqn:E1.
      destruct (replay now st1 ps) as [st2 outs2] eqn:E2.
      inversion H; subst.
      pose proof (upd_edges_ext _ _ _ _ _ _ _ _ E1 scid) as Hx. rewrite He in Hx.
      destruct (alookup scid (s_edges st1)) as [e1|] eqn:He1; [|contradiction].
      destruct (option_eq_dec_pol (pol_dir e' d) (pol_dir e1 d)) as [Heq|Hne1].
      + (* changed by p itself, untouched afterwards *)
        rewrite Heq in Hne.
        destruct (upd_authentic _ _ _ _ _ _ _ _ E1 scid e e1 d Hd He He1 Hne)
          as (Hs & Hdd & (Hc & Hts & Hfo & Hver & Hfr) & Hp).
        exists p. subst d. rewrite <- Hs.
        repeat split; try assumption; [now left | congruence].
      + (* changed later *)
        destruct (IH _ _ _ E2 scid e1 e' d Hd He1 He' Hne1)
          as (q & Hin & Hqs & Hqd & Hqc & Hqt & Hqf & Hqv & Hqp & Hqfr).
        exists q. split; [now right|].
        rewrite (key_dir_static _ _ d Hx).
        destruct Hx as (_ & _ & _ & _ & Hcap & _). rewrite Hcap.
        repeat split; try assumption.
        (* freshness w.r.t. the policy before the whole replay *)
        destruct (option_eq_dec_pol (pol_dir e1 d) (pol_dir e d)) as [Hsame|Hdiff].
        * now rewrite <- Hsame.
        * destruct (upd_authentic _ _ _ _ _ _ _ _ E1 scid e e1 d Hd He He1 Hdiff)
            as (_ & Hdd & (_ & _ & _ & _ & Hfr) & Hp).
          rewrite Hp in Hqfr. cbn [pol_of p_ts] in Hqfr. rewrite Hdd.
          destruct (pol_dir e (dir_of (cu_cf (pd_upd p)))); [lia | exact I].
  Qed.

  (* ---- one step ---- *)
  Definition upd_ok (e' : edge) (old : option policy) (d : N) (u : chan_upd) : Prop :=
    dir_of (cu_cf u) = d /\ cu_chain u = c_chain cfg /\ cu_ts u <> 0 /\
    upd_fields_ok (e_cap e') u = true /\
    verify (key_dir e' d) (cu_dg u) (cu_sig u) = true /\
    pol_dir e' d = Some (pol_of u) /\
    match old with Some o => p_ts o < cu_ts u | None => True end.

  Definition old_pol (st : state) (scid d : N) : option policy :=
    match alookup scid (s_edges st) with Some e => pol_dir e d | None => None end.

  Lemma replay_nil_or now st ps st' outs :
    replay now st ps = (st', outs) -> ps = [] -> st' = st /\ outs = [].
  Proof. intros H ->. cbn in H. now inversion H. Qed.

  Lemma step_edges_mono now peer id st m st' outs :
    step now peer id st m = (st', outs) ->
    forall k e, alookup k (s_edges st) = Some e ->
                exists e', alookup k (s_edges st') = Some e' /\ same_static e e'.
  Proof.
    intros H k e He. destruct m as [a|u|a]; cbn [Model.step] in H.
    - destruct (handle_chan_ann peer st a) as [[[st1 v] rl] rp] eqn:E1.
      destruct (replay now st1 rp) as [st2 outs2] eqn:E2. inversion H; subst.
      destruct (replay_edges_ext _ _ _ _ _ E2) as [Hx _].
      assert (H1 : exists e1, alookup k (s_edges st1) = Some e1 /\ same_static e e1).
      { destruct (ca_char _ _ _ _ _ _ _ E1) as [[[Hed _] _]|(cap & Hval & Hed & _)].
        - rewrite Hed. exists e. split; [assumption | apply same_static_refl].
        - rewrite Hed, alookup_ainsert. destruct (N.eqb k (ca_scid a)) eqn:E.
          + apply N.eqb_eq in E. subst k. destruct Hval as (_ & _ & _ & _ & Hnone & _). congruence.
          + exists e. split; [assumption | apply same_static_refl]. }
      destruct H1 as (e1 & He1 & Hs1). specialize (Hx k). rewrite He1 in Hx.
      destruct (alookup k (s_edges st')) as [e'|]; [|contradiction].
      exists e'. split; [reflexivity | eapply same_static_trans; eassumption].
    - destruct (handle_chan_upd now peer id st u) as [[st1 v] rl] eqn:E1. inversion H; subst.
      pose proof (upd_edges_ext _ _ _ _ _ _ _ _ E1 k) as Hx. rewrite He in Hx.
      destruct (alookup k (s_edges st')) as [e'|]; [|contradiction]. now exists e'.
    - destruct (handle_node_ann st a) as [[st1 v] rl] eqn:E1. inversion H; subst.
      destruct (na_char _ _ _ _ _ E1) as [[[Hed _] _]|(old & _ & _ & _ & _ & _ & Hed & _)];
        rewrite Hed; exists e; (split; [assumption | apply same_static_refl]).
  Qed.

  Lemma step_chan_ann_authentic now peer id st m st' outs :
    step now peer id st m = (st', outs) ->
    forall scid e', alookup scid (s_edges st) = None -> alookup scid (s_edges st') = Some e' ->
      exists a cap, m = MCA a /\ ca_scid a = scid /\ ca_valid st a cap /\
                    same_static (new_edge a cap) e'.
  Proof.
    intros H scid e' Hn He'. destruct m as [a|u|a]; cbn [Model.step] in H.
    - destruct (handle_chan_ann peer st a) as [[[st1 v] rl] rp] eqn:E1.
      destruct (replay now st1 rp) as [st2 outs2] eqn:E2. inversion H; subst.
      destruct (replay_edges_ext _ _ _ _ _ E2) as [Hx _]. specialize (Hx scid). rewrite He' in Hx.
      destruct (ca_char _ _ _ _ _ _ _ E1) as [[[Hed _] _]|(cap & Hval & Hed & _)].
      + rewrite Hed, Hn in Hx. contradiction.
      + rewrite Hed, alookup_ainsert in Hx. destruct (N.eqb scid (ca_scid a)) eqn:E.
        * apply N.eqb_eq in E. subst scid. exists a, cap. repeat split; try apply Hval; apply Hx.
        * rewrite Hn in Hx. contradiction.
    - destruct (handle_chan_upd now peer id st u) as [[st1 v] rl] eqn:E1. inversion H; subst.
      pose proof (upd_edges_ext _ _ _ _ _ _ _ _ E1 scid) as Hx. rewrite Hn, He' in Hx. contradiction.
    - destruct (handle_node_ann st a) as [[st1 v] rl] eqn:E1. inversion H; subst.
      destruct (na_char _ _ _ _ _ E1) as [[[Hed _] _]|(old & _ & _ & _ & _ & _ & Hed & _)];
        rewrite Hed in He'; congruence.
  Qed.

  Lemma step_update_authentic now peer id st m st' outs :
    step now peer id st m = (st', outs) ->
    forall scid e' d, (d = 0 \/ d = 1) -> alookup scid (s_edges st') = Some e' ->
      pol_dir e' d <> old_pol st scid d ->
      exists u, (m = MCU u \/
                 exists a p, m = MCA a /\ In p (pending_of st (ca_scid a)) /\ pd_upd p = u) /\
                cu_scid u = scid /\ upd_ok e' (old_pol st scid d) d u.
  Proof.
    intros H scid e' d Hd He' Hne. unfold old_pol in *.
    destruct m as [a|u|a]; cbn [Model.step] in H.
    - destruct (handle_chan_ann peer st a) as [[[st1 v] rl] rp] eqn:E1.
      destruct (replay now st1 rp) as [st2 outs2] eqn:E2. inversion H; subst.
      destruct (replay_edges_ext _ _ _ _ _ E2) as [Hx _]. specialize (Hx scid). rewrite He' in Hx.
      destruct (ca_char _ _ _ _ _ _ _ E1) as [(Hsame & _ & Hrp)|(cap & Hval & Hed & _ & _ & _ & Hrp)].
      + destruct (replay_nil_or _ _ _ _ _ E2 Hrp) as [-> _]. destruct Hsame as [Hed _].
        rewrite Hed in He'. rewrite He' in Hne. congruence.
      + destruct (alookup scid (s_edges st1)) as [e1|] eqn:He1; [|contradiction].
        assert (Hold : pol_dir e1 d = match alookup scid (s_edges st) with
                                      | Some e => pol_dir e d | None => None end /\
                       (forall e, alookup scid (s_edges st) = Some e -> e1 = e)).
        { rewrite Hed, alookup_ainsert in He1. destruct (N.eqb scid (ca_scid a)) eqn:E.
          - apply N.eqb_eq in E. subst scid. injection He1 as <-.
            destruct Hval as (_ & _ & _ & _ & Hnone & _). rewrite Hnone.
            split; [unfold pol_dir, new_edge; now destruct (N.eqb d 0) | congruence].
          - rewrite He1. split; [reflexivity | congruence]. }
        destruct Hold as [Hold _]. rewrite <- Hold in Hne.
        destruct (replay_authentic _ _ _ _ _ E2 scid e1 e' d Hd He1 He' Hne)
          as (p & Hin & Hps & Hpd & Hpc & Hpt & Hpf & Hpv & Hpp & Hpfr).
        exists (pd_upd p). split.
        * right. exists a, p. subst rp. repeat split; assumption.
        * split; [assumption|]. rewrite <- Hold.
          rewrite (key_dir_static _ _ d Hx) in Hpv.
          destruct Hx as (_ & _ & _ & _ & Hcap & _). rewrite Hcap in Hpf.
          repeat split; assumption.
    - destruct (handle_chan_upd now peer id st u) as [[st1 v] rl] eqn:E1. inversion H; subst.
      pose proof (upd_edges_ext _ _ _ _ _ _ _ _ E1 scid) as Hx. rewrite He' in Hx.
      destruct (alookup scid (s_edges st)) as [e|] eqn:He; [|contradiction].
      destruct (upd_authentic _ _ _ _ _ _ _ _ E1 scid e e' d Hd He He' Hne)
        as (Hs & Hdd & (Hc & Hts & Hfo & Hver & Hfr) & Hp).
      exists u. split; [now left|]. split; [congruence|].
      rewrite (key_dir_static _ _ (dir_of (cu_cf u)) Hx) in Hver.
      destruct Hx as (_ & _ & _ & _ & Hcap & _). rewrite Hcap in Hfo. subst d.
      repeat split; assumption.
    - destruct (handle_node_ann st a) as [[st1 v] rl] eqn:E1. inversion H; subst.
      destruct (na_char _ _ _ _ _ E1) as [[[Hed _] _]|(old & _ & _ & _ & _ & _ & Hed & _)];
        rewrite Hed in He'; rewrite He' in Hne; congruence.
  Qed.

  Lemma step_node_authentic now peer id st m st' outs :
    step now peer id st m = (st', outs) ->
    forall n, alookup n (s_nodes st') <> alookup n (s_nodes st) ->
      (exists a old, m = MNA a /\ na_node a = n /\
                     alookup n (s_nodes st) = Some old /\ nd_ts old < na_ts a /\
                     na_fields_ok a = true /\
                     verify n (na_dg a) (na_sig a) = true /\
                     alookup n (s_nodes st') = Some (mkNode (na_ts a) (na_sig a))) \/
      (exists a cap, m = MCA a /\ ca_valid st a cap /\ (n = ca_n1 a \/ n = ca_n2 a) /\
                     alookup n (s_nodes st) = None /\ alookup n (s_nodes st') = Some shell /\
                     exists e', alookup (ca_scid a) (s_edges st') = Some e' /\
                                same_static (new_edge a cap) e').
  Proof.
    intros H n Hne. destruct m as [a|u|a]; cbn [Model.step] in H.
    - right. destruct (handle_chan_ann peer st a) as [[[st1 v] rl] rp] eqn:E1.
      destruct (replay now st1 rp) as [st2 outs2] eqn:E2. inversion H; subst.
      destruct (replay_edges_ext _ _ _ _ _ E2) as [Hx Hnn]. rewrite Hnn in *.
      destruct (ca_char _ _ _ _ _ _ _ E1) as [[[_ Hnd] _]|(cap & Hval & Hed & Hnd & _)].
      + rewrite Hnd in Hne. congruence.
      + exists a, cap. rewrite Hnd in *. rewrite !ensure_node_lookup in *.
        destruct (alookup n (s_nodes st)) as [x|] eqn:Hn; [congruence|].
        split; [reflexivity|]. split; [assumption|].
        specialize (Hx (ca_scid a)). rewrite Hed, alookup_ainsert_same in Hx.
        destruct (alookup (ca_scid a) (s_edges st')) as [e'|]; [|contradiction].
        destruct (N.eqb n (ca_n1 a)) eqn:E1'; destruct (N.eqb n (ca_n2 a)) eqn:E2';
          try apply N.eqb_eq in E1'; try apply N.eqb_eq in E2'; try congruence;
          (split; [tauto|]); (split; [reflexivity|]); (split; [reflexivity|]); now exists e'.
    - destruct (handle_chan_upd now peer id st u) as [[st1 v] rl] eqn:E1. inversion H; subst.
      rewrite (upd_nodes_same _ _ _ _ _ _ _ _ E1) in Hne. congruence.
    - left. destruct (handle_node_ann st a) as [[st1 v] rl] eqn:E1. inversion H; subst.
      destruct (na_char _ _ _ _ _ E1)
        as [[[_ Hnd] _]|(old & Hold & Hts & _ & Hf & Hv & _ & Hnd & _)].
      + rewrite Hnd in Hne. congruence.
      + rewrite Hnd, alookup_ainsert in *. destruct (N.eqb n (na_node a)) eqn:E; [|congruence].
        apply N.eqb_eq in E. subst n. exists a, old. repeat split; assumption.
  Qed.

  (* outcomes of a replay *)
  Lemma replay_relay_ok now ps : forall st st' outs,
    replay now st ps = (st', outs) ->
    forall i v r, In (i, v, r) outs -> r = true -> v = VOk.
  Proof.
    induction ps as [|p ps IH]; intros st st' outs H i v r Hin Hr; cbn [Model.replay] in H.
    - inversion H; subst. contradiction.
    - destruct (handle_chan_upd now (pd_peer p) (pd_id p) st (pd_upd p)) as [[st1 v1] r1] eqn:E1.
      destruct (replay now st1 ps) as [st2 outs2] eqn:E2. inversion H; subst.
      destruct Hin as [Heq|Hin].
      + inversion Heq; subst. apply (proj1 (upd_relay_changed _ _ _ _ _ _ _ _ E1 eq_refl)).
      + eapply IH; [eassumption | eassumption | reflexivity].
  Qed.

  Lemma replay_answers now ps : forall st st' outs,
    replay now st ps = (st', outs) -> map (fun o => fst (fst o)) outs = map pd_id ps.
  Proof.
    induction ps as [|p ps IH]; intros st st' outs H; cbn [Model.replay] in H.
    - now inversion H.
    - destruct (handle_chan_upd now (pd_peer p) (pd_id p) st (pd_upd p)) as [[st1 v1] r1] eqn:E1.
      destruct (replay now st1 ps) as [st2 outs2] eqn:E2. inversion H; subst.
      cbn. f_equal. eapply IH; eassumption.
  Qed.

  Lemma step_relay_ok now peer id st m st' outs :
    step now peer id st m = (st', outs) ->
    forall i v r, In (i, v, r) outs -> r = true -> v = VOk.
  Proof.
    intros H i v r Hin Hr. destruct m as [a|u|a]; cbn [Model.step] in H.
    - destruct (handle_chan_ann peer st a) as [[[st1 v1] rl] rp] eqn:E1.
      destruct (replay now st1 rp) as [st2 outs2] eqn:E2. inversion H; subst.
      destruct Hin as [Heq|Hin].
      + inversion Heq; subst.
        destruct (ca_char _ _ _ _ _ _ _ E1) as [(_ & Hf & _)|(cap & _ & _ & _ & Hv & _)];
          [congruence | assumption].
      + eapply replay_relay_ok; [eassumption | eassumption | reflexivity].
    - destruct (handle_chan_upd now peer id st u) as [[st1 v1] rl] eqn:E1. inversion H; subst.
      destruct Hin as [Heq|[]]. inversion Heq; subst.
      apply (proj1 (upd_relay_changed _ _ _ _ _ _ _ _ E1 eq_refl)).
    - destruct (handle_node_ann st a) as [[st1 v1] rl] eqn:E1. inversion H; subst.
      destruct Hin as [Heq|[]]. inversion Heq; subst.
      destruct (na_char _ _ _ _ _ E1) as [[_ Hf]|(old & _ & _ & _ & _ & _ & _ & _ & Hv & _)];
        [congruence | assumption].
  Qed.

  (* a rejected message leaves the graph as it was; nothing is relayed and no
     cached update is replayed *)
  Lemma step_rejected_unchanged now peer id st m st' outs c r rest :
    step now peer id st m = (st', outs) -> outs = (id, VErr c, r) :: rest ->
    graph_same st st' /\ r = false /\ rest = [].
  Proof.
    intros H Ho. destruct m as [a|u|a]; cbn [Model.step] in H.
    - destruct (handle_chan_ann peer st a) as [[[st1 v1] rl] rp] eqn:E1.
      destruct (replay now st1 rp) as [st2 outs2] eqn:E2. inversion H; subst.
      inversion H2; subst.
      destruct (ca_char _ _ _ _ _ _ _ E1) as [(Hs & Hf & Hrp)|(cap & _ & _ & _ & Hv & _)];
        [|discriminate].
      destruct (replay_nil_or _ _ _ _ _ E2 Hrp) as [-> ->]. repeat split; try apply Hs; assumption.
    - destruct (handle_chan_upd now peer id st u) as [[st1 v1] rl] eqn:E1. inversion H; subst.
      inversion H2; subst. destruct (upd_err_unchanged _ _ _ _ _ _ _ _ E1) as [Hs Hf].
      repeat split; try apply Hs; assumption.
    - destruct (handle_node_ann st a) as [[st1 v1] rl] eqn:E1. inversion H; subst.
      inversion H2; subst.
      destruct (na_char _ _ _ _ _ E1) as [[Hs Hf]|(old & _ & _ & _ & _ & _ & _ & _ & Hv & _)];
        [|discriminate].
      repeat split; try apply Hs; assumption.
  Qed.

  (* graph unchanged => nothing was relayed *)
  Lemma step_unchanged_not_relayed now peer id st m st' outs :
    step now peer id st m = (st', outs) -> graph_same st st' ->
    forall i v r, In (i, v, r) outs -> r = false.
  Proof.
    intros H [Hge Hgn] i v r Hin. destruct r; [exfalso|reflexivity].
    destruct m as [a|u|a]; cbn [Model.step] in H.
    - destruct (handle_chan_ann peer st a) as [[[st1 v1] rl] rp] eqn:E1.
      destruct (replay now st1 rp) as [st2 outs2] eqn:E2. inversion H; subst.
      destruct (ca_char _ _ _ _ _ _ _ E1) as [(_ & Hf & Hrp)|(cap & Hval & Hed & _)].
      + destruct (replay_nil_or _ _ _ _ _ E2 Hrp) as [-> ->].
        destruct Hin as [Heq|[]]. inversion Heq; subst. discriminate.
      + destruct (replay_edges_ext _ _ _ _ _ E2) as [Hx _]. specialize (Hx (ca_scid a)).
        rewrite Hed, alookup_ainsert_same, Hge in Hx.
        destruct Hval as (_ & _ & _ & _ & Hnone & _). rewrite Hnone in Hx. contradiction.
    - destruct (handle_chan_upd now peer id st u) as [[st1 v1] rl] eqn:E1. inversion H; subst.
      destruct Hin as [Heq|[]]. inversion Heq; subst.
      destruct (upd_relay_changed _ _ _ _ _ _ _ _ E1 eq_refl) as [_ Hch]. contradiction.
    - destruct (handle_node_ann st a) as [[st1 v1] rl] eqn:E1. inversion H; subst.
      destruct Hin as [Heq|[]]. inversion Heq; subst.
      destruct (na_char _ _ _ _ _ E1)
        as [[_ Hf]|(old & Hold & Hts & _ & _ & _ & _ & Hnd & _)]; [discriminate|].
      rewrite Hgn in Hnd.
      assert (Hl : alookup (na_node a) (s_nodes st) = Some (mkNode (na_ts a) (na_sig a)))
        by (rewrite Hnd at 1; apply alookup_ainsert_same).
      rewrite Hold in Hl. injection Hl as ->. cbn [nd_ts] in Hts. lia.
  Qed.

  (* ---- invariant over histories: every node but ours is an endpoint of a
     known channel ---- *)
  Definition nodes_have_channels (st : state) : Prop :=
    forall n nd, alookup n (s_nodes st) = Some nd ->
      n = c_own cfg \/
      exists scid e, alookup scid (s_edges st) = Some e /\ (e_n1 e = n \/ e_n2 e = n).

  Lemma step_preserves_inv now peer id st m st' outs :
    step now peer id st m = (st', outs) -> nodes_have_channels st -> nodes_have_channels st'.
  Proof.
    intros H Hinv n nd Hn.
    destruct (option_node_eq_dec (alookup n (s_nodes st')) (alookup n (s_nodes st))) as [Heq|Hne].
    - rewrite Heq in Hn. destruct (Hinv n nd Hn) as [?|(scid & e & He & Hend)]; [now left|].
      right. destruct (step_edges_mono _ _ _ _ _ _ _ H scid e He) as (e' & He' & Hs).
      exists scid, e'. split; [assumption|]. destruct Hs as (H1 & H2 & _). now rewrite <- H1, <- H2.
    - destruct (step_node_authentic _ _ _ _ _ _ _ H n Hne)
        as [(a & old & _ & _ & Hold & _)|(a & cap & _ & _ & Hend & _ & _ & e' & He' & Hs)].
      + destruct (Hinv n old Hold) as [?|(scid & e & He & Hend)]; [now left|].
        right. destruct (step_edges_mono _ _ _ _ _ _ _ H scid e He) as (e' & He' & Hs).
        exists scid, e'. split; [assumption|]. destruct Hs as (H1 & H2 & _). now rewrite <- H1, <- H2.
      + right. exists (ca_scid a), e'. split; [assumption|].
        destruct Hs as (H1 & H2 & _). cbn [new_edge e_n1 e_n2] in H1, H2.
        destruct Hend as [->| ->]; [left|right]; congruence.
  Qed.

  Lemma run_preserves_inv h : forall st i,
    nodes_have_channels st -> nodes_have_channels (run cfg verify fund expected_script is_alias st i h).
  Proof.
    induction h as [|[[now peer] m] h IH]; intros st i Hinv; cbn [run]; [assumption|].
    apply IH. destruct (step now peer i st m) as [st' outs] eqn:E. cbn [fst].
    eapply step_preserves_inv; eassumption.
  Qed.

  Lemma init_inv : nodes_have_channels (init (c_own cfg)).
  Proof.
    intros n nd H. cbn in H. destruct (N.eqb n (c_own cfg)) eqn:E; [|discriminate].
    left. now apply N.eqb_eq.
  Qed.

  (* ---- the second entry point: Builder.ApplyChannelUpdate ---- *)
  Notation apply_chan_upd := (apply_chan_upd verify).

  Lemma apply_char now st u st' b :
    apply_chan_upd now st u = (st', b) ->
    st' = st \/
    (exists e, alookup (cu_scid u) (s_edges st) = Some e /\
               upd_fields_ok (e_cap e) u = true /\
               verify (key_dir e (dir_of (cu_cf u))) (cu_dg u) (cu_sig u) = true /\
               match pol_dir e (dir_of (cu_cf u)) with
               | Some old => p_ts old < cu_ts u | None => True end /\
               s_edges st' = ainsert (cu_scid u) (set_pol e (dir_of (cu_cf u)) (pol_of u)) (s_edges st) /\
               s_nodes st' = s_nodes st /\ s_zombies st' = s_zombies st /\ b = true).
  Proof.
    unfold Model.apply_chan_upd. intros H.
    destruct (alookup (cu_scid u) (s_edges st)) as [e|] eqn:Ee; [|inversion H; now left].
    destruct (negb (upd_fields_ok (e_cap e) u)) eqn:Ef; [inversion H; now left|].
    destruct (negb (verify (key_dir e (dir_of (cu_cf u))) (cu_dg u) (cu_sig u))) eqn:Ev;
      [inversion H; now left|].
    apply negb_false_iff in Ef, Ev.
    unfold builder_update_edge in H. rewrite Ee in H. cbn [pol_of p_cf p_ts] in H.
    destruct (pol_dir e (dir_of (cu_cf u))) as [old|] eqn:Eold.
    - destruct (negb (N.ltb (p_ts old) (cu_ts u))) eqn:Eo; [inversion H; now left|].
      apply negb_false_iff in Eo. apply N.ltb_lt in Eo.
      inversion H; subst. right. exists e. rewrite Eold. repeat split; assumption.
    - inversion H; subst. right. exists e. rewrite Eold. repeat split; assumption.
  Qed.

  (* a policy that differs after ApplyChannelUpdate is that update's: for this
     channel and direction, consistent fields, signed by the node owning the
     direction, strictly newer than the stored one; nothing else changes *)
  Lemma apply_authentic now st u st' b :
    apply_chan_upd now st u = (st', b) ->
    s_nodes st' = s_nodes st /\ s_zombies st' = s_zombies st /\
    edges_ext (s_edges st) (s_edges st') /\
    forall scid e' d, (d = 0 \/ d = 1) -> alookup scid (s_edges st') = Some e' ->
      pol_dir e' d <> old_pol st scid d ->
      scid = cu_scid u /\ d = dir_of (cu_cf u) /\
      upd_fields_ok (e_cap e') u = true /\
      verify (key_dir e' d) (cu_dg u) (cu_sig u) = true /\
      pol_dir e' d = Some (pol_of u) /\
      match old_pol st scid d with Some o => p_ts o < cu_ts u | None => True end.
  Proof.
    intros H. destruct (apply_char _ _ _ _ _ H) as [->|(e & He & Hf & Hv & Hfr & Hed & Hn & Hz & _)].
    - split; [reflexivity|]. split; [reflexivity|]. split; [apply edges_ext_refl|].
      intros scid e' d _ He' Hne. unfold old_pol in Hne. rewrite He' in Hne. congruence.
    - split; [assumption|]. split; [assumption|]. split.
      + rewrite Hed. intros k. rewrite alookup_ainsert. destruct (N.eqb k (cu_scid u)) eqn:E.
        * apply N.eqb_eq in E. subst. rewrite He. apply same_static_set_pol.
        * destruct (alookup k (s_edges st)); [apply same_static_refl | exact I].
      + intros scid e' d Hd He' Hne. unfold old_pol in *.
        rewrite Hed, alookup_ainsert in He'. destruct (N.eqb scid (cu_scid u)) eqn:E.
        * apply N.eqb_eq in E. subst scid. injection He' as <-. rewrite He in *.
          destruct (N.eq_dec d (dir_of (cu_cf u))) as [->|Hd2].
          -- split; [reflexivity|]. split; [reflexivity|].
             pose proof (same_static_set_pol e (dir_of (cu_cf u)) (pol_of u)) as Hs.
             rewrite <- (key_dir_static _ _ (dir_of (cu_cf u)) Hs).
             destruct Hs as (_ & _ & _ & _ & Hcap & _). rewrite <- Hcap.
             repeat split; try assumption. apply pol_dir_set_same.
          -- exfalso. apply Hne. apply pol_dir_set_other; [apply dir_of_01 | assumption | assumption].
        * rewrite He' in Hne. congruence.
  Qed.

  Lemma apply_preserves_inv now st u st' b :
    apply_chan_upd now st u = (st', b) -> nodes_have_channels st -> nodes_have_channels st'.
  Proof.
    intros H Hinv n nd Hn.
    destruct (apply_authentic _ _ _ _ _ H) as (Hnn & _ & Hx & _). rewrite Hnn in Hn.
    destruct (Hinv n nd Hn) as [?|(scid & e & He & Hend)]; [now left|]. right.
    specialize (Hx scid). rewrite He in Hx.
    destruct (alookup scid (s_edges st')) as [e'|] eqn:He'; [|contradiction].
    exists scid, e'. split; [exact He'|]. destruct Hx as (H1 & H2 & _). now rewrite <- H1, <- H2.
  Qed.

  (* ---- zombie resurrection ---- *)
  Lemma replay_zombie now ps : forall st st' outs,
    replay now st ps = (st', outs) ->
    forall scid ks, alookup scid (s_zombies st) = Some ks ->
      alookup scid (s_zombies st') = None ->
      exists p, In p ps /\ cu_scid (pd_upd p) = scid /\ resurrect_ok ks (pd_upd p).
  Proof.
    induction ps as [|p ps IH]; intros st st' outs H scid ks Hz Hn; cbn [Model.replay] in H.
    - inversion H; subst. congruence.
    - destruct (handle_chan_upd now (pd_peer p) (pd_id p) st (pd_upd p)) as [[st1 v1] r1] eqn:E1.
      destruct (replay now st1 ps) as [st2 outs2] eqn:E2. inversion H; subst.
      destruct (upd_zombie_char _ _ _ _ _ _ _ _ E1) as [Hs|(ks' & Hz' & _ & Hok & Hs)].
      + rewrite <- Hs in Hz. destruct (IH _ _ _ E2 scid ks Hz Hn) as (q & Hin & Hq).
        exists q. split; [now right | exact Hq].
      + destruct (N.eq_dec scid (cu_scid (pd_upd p))) as [->|Hne].
        * exists p. rewrite Hz in Hz'. injection Hz' as <-. split; [now left|]. split; [reflexivity|exact Hok].
        * assert (Hz1 : alookup scid (s_zombies st1) = Some ks).
          { rewrite Hs, alookup_aremove. apply N.eqb_neq in Hne. now rewrite Hne. }
          destruct (IH _ _ _ E2 scid ks Hz1 Hn) as (q & Hin & Hq).
          exists q. split; [now right | exact Hq].
  Qed.

  (* a zombie entry that is gone after a step was removed by a channel update
     (the message or a replayed parked one) for that scid that passed
     processZombieUpdate against the STORED keys *)
  Lemma step_zombie_authentic now peer id st m st' outs :
    step now peer id st m = (st', outs) ->
    forall scid ks, alookup scid (s_zombies st) = Some ks ->
      alookup scid (s_zombies st') = None ->
      exists u, (m = MCU u \/
                 exists a p, m = MCA a /\ In p (pending_of st (ca_scid a)) /\ pd_upd p = u) /\
                cu_scid u = scid /\ resurrect_ok ks u.
  Proof.
    intros H scid ks Hz Hn. destruct m as [a|u|a]; cbn [Model.step] in H.
    - destruct (handle_chan_ann peer st a) as [[[st1 v] rl] rp] eqn:E1.
      destruct (replay now st1 rp) as [st2 outs2] eqn:E2. inversion H; subst.
      destruct (ca_zombie_char _ _ _ _ _ _ _ E1) as [Hs|[Hrp Hs]].
      + rewrite <- Hs in Hz.
        destruct (replay_zombie _ _ _ _ _ E2 scid ks Hz Hn) as (p & Hin & Hp1 & Hp2).
        exists (pd_upd p). split; [|split; assumption].
        right. exists a, p. split; [reflexivity|]. split; [|reflexivity].
        destruct (ca_char _ _ _ _ _ _ _ E1) as [(_ & _ & Hrp)|(cap & _ & _ & _ & _ & _ & Hrp)];
          subst rp; [contradiction | assumption].
      + subst rp. cbn [Model.replay] in E2. inversion E2; subst. exfalso.
        rewrite Hs, alookup_ainsert in Hn. destruct (N.eqb scid (ca_scid a)); congruence.
    - destruct (handle_chan_upd now peer id st u) as [[st1 v] rl] eqn:E1. inversion H; subst.
      destruct (upd_zombie_char _ _ _ _ _ _ _ _ E1) as [Hs|(ks' & Hz' & _ & Hok & Hs)].
      + rewrite Hs in Hn. congruence.
      + exists u. split; [now left|].
        rewrite Hs, alookup_aremove in Hn. destruct (N.eqb scid (cu_scid u)) eqn:E; [|congruence].
        apply N.eqb_eq in E. subst scid. rewrite Hz in Hz'. injection Hz' as <-.
        split; [reflexivity | exact Hok].
    - destruct (handle_node_ann st a) as [[st1 v] rl] eqn:E1. inversion H; subst.
      rewrite (na_zombie_same _ _ _ _ _ E1) in Hn. congruence.
  Qed.

  (* ---- histories with graph maintenance events ---- *)
  Lemma sweep_inv st : nodes_have_channels (sweep_nodes (c_own cfg) st).
  Proof.
    intros n nd H. cbn [sweep_nodes s_nodes s_edges] in *.
    apply alookup_filter_some in H. cbn [fst] in H.
    apply orb_true_iff in H. destruct H as [H|H].
    - left. now apply N.eqb_eq.
    - right. now apply has_chan_spec.
  Qed.

  Definition hist_inv (sd : state * bool) : Prop :=
    snd sd = false -> nodes_have_channels (fst sd).

  Lemma ev_step_inv sa i sd e :
    hist_inv sd -> hist_inv (ev_step cfg verify fund expected_script is_alias sa i sd e).
  Proof.
    destruct sd as [st dirty]. unfold hist_inv. cbn [fst snd ev_step]. intros Hinv.
    destruct e as [now peer m|now u|o|].
    - cbn [fst snd]. intros Hd. destruct (step now peer i st m) as [st' outs] eqn:E. cbn [fst].
      eapply step_preserves_inv; [eassumption | now apply Hinv].
    - cbn [fst snd]. intros Hd. destruct (apply_chan_upd now st u) as [st' b] eqn:E. cbn [fst].
      eapply apply_preserves_inv; [eassumption | now apply Hinv].
    - cbn [fst snd]. destruct o as [spent|lo hi|scid z strict|]; cbn [op_sweeps apply_op is_unswept_removal].
      + destruct (sa || op_closes st spent) eqn:Es.
        * intros _. apply sweep_inv.
        * intros Hd. rewrite orb_false_r in Hd. apply orb_false_iff in Es. destruct Es as [_ Ec].
          unfold op_closes in Ec. intros n nd Hn. cbn [drop_edges s_nodes s_edges] in *.
          rewrite (filter_no_match (fun k => smem k spent) _ Ec). exact (Hinv Hd n nd Hn).
      + intros Hd. rewrite orb_true_r in Hd. discriminate.
      + intros Hd. rewrite orb_true_r in Hd. discriminate.
      + intros _. apply sweep_inv.
    - cbn [fst snd]. intros _. unfold restart. apply sweep_inv.
  Qed.

  Lemma run_events_inv sa h : forall sd i,
    hist_inv sd -> hist_inv (run_events cfg verify fund expected_script is_alias sa sd i h).
  Proof.
    induction h as [|e h IH]; intros sd i Hinv; cbn [run_events]; [assumption|].
    apply IH. now apply ev_step_inv.
  Qed.

  Lemma init_hist_inv : hist_inv (init (c_own cfg), false).
  Proof. intros _. apply init_inv. Qed.

  (* accepted node announcement => the node has a known channel, in every state
     reached by a history whose channel removals were all swept *)
  Lemma node_ann_needs_channel sa h st now peer id a st' outs n :
    run_events cfg verify fund expected_script is_alias sa (init (c_own cfg), false) 0 h
      = (st, false) ->
    step now peer id st (MNA a) = (st', outs) ->
    alookup n (s_nodes st') <> alookup n (s_nodes st) ->
    na_node a = n /\
    (exists old, alookup n (s_nodes st) = Some old /\ nd_ts old < na_ts a) /\
    verify n (na_dg a) (na_sig a) = true /\
    (n = c_own cfg \/
     exists scid e, alookup scid (s_edges st) = Some e /\ (e_n1 e = n \/ e_n2 e = n)).
  Proof.
    intros Hrun Hstep Hne.
    pose proof (run_events_inv sa h _ 0 init_hist_inv) as Hinv. rewrite Hrun in Hinv.
    specialize (Hinv eq_refl). cbn [fst] in Hinv.
    destruct (step_node_authentic _ _ _ _ _ _ _ Hstep n Hne)
      as [(a0 & old & Hm & Hnode & Hold & Hts & _ & Hv & _)|(a0 & cap & Hm & _)]; [|discriminate].
    injection Hm as <-. split; [assumption|]. split; [now exists old|]. split; [assumption|].
    exact (Hinv n old Hold).
  Qed.

  Lemma replay_revalidates now peer id st a st' outs :
    step now peer id st (MCA a) = (st', outs) ->
    alookup (ca_scid a) (s_edges st) = None ->
    forall e', alookup (ca_scid a) (s_edges st') = Some e' ->
      map (fun o => fst (fst o)) outs = id :: map pd_id (pending_of st (ca_scid a)) /\
      e_n1 e' = ca_n1 a /\ e_n2 e' = ca_n2 a /\
      forall d, (d = 0 \/ d = 1) -> pol_dir e' d <> None ->
        exists p, In p (pending_of st (ca_scid a)) /\
          cu_scid (pd_upd p) = ca_scid a /\ dir_of (cu_cf (pd_upd p)) = d /\
          cu_chain (pd_upd p) = c_chain cfg /\ cu_ts (pd_upd p) <> 0 /\
          upd_fields_ok (e_cap e') (pd_upd p) = true /\
          verify (if N.eqb d 0 then ca_n1 a else ca_n2 a)
                 (cu_dg (pd_upd p)) (cu_sig (pd_upd p)) = true /\
          pol_dir e' d = Some (pol_of (pd_upd p)).
  Proof.
    intros H Hnone e' He'.
    destruct (step_chan_ann_authentic _ _ _ _ _ _ _ H _ _ Hnone He')
      as (a0 & cap & Hm & _ & _ & Hst).
    injection Hm as <-. destruct Hst as (S1 & S2 & _). cbn [new_edge e_n1 e_n2] in S1, S2.
    split.
    - pose proof H as H0. cbn [Model.step] in H0.
      destruct (handle_chan_ann peer st a) as [[[st1 v] rl] rp] eqn:E1.
      destruct (replay now st1 rp) as [st2 outs2] eqn:E2. inversion H0; subst.
      destruct (ca_char _ _ _ _ _ _ _ E1) as [([Hed _] & _ & Hrp)|(cap0 & _ & _ & _ & _ & _ & Hrp)].
      + destruct (replay_nil_or _ _ _ _ _ E2 Hrp) as [-> _]. rewrite Hed in He'. congruence.
      + cbn [map fst]. f_equal. rewrite <- Hrp. eapply replay_answers; eassumption.
    - split; [congruence|]. split; [congruence|].
      intros d Hd Hp.
      assert (Hne : pol_dir e' d <> old_pol st (ca_scid a) d)
        by (unfold old_pol; now rewrite Hnone).
      destruct (step_update_authentic _ _ _ _ _ _ _ H _ _ _ Hd He' Hne)
        as (u & [Hu|(a1 & p & Ha1 & Hin & Hpu)] & Hs & Hdd & Hc & Hts & Hf & Hv & Hpp & _);
        [discriminate|].
      injection Ha1 as <-. subst u. exists p.
      unfold key_dir in Hv. rewrite <- S1, <- S2 in Hv.
      repeat split; assumption.
  Qed.
End WithOracles.

(* ---- the clause "node announcement only for a node with a known channel" is
   REFUTED inside the window between a channel removal that does not sweep the
   nodes (re-org of the funding block, DeleteChannelEdges) and the next sweep:
   concrete witnesses, replayed on the real code by the harness (history
   templates "reorg"/"delete" x "none"/"block_empty") ---- *)
Definition w_cfg := mkCfg 99 1 1000 false 86400 1209600 10.
Definition w_ver (k d s : N) : bool := N.eqb s (1000 * k + d).
Definition w_scid : N := 1000 * 2 ^ 40 + 2 ^ 16.
Definition w_fund (_ : N) : funding := FTx (Some 7) 1000 UUnspent.
Definition w_script (_ _ : N) (_ : bool) : option N := Some 7.
Definition w_alias (_ : N) : bool := false.
Definition w_ca := mkCA 1 w_scid 1 2 3 4 1050 2050 3050 4050 50 false.
Definition w_na := mkNA 1 7000 1070 70 true.
Definition w_hist_kv : list event :=
  [EMsg 6000 5 (MCA w_ca); EOp (ODisconnect (1000 * 2 ^ 40) (16000000 * 2 ^ 40))].
Definition w_hist_sql : list event := w_hist_kv ++ [EOp (OConnect [])].

Definition channelless_na_applied (sa : bool) (h : list event) : Prop :=
  let sd := run_events w_cfg w_ver w_fund w_script w_alias sa (init 99, false) 0 h in
  let st' := fst (step w_cfg w_ver w_fund w_script w_alias 6000 5 9 (fst sd) (MNA w_na)) in
  snd sd = true /\ s_edges (fst sd) = [] /\ na_node w_na <> c_own w_cfg /\
  alookup (na_node w_na) (s_nodes (fst sd)) = Some shell /\
  alookup (na_node w_na) (s_nodes st') = Some (mkNode (na_ts w_na) (na_sig w_na)).

Lemma window_refuted :
  channelless_na_applied true w_hist_kv /\ channelless_na_applied false w_hist_sql.
Proof. split; vm_compute; repeat split; discriminate. Qed.

(* ---- concurrent updates of one policy slot ---- *)
Lemma cw_atomic_one ts k s log :
  cw_run ts (mkCw s [] log) [CwCheck k; CwWrite k] =
  if N.ltb s (ts k) then mkCw (ts k) [] (log ++ [(s, ts k)]) else mkCw s [] log.
Proof.
  cbn [cw_run fold_left cw_step cw_store cw_passed cw_log].
  destruct (N.ltb s (ts k)); cbn [cw_step cw_store cw_passed cw_log existsb filter].
  - now rewrite Nat.eqb_refl.
  - reflexivity.
Qed.

Lemma cw_atomic_run ts ks : forall s log,
  Forall (fun p => fst p < snd p) log ->
  let r := cw_run ts (mkCw s [] log) (atomic_schedule ks) in
  cw_store r = fold_left N.max (map ts ks) s /\ cw_passed r = [] /\
  Forall (fun p => fst p < snd p) (cw_log r).
Proof.
  induction ks as [|k ks IH]; intros s log Hlog; cbn [atomic_schedule flat_map map fold_left].
  - cbn. repeat split. assumption.
  - change (flat_map (fun k0 => [CwCheck k0; CwWrite k0]) ks) with (atomic_schedule ks).
    unfold cw_run. rewrite fold_left_app. fold (cw_run ts (mkCw s [] log) [CwCheck k; CwWrite k]).
    rewrite cw_atomic_one. destruct (N.ltb s (ts k)) eqn:E.
    + apply N.ltb_lt in E. replace (N.max s (ts k)) with (ts k) by lia.
      apply IH. apply Forall_app. split; [assumption|]. constructor; [exact E | constructor].
    + apply N.ltb_ge in E. replace (N.max s (ts k)) with s by lia. now apply IH.
Qed.

(* witness: store holds 1; update 0 carries timestamp 5, update 1 timestamp 9;
   both checks run before either write, the newer one is written first *)
Definition w_ts (k : nat) : N := match k with O => 5 | _ => 9 end.
Definition w_sched : list cw := [CwCheck 0; CwCheck 1; CwWrite 1; CwWrite 0].

Lemma cw_nonatomic_witness :
  let r := cw_run w_ts (mkCw 1 [] []) w_sched in
  cw_store r = 5 /\ cw_log r = [(1, 9); (9, 5)] /\
  fold_left N.max (map w_ts [0%nat; 1%nat]) 1 = 9.
Proof. vm_compute. repeat split. Qed.
