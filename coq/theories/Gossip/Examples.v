(* Non-vacuity of the C20 theorems: a concrete configuration, concrete oracles
   and a concrete history in which every premise of every theorem is met
   (a channel enters, a parked update is replayed and applied, a direct update
   and a node announcement are applied, forged ones are rejected). *)
From Coq Require Import List NArith Bool.
From LV Require Import Gossip.Model Gossip.Proofs Gossip.Props.
Import ListNotations.
Local Open Scope N_scope.

Definition cfg0 := mkCfg 99 1 1000 false 86400 1209600 10.
(* "signature of key k over digest d" is the number 1000*k + d *)
Definition ver0 (k d s : N) : bool := N.eqb s (1000 * k + d).
Definition X : N := 100 * 2 ^ 40.
Definition fund0 (scid : N) : funding :=
  if N.eqb scid X then FTx (Some 7) 1000 UUnspent else FNotFound.
Definition script0 (b1 b2 : N) (tap : bool) : option N :=
  if N.eqb b1 3 && N.eqb b2 4 then Some 7 else Some 8.
Definition alias0 (_ : N) : bool := false.
Definition step0 := step cfg0 ver0 fund0 script0 alias0.

Definition ca0 := mkCA 1 X 1 2 3 4 1050 2050 3050 4050 50 false.
Definition ca_forged := mkCA 1 X 1 2 3 4 1050 2050 3051 4050 50 false.
Definition cu_early := mkCU 1 X 5000 1 0 40 1000 500000 10 1 0 1061 61.     (* dir 0, signed by node 1 *)
Definition cu_late := mkCU 1 X 5001 1 1 40 1000 500000 10 1 0 2062 62.      (* dir 1, signed by node 2 *)
Definition cu_wrongdir := mkCU 1 X 5002 1 1 40 1000 500000 10 1 0 1063 63.  (* dir 1, signed by node 1 *)
Definition na1 := mkNA 1 7000 1070 70 true.
Definition na_unknown := mkNA 8 7000 8071 71 true.

Definition s0 := init 99.
Definition r1 := step0 6000 5 0 s0 (MCU cu_early).           (* parked *)
Definition r2 := step0 6000 5 1 (fst r1) (MCA ca0).         (* enters, replays cu_early *)
Definition r3 := step0 6000 5 2 (fst r2) (MCU cu_late).
Definition r4 := step0 6000 5 3 (fst r3) (MNA na1).
Definition r5 := step0 6000 5 4 (fst r4) (MCU cu_wrongdir).
Definition r6 := step0 6000 5 5 (fst r4) (MNA na_unknown).
Definition rf := step0 6000 5 0 s0 (MCA ca_forged).

Example ex_parked : snd r1 = [(0, VPending, false)] /\ s_edges (fst r1) = [].
Proof. vm_compute. split; reflexivity. Qed.

Example ex_enters_and_replays :
  snd r2 = [(1, VOk, true); (0, VOk, true)] /\
  alookup X (s_edges (fst r2)) =
    Some (mkEdge 1 2 3 4 1000 true (Some (pol_of cu_early)) None) /\
  s_nodes (fst r2) = [(1, shell); (2, shell); (99, shell)].
Proof. vm_compute. repeat split; reflexivity. Qed.

Example ex_update_applied :
  snd r3 = [(2, VOk, true)] /\
  alookup X (s_edges (fst r3)) =
    Some (mkEdge 1 2 3 4 1000 true (Some (pol_of cu_early)) (Some (pol_of cu_late))).
Proof. vm_compute. split; reflexivity. Qed.

Example ex_node_applied :
  snd r4 = [(3, VOk, true)] /\ alookup 1 (s_nodes (fst r4)) = Some (mkNode 7000 1070).
Proof. vm_compute. split; reflexivity. Qed.

Example ex_wrong_direction_signer_rejected :
  snd r5 = [(4, VErr ECuInvalid, false)] /\ s_edges (fst r5) = s_edges (fst r4).
Proof. vm_compute. split; reflexivity. Qed.

Example ex_unknown_node_ignored :
  snd r6 = [(5, VOk, false)] /\ s_nodes (fst r6) = s_nodes (fst r4).
Proof. vm_compute. split; reflexivity. Qed.

Example ex_forged_rejected :
  snd rf = [(0, VErr ECaInvalid, false)] /\ s_edges (fst rf) = [] /\ s_nodes (fst rf) = s_nodes s0.
Proof. vm_compute. repeat split; reflexivity. Qed.

(* the premises of the theorems are met by these runs *)
Example ex_premise_chan_ann :
  alookup X (s_edges (fst r1)) = None /\ exists e, alookup X (s_edges (fst r2)) = Some e.
Proof. vm_compute. split; [reflexivity | eexists; reflexivity]. Qed.

Example ex_premise_update :
  exists e', alookup X (s_edges (fst r3)) = Some e' /\ pol_dir e' 1 <> old_pol (fst r2) X 1.
Proof. vm_compute. eexists. split; [reflexivity | discriminate]. Qed.

Example ex_premise_node : alookup 1 (s_nodes (fst r4)) <> alookup 1 (s_nodes (fst r3)).
Proof. vm_compute. discriminate. Qed.

Example ex_premise_replay :
  pending_of (fst r1) X = [mkPend 0 5 cu_early] /\
  exists e', alookup X (s_edges (fst r2)) = Some e' /\ pol_dir e' 0 <> None.
Proof. vm_compute. split; [reflexivity | eexists; split; [reflexivity | discriminate]]. Qed.

(* and the conclusions are the expected non-trivial facts, e.g. theorem 1
   applied to r2 yields the four signature facts of ca0 *)
Example ex_use_theorem :
  exists a cap, MCA ca0 = MCA a /\ ver0 (ca_b1 a) (ca_dg a) (ca_bs1 a) = true /\ cap = 1000.
Proof.
  destruct (C20_chan_ann_authentic cfg0 ver0 fund0 script0 alias0 6000 5 1 (fst r1) (MCA ca0)
              (fst r2) (snd r2) (surjective_pairing _) X
              (mkEdge 1 2 3 4 1000 true (Some (pol_of cu_early)) None)
              eq_refl eq_refl)
    as (a & cap & Hm & _ & _ & _ & _ & _ & Hv & _ & _ & _ & _ & _ & _ & _ & _ & Hcap & _).
  exists a, cap. repeat split; try assumption. now rewrite <- Hcap.
Qed.

(* ---- histories with graph maintenance events ---- *)
Definition lo1000 : N := 1000 * 2 ^ 40.
Definition hi_alias : N := 16000000 * 2 ^ 40.
Definition runE (sa : bool) := run_events cfg0 ver0 fund0 script0 alias0 sa (init 99, false) 0.

(* channel enters, node 1 announces itself; a block that closes nothing: both
   stores keep everything, the history is clean (dirty = false) and the premise
   of C20_node_ann_needs_channel is met by a further announcement *)
Definition h_clean : list event :=
  [EMsg 6000 5 (MCA ca0); EMsg 6000 5 (MNA na1); EOp (OConnect [])].
Definition na1b := mkNA 1 7001 1072 72 true.
Example ex_hist_clean :
  snd (runE true h_clean) = false /\ snd (runE false h_clean) = false /\
  alookup 1 (s_nodes (fst (step0 6000 5 9 (fst (runE true h_clean)) (MNA na1b))))
    = Some (mkNode 7001 1072).
Proof. vm_compute. repeat split; reflexivity. Qed.

(* the block spends the funding output: the channel and both endpoints go (the
   store sweeps in the same transaction), in both stores; still clean *)
Example ex_hist_spend :
  fst (runE true (h_clean ++ [EOp (OConnect [X])])) = init 99 /\
  fst (runE false (h_clean ++ [EOp (OConnect [X])])) = init 99 /\
  snd (runE false (h_clean ++ [EOp (OConnect [X])])) = false.
Proof. vm_compute. repeat split; reflexivity. Qed.

(* re-org of the funding block: the nodes linger (dirty); the next block sweeps
   them in the KV store but not in the SQL store; a restart sweeps in both *)
Definition h_reorg := h_clean ++ [EOp (ODisconnect 0 hi_alias)].
Example ex_hist_reorg :
  runE true h_reorg = (mkSt [] [(1, mkNode 7000 1070); (2, shell); (99, shell)] [] [] [] [] [] [], true) /\
  runE true (h_reorg ++ [EOp (OConnect [])]) = (init 99, false) /\
  snd (runE false (h_reorg ++ [EOp (OConnect [])])) = true /\
  s_nodes (fst (runE false (h_reorg ++ [EOp (OConnect [])]))) =
    [(1, mkNode 7000 1070); (2, shell); (99, shell)] /\
  runE false (h_reorg ++ [EOp (OConnect []); ERestart]) = (init 99, false).
Proof. vm_compute. repeat split; reflexivity. Qed.

(* strict zombie pruning with edge 2 missing: only node 2 may resurrect.  The
   wrong-direction signer (node 1 signing a direction-1 update) is refused, the
   owner's update removes the entry and is parked: premises and conclusions of
   C20_zombie_resurrection_authentic are met non-trivially *)
Definition cu_d0 := mkCU 1 X 5000 1 0 40 1000 500000 10 1 0 1061 61.
Definition st_z :=
  apply_op true 99
    (fst (runE true [EMsg 6000 5 (MCA ca0); EMsg 6000 5 (MCU cu_d0)]))
    (ODelete X true true).
Example ex_zombie_keys : alookup X (s_zombies st_z) = Some (0, 2) /\ s_edges st_z = [].
Proof. vm_compute. split; reflexivity. Qed.

Example ex_zombie_wrong_signer_refused :
  snd (step0 6000 5 7 st_z (MCU cu_wrongdir)) = [(7, VErr EZombieSig, false)] /\
  s_zombies (fst (step0 6000 5 7 st_z (MCU cu_wrongdir))) = s_zombies st_z.
Proof. vm_compute. split; reflexivity. Qed.

Example ex_zombie_owner_resurrects :
  snd (step0 6000 5 7 st_z (MCU cu_late)) = [(7, VPending, false)] /\
  alookup X (s_zombies (fst (step0 6000 5 7 st_z (MCU cu_late)))) = None.
Proof. vm_compute. split; reflexivity. Qed.

Example ex_zombie_dir0_blank_refused :
  snd (step0 6000 5 7 st_z (MCU (mkCU 1 X 5003 1 0 40 1000 500000 10 1 0 1064 64))) =
    [(7, VErr EZombieKey, false)].
Proof. vm_compute. reflexivity. Qed.

(* ---- the second entry point ---- *)
Definition st_a := fst (runE true [EMsg 6000 5 (MCA ca0); EMsg 6000 5 (MCU cu_d0)]).
Definition cu_d0_newer := mkCU 7 X 5005 1 0 40 1000 500000 11 1 0 1065 65.   (* foreign chain hash: not checked here *)
Definition cu_d0_older := mkCU 1 X 4999 1 0 40 1000 500000 12 1 0 1066 66.
Definition cu_d0_forged := mkCU 1 X 5009 1 0 40 1000 500000 13 1 0 2067 67.  (* signed by node 2 *)
Example ex_apply_newer_applied :
  snd (apply_chan_upd ver0 6000 st_a cu_d0_newer) = true /\
  alookup X (s_edges (fst (apply_chan_upd ver0 6000 st_a cu_d0_newer))) =
    Some (mkEdge 1 2 3 4 1000 true (Some (pol_of cu_d0_newer)) None).
Proof. vm_compute. split; reflexivity. Qed.
Example ex_apply_older_and_forged_leave_graph :
  apply_chan_upd ver0 6000 st_a cu_d0_older = (st_a, true) /\
  apply_chan_upd ver0 6000 st_a cu_d0_forged = (st_a, false) /\
  apply_chan_upd ver0 6000 (init 99) cu_d0 = (init 99, false).
Proof. vm_compute. repeat split; reflexivity. Qed.

(* three updates (timestamps 5, 9, 7) taking the mutex in two different orders *)
Definition ts3 (k : nat) : N := match k with O => 5 | S O => 9 | _ => 7 end.
Example ex_atomic_orders :
  cw_store (cw_run ts3 (mkCw 1 [] []) (atomic_schedule [0; 1; 2]%nat)) = 9 /\
  cw_store (cw_run ts3 (mkCw 1 [] []) (atomic_schedule [1; 2; 0]%nat)) = 9 /\
  cw_log (cw_run ts3 (mkCw 1 [] []) (atomic_schedule [2; 0; 1]%nat)) = [(1, 7); (7, 9)].
Proof. vm_compute. repeat split; reflexivity. Qed.
