(* C20 property theorems.  Statements only; proofs are in Proofs.v.
   Everything is quantified over ALL configurations, ALL oracles
     verify : key -> digest -> sig -> bool     (signature check incl. parsing)
     fund   : scid -> funding                  (what the chain backend answers)
     script : btckey -> btckey -> taproot? -> option pkScript   (2-of-2 constructor)
     is_alias : scid -> bool
   ALL gossiper states [st] (graph, zombie index, reject cache, premature
   cache, rate limiters, ban scores) and ALL messages: no hypothesis is placed
   on the oracles, so the conclusions say exactly which oracle answers the
   code must have obtained before the graph may change.
   [step now peer id st m = (st', outs)]: one message from the network;
   outs = (message id, verdict on its future, handed to the broadcast batch?)
   for the message and for every premature update replayed because of it. *)
From Coq Require Import List NArith Bool.
From LV Require Import Gossip.Model Gossip.Proofs.
Import ListNotations.
Local Open Scope N_scope.

(* A channel that was not in the graph is there after the step only if the
   message is a channel announcement for exactly that scid, not for one of our
   own channels, on our chain, not an alias, all FOUR signatures verify over
   the announcement digest under the stated bitcoin and node keys, and (unless
   AssumeChannelValid) the chain returned an UNSPENT output whose script equals
   the 2-of-2 script of the two stated bitcoin keys; the stored edge carries
   exactly the announced keys and the output's value as capacity. *)
Theorem C20_chan_ann_authentic :
  forall cfg verify fund script is_alias now peer id st m st' outs,
    step cfg verify fund script is_alias now peer id st m = (st', outs) ->
    forall scid e',
      alookup scid (s_edges st) = None -> alookup scid (s_edges st') = Some e' ->
      exists a cap,
        m = MCA a /\ ca_scid a = scid /\
        ca_n1 a <> c_own cfg /\ ca_n2 a <> c_own cfg /\
        ca_chain a = c_chain cfg /\ is_alias scid = false /\
        verify (ca_b1 a) (ca_dg a) (ca_bs1 a) = true /\
        verify (ca_b2 a) (ca_dg a) (ca_bs2 a) = true /\
        verify (ca_n1 a) (ca_dg a) (ca_ns1 a) = true /\
        verify (ca_n2 a) (ca_dg a) (ca_ns2 a) = true /\
        (c_assume_valid cfg = false ->
         exists s, fund scid = FTx (Some s) cap UUnspent /\
                   script (ca_b1 a) (ca_b2 a) (ca_tap a) = Some s) /\
        e_n1 e' = ca_n1 a /\ e_n2 e' = ca_n2 a /\ e_b1 e' = ca_b1 a /\ e_b2 e' = ca_b2 a /\
        e_cap e' = cap /\ e_proof e' = true.
Proof.
  intros cfg verify fund script is_alias now peer id st m st' outs H scid e' Hn He'.
  destruct (step_chan_ann_authentic _ _ _ _ _ _ _ _ _ _ _ _ H scid e' Hn He')
    as (a & cap & Hm & Hs & Hval & Hst).
  exists a, cap. subst scid.
  destruct Hval as (V1 & V2 & V3 & V4 & _ & V6 & V7 & V8 & V9 & V10).
  destruct Hst as (S1 & S2 & S3 & S4 & S5 & S6). cbn in S1, S2, S3, S4, S5, S6.
  repeat split; try assumption; try (symmetry; assumption).
Qed.

(* A directional policy differs after the step from what it was before (or
   exists on a channel that just entered) only if it is the content of a
   channel update [u] — the message itself, or one that was waiting in the
   premature cache of the announced channel — for that channel and direction,
   on our chain, with a non-zero timestamp STRICTLY newer than the stored one,
   consistent fields w.r.t. the channel capacity (max-htlc flag, 0 < max,
   min <= max, max <= capacity), and a signature that verifies under the node
   key the direction bit selects in the STORED channel. *)
Theorem C20_update_authentic :
  forall cfg verify fund script is_alias now peer id st m st' outs,
    step cfg verify fund script is_alias now peer id st m = (st', outs) ->
    forall scid e' d,
      (d = 0 \/ d = 1) -> alookup scid (s_edges st') = Some e' ->
      pol_dir e' d <> old_pol st scid d ->
      exists u,
        (m = MCU u \/
         exists a p, m = MCA a /\ In p (pending_of st (ca_scid a)) /\ pd_upd p = u) /\
        cu_scid u = scid /\ dir_of (cu_cf u) = d /\
        cu_chain u = c_chain cfg /\ cu_ts u <> 0 /\
        upd_fields_ok (e_cap e') u = true /\
        verify (key_dir e' d) (cu_dg u) (cu_sig u) = true /\
        pol_dir e' d = Some (pol_of u) /\
        match old_pol st scid d with Some o => p_ts o < cu_ts u | None => True end.
Proof.
  intros cfg verify fund script is_alias now peer id st m st' outs H scid e' d Hd He' Hne.
  destruct (step_update_authentic _ _ _ _ _ _ _ _ _ _ _ _ H scid e' d Hd He' Hne)
    as (u & Hsrc & Hs & Hok).
  exists u. split; [exact Hsrc|]. split; [exact Hs|]. exact Hok.
Qed.

(* A node record differs after the step only if (a) the message is a node
   announcement of that very node, the node is already known, the timestamp is
   strictly newer than the stored one, the signature verifies under the node's
   own key (and the address fields are well-formed); or (b) the node did not
   exist and enters as an empty shell because it is an endpoint of a channel
   announcement that passed the full validation in this step. *)
Theorem C20_node_authentic :
  forall cfg verify fund script is_alias now peer id st m st' outs,
    step cfg verify fund script is_alias now peer id st m = (st', outs) ->
    forall n, alookup n (s_nodes st') <> alookup n (s_nodes st) ->
      (exists a old, m = MNA a /\ na_node a = n /\
                     alookup n (s_nodes st) = Some old /\ nd_ts old < na_ts a /\
                     na_fields_ok a = true /\
                     verify n (na_dg a) (na_sig a) = true /\
                     alookup n (s_nodes st') = Some (mkNode (na_ts a) (na_sig a))) \/
      (exists a cap, m = MCA a /\ ca_valid cfg verify fund script is_alias st a cap /\
                     (n = ca_n1 a \/ n = ca_n2 a) /\
                     alookup n (s_nodes st) = None /\ alookup n (s_nodes st') = Some shell /\
                     exists e', alookup (ca_scid a) (s_edges st') = Some e' /\
                                same_static (new_edge a cap) e').
Proof. intros. eapply step_node_authentic; eassumption. Qed.

(* "the node has a known channel", over ALL histories of the real event set:
   gossip messages from the network, blocks connected to the graph Builder
   (spending any set of funding outputs: PruneGraph), blocks disconnected by a
   re-org (DisconnectBlockAtHeight), explicit channel deletions with or without
   zombie marking (DeleteChannelEdges), node sweeps (PruneGraphNodes) and
   restarts of lnd, for both graph stores ([sweep_always]: KVStore sweeps the
   unconnected nodes after every connected block, SQLStore only when the block
   closed a known channel).  [run_events] carries a flag [dirty] = "a channel
   was removed by a re-org or an explicit deletion and no sweep (sweeping block
   connect, PruneGraphNodes, restart) has happened since".  Starting from the
   empty graph, in every reachable state with [dirty = false] every stored
   node other than ourselves is an endpoint of a stored channel. *)
Theorem C20_nodes_have_channels :
  forall cfg verify fund script is_alias sweep_always (h : list event) st dirty n nd,
    run_events cfg verify fund script is_alias sweep_always (init (c_own cfg), false) 0 h
      = (st, dirty) ->
    dirty = false ->
    alookup n (s_nodes st) = Some nd ->
    n = c_own cfg \/
    exists scid e, alookup scid (s_edges st) = Some e /\ (e_n1 e = n \/ e_n2 e = n).
Proof.
  intros cfg verify fund script is_alias sa h st dirty n nd Hrun Hd.
  pose proof (run_events_inv cfg verify fund script is_alias sa h _ 0
                (init_hist_inv cfg)) as Hinv.
  rewrite Hrun in Hinv. exact (Hinv Hd n nd).
Qed.

(* accepted node announcement => the node has a known channel: in every state
   reached by such a history (with every unswept removal followed by a sweep),
   a node announcement changes the record of node [n] only if it is [n]'s own
   announcement, strictly newer than the stored one, signed by [n], and [n] is
   ourselves or an endpoint of a channel stored AT THAT MOMENT. *)
Theorem C20_node_ann_needs_channel :
  forall cfg verify fund script is_alias sweep_always (h : list event) st
         now peer id a st' outs n,
    run_events cfg verify fund script is_alias sweep_always (init (c_own cfg), false) 0 h
      = (st, false) ->
    step cfg verify fund script is_alias now peer id st (MNA a) = (st', outs) ->
    alookup n (s_nodes st') <> alookup n (s_nodes st) ->
    na_node a = n /\
    (exists old, alookup n (s_nodes st) = Some old /\ nd_ts old < na_ts a) /\
    verify n (na_dg a) (na_sig a) = true /\
    (n = c_own cfg \/
     exists scid e, alookup scid (s_edges st) = Some e /\ (e_n1 e = n \/ e_n2 e = n)).
Proof. intros. eapply node_ann_needs_channel; eassumption. Qed.

(* ... and the clause does NOT hold inside the window ([dirty = true]): the
   faithful model REFUTES it.  Witness 1 (both stores): a channel enters, its
   funding block is re-orged out (DisconnectBlockAtHeight does not sweep), a
   newer valid node announcement of an endpoint arrives -> applied although
   the graph holds no channel at all.  Witness 2 (SQLStore, sweep_always =
   false): the same with a connected block that closes no known channel in
   between.  The harness replays both on the real code (history templates
   reorg x none / block_empty); see notes/C20.md "orphan window". *)
Theorem C20_node_ann_channelless_window_refuted :
  channelless_na_applied true w_hist_kv /\ channelless_na_applied false w_hist_sql.
Proof. exact window_refuted. Qed.

(* Zombie channels.  (1) A zombie-index entry [ks] that is gone after a message
   step was removed by a channel update [u] (the message, or a parked update
   replayed by an accepted announcement) for exactly that scid, on our chain,
   with a non-zero timestamp, for whose direction a NON-BLANK key is stored in
   [ks] and whose signature verifies under that stored key.  (2) The keys
   DeleteChannelEdges(markZombie) stores are, per direction, blank or the key
   of the node that owns that direction in the deleted channel (never the
   other party's), at least one direction keeps its owner, and the channel is
   gone.  Together: a deleted channel is resurrected only by an update signed
   by the node owning the update's direction. *)
Theorem C20_zombie_resurrection_authentic :
  (forall cfg verify fund script is_alias now peer id st m st' outs,
     step cfg verify fund script is_alias now peer id st m = (st', outs) ->
     forall scid ks, alookup scid (s_zombies st) = Some ks ->
       alookup scid (s_zombies st') = None ->
       exists u, (m = MCU u \/
                  exists a p, m = MCA a /\ In p (pending_of st (ca_scid a)) /\ pd_upd p = u) /\
                 cu_scid u = scid /\ cu_chain u = c_chain cfg /\ cu_ts u <> 0 /\
                 (if N.eqb (dir_of (cu_cf u)) 0 then fst ks else snd ks) <> 0 /\
                 verify (if N.eqb (dir_of (cu_cf u)) 0 then fst ks else snd ks)
                        (cu_dg u) (cu_sig u) = true) /\
  (forall sweep_always own st scid strict e,
     alookup scid (s_edges st) = Some e ->
     exists k1 k2,
       alookup scid (s_zombies (apply_op sweep_always own st (ODelete scid true strict)))
         = Some (k1, k2) /\
       (k1 = 0 \/ k1 = e_n1 e) /\ (k2 = 0 \/ k2 = e_n2 e) /\ (k1 = e_n1 e \/ k2 = e_n2 e) /\
       alookup scid (s_edges (apply_op sweep_always own st (ODelete scid true strict))) = None).
Proof.
  split.
  - intros cfg verify fund script is_alias now peer id st m st' outs H scid ks Hz Hn.
    destruct (step_zombie_authentic _ _ _ _ _ _ _ _ _ _ _ _ H scid ks Hz Hn)
      as (u & Hsrc & Hs & Hk & Hv & Hc & Ht).
    exists u. repeat split; assumption.
  - intros. now apply delete_zombie_keys.
Qed.

(* Anything else leaves the graph unchanged and is not relayed:
   (1) whatever is relayed was accepted (verdict nil);
   (2) if the message is rejected with an error, channels and nodes are exactly
       as before, it is not relayed and nothing else happens in the step;
   (3) if channels and nodes are exactly as before, nothing at all was
       relayed. *)
Theorem C20_unchanged_not_relayed :
  forall cfg verify fund script is_alias now peer id st m st' outs,
    step cfg verify fund script is_alias now peer id st m = (st', outs) ->
    (forall i v r, In (i, v, r) outs -> r = true -> v = VOk) /\
    (forall c r rest, outs = (id, VErr c, r) :: rest ->
       s_edges st' = s_edges st /\ s_nodes st' = s_nodes st /\ r = false /\ rest = []) /\
    (s_edges st' = s_edges st -> s_nodes st' = s_nodes st ->
     forall i v r, In (i, v, r) outs -> r = false).
Proof.
  intros cfg verify fund script is_alias now peer id st m st' outs H. split; [|split].
  - eapply step_relay_ok; eassumption.
  - intros c r rest Ho.
    destruct (step_rejected_unchanged _ _ _ _ _ _ _ _ _ _ _ _ _ _ _ H Ho) as ([He Hn] & Hr & Hrest).
    repeat split; assumption.
  - intros He Hn. eapply step_unchanged_not_relayed; [eassumption | split; assumption].
Qed.

(* An update that arrives before its channel:
   (1) is parked: channels and nodes unchanged, nothing relayed;
   (2) when a channel announcement is accepted, every update parked for it is
       answered in that step (replayed exactly once, in order);
   (3) whatever policy the freshly entered channel carries after the step is
       the content of one of the parked updates, and that update passed the
       FULL validation against the channel just announced: signature under the
       announced node key selected by its direction bit, fields consistent
       with the capacity read from the chain, our chain, non-zero timestamp. *)
Theorem C20_premature_replay_revalidates :
  forall cfg verify fund script is_alias now peer id st,
    (forall u st' r,
        handle_chan_upd cfg verify is_alias now peer id st u = (st', VPending, r) ->
        s_edges st' = s_edges st /\ s_nodes st' = s_nodes st /\ r = false) /\
    (forall a st' outs,
        step cfg verify fund script is_alias now peer id st (MCA a) = (st', outs) ->
        alookup (ca_scid a) (s_edges st) = None ->
        forall e', alookup (ca_scid a) (s_edges st') = Some e' ->
          map (fun o => fst (fst o)) outs = id :: map pd_id (pending_of st (ca_scid a)) /\
          e_n1 e' = ca_n1 a /\ e_n2 e' = ca_n2 a /\
          forall d, (d = 0 \/ d = 1) -> pol_dir e' d <> None ->
            exists p, In p (pending_of st (ca_scid a)) /\
              cu_scid (pd_upd p) = ca_scid a /\ dir_of (cu_cf (pd_upd p)) = d /\
              cu_chain (pd_upd p) = c_chain cfg /\ cu_ts (pd_upd p) <> 0 /\
              upd_fields_ok (e_cap e') (pd_upd p) = true /\
              verify (if N.eqb d 0 then ca_n1 a else ca_n2 a)
                     (cu_dg (pd_upd p)) (cu_sig (pd_upd p)) = true /\
              pol_dir e' d = Some (pol_of (pd_upd p))).
Proof.
  intros cfg verify fund script is_alias now peer id st. split.
  - intros u st' r H.
    destruct (upd_char _ _ _ _ _ _ _ _ _ _ _ H) as [[[He Hn] Hr]|(e & _ & _ & _ & _ & Hv)];
      [repeat split; assumption | discriminate].
  - intros a st' outs H Hnone e' He'.
    exact (replay_revalidates _ _ _ _ _ _ _ _ _ _ _ _ H Hnone e' He').
Qed.

(* The SECOND entry point for channel updates, Builder.ApplyChannelUpdate
   (updates carried in onion failure messages of payment attempts): nodes and
   zombie index are untouched, no channel appears or disappears or changes its
   static fields, and a directional policy that differs afterwards is the
   content of that very update — for that channel and direction, with
   consistent fields w.r.t. the capacity, signed by the node key the direction
   bit selects in the stored channel, and STRICTLY newer than the stored one.
   (This path checks neither chain hash nor zero timestamps; the property text
   does not ask for them.) *)
Theorem C20_apply_update_authentic :
  forall verify now st u st' b,
    apply_chan_upd verify now st u = (st', b) ->
    s_nodes st' = s_nodes st /\ s_zombies st' = s_zombies st /\
    (forall k, match alookup k (s_edges st), alookup k (s_edges st') with
               | None, None => True
               | Some e, Some e' => same_static e e'
               | _, _ => False
               end) /\
    forall scid e' d, (d = 0 \/ d = 1) -> alookup scid (s_edges st') = Some e' ->
      pol_dir e' d <> old_pol st scid d ->
      scid = cu_scid u /\ d = dir_of (cu_cf u) /\
      upd_fields_ok (e_cap e') u = true /\
      verify (key_dir e' d) (cu_dg u) (cu_sig u) = true /\
      pol_dir e' d = Some (pol_of u) /\
      match old_pol st scid d with Some o => p_ts o < cu_ts u | None => True end.
Proof. intros. eapply apply_authentic; eassumption. Qed.

(* Concurrent updates of one channel direction through either entry point.
   Each update k performs a CHECK against the stored timestamp and, if it
   passed, a WRITE.  UNDER THE PER-CHANNEL MUTEX (check and write of an update
   adjacent: [atomic_schedule]) and for ANY order in which any number of updates
   get the mutex: the store ends with the maximum of its initial timestamp and
   all update timestamps ("the newest accepted update wins"), no update is left
   half-done, and every write was strictly newer than what the store held when
   it was performed. *)
Theorem C20_atomic_updates_keep_max :
  forall (ts : nat -> N) (ks : list nat) (s0 : N),
    let r := cw_run ts (mkCw s0 [] []) (atomic_schedule ks) in
    cw_store r = fold_left N.max (map ts ks) s0 /\ cw_passed r = [] /\
    Forall (fun p => fst p < snd p) (cw_log r).
Proof. intros ts ks s0. apply cw_atomic_run. constructor. Qed.

(* ... and WITHOUT that atomicity the clause "applied only if strictly newer
   than the stored one" fails: both checks pass against the old timestamp 1,
   the newer update (9) is written first, the older one (5) on top of it: the
   store ends with 5 < 9 and the log shows the write 9 -> 5.  The harness'
   deterministic interleaving scenarios (an update held at the store boundary
   between its check and its write) look for exactly this on the real code. *)
Theorem C20_nonatomic_updates_refuted :
  let r := cw_run w_ts (mkCw 1 [] []) w_sched in
  cw_store r = 5 /\ cw_log r = [(1, 9); (9, 5)] /\
  fold_left N.max (map w_ts [0%nat; 1%nat]) 1 = 9.
Proof. exact cw_nonatomic_witness. Qed.
