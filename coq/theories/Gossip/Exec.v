(* C20 trace checker for the correspondence run.  The Go harness records, per
   message handed to the real gossiper: the abstract message, the verdict on
   the ProcessRemoteAnnouncement future, the verdicts of premature updates
   resolved by that message, the graph contents afterwards and the ban scores;
   per case the oracle tables (signature verification recomputed with btcec,
   chain answers, expected funding scripts) and how often each message content
   reached cfg.Broadcast.  The model is run on the same inputs with the
   oracles instantiated by those tables and must agree on everything. *)
From Coq Require Import List NArith Bool.
From LV Require Import Gossip.Model.
Import ListNotations.
Local Open Scope N_scope.

(* ---- oracle tables ---- *)
Definition tverify (tab : list (N * N * N)) (k d s : N) : bool :=
  existsb (fun x => match x with (k', d', s') => N.eqb k k' && N.eqb d d' && N.eqb s s' end) tab.

Definition tscript (tab : list (N * N * bool * option N)) (b1 b2 : N) (tap : bool) : option N :=
  match find (fun x => match x with (k1, k2, t, _) => N.eqb k1 b1 && N.eqb k2 b2 && Bool.eqb t tap end) tab with
  | Some (_, _, _, r) => r
  | None => None
  end.

Definition talias (start : N) (scid : N) : bool := N.leb start (height_of scid).

(* ---- decidable equalities on the projected graph ---- *)
Definition opt_eqb {A} (f : A -> A -> bool) (a b : option A) : bool :=
  match a, b with
  | None, None => true
  | Some x, Some y => f x y
  | _, _ => false
  end.

Fixpoint list_eqb {A} (f : A -> A -> bool) (a b : list A) : bool :=
  match a, b with
  | [], [] => true
  | x :: a', y :: b' => f x y && list_eqb f a' b'
  | _, _ => false
  end.

Definition pol_eqb (a b : policy) : bool :=
  N.eqb (p_ts a) (p_ts b) && N.eqb (p_mf a) (p_mf b) && N.eqb (p_cf a) (p_cf b) &&
  N.eqb (p_tld a) (p_tld b) && N.eqb (p_min a) (p_min b) && N.eqb (p_max a) (p_max b) &&
  N.eqb (p_base a) (p_base b) && N.eqb (p_rate a) (p_rate b) &&
  N.eqb (p_extra a) (p_extra b) && N.eqb (p_sig a) (p_sig b).

Definition edge_eqb (a b : edge) : bool :=
  N.eqb (e_n1 a) (e_n1 b) && N.eqb (e_n2 a) (e_n2 b) &&
  N.eqb (e_b1 a) (e_b1 b) && N.eqb (e_b2 a) (e_b2 b) &&
  N.eqb (e_cap a) (e_cap b) && Bool.eqb (e_proof a) (e_proof b) &&
  opt_eqb pol_eqb (e_p1 a) (e_p1 b) && opt_eqb pol_eqb (e_p2 a) (e_p2 b).

Definition node_eqb (a b : node) : bool :=
  N.eqb (nd_ts a) (nd_ts b) && N.eqb (nd_sig a) (nd_sig b).

Definition kv_eqb {A} (f : A -> A -> bool) (a b : N * A) : bool :=
  N.eqb (fst a) (fst b) && f (snd a) (snd b).

(* observed graph: channels, nodes, zombie scids, closed scids (all sorted) *)
Record snap := mkSnap {
  sn_edges : list (N * edge); sn_nodes : list (N * node);
  sn_zombies : list (N * (N * N));     (* zombie index entries WITH the stored node keys *)
  sn_closed : list N }.

Definition zkeys_eqb (a b : N * N) : bool := N.eqb (fst a) (fst b) && N.eqb (snd a) (snd b).

Definition snap_matches (st : state) (s : snap) : bool :=
  list_eqb (kv_eqb edge_eqb) (s_edges st) (sn_edges s) &&
  list_eqb (kv_eqb node_eqb) (s_nodes st) (sn_nodes s) &&
  list_eqb (kv_eqb zkeys_eqb) (s_zombies st) (sn_zombies s) &&
  list_eqb N.eqb (s_closed st) (sn_closed s).

Definition errc_eqb (a b : errc) : bool :=
  match a, b with
  | EOwn, EOwn | ERejected, ERejected | EChain, EChain | EAlias, EAlias
  | EClosed, EClosed | ECaInvalid, ECaInvalid | ENoFund, ENoFund | EBadOut, EBadOut
  | ESpent, ESpent | EOther, EOther | EZeroTs, EZeroTs | ESkew, ESkew
  | EZombieKey, EZombieKey | EZombieSig, EZombieSig | ECuInvalid, ECuInvalid
  | ENaInvalid, ENaInvalid | EOutdated, EOutdated | EIgnored, EIgnored => true
  | _, _ => false
  end.

Definition verdict_eqb (a b : verdict) : bool :=
  match a, b with
  | VOk, VOk | VPending, VPending => true
  | VErr x, VErr y => errc_eqb x y
  | _, _ => false
  end.

(* ---- a recorded case ---- *)
Record tstep := mkStep {
  t_restart : bool;                     (* lnd was restarted before this message *)
  t_now : N; t_peer : N; t_cid : N;     (* content id of the message bytes *)
  t_op : option gop;                    (* a graph maintenance event instead of a message *)
  t_apply : bool;                       (* the update arrived through Builder.ApplyChannelUpdate *)
  t_nosnap : bool;                      (* no snapshot exists after this step (first of a concurrent pair) *)
  t_fund : funding;                     (* what the chain answers for the announced scid NOW *)
  t_best : N;                           (* best block height the gossiper works with NOW *)
  t_msg : msg;
  t_res : verdict;                      (* verdict on this message's future *)
  t_resolved : list (N * verdict);      (* earlier pending updates resolved now, by step id *)
  t_snap : snap;
  t_bans : list (N * N) }.              (* (peer, score) for the peers of the case *)

Record tcase := mkCase {
  k_cfg : config; k_alias_start : N;
  k_sweep_always : bool;                (* graph store: bbolt true, sqlite false *)
  k_verify : list (N * N * N);
  k_script : list (N * N * bool * option N);
  k_steps : list tstep;
  k_bcast : list (N * N) }.             (* content id -> times handed to Broadcast *)

(* the chain moves during a case (blocks connected, re-orged, outputs spent):
   the funding oracle of a step is the answer recorded for that step, and the
   gossiper's best height is the one it had at that step (it re-reads the
   chain tip at every restart) *)
Definition with_best (cfg : config) (b : N) : config :=
  mkCfg (c_own cfg) (c_chain cfg) b (c_assume_valid cfg) (c_rebroadcast cfg) (c_prune cfg)
        (c_burst cfg).

Definition mstep (c : tcase) (t : tstep) :=
  step (with_best (k_cfg c) (t_best t)) (tverify (k_verify c)) (fun _ => t_fund t) (tscript (k_script c))
       (talias (k_alias_start c)).

Fixpoint insert_sorted (x : N * verdict) (l : list (N * verdict)) : list (N * verdict) :=
  match l with
  | [] => [x]
  | y :: r => if N.leb (fst x) (fst y) then x :: l else y :: insert_sorted x r
  end.
Definition sort_res (l : list (N * verdict)) : list (N * verdict) :=
  fold_right insert_sorted [] l.

Definition res_eqb (a b : N * verdict) : bool :=
  N.eqb (fst a) (fst b) && verdict_eqb (snd a) (snd b).

Definition bans_match (st : state) (obs : list (N * N)) : bool :=
  forallb (fun x => N.eqb (match alookup (fst x) (s_bans st) with Some n => n | None => 0 end)
                          (snd x)) obs.

Definition bump (k : N) (l : list (N * N)) : list (N * N) :=
  ainsert k (match alookup k l with Some n => n + 1 | None => 1 end) l.

(* relays the model predicts, counted per content id; cids maps step id -> content id *)
Fixpoint count_relays (cids : list (N * N)) (outs : list (N * verdict * bool))
         (acc : list (N * N)) : list (N * N) :=
  match outs with
  | [] => acc
  | (id, _, rl) :: r =>
    count_relays cids r
      (if rl then match alookup id cids with Some c => bump c acc | None => acc end else acc)
  end.

(* the message of a step through its entry point; ApplyChannelUpdate answers a
   boolean (false is recorded as an error verdict) and relays nothing *)
Definition mstep_via (c : tcase) (t : tstep) (i : N) (st : state)
  : state * list (N * verdict * bool) :=
  match t_apply t, t_msg t with
  | true, MCU u =>
    let '(st', b) := apply_chan_upd (tverify (k_verify c)) (t_now t) st u in
    (st', [(i, if b then VOk else VErr EOther, false)])
  | _, _ => mstep c t (t_now t) (t_peer t) i st (t_msg t)
  end.

Definition is_outdated (v : verdict) : bool :=
  match v with VErr EOutdated => true | _ => false end.
Definition is_ok (v : verdict) : bool := match v with VOk => true | _ => false end.

(* returns (final state, relay counts, bad step indices).  [pair]: the previous
   step was the first of a concurrent pair.  lnd's gossiper runs its
   IsStaleEdgePolicy pre-check outside the Builder's per-channel mutex: the
   second update of a pair may have passed it before the first one was written
   and is then refused by Builder.updateEdge with ErrOutdated, where the
   sequential model answers nil ("stale, ignored"); both leave the graph as it
   is.  Relays of the first update of a pair are not compared (the
   de-duplication batch cannot be flushed between the two). *)
Fixpoint check_steps (c : tcase) (st : state) (i : N) (ts : list tstep)
         (cids : list (N * N)) (rel : list (N * N)) (bad : list N) (pair : bool)
  : list (N * N) * list N :=
  match ts with
  | [] => (rel, rev bad)
  | t :: r =>
    let cids' := ainsert i (t_cid t) cids in
    let st := if t_restart t then restart (c_own (k_cfg c)) st else st in
    match t_op t with
    | Some o =>
      let st' := apply_op (k_sweep_always c) (c_own (k_cfg c)) st o in
      let ok := snap_matches st' (t_snap t) && bans_match st' (t_bans t) in
      check_steps c st' (i + 1) r cids rel (if ok then bad else i :: bad) false
    | None =>
    let '(st', outs) := mstep_via c t i st in
    let ok :=
      match outs with
      | (_, v, _) :: more =>
        (verdict_eqb v (t_res t) ||
         (pair && is_outdated (t_res t) && is_ok v &&
          list_eqb (kv_eqb edge_eqb) (s_edges st') (s_edges st))) &&
        list_eqb res_eqb (sort_res (map (fun o => (fst (fst o), snd (fst o))) more))
                 (sort_res (t_resolved t))
      | [] => false
      end
      && (t_nosnap t || snap_matches st' (t_snap t)) && bans_match st' (t_bans t) in
    check_steps c st' (i + 1) r cids' (if t_nosnap t then rel else count_relays cids' outs rel)
                (if ok then bad else i :: bad) (t_nosnap t)
    end
  end.

Definition nonzero (l : list (N * N)) : list (N * N) :=
  filter (fun x => negb (N.eqb (snd x) 0)) l.

(* indices of steps on which model and implementation disagree; index 100000
   flags a disagreement on the per-content Broadcast counts *)
Definition check_case (c : tcase) : list N :=
  let '(rel, bad) := check_steps c (init (c_own (k_cfg c))) 0 (k_steps c) [] [] [] false in
  if list_eqb (kv_eqb N.eqb) (nonzero rel) (nonzero (k_bcast c)) then bad
  else bad ++ [100000].

Fixpoint mismatches (cases : list tcase) (i : N) : list (N * list N) :=
  match cases with
  | [] => []
  | c :: r =>
    match check_case c with
    | [] => mismatches r (i + 1)
    | bad => (i, bad) :: mismatches r (i + 1)
    end
  end.

(* diagnostics: what the model produced at step n *)
Fixpoint model_at (c : tcase) (st : state) (i : N) (ts : list tstep) (n : nat)
  : option (state * list (N * verdict * bool)) :=
  match ts with
  | [] => None
  | t :: r =>
    let st := if t_restart t then restart (c_own (k_cfg c)) st else st in
    let '(st', outs) :=
      match t_op t with
      | Some o => (apply_op (k_sweep_always c) (c_own (k_cfg c)) st o, [])
      | None => mstep_via c t i st
      end in
    match n with
    | O => Some (st', outs)
    | S n' => model_at c st' (i + 1) r n'
    end
  end.
