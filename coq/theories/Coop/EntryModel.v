(* C17 — legacy (closing_signed) ChanCloser: the ENTRY of the negotiation, with
   the cache for an early closing_signed (definitions only, no proofs).

   Mirrors, in /repo lnwallet/chancloser/chancloser.go:
     ShutdownChan          closeIdle -> closeShutdownInitiated, sends Shutdown
     ReceiveShutdown       closeIdle -> closeAwaitingFlush (+ own Shutdown),
                           closeShutdownInitiated -> closeAwaitingFlush
     BeginNegotiation      closeAwaitingFlush -> closeFeeNegotiation; the opener
                           signs its ideal fee; the NON-opener replays the
                           closing_signed parked in cachedClosingSigned
     ReceiveClosingSigned  closeAwaitingFlush: park the message (the peer's
                           offer overtook our link's flush report);
                           closeFeeNegotiation / closeFinished: Coop.Model
   The negotiation core is a parameter (Section variables): the statements about
   orderings hold for ANY core; Coop.EntryExec instantiates it with
   Coop.Model.begin_negotiation / receive_closing_signed (errors latched). *)
From Coq Require Import List Bool Arith.
Import ListNotations.

Section Entry.
  Variable core : Type.
  Variable msg : Type.                       (* closing_signed payload *)
  (* BeginNegotiation after the state switch: the opener signs its first offer
     (a failure of the wallet is handled outside, see Coop.EntryExec) *)
  Variable begin_o : core -> core * msg.
  Variable begin_r : core -> core.
  (* ReceiveClosingSigned in closeFeeNegotiation/closeFinished: new core, reply *)
  Variable recv : core -> msg -> core * option msg.

  Inductive phase := PIdle | PShutdownInitiated | PAwaitingFlush | PNegotiating.

  Record enode := mkEN {
    en_opener : bool;              (* Channel.IsInitiator() *)
    en_phase : phase;
    en_core : core;
    en_cache : option msg;         (* cachedClosingSigned *)
  }.

  Inductive eevent :=
  | VShutdownChan
  | VReceiveShutdown
  | VBeginNegotiation
  | VReceiveClosingSigned (m : msg).

  Inductive eerr := EAlreadyClosing | EInvalidState.

  (* what a call returns to the peer for sending *)
  Inductive eout := UShutdown | UClosingSigned (m : option msg).

  (* a closing_signed that may not exist (the call returned None) *)
  Definition recv_opt (c : core) (om : option msg) : core * option msg :=
    match om with None => (c, None) | Some m => recv c m end.

  Definition set_node (n : enode) (p : phase) (c : core) (k : option msg) : enode :=
    mkEN (en_opener n) p c k.

  Definition estep (n : enode) (ev : eevent) : eerr + (enode * list eout) :=
    match ev, en_phase n with
    | VShutdownChan, PIdle =>
      inr (set_node n PShutdownInitiated (en_core n) (en_cache n), [UShutdown])
    | VShutdownChan, _ => inl EAlreadyClosing
    | VReceiveShutdown, PIdle =>
      inr (set_node n PAwaitingFlush (en_core n) (en_cache n), [UShutdown])
    | VReceiveShutdown, PShutdownInitiated =>
      inr (set_node n PAwaitingFlush (en_core n) (en_cache n), [])
    | VReceiveShutdown, _ => inl EInvalidState
    | VBeginNegotiation, PAwaitingFlush =>
      if en_opener n then
        let b := begin_o (en_core n) in
        inr (set_node n PNegotiating (fst b) (en_cache n), [UClosingSigned (Some (snd b))])
      else
        (* the state is closeFeeNegotiation BEFORE the parked offer is replayed *)
        match en_cache n with
        | None => inr (set_node n PNegotiating (begin_r (en_core n)) None, [])
        | Some m =>
          let b := recv (begin_r (en_core n)) m in
          inr (set_node n PNegotiating (fst b) (en_cache n), [UClosingSigned (snd b)])
        end
    | VBeginNegotiation, _ => inl EInvalidState
    | VReceiveClosingSigned m, PAwaitingFlush =>
      inr (set_node n PAwaitingFlush (en_core n) (Some m), [])
    | VReceiveClosingSigned m, PNegotiating =>
      let b := recv (en_core n) m in
      inr (set_node n PNegotiating (fst b) (en_cache n), [UClosingSigned (snd b)])
    | VReceiveClosingSigned _, _ => inl EInvalidState
    end.

  (* ---- two parties, FIFO links.  A queue slot is a Shutdown or the
     closing_signed one call returned (None: the call returned no message; the
     slot is then only a placeholder and its delivery does nothing). *)
  Inductive slot := QShutdown | QCs (m : option msg).

  Record esys := mkES {
    es_o : enode;  es_r : enode;
    es_to_o : list slot;  es_to_r : list slot;
    es_flushed_o : bool;  es_flushed_r : bool;   (* BeginNegotiation was called *)
    es_err : option (bool * eerr);               (* (at the opener?, error) *)
    es_done : list (bool * option msg);          (* closing_signed processed by
                                                    the negotiation (at delivery
                                                    or at replay): (by the
                                                    opener?, message) *)
  }.

  Inductive eact := XShut (opener : bool) | XFlush (opener : bool) | XDeliver (opener : bool).

  Definition slots (o : list eout) : list slot :=
    map (fun u => match u with UShutdown => QShutdown | UClosingSigned m => QCs m end) o.

  Definition node_of (s : esys) (opener : bool) : enode := if opener then es_o s else es_r s.

  (* the arrival of a closing_signed slot at a node, by the node's phase *)
  Definition arrive (n : enode) (om : option msg) : eerr + (enode * list eout) :=
    match en_phase n with
    | PAwaitingFlush =>
      inr (set_node n PAwaitingFlush (en_core n)
                    (match om with Some m => Some m | None => en_cache n end), [])
    | PNegotiating =>
      let b := recv_opt (en_core n) om in
      inr (set_node n PNegotiating (fst b) (en_cache n), [UClosingSigned (snd b)])
    | _ => inl EInvalidState
    end.

  Definition put (s : esys) (opener : bool) (res : eerr + (enode * list eout))
             (qo qr : list slot) (fo fr : bool) (done : list (bool * option msg)) : esys :=
    match res with
    | inl e => mkES (es_o s) (es_r s) qo qr fo fr (Some (opener, e)) done
    | inr (n, outs) =>
      if opener then mkES n (es_r s) qo (qr ++ slots outs) fo fr None done
      else mkES (es_o s) n (qo ++ slots outs) qr fo fr None done
    end.

  Definition enabled (s : esys) (a : eact) : bool :=
    match es_err s with
    | Some _ => false
    | None =>
      match a with
      | XShut w => match en_phase (node_of s w) with PIdle => true | _ => false end
      | XFlush w =>
        negb (if w then es_flushed_o s else es_flushed_r s) &&
        match en_phase (node_of s w) with PAwaitingFlush => true | _ => false end
      | XDeliver w =>
        match (if w then es_to_o s else es_to_r s) with [] => false | _ => true end
      end
    end.

  Definition eact_step (s : esys) (a : eact) : esys :=
    if negb (enabled s a) then s else
    match a with
    | XShut w =>
      put s w (estep (node_of s w) VShutdownChan) (es_to_o s) (es_to_r s)
          (es_flushed_o s) (es_flushed_r s) (es_done s)
    | XFlush w =>
      let n := node_of s w in
      put s w (estep n VBeginNegotiation) (es_to_o s) (es_to_r s)
          (if w then true else es_flushed_o s) (if w then es_flushed_r s else true)
          (if w then es_done s
           else match en_cache n with
                | None => es_done s
                | Some m => es_done s ++ [(false, Some m)]
                end)
    | XDeliver w =>
      match (if w then es_to_o s else es_to_r s) with
      | [] => s
      | q :: rest =>
        let qo := if w then rest else es_to_o s in
        let qr := if w then es_to_r s else rest in
        let n := node_of s w in
        match q with
        | QShutdown =>
          put s w (estep n VReceiveShutdown) qo qr (es_flushed_o s) (es_flushed_r s) (es_done s)
        | QCs om =>
          put s w (arrive n om) qo qr (es_flushed_o s) (es_flushed_r s)
              (match en_phase n with
               | PNegotiating => es_done s ++ [(w, om)]
               | _ => es_done s
               end)
        end
      end
    end.

  Definition all_acts : list eact :=
    [XShut true; XShut false; XFlush true; XFlush false; XDeliver true; XDeliver false].

  Definition entered (s : esys) : bool := es_flushed_o s && es_flushed_r s.

  (* every maximal interleaving of enabled actions up to the point where both
     sides have called BeginNegotiation (or an error / nothing enabled) *)
  Fixpoint explore (fuel : nat) (s : esys) : list esys :=
    match fuel with
    | O => [s]
    | S k =>
      if entered s then [s] else
      match filter (enabled s) all_acts with
      | [] => [s]
      | acts => flat_map (fun a => explore k (eact_step s a)) acts
      end
    end.

  (* every state on the way *)
  Fixpoint reach (fuel : nat) (s : esys) : list esys :=
    s :: match fuel with
         | O => []
         | S k =>
           if entered s then [] else
           flat_map (fun a => reach k (eact_step s a)) (filter (enabled s) all_acts)
         end.

  Definition node0 (opener : bool) (c : core) : enode := mkEN opener PIdle c None.

  Definition esys0 (o r : core) : esys :=
    mkES (node0 true o) (node0 false r) [] [] false false None [].

  (* the canonical entry: both flushed after the Shutdown exchange, the opener's
     first offer in flight to the responder *)
  Definition canon (o r : core) : esys :=
    let b := begin_o o in
    mkES (mkEN true PNegotiating (fst b) None) (mkEN false PNegotiating (begin_r r) None)
         [] [QCs (Some (snd b))] true true None [].

End Entry.

Arguments VShutdownChan {msg}.
Arguments VReceiveShutdown {msg}.
Arguments VBeginNegotiation {msg}.
Arguments VReceiveClosingSigned {msg} m.
Arguments UShutdown {msg}.
Arguments UClosingSigned {msg} m.
Arguments QShutdown {msg}.
Arguments QCs {msg} m.
Arguments mkEN {core msg}.
Arguments en_opener {core msg}.
Arguments en_phase {core msg}.
Arguments en_core {core msg}.
Arguments en_cache {core msg}.
Arguments mkES {core msg}.
Arguments es_o {core msg}.
Arguments es_r {core msg}.
Arguments es_to_o {core msg}.
Arguments es_to_r {core msg}.
Arguments es_flushed_o {core msg}.
Arguments es_flushed_r {core msg}.
Arguments es_err {core msg}.
Arguments es_done {core msg}.
Arguments entered {core msg}.
