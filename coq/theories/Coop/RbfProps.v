(* C17 — property theorems about the RBF cooperative close state machine
   (statements only; proofs are in RbfProofs.v).

   Vocabulary (RbfModel.v / RbfProofs.v):
     process e s ev        what one real state machine does with one event:
                           protofsm's applyEvents over the ProcessEvent
                           methods of rbf_coop_transitions.go (new state, daemon
                           events in order; SDead x = the machine stopped)
     SNegotiation t l r    ClosingNegotiation with CloseChannelTerms t, local
                           (closer) peer state l, remote (closee) peer state r
     closer_req / closee_req   the wallet request of the closer (payer Local,
                           sequence MaxRBFSequence, no locktime option) and of
                           the closee (payer Remote, locktime of the message)
     close_proposal        Coop.Model: CreateCloseProposal /
                           CompleteCooperativeClose up to signing
     mirror_terms / mirror_view   the counterparty's terms / wallet view
     offer_field t bal     the closing_complete TLV the closer fills
     run_actions           two machines with FIFO links (Coop.RbfModel.act)
   A signature is represented by the descriptor it is on (ideal signatures). *)
From Coq Require Import List ZArith Bool Permutation.
From LV Require Import Coop.Model Coop.Proofs Coop.RbfModel Coop.RbfProofs.
Import ListNotations.
Local Open Scope Z_scope.

(* ---- agreement: safety (no hypothesis on the peer) ---------------- *)

(* Whatever closing_complete arrives, in whatever negotiation state: either the
   machine stops with an error and does nothing, or it sends exactly one
   closing_sig and broadcasts exactly one transaction d, where d is what ITS OWN
   wallet builds for the announced fee with the CLOSER (its remote party) paying,
   the closer could afford the fee, and the closer's selected signature is on
   exactly d. *)
Theorem C17_rbf_agree_closee : forall e t l r m v s' outs,
  process e (SNegotiation t l r) (EOfferReceived m v) = (s', outs) ->
  (exists x, s' = SDead x /\ outs = []) \/
  exists d bal nc,
    let t' := with_rscript t (m_closer_script m) in
    t_lscript t = m_closee_script m /\
    remote_can_pay t' (m_fee m) = true /\
    select_closee_sig (m_sigs m) (local_is_dust t') = inr (d, nc) /\
    close_proposal (e_view e) (closee_req t' (m_fee m) (m_locktime m)) = inr (d, bal) /\
    s' = SNegotiation t' l (RPending d) /\
    outs = [OMarkCoop d false; OClosingSig (reply_msg t' m nc d); OBroadcast d].
Proof. exact closee_safety. Qed.

(* Whatever closing_sig arrives after an offer: either the machine stops, or it
   broadcasts exactly the transaction dl it offered, which its own wallet builds
   with ITSELF paying the offered fee, and the closee's signature is on dl. *)
Theorem C17_rbf_agree_closer : forall e t fee dl r m s' outs,
  process e (SNegotiation t (LOfferSent fee dl) r) (ELocalSigReceived m) = (s', outs) ->
  (exists x, s' = SDead x /\ outs = []) \/
  exists bal,
    select_closer_sig (m_sigs m) = inr dl /\
    close_proposal (e_view e) (closer_req t fee) = inr (dl, bal) /\
    s' = SNegotiation t (LPending dl) r /\
    outs = [OMarkCoop dl true; OBroadcast dl].
Proof. exact closer_safety. Qed.

(* ---- agreement: one complete round between two honest parties ------ *)

(* A (any local state that may take a new offer; its closee side [ra] and all of
   B's other-direction state arbitrary: rounds of the two directions may
   overlap) offers at [rate]; B holds the mirrored terms and wallet view;
   Environment.BlockHeight is 0 as in peer/brontide.go.  If A can pay the fee
   out of its flushed balance and its wallet accepts the request, then: the
   offer goes out with the one signature field [offer_field]; B accepts it,
   answers, broadcasts d; A accepts the answer and broadcasts the SAME d. *)
Theorem C17_rbf_agree : forall ea eb t la ra lb rb rate v d bal,
  e_view eb = mirror_view (e_view ea) ->
  e_height ea = 0 ->
  idle_l la ->
  let fee := terms_fee ea t rate in
  local_can_pay t fee = true ->
  close_proposal (e_view ea) (closer_req t fee) = inr (d, bal) ->
  let m := offer_msg ea t fee bal d in
  let s := reply_msg (mirror_terms t) m
                     (match remote_out t with None => true | Some _ => false end) d in
  process ea (SNegotiation t la ra) (ESendOffer rate) =
    (SNegotiation t (LOfferSent fee d) ra, [OClosingComplete m]) /\
  process eb (SNegotiation (mirror_terms t) lb rb) (EOfferReceived m v) =
    (SNegotiation (mirror_terms t) lb (RPending d),
     [OMarkCoop d false; OClosingSig s; OBroadcast d]) /\
  process ea (SNegotiation t (LOfferSent fee d) ra) (ELocalSigReceived s) =
    (SNegotiation t (LPending d) ra, [OMarkCoop d true; OBroadcast d]).
Proof. exact rbf_round. Qed.

(* The closer pays: the agreed transaction gives the closer its balance (plus
   commit fee and anchors if it opened the channel) minus the fee, the closee
   its full balance, each only above the owner's channel dust limit (an
   OP_RETURN script gets value 0); RBF sequence, locktime 0. *)
Theorem C17_rbf_closer_pays : forall v t fee d bal,
  in_range v (closer_req t fee) ->
  close_proposal v (closer_req t fee) = inr (d, bal) ->
  let lf := gross_local v - fee in
  let rf := gross_remote v in
  bal = lf /\ 0 <= lf /\
  Permutation (d_outs d)
    ((if lf <? v_local_dust v then []
      else [(if is_opret (t_lscript t) then 0 else lf, t_lscript t)]) ++
     (if rf <? v_remote_dust v then []
      else [(if is_opret (t_rscript t) then 0 else rf, t_rscript t)])) /\
  d_version d = 2 /\ d_sequence d = max_rbf_sequence /\ d_locktime d = 0.
Proof. exact closer_pays_outputs. Qed.

(* ---- progress ------------------------------------------------------ *)

(* Two machines in ClosingNegotiation with mirrored terms and views, nothing in
   flight, neither waiting for an answer.  Any sequence of offers, each by
   either side at any fee rate the offerer can pay ([round_tx] = Some d), each
   followed by the delivery of the closing_complete and of the closing_sig:
   every offer is answered, nothing is left in flight, neither machine stops,
   and both sides broadcast the SAME sequence of transactions ds. *)
Theorem C17_rbf_progress : forall valid h ea eb t,
  e_view eb = mirror_view (e_view ea) ->
  e_height ea = 0 -> e_height eb = 0 ->
  forall rounds ds,
    Forall2 (fun r d => round_tx ea eb t r = Some d) rounds ds ->
    forall la ra lb rb bca bcb, idle_l la -> idle_l lb ->
    exists la' ra' lb' rb',
      idle_l la' /\ idle_l lb' /\
      run_actions valid h
        (mkRsys (mkNode ea (SNegotiation t la ra) [] [] bca)
                (mkNode eb (SNegotiation (mirror_terms t) lb rb) [] [] bcb))
        (flat_map round_acts rounds) =
      mkRsys (mkNode ea (SNegotiation t la' ra') [] [] (bca ++ ds))
             (mkNode eb (SNegotiation (mirror_terms t) lb' rb') [] [] (bcb ++ ds)).
Proof. exact rbf_rounds. Qed.

(* One such round, with the final peer states: the offerer ends in
   ClosePending{Local} d, the other side in ClosePending{Remote} d. *)
Theorem C17_rbf_progress_round : forall valid h ea eb t la ra lb rb bca bcb rate d bal,
  e_view eb = mirror_view (e_view ea) ->
  e_height ea = 0 ->
  idle_l la ->
  local_can_pay t (terms_fee ea t rate) = true ->
  close_proposal (e_view ea) (closer_req t (terms_fee ea t rate)) = inr (d, bal) ->
  run_actions valid h
    (mkRsys (mkNode ea (SNegotiation t la ra) [] [] bca)
            (mkNode eb (SNegotiation (mirror_terms t) lb rb) [] [] bcb))
    [AUser true (ESendOffer rate); ADeliver false; ADeliver true] =
  mkRsys (mkNode ea (SNegotiation t (LPending d) ra) [] [] (bca ++ [d]))
         (mkNode eb (SNegotiation (mirror_terms t) lb (RPending d)) [] [] (bcb ++ [d])).
Proof. exact rbf_progress_a. Qed.

(* The shutdown phase establishes the mirrored scripts: A asks to close, B
   answers (its Shutdown's post-send event fed back), both end in
   ChannelFlushing holding each other's delivery script. *)
Theorem C17_rbf_shutdown_exchange : forall valid h ea eb addr rate,
  e_final ea = None -> e_final eb = None ->
  let lsa := local_script ea addr in
  let lsb := local_script eb None in
  validate_shutdown eb lsa h (valid lsa) = None ->
  validate_shutdown ea lsb h (valid lsb) = None ->
  run_actions valid h (mkRsys (node0 ea) (node0 eb))
    [AUser true (ESendShutdown addr rate); ADeliver false; APost false; ADeliver true] =
  mkRsys (mkNode ea (SFlushing (Some rate) lsa lsb None) [] [] [])
         (mkNode eb (SFlushing None lsb lsa None) [] [] []).
Proof. exact rbf_shutdown_exchange. Qed.

(* Both ask to close at the same time. *)
Theorem C17_rbf_shutdown_simultaneous : forall valid h ea eb addra ratea addrb rateb,
  e_final ea = None -> e_final eb = None ->
  let lsa := local_script ea addra in
  let lsb := local_script eb addrb in
  validate_shutdown eb lsa h (valid lsa) = None ->
  validate_shutdown ea lsb h (valid lsb) = None ->
  run_actions valid h (mkRsys (node0 ea) (node0 eb))
    [AUser true (ESendShutdown addra ratea); AUser false (ESendShutdown addrb rateb);
     ADeliver false; ADeliver true] =
  mkRsys (mkNode ea (SFlushing (Some ratea) lsa lsb None) [] [] [])
         (mkNode eb (SFlushing (Some rateb) lsb lsa None) [] [] []).
Proof. exact rbf_shutdown_simultaneous. Qed.

(* The flush event turns the scripts and the flushed balances into the terms
   (so balances (x, y) at A and (y, x) at B give mirrored terms) and sends the
   first offer at the ideal (else default) fee rate iff the flushed local
   balance covers the fee. *)
Theorem C17_rbf_flushed : forall e ideal ls rs lb rb,
  let t := mkTerms ls rs lb rb in
  let rate := match ideal with Some x => x | None => e_default_rate e end in
  process e (SFlushing ideal ls rs None) (EChannelFlushed lb rb) =
  if local_can_pay t (terms_fee e t rate)
  then settle (local_send_offer e t RStart rate)
  else (SNegotiation t LStart RStart, []).
Proof. exact process_flushed. Qed.

(* ---- signature field vs outputs ------------------------------------ *)

(* If the channel's dust limits are the delivery scripts' own dust limits and
   the closee's wallet balance is its flushed balance (it is not the opener, or
   the credit is 0), the announced field says which outputs the signed
   transaction has (by C17_rbf_closer_pays an output is present iff the final
   balance reaches the dust limit). *)
Theorem C17_rbf_sigfield_matches_outputs : forall v t fee d bal,
  in_range v (closer_req t fee) ->
  close_proposal v (closer_req t fee) = inr (d, bal) ->
  v_local_dust v = dust_for_size (slen (t_lscript t)) ->
  v_remote_dust v = dust_for_size (slen (t_rscript t)) ->
  gross_remote v = to_sat (t_rbal t) ->
  let r := closer_req t fee in
  match offer_field t bal with
  | FCloserNoClosee => final_remote v r < v_remote_dust v
  | FNoCloserClosee =>
    v_remote_dust v <= final_remote v r /\ final_local v r < v_local_dust v
  | FCloserAndClosee =>
    v_remote_dust v <= final_remote v r /\ v_local_dust v <= final_local v r
  end.
Proof. exact field_matches_outputs. Qed.

(* ---- what the code does NOT guarantee (witnesses replayed on lnd) --- *)

(* Fee monotonicity is NOT enforced on RBF iterations (the TODO in
   ChannelFlushing.ProcessEvent): between two honest machines an offer at
   5 sat/vb after an agreed offer at 20 sat/vb is answered and broadcast like any
   other; the second transaction pays a LOWER fee (its outputs sum higher). *)
Theorem C17_rbf_fee_not_monotone :
  let v := w_view 300000000 in
  let ea := w_env v 0 in let eb := w_env (mirror_view v) 0 in
  let t := w_terms v in
  exists d1 d2,
    round_tx ea eb t (true, 20) = Some d1 /\
    round_tx ea eb t (true, 5) = Some d2 /\
    sum_outs (d_outs d1) < sum_outs (d_outs d2) /\
    run_actions (fun _ => true) 0 (w_sys ea eb t)
                (round_acts (true, 20) ++ round_acts (true, 5)) =
    mkRsys (mkNode ea (SNegotiation t (LPending d2) RStart) [] [] [d1; d2])
           (mkNode eb (SNegotiation (mirror_terms t) LStart (RPending d2)) [] [] [d1; d2]).
Proof. exact fee_not_monotone_witness. Qed.

(* Without the hypotheses of C17_rbf_sigfield_matches_outputs the field can
   mislabel the transaction: the state machine decides with
   DustLimitForSize(len(script)) on the flushed balances, the wallet with the
   channel's dust limits.  Closee balance 300 sat, P2WPKH script (294), channel
   dust limit 354: closer_and_closee is announced for a one-output tx. *)
Theorem C17_rbf_sigfield_mismatch_refuted :
  let v := w_view 300000 in
  let ea := w_env v 0 in
  let t := w_terms v in
  let fee := terms_fee ea t 2 in
  exists d bal,
    in_range v (closer_req t fee) /\
    local_can_pay t fee = true /\
    close_proposal v (closer_req t fee) = inr (d, bal) /\
    offer_field t bal = FCloserAndClosee /\
    length (d_outs d) = 1%nat.
Proof. exact field_mismatch_witness. Qed.

(* The hypothesis e_height = 0 of C17_rbf_agree is needed: with
   Environment.BlockHeight = 7 the closer signs a locktime-0 transaction but
   announces locktime 7, and the honest closee stops with "unable to complete
   coop close".  (peer/brontide.go never sets BlockHeight.) *)
Theorem C17_rbf_locktime_refuted :
  let v := w_view 300000000 in
  let ea := w_env v 7 in let eb := w_env (mirror_view v) 0 in
  let t := w_terms v in
  exists m,
    snd (process ea (SNegotiation t LStart RStart) (ESendOffer 2)) = [OClosingComplete m] /\
    m_locktime m = 7 /\
    process eb (SNegotiation (mirror_terms t) LStart RStart) (EOfferReceived m true) =
    (SDead XComplete, []).
Proof. exact locktime_witness. Qed.
