(* C17 bridge (tie T1): the cooperative-close arithmetic REGENERATED from the
   lnd tree (Gen/GenArith.v, Gen/GenConsts.v) equals the hand-written model
   Coop/Model.v that the C17 theorems are stated about.  A source edit of
   CoopCloseBalance / feeInAcceptableRange / ratchetFee / calcCompromiseFee /
   MilliSatoshi.ToSatoshis / AnchorSize / the ChannelParty constants changes
   the generated side and breaks a lemma here. *)
From Coq Require Import ZArith Bool Lia.
From LV Require Import Common.GoInt Gen.GenConsts Gen.GenArith Coop.Model.
Local Open Scope Z_scope.

Lemma gen_anchor_size_eq : lnwallet_AnchorSize = anchor_size.
Proof. reflexivity. Qed.

Lemma gen_w64_eq x : wrap_i64 x = w64 x.
Proof. reflexivity. Qed.

(* lntypes.Local / lntypes.Remote as the uint8 the Go code switches on *)
Definition party_code (p : party) : Z :=
  match p with Local => lntypes_Local | Remote => lntypes_Remote end.

Lemma party_code_inj p q : party_code p = party_code q -> p = q.
Proof. destruct p, q; cbv; congruence. Qed.

Definition coop_result (r : option (Z * Z)) : Z * Z * bool :=
  match r with Some (a, b) => (a, b, false) | None => (0, 0, true) end.

(* lnwallet.CoopCloseBalance: chanType.HasAnchors() is the boolean [anchors],
   feePayer (fn.Option[ChannelParty]) the optional payer *)
Lemma gen_coop_close_balance_eq :
  forall (anchors initiator : bool) (fee our their commit_fee : Z) (payer : option party),
  lnwallet_CoopCloseBalance anchors initiator fee our their commit_fee
                            (option_map party_code payer)
  = coop_result (coop_close_balance anchors initiator fee our their commit_fee payer).
Proof.
  intros. unfold lnwallet_CoopCloseBalance, coop_close_balance, coop_result,
    fee_payer, add64, sub64, mul64.
  rewrite gen_anchor_size_eq.
  destruct anchors, initiator, payer as [[|]|]; cbn [option_map party_code];
    change (lntypes_Local =? lntypes_Local) with true;
    change (lntypes_Remote =? lntypes_Local) with false;
    change (lntypes_Remote =? lntypes_Remote) with true;
    cbv iota beta; unfold wrap_i64, w64, two63, two64;
    match goal with
    | |- context [(?a <? 0) || (?b <? 0)] => destruct ((a <? 0) || (b <? 0)); reflexivity
    end.
Qed.

(* lnwire.MilliSatoshi.ToSatoshis: uint64 / 1000 reinterpreted as int64 *)
Lemma gen_to_sat_eq : forall msat, in_u64 msat ->
  lnwire_MilliSatoshi_ToSatoshis msat = to_sat msat.
Proof.
  intros msat H. unfold lnwire_MilliSatoshi_ToSatoshis, to_sat, lnwire_mSatScale.
  apply wrap_i64_small. unfold in_u64, in_i64 in *.
  pose proof (Z.div_pos msat 1000). 
  assert (msat / 1000 <= msat) by (apply Z.div_le_upper_bound; lia).
  assert (msat / 1000 < 9223372036854775808) by (apply Z.div_lt_upper_bound; lia).
  lia.
Qed.

(* chancloser.feeInAcceptableRange *)
Lemma gen_fee_in_acceptable_range_eq : forall l r,
  chancloser_feeInAcceptableRange l r = fee_in_acceptable_range l r.
Proof.
  intros. unfold chancloser_feeInAcceptableRange, fee_in_acceptable_range,
    add64, sub64, mul64, div64.
  repeat rewrite gen_w64_eq. destruct (l <? r); [reflexivity|].
  rewrite Z.geb_leb. reflexivity.
Qed.

(* chancloser.ratchetFee *)
Lemma gen_ratchet_fee_eq : forall fee up,
  chancloser_ratchetFee fee up = ratchet_fee fee up.
Proof. intros. destruct up; reflexivity. Qed.

(* chancloser.calcCompromiseFee (the chanPoint argument is only logged) *)
Lemma gen_calc_compromise_fee_eq : forall ideal last remote,
  chancloser_calcCompromiseFee ideal last remote = calc_compromise_fee ideal last remote.
Proof.
  intros. unfold chancloser_calcCompromiseFee, calc_compromise_fee.
  rewrite !gen_fee_in_acceptable_range_eq, !gen_ratchet_fee_eq.
  rewrite Z.gtb_ltb. reflexivity.
Qed.
