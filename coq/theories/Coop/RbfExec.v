(* C17 — trace checker for the RBF cooperative close state machine: every
   [CRun] case is the complete history of ONE real state machine (its
   environment, and for every event fed to it the state it ended in and the
   daemon events it executed); [check] re-runs the model on the same events. *)
From Coq Require Import List ZArith NArith Bool.
From LV Require Import Coop.Model Coop.RbfModel.
Import ListNotations.
Local Open Scope Z_scope.

Definition opt_eqb {A} (f : A -> A -> bool) (a b : option A) : bool :=
  match a, b with
  | None, None => true
  | Some x, Some y => f x y
  | _, _ => false
  end.

Definition sigset_eqb (a b : sigset) : bool :=
  opt_eqb desc_eqb (sg_closer_no_closee a) (sg_closer_no_closee b) &&
  opt_eqb desc_eqb (sg_no_closer_closee a) (sg_no_closer_closee b) &&
  opt_eqb desc_eqb (sg_closer_and_closee a) (sg_closer_and_closee b).

Definition msg_eqb (a b : closing_msg) : bool :=
  script_eqb (m_closer_script a) (m_closer_script b) &&
  script_eqb (m_closee_script a) (m_closee_script b) &&
  (m_fee a =? m_fee b) && (m_locktime a =? m_locktime b) &&
  sigset_eqb (m_sigs a) (m_sigs b).

Definition event_eqb (a b : event) : bool :=
  match a, b with
  | ESendShutdown x r, ESendShutdown y q => opt_eqb script_eqb x y && (r =? q)
  | EShutdownReceived s h v, EShutdownReceived s' h' v' =>
    script_eqb s s' && (h =? h') && Bool.eqb v v'
  | EShutdownComplete, EShutdownComplete => true
  | EChannelFlushed l r, EChannelFlushed l' r' => (l =? l') && (r =? r')
  | ESendOffer r, ESendOffer q => r =? q
  | EOfferReceived m v, EOfferReceived m' v' => msg_eqb m m' && Bool.eqb v v'
  | ELocalSigReceived m, ELocalSigReceived m' => msg_eqb m m'
  | ESpend, ESpend => true
  | _, _ => false
  end.

Definition close_err_eqb (a b : close_err) : bool :=
  match a, b with
  | ErrClosing, ErrClosing | ErrAfford, ErrAfford | ErrSanity, ErrSanity => true
  | _, _ => false
  end.

Definition rerr_eqb (a b : rerr) : bool :=
  match a, b with
  | XInvalid, XInvalid | XThaw, XThaw | XScript, XScript | XUpfront, XUpfront
  | XWrongScript, XWrongScript | XCannotPay, XCannotPay | XNoSig, XNoSig
  | XCloserNoClosee, XCloserNoClosee | XCloserAndClosee, XCloserAndClosee
  | XTooManySigs, XTooManySigs | XComplete, XComplete | XFuel, XFuel => true
  | XProposal e, XProposal f => close_err_eqb e f
  | _, _ => false
  end.

Definition early_eqb (a b : option (closing_msg * bool)) : bool :=
  opt_eqb (fun x y => msg_eqb (fst x) (fst y) && Bool.eqb (snd x) (snd y)) a b.

Definition terms_eqb (a b : cterms) : bool :=
  script_eqb (t_lscript a) (t_lscript b) && script_eqb (t_rscript a) (t_rscript b) &&
  (t_lbal a =? t_lbal b) && (t_rbal a =? t_rbal b).

Definition lstate_eqb (a b : lstate) : bool :=
  match a, b with
  | LStart, LStart | LErr, LErr => true
  | LOfferSent f d, LOfferSent g d' => (f =? g) && desc_eqb d d'
  | LPending d, LPending d' => desc_eqb d d'
  | _, _ => false
  end.

Definition rstate_eqb (a b : rstate) : bool :=
  match a, b with
  | RStart, RStart => true
  | RPending d, RPending d' => desc_eqb d d'
  | _, _ => false
  end.

Definition pstate_eqb (a b : pstate) : bool :=
  match a, b with
  | SActive, SActive | SFin, SFin => true
  | SShutdownPending i ls rs e, SShutdownPending i' ls' rs' e' =>
    opt_eqb Z.eqb i i' && script_eqb ls ls' && script_eqb rs rs' && early_eqb e e'
  | SFlushing i ls rs e, SFlushing i' ls' rs' e' =>
    opt_eqb Z.eqb i i' && script_eqb ls ls' && script_eqb rs rs' && early_eqb e e'
  | SNegotiation t l r, SNegotiation t' l' r' =>
    terms_eqb t t' && lstate_eqb l l' && rstate_eqb r r'
  | SDead x, SDead y => rerr_eqb x y
  | _, _ => false
  end.

Definition output_eqb (a b : output) : bool :=
  match a, b with
  | OShutdown s, OShutdown s' => script_eqb s s'
  | OMarkShutdown s i, OMarkShutdown s' i' => script_eqb s s' && Bool.eqb i i'
  | OPost e, OPost e' => event_eqb e e'
  | OClosingComplete m, OClosingComplete m' => msg_eqb m m'
  | OClosingSig m, OClosingSig m' => msg_eqb m m'
  | OMarkCoop d l, OMarkCoop d' l' => desc_eqb d d' && Bool.eqb l l'
  | OBroadcast d, OBroadcast d' => desc_eqb d d'
  | _, _ => false
  end.

Fixpoint outputs_eqb (a b : list output) : bool :=
  match a, b with
  | [], [] => true
  | x :: a', y :: b' => output_eqb x y && outputs_eqb a' b'
  | _, _ => false
  end.

(* one fed event with what the real machine did *)
Record obs_step := mkStep {
  os_event : event;
  os_state : pstate;
  os_outs : list output;
}.

(* indices (1-based) of the steps where model and implementation differ; the
   model continues from ITS OWN state, so a divergence is reported once *)
Fixpoint run_steps (e : renv) (s : pstate) (l : list obs_step) (i : N) : list N :=
  match l with
  | [] => []
  | st :: r =>
    let '(s', o) := process e s (os_event st) in
    let bad := negb (pstate_eqb s' (os_state st) && outputs_eqb o (os_outs st)) in
    if bad then [i] else run_steps e s' r (i + 1)%N
  end.

Inductive case :=
| CRDust (n : Z) (res : Z)
| CROpret (s : script) (res : bool)
| CREst (taproot : bool) (lo ro : option script) (rate : Z) (res : Z)
| CRun (e : renv) (steps : list obs_step).

Definition check_case (c : case) : list N :=
  match c with
  | CRDust n res => if dust_for_size n =? res then [] else [0%N]
  | CROpret s res => if Bool.eqb (is_opret s) res then [] else [0%N]
  | CREst tap lo ro rate res => if est_fee tap lo ro rate =? res then [] else [0%N]
  | CRun e steps => run_steps e SActive steps 1
  end.

Fixpoint mismatches (cases : list case) (i : N) : list (N * list N) :=
  match cases with
  | [] => []
  | c :: r =>
    match check_case c with
    | [] => mismatches r (i + 1)%N
    | bad => (i, bad) :: mismatches r (i + 1)%N
    end
  end.
