(* C17 — non-vacuity of the hypothesis-carrying RBF theorems: concrete,
   non-trivial instances of every hypothesis (a 1 000 000 sat anchor channel
   opened by A; B owns 300 000 sat). *)
From Coq Require Import List ZArith Bool Lia.
From LV Require Import Coop.Model Coop.Proofs Coop.RbfModel Coop.RbfProofs Coop.RbfProps.
Import ListNotations.
Local Open Scope Z_scope.

Definition xv := w_view 300000000.
Definition xa := w_env xv 0.
Definition xb := w_env (mirror_view xv) 0.
Definition xt := w_terms xv.

(* hypotheses of C17_rbf_agree / C17_rbf_progress_round *)
Example agree_hyps :
  e_view xb = mirror_view (e_view xa) /\ e_height xa = 0 /\ idle_l (LPending (mkDesc 2 0 0 [])) /\
  local_can_pay xt (terms_fee xa xt 20) = true /\
  terms_fee xa xt 20 = 3380 /\
  exists d bal, close_proposal (e_view xa) (closer_req xt (terms_fee xa xt 20)) = inr (d, bal) /\
                bal = 696530 + 3470 - 3380 /\ length (d_outs d) = 2%nat.
Proof.
  repeat split; try reflexivity.
  eexists. eexists. split; [vm_compute; reflexivity|]. split; reflexivity.
Qed.

(* hypotheses of C17_rbf_progress: three rounds, A at 20, B at 4, A at 5 sat/vb *)
Example progress_hyps :
  exists ds, Forall2 (fun r d => round_tx xa xb xt r = Some d)
                     [(true, 20); (false, 4); (true, 5)] ds /\ length ds = 3%nat.
Proof.
  eexists. split.
  - constructor; [vm_compute; reflexivity|].
    constructor; [vm_compute; reflexivity|].
    constructor; [vm_compute; reflexivity|]. constructor.
  - reflexivity.
Qed.

(* ... and the whole run, from ChannelActive, by evaluation: shutdown exchange,
   both flush (each sends its first offer: A at 20, B at the default 10 sat/vb),
   everything delivered; both end in ClosePending/ClosePending and have
   broadcast the same two transactions. *)
Example full_run :
  let xb' := mkEnv (mirror_view xv) 0 10 None None None wB None in
  let s := run_actions (fun _ => true) 0 (mkRsys (node0 xa) (node0 xb'))
    [AUser true (ESendShutdown (Some wA) 20); ADeliver false; APost false; ADeliver true;
     AUser true (EChannelFlushed (v_local_msat xv) (v_remote_msat xv));
     AUser false (EChannelFlushed (v_remote_msat xv) (v_local_msat xv));
     ADeliver false; ADeliver true; ADeliver true; ADeliver false] in
  n_inbox (sa s) = [] /\ n_inbox (sb s) = [] /\
  length (n_bcast (sa s)) = 2%nat /\
  (forall d, In d (n_bcast (sa s)) <-> In d (n_bcast (sb s))) /\
  match n_st (sa s), n_st (sb s) with
  | SNegotiation ta (LPending d1) (RPending d2), SNegotiation tb (LPending d2') (RPending d1') =>
    d1 = d1' /\ d2 = d2' /\ tb = mirror_terms ta
  | _, _ => False
  end.
Proof.
  vm_compute. repeat split; try tauto; intros; tauto.
Qed.

(* hypotheses of C17_rbf_shutdown_exchange *)
Example shutdown_hyps :
  e_final xa = None /\ e_final xb = None /\
  validate_shutdown xb (local_script xa (Some wA)) 0 true = None /\
  validate_shutdown xa (local_script (mkEnv (mirror_view xv) 0 10 None None None wB None) None) 0 true = None.
Proof. repeat split. Qed.

(* hypotheses of C17_rbf_sigfield_matches_outputs: B (not the opener) closes,
   dust limits 294 = DustLimitForSize(22) on both sides, A's balance 200 sat
   below it *)
Example sigfield_hyps :
  let v := mkView true false false 300000000 200000 2810 294 294 false in
  let t := mkTerms wB wA 300000000 200000 in
  let fee := 338 in
  in_range v (closer_req t fee) /\
  (exists d bal, close_proposal v (closer_req t fee) = inr (d, bal)) /\
  v_local_dust v = dust_for_size (slen (t_lscript t)) /\
  v_remote_dust v = dust_for_size (slen (t_rscript t)) /\
  (* here the closee IS the opener: its wallet balance includes the credit, so
     this instance violates the last hypothesis ... *)
  gross_remote v <> to_sat (t_rbal t).
Proof.
  cbv zeta. split; [unfold in_range; vm_compute; intuition discriminate|].
  split; [eexists; eexists; vm_compute; reflexivity|].
  repeat split. vm_compute. discriminate.
Qed.

(* ... and this one satisfies all of them (the closer A opened the channel) *)
Example sigfield_hyps_ok :
  let v := mkView true false true 300000000 200000 2810 294 294 false in
  let t := mkTerms wA wB 300000000 200000 in
  let fee := 338 in
  in_range v (closer_req t fee) /\
  (exists d bal, close_proposal v (closer_req t fee) = inr (d, bal) /\
                 offer_field t bal = FCloserNoClosee /\ length (d_outs d) = 1%nat) /\
  v_local_dust v = dust_for_size (slen (t_lscript t)) /\
  v_remote_dust v = dust_for_size (slen (t_rscript t)) /\
  gross_remote v = to_sat (t_rbal t).
Proof.
  cbv zeta. split; [unfold in_range; vm_compute; intuition discriminate|].
  split; [eexists; eexists; vm_compute; repeat split|].
  repeat split.
Qed.
