(* C17 — lemmas and proofs about Coop/Model.v. *)
From Coq Require Import List ZArith Bool Lia Permutation Sorted.
From Coq Require Import ZifyBool.
From LV Require Import Coop.Model.
Import ListNotations.
Local Open Scope Z_scope.

(* ------------------------------------------------------------------ *)
(* int64 arithmetic without overflow                                   *)

Lemma w64_id x : - two63 <= x < two63 -> w64 x = x.
Proof.
  intros H. unfold w64, two64, two63 in *.
  rewrite Z.mod_small by lia. lia.
Qed.

Definition small (x : Z) : Prop := - 2 ^ 61 <= x < 2 ^ 61.

Lemma two63_eq : two63 = 2 ^ 63.
Proof. reflexivity. Qed.

Lemma add64_small a b : small a -> small b -> add64 a b = a + b.
Proof.
  unfold small, add64. intros Ha Hb. apply w64_id. rewrite two63_eq.
  change (2 ^ 63) with (4 * 2 ^ 61). lia.
Qed.

Lemma sub64_small a b : small a -> small b -> sub64 a b = a - b.
Proof.
  unfold small, sub64. intros Ha Hb. apply w64_id. rewrite two63_eq.
  change (2 ^ 63) with (4 * 2 ^ 61). lia.
Qed.

Lemma mul64_anchor : mul64 2 anchor_size = 660.
Proof. reflexivity. Qed.

(* ------------------------------------------------------------------ *)
(* the unbounded specification of the two final balances               *)

Definition payer_of (v : chan_view) (r : close_req) : party :=
  fee_payer (v_initiator v) (r_payer r).

(* balance of a party before the closing fee is charged: commitment balance
   (msat truncated to sat) plus, for the opener, commit fee and anchors *)
Definition gross_local (v : chan_view) : Z :=
  to_sat (v_local_msat v) + (if v_initiator v then opener_credit v else 0).
Definition gross_remote (v : chan_view) : Z :=
  to_sat (v_remote_msat v) + (if v_initiator v then 0 else opener_credit v).

Definition final_local (v : chan_view) (r : close_req) : Z :=
  gross_local v - (match payer_of v r with Local => r_fee r | Remote => 0 end).
Definition final_remote (v : chan_view) (r : close_req) : Z :=
  gross_remote v - (match payer_of v r with Local => 0 | Remote => r_fee r end).

(* what the payer owns before the fee *)
Definition payer_gross (v : chan_view) (r : close_req) : Z :=
  match payer_of v r with Local => gross_local v | Remote => gross_remote v end.

(* domain on which Go's int64 arithmetic does not wrap: msat balances are
   uint64, satoshi amounts below 2^60 (the supply is < 2^51 sat) *)
Definition in_range (v : chan_view) (r : close_req) : Prop :=
  0 <= v_local_msat v < two64 /\ 0 <= v_remote_msat v < two64 /\
  0 <= v_commit_fee v < 2 ^ 60 /\ 0 <= r_fee r < 2 ^ 60.

Lemma to_sat_bounds m : 0 <= m < two64 -> 0 <= to_sat m < 2 ^ 55.
Proof.
  unfold to_sat, two64. intros H. split.
  - apply Z.div_pos; lia.
  - apply Z.div_lt_upper_bound; [lia|]. change (2 ^ 55) with 36028797018963968. lia.
Qed.

Lemma balance_spec v r :
  in_range v r ->
  coop_close_balance (v_anchors v) (v_initiator v) (r_fee r)
                     (to_sat (v_local_msat v)) (to_sat (v_remote_msat v))
                     (v_commit_fee v) (r_payer r)
  = if (final_local v r <? 0) || (final_remote v r <? 0) then None
    else Some (final_local v r, final_remote v r).
Proof.
  intros (Hl & Hr & Hc & Hf).
  pose proof (to_sat_bounds _ Hl) as Bl. pose proof (to_sat_bounds _ Hr) as Br.
  unfold coop_close_balance, final_local, final_remote, gross_local, gross_remote,
    payer_of, opener_credit.
  rewrite mul64_anchor.
  assert (P55 : 2 ^ 55 = 36028797018963968) by reflexivity.
  assert (P60 : 2 ^ 60 = 1152921504606846976) by reflexivity.
  assert (P61 : 2 ^ 61 = 2305843009213693952) by reflexivity.
  assert (Hd : (if v_anchors v then add64 (v_commit_fee v) 660 else v_commit_fee v)
               = v_commit_fee v + (if v_anchors v then 2 * anchor_size else 0)).
  { destruct (v_anchors v); [rewrite add64_small by (unfold small; lia)|];
      unfold anchor_size; lia. }
  rewrite Hd. clear Hd.
  set (delta := v_commit_fee v + (if v_anchors v then 2 * anchor_size else 0)).
  assert (Bd : 0 <= delta < 2 ^ 60 + 661).
  { subst delta. unfold anchor_size. destruct (v_anchors v); lia. }
  set (p := fee_payer (v_initiator v) (r_payer r)).
  destruct (v_initiator v); destruct p;
    repeat (rewrite add64_small by (unfold small; lia));
    repeat (rewrite sub64_small by (unfold small; lia));
    repeat (rewrite add64_small by (unfold small; lia));
    rewrite ?Z.add_0_r, ?Z.sub_0_r; reflexivity.
Qed.

(* ------------------------------------------------------------------ *)
(* BIP69 ordering and the insertion sort                               *)

Lemma bytes_cmp_eq a : forall b, bytes_cmp a b = Eq -> a = b.
Proof.
  induction a as [|x a IH]; intros [|y b]; cbn; try discriminate; auto.
  destruct (x ?= y) eqn:E; try discriminate.
  intros H. apply Z.compare_eq in E. f_equal; auto.
Qed.

Lemma bytes_cmp_antisym a : forall b, bytes_cmp b a = CompOpp (bytes_cmp a b).
Proof.
  induction a as [|x a IH]; intros [|y b]; cbn; auto.
  rewrite (Z.compare_antisym x y).
  destruct (x ?= y); cbn; auto.
Qed.

Lemma out_le_total a b : out_le a b = false -> out_le b a = true.
Proof.
  unfold out_le. destruct a as [v s], b as [w t]; cbn.
  rewrite (bytes_cmp_antisym s t).
  destruct (bytes_cmp s t); cbn; lia.
Qed.

Lemma out_le_antisym a b : out_le a b = true -> out_le b a = true -> a = b.
Proof.
  unfold out_le. destruct a as [v s], b as [w t]; cbn.
  rewrite (bytes_cmp_antisym s t).
  destruct (bytes_cmp s t) eqn:E; cbn; intros H1 H2; try lia.
  apply bytes_cmp_eq in E. f_equal; [lia|auto].
Qed.

Lemma insert_perm o l : Permutation (insert_out o l) (o :: l).
Proof.
  induction l as [|h t IH]; cbn; auto.
  destruct (out_le o h); auto.
  etransitivity; [apply perm_skip, IH|apply perm_swap].
Qed.

Lemma sort_perm l : Permutation (sort_outs l) l.
Proof.
  induction l as [|h t IH]; cbn; auto.
  etransitivity; [apply insert_perm|auto].
Qed.

Definition out_leP (a b : txout) : Prop := out_le a b = true.

Lemma insert_sorted o l : Sorted out_leP l -> Sorted out_leP (insert_out o l).
Proof.
  induction 1 as [|h t Hs IH Hh]; cbn.
  - repeat constructor.
  - destruct (out_le o h) eqn:E.
    + constructor; [constructor; auto|constructor; exact E].
    + constructor; auto.
      apply out_le_total in E.
      destruct t as [|h' t']; cbn in *.
      * constructor; exact E.
      * destruct (out_le o h'); constructor; auto.
        inversion Hh; auto.
Qed.

Lemma sort_sorted l : Sorted out_leP (sort_outs l).
Proof.
  induction l; cbn; [constructor|apply insert_sorted; auto].
Qed.

Lemma sum_outs_perm l l' : Permutation l l' -> sum_outs l = sum_outs l'.
Proof.
  induction 1 as [|x l l' HP IH|x y l|l l' l'' HP1 IH1 HP2 IH2];
    unfold sum_outs in *; cbn [fold_right] in *; lia.
Qed.

Lemma sort2_comm (a b : list txout) :
  (length a <= 1)%nat -> (length b <= 1)%nat ->
  sort_outs (a ++ b) = sort_outs (b ++ a).
Proof.
  destruct a as [|x [|? ?]]; destruct b as [|y [|? ?]]; cbn; try lia; auto.
  intros _ _.
  destruct (out_le x y) eqn:E1; destruct (out_le y x) eqn:E2; auto.
  - rewrite (out_le_antisym _ _ E1 E2). reflexivity.
  - apply out_le_total in E1. congruence.
Qed.

Lemma side_out_len opts bal dust scr op : (length (side_out opts bal dust scr op) <= 1)%nat.
Proof. unfold side_out. destruct (dust <=? bal); cbn; lia. Qed.

(* ------------------------------------------------------------------ *)
(* both parties derive the same transaction                            *)

Lemma balance_mirror an ini fee our their cf payer :
  coop_close_balance an (negb ini) fee their our cf (option_map counter_party payer)
  = match coop_close_balance an ini fee our their cf payer with
    | Some (o, t) => Some (t, o)
    | None => None
    end.
Proof.
  unfold coop_close_balance, fee_payer.
  destruct ini, payer as [[|]|]; cbn;
    match goal with |- context [if ?a || ?b then _ else _] =>
      destruct a, b; cbn; reflexivity end.
Qed.

Lemma close_tx_mirror opts ld rd our their os ts oo to :
  close_tx opts rd ld their our ts os to oo = close_tx opts ld rd our their os ts oo to.
Proof.
  unfold close_tx. f_equal.
  apply sort2_comm; apply side_out_len.
Qed.

Lemma same_tx v r :
  match close_proposal v r, close_proposal (mirror_view v) (mirror_req r) with
  | inr (d, b), inr (d', b') => d = d'
  | inl e, inl e' => e = e'
  | _, _ => False
  end.
Proof.
  unfold close_proposal, mirror_view, mirror_req; cbn.
  assert (Hp : match option_map counter_party (r_payer r) with None => true | Some _ => false end
               = match r_payer r with None => true | Some _ => false end)
    by (destruct (r_payer r); reflexivity).
  rewrite Hp.
  destruct (v_closed v && _); [reflexivity|].
  rewrite balance_mirror.
  destruct (coop_close_balance _ _ _ _ _ _ _) as [[o t]|]; [|reflexivity].
  rewrite close_tx_mirror.
  destruct (tx_sane _); reflexivity.
Qed.

(* the balance each side reports as its own is the other's counterpart *)
Lemma same_tx_balances v r d b d' b' :
  in_range v r ->
  close_proposal v r = inr (d, b) ->
  close_proposal (mirror_view v) (mirror_req r) = inr (d', b') ->
  b = final_local v r /\ b' = final_remote v r.
Proof.
  intros HR. unfold close_proposal, mirror_view, mirror_req; cbn.
  assert (Hp : match option_map counter_party (r_payer r) with None => true | Some _ => false end
               = match r_payer r with None => true | Some _ => false end)
    by (destruct (r_payer r); reflexivity).
  rewrite Hp.
  destruct (v_closed v && _); [discriminate|].
  rewrite balance_mirror, (balance_spec v r HR).
  destruct (_ || _); [discriminate|].
  destruct (tx_sane _); [|discriminate].
  destruct (tx_sane _); [|discriminate].
  intros H1 H2. inversion H1; inversion H2; auto.
Qed.

(* ------------------------------------------------------------------ *)
(* exact balances, guard, conservation                                 *)

Definition not_refused_closing (v : chan_view) (r : close_req) : Prop :=
  v_closed v = false \/ r_payer r <> None.

Lemma closing_guard_false v r :
  not_refused_closing v r ->
  v_closed v && match r_payer r with None => true | Some _ => false end = false.
Proof.
  intros [H|H]; [rewrite H; reflexivity|].
  destruct (r_payer r); [apply andb_false_r|congruence].
Qed.

Lemma gross_nonneg v r : in_range v r -> 0 <= gross_local v /\ 0 <= gross_remote v.
Proof.
  intros (Hl & Hr & Hc & Hf).
  pose proof (to_sat_bounds _ Hl). pose proof (to_sat_bounds _ Hr).
  unfold gross_local, gross_remote, opener_credit, anchor_size.
  destruct (v_initiator v), (v_anchors v); lia.
Qed.

Lemma fee_payer_guard v r :
  in_range v r -> not_refused_closing v r ->
  (close_proposal v r = inl ErrAfford <-> payer_gross v r < r_fee r).
Proof.
  intros HR HC. pose proof (gross_nonneg v r HR) as [G1 G2].
  destruct HR as (Hl & Hr & Hc & Hf).
  unfold close_proposal. rewrite (closing_guard_false _ _ HC).
  rewrite balance_spec by (repeat split; lia).
  unfold final_local, final_remote, payer_gross.
  destruct (payer_of v r); rewrite ?Z.sub_0_r.
  - destruct (gross_local v - r_fee r <? 0) eqn:Ea; cbn [orb].
    + split; [intros _; lia|reflexivity].
    + destruct (gross_remote v <? 0) eqn:Eb; [lia|].
      destruct (tx_sane _); (split; [discriminate|lia]).
  - destruct (gross_local v <? 0) eqn:Ea; [lia|]. cbn [orb].
    destruct (gross_remote v - r_fee r <? 0) eqn:Eb.
    + split; [intros _; lia|reflexivity].
    + destruct (tx_sane _); (split; [discriminate|lia]).
Qed.

Definition local_out (v : chan_view) (r : close_req) : list txout :=
  side_out (mkOpts (v_taproot v) (r_sequence r) (r_locktime r))
           (final_local v r) (v_local_dust v) (r_local_script r) (r_local_opret r).
Definition remote_out (v : chan_view) (r : close_req) : list txout :=
  side_out (mkOpts (v_taproot v) (r_sequence r) (r_locktime r))
           (final_remote v r) (v_remote_dust v) (r_remote_script r) (r_remote_opret r).

Lemma proposal_ok_inv v r d b :
  in_range v r -> close_proposal v r = inr (d, b) ->
  0 <= final_local v r /\ 0 <= final_remote v r /\ b = final_local v r /\
  d = close_tx (mkOpts (v_taproot v) (r_sequence r) (r_locktime r))
               (v_local_dust v) (v_remote_dust v) (final_local v r) (final_remote v r)
               (r_local_script r) (r_remote_script r) (r_local_opret r) (r_remote_opret r) /\
  d_outs d <> [].
Proof.
  intros HR. unfold close_proposal.
  destruct (v_closed v && _); [discriminate|].
  rewrite (balance_spec v r HR).
  destruct (final_local v r <? 0) eqn:E1; [discriminate|].
  destruct (final_remote v r <? 0) eqn:E2; [discriminate|]. cbn [orb].
  destruct (tx_sane _) eqn:ES; [|discriminate].
  intros H; inversion H; subst. repeat split; try lia.
  unfold tx_sane in ES. intros Hn. rewrite Hn in ES. discriminate.
Qed.

Lemma exact_balances v r d b :
  in_range v r -> close_proposal v r = inr (d, b) ->
  b = final_local v r /\
  0 <= final_local v r /\ 0 <= final_remote v r /\
  Permutation (d_outs d) (local_out v r ++ remote_out v r) /\
  Sorted out_leP (d_outs d) /\
  d_version d = 2 /\
  d_sequence d = match r_sequence r with
                 | Some s => s
                 | None => if v_taproot v then max_rbf_sequence else max_tx_in_sequence
                 end /\
  d_locktime d = match r_locktime r with Some l => l | None => 0 end.
Proof.
  intros HR HP. destruct (proposal_ok_inv v r d b HR HP) as (H1 & H2 & H3 & H4 & _).
  subst d. cbn. repeat split; auto.
  - apply sort_perm.
  - apply sort_sorted.
Qed.

(* output present iff the owner's final balance reaches its dust limit; its
   value is the final balance (or 0 for an OP_RETURN in the RBF flow) *)
Lemma side_out_spec opts bal dust scr op :
  side_out opts bal dust scr op =
  if bal <? dust then []
  else [((match o_sequence opts with Some _ => if op then 0 else bal | None => bal end), scr)].
Proof.
  unfold side_out. destruct (dust <=? bal) eqn:E1, (bal <? dust) eqn:E2; try lia; reflexivity.
Qed.

Lemma sum_side_out_le opts bal dust scr op :
  0 <= bal -> 0 <= sum_outs (side_out opts bal dust scr op) <= bal.
Proof.
  intros. unfold side_out. destruct (dust <=? bal); cbn; [|lia].
  destruct (o_sequence opts); [destruct op|]; cbn; lia.
Qed.

Lemma sum_outs_app l l' : sum_outs (l ++ l') = sum_outs l + sum_outs l'.
Proof.
  unfold sum_outs. induction l as [|x l IH]; cbn [fold_right app]; lia.
Qed.

Lemma conservation v r d b capacity :
  in_range v r ->
  v_local_msat v + v_remote_msat v + 1000 * opener_credit v = 1000 * capacity ->
  close_proposal v r = inr (d, b) ->
  sum_outs (d_outs d) + r_fee r <= capacity /\
  (length (d_outs d) = 2%nat ->
   (r_sequence r = None \/ (r_local_opret r = false /\ r_remote_opret r = false)) ->
   capacity - 1 <= sum_outs (d_outs d) + r_fee r /\
   (v_local_msat v mod 1000 = 0 -> sum_outs (d_outs d) + r_fee r = capacity)).
Proof.
  intros HR HL HP.
  destruct (exact_balances v r d b HR HP) as (_ & F1 & F2 & HPerm & _).
  rewrite (sum_outs_perm _ _ HPerm).
  assert (HS : sum_outs (local_out v r ++ remote_out v r)
               = sum_outs (local_out v r) + sum_outs (remote_out v r)).
  { apply sum_outs_app. }
  rewrite HS.
  pose proof (Permutation_length HPerm) as HLen. rewrite app_length in HLen.
  assert (HT : final_local v r + final_remote v r + r_fee r
               = to_sat (v_local_msat v) + to_sat (v_remote_msat v) + opener_credit v).
  { unfold final_local, final_remote, gross_local, gross_remote.
    destruct (payer_of v r), (v_initiator v); lia. }
  destruct HR as (Hl & Hr & Hc & Hf).
  unfold to_sat in HT.
  pose proof (Z.div_mod (v_local_msat v) 1000 ltac:(lia)) as D1.
  pose proof (Z.div_mod (v_remote_msat v) 1000 ltac:(lia)) as D2.
  pose proof (Z.mod_pos_bound (v_local_msat v) 1000 ltac:(lia)) as M1.
  pose proof (Z.mod_pos_bound (v_remote_msat v) 1000 ltac:(lia)) as M2.
  unfold local_out, remote_out in *.
  pose proof (sum_side_out_le (mkOpts (v_taproot v) (r_sequence r) (r_locktime r))
                (final_local v r) (v_local_dust v) (r_local_script r) (r_local_opret r) F1) as S1.
  pose proof (sum_side_out_le (mkOpts (v_taproot v) (r_sequence r) (r_locktime r))
                (final_remote v r) (v_remote_dust v) (r_remote_script r) (r_remote_opret r) F2) as S2.
  split; [lia|].
  intros H2 Hop. rewrite H2 in HLen.
  unfold side_out in *. cbn [o_sequence] in *.
  destruct (v_local_dust v <=? final_local v r); cbn [length] in HLen; [|
    destruct (v_remote_dust v <=? final_remote v r); cbn in HLen; lia].
  destruct (v_remote_dust v <=? final_remote v r); cbn [length] in HLen; [|cbn in HLen; lia].
  assert (HV : sum_outs [(match r_sequence r with Some _ => if r_local_opret r then 0 else final_local v r
                                          | None => final_local v r end, r_local_script r)]
               + sum_outs [(match r_sequence r with Some _ => if r_remote_opret r then 0 else final_remote v r
                                          | None => final_remote v r end, r_remote_script r)]
               = final_local v r + final_remote v r).
  { cbn. destruct Hop as [-> | [-> ->]]; [lia|]. destruct (r_sequence r); lia. }
  rewrite HV. split; [lia|].
  intros Hm. lia.
Qed.

(* ------------------------------------------------------------------ *)
(* legacy fee negotiation                                              *)

Definition fee_ok (x : Z) : Prop := 100 <= x < 2 ^ 60.

Lemma mul64_small_3 x : 0 <= x < 2 ^ 60 -> mul64 x 3 = x * 3.
Proof.
  intros H. unfold mul64. apply w64_id. rewrite two63_eq.
  change (2 ^ 63) with (8 * 2 ^ 60). lia.
Qed.

Lemma mul64_small_1 x : 0 <= x < 2 ^ 60 -> mul64 x 1 = x.
Proof.
  intros H. unfold mul64. rewrite Z.mul_1_r. apply w64_id. rewrite two63_eq.
  change (2 ^ 63) with (8 * 2 ^ 60). lia.
Qed.

Lemma quot_div x k : 0 <= x -> 0 < k -> Z.quot x k = x / k.
Proof. intros. apply Z.quot_div_nonneg; lia. Qed.

Lemma ratchet_up x : 0 <= x < 2 ^ 60 -> ratchet_fee x true = x + x / 10.
Proof.
  intros H. unfold ratchet_fee, div64. rewrite mul64_small_1 by lia.
  rewrite quot_div by lia.
  assert (0 <= x / 10 <= x) by (split; [apply Z.div_pos; lia|apply Z.div_le_upper_bound; lia]).
  unfold add64. apply w64_id. rewrite two63_eq. change (2 ^ 63) with (8 * 2 ^ 60). lia.
Qed.

Lemma ratchet_down x : 0 <= x < 2 ^ 60 -> ratchet_fee x false = x - x / 10.
Proof.
  intros H. unfold ratchet_fee, div64. rewrite mul64_small_1 by lia.
  rewrite quot_div by lia.
  assert (0 <= x / 10 <= x) by (split; [apply Z.div_pos; lia|apply Z.div_le_upper_bound; lia]).
  unfold sub64. apply w64_id. rewrite two63_eq. change (2 ^ 63) with (8 * 2 ^ 60). lia.
Qed.

Lemma range_spec l r :
  0 <= l < 2 ^ 60 ->
  fee_in_acceptable_range l r =
  if l <? r then r <=? l + l * 3 / 10 else l - l * 3 / 10 <=? r.
Proof.
  intros H. unfold fee_in_acceptable_range, div64. rewrite mul64_small_3 by lia.
  rewrite quot_div by lia.
  assert (0 <= l * 3 / 10 <= l)
    by (split; [apply Z.div_pos; lia|apply Z.div_le_upper_bound; lia]).
  unfold add64, sub64. rewrite !w64_id; auto;
    rewrite two63_eq; change (2 ^ 63) with (8 * 2 ^ 60); lia.
Qed.

(* the answer to an offer [y] when our last offer was [x]: accept it, or move
   10% towards it without reaching it *)
Lemma compromise_cases ideal x y :
  fee_ok x -> fee_ok y ->
  let p := calc_compromise_fee ideal x y in
  p = y \/
  (x < y /\ p = x + x / 10 /\ x + x * 3 / 10 < y) \/
  (y < x /\ p = x - x / 10 /\ y < x - x * 3 / 10).
Proof.
  intros [Hx1 Hx2] [Hy1 Hy2]. cbv zeta. unfold calc_compromise_fee.
  destruct (ideal =? y) eqn:E0; [left; cbn; lia|].
  destruct (x =? 0) eqn:E1; [lia|]. cbn [orb].
  destruct (y =? x) eqn:E2; [left; lia|].
  rewrite range_spec by lia.
  destruct (y <? x) eqn:E3.
  - assert (E4 : (x <? y) = false) by lia. rewrite E4.
    destruct (x - x * 3 / 10 <=? y) eqn:E5; [left; reflexivity|].
    right; right. rewrite ratchet_down by lia. lia.
  - assert (E4 : (x <? y) = true) by lia. rewrite E4.
    destruct (y <=? x + x * 3 / 10) eqn:E5; [left; reflexivity|].
    right; left. rewrite ratchet_up by lia. lia.
Qed.

(* one ratchet step shrinks the ratio max/min of the two standing offers by
   at least 1000/1091 (this is where fees >= 100 sat are needed: below 10 sat
   the step is 0, see ratchet_stuck) *)
Lemma ratchet_progress_up x y :
  100 <= x -> x < y -> x + x * 3 / 10 < y ->
  let x' := x + x / 10 in
  x < x' < y /\ 1091 * x <= 1000 * x'.
Proof.
  intros. cbv zeta.
  pose proof (Z.div_mod x 10 ltac:(lia)). pose proof (Z.mod_pos_bound x 10 ltac:(lia)).
  pose proof (Z.div_mod (x * 3) 10 ltac:(lia)). pose proof (Z.mod_pos_bound (x * 3) 10 ltac:(lia)).
  lia.
Qed.

Lemma ratchet_progress_down x y :
  100 <= y -> y < x -> y < x - x * 3 / 10 ->
  let x' := x - x / 10 in
  y < x' < x /\ 1091 * x' <= 1000 * x.
Proof.
  intros. cbv zeta.
  pose proof (Z.div_mod x 10 ltac:(lia)). pose proof (Z.mod_pos_bound x 10 ltac:(lia)).
  pose proof (Z.div_mod (x * 3) 10 ltac:(lia)). pose proof (Z.mod_pos_bound (x * 3) 10 ltac:(lia)).
  lia.
Qed.

(* offers within 29% of each other are accepted *)
Lemma compromise_accepts ideal x y :
  fee_ok x -> fee_ok y ->
  100 * Z.max x y <= 129 * Z.min x y ->
  calc_compromise_fee ideal x y = y.
Proof.
  intros Hx Hy Hc.
  destruct (compromise_cases ideal x y Hx Hy) as [H|[(H1 & _ & H3)|(H1 & _ & H3)]]; auto;
    exfalso; destruct Hx, Hy;
    pose proof (Z.div_mod (x * 3) 10 ltac:(lia));
    pose proof (Z.mod_pos_bound (x * 3) 10 ltac:(lia)); lia.
Qed.

(* potential: [close_enough n lo hi] says that n ratchet steps certainly
   bring the offers within 29% *)
Definition close_enough (n : nat) (lo hi : Z) : Prop :=
  100 * hi * 1000 ^ Z.of_nat n <= 129 * lo * 1091 ^ Z.of_nat n.

Lemma close_enough_step n lo hi lo' hi' :
  0 < lo -> 0 < lo' -> 0 < hi -> 0 < hi' ->
  1091 * hi' * lo <= 1000 * hi * lo' ->
  close_enough (S n) lo hi -> close_enough n lo' hi'.
Proof.
  unfold close_enough. intros Hlo Hlo' Hhi Hhi' H1 H2.
  rewrite Nat2Z.inj_succ, !Z.pow_succ_r in H2 by lia.
  set (A := 1000 ^ Z.of_nat n) in *. set (B := 1091 ^ Z.of_nat n) in *.
  assert (HA : 0 < A) by (apply Z.pow_pos_nonneg; lia).
  assert (HB : 0 < B) by (apply Z.pow_pos_nonneg; lia).
  (* multiply the goal by 1091 * lo > 0 *)
  apply Z.mul_le_mono_pos_r with (p := 1091 * lo); [lia|].
  assert (E1 : 100 * hi' * A * (1091 * lo) = 100 * A * (1091 * hi' * lo)) by ring.
  assert (E2 : 129 * lo' * B * (1091 * lo) = lo' * (129 * lo * (1091 * B))) by ring.
  rewrite E1, E2.
  assert (S1 : 100 * A * (1091 * hi' * lo) <= 100 * A * (1000 * hi * lo'))
    by (apply Z.mul_le_mono_nonneg_l; lia).
  assert (S2 : lo' * (100 * hi * (1000 * A)) <= lo' * (129 * lo * (1091 * B)))
    by (apply Z.mul_le_mono_nonneg_l; lia).
  assert (E3 : 100 * A * (1000 * hi * lo') = lo' * (100 * hi * (1000 * A))) by ring.
  lia.
Qed.

Lemma mem_fee_In f l : mem_fee f l = true <-> In f l.
Proof.
  unfold mem_fee. rewrite existsb_exists. split.
  - intros (x & Hx & E). apply Z.eqb_eq in E. subst. auto.
  - intros H. exists f. split; auto. apply Z.eqb_refl.
Qed.

Lemma propose_ok c fee :
  fee <= n_afford c ->
  exists c1, propose c fee = Some c1 /\
    n_state c1 = n_state c /\ n_initiator c1 = n_initiator c /\
    n_taproot c1 = n_taproot c /\ n_ideal c1 = n_ideal c /\
    n_max_fee c1 = n_max_fee c /\ n_last c1 = fee /\ In fee (n_prior c1) /\
    (forall g, In g (n_prior c) -> In g (n_prior c1)) /\
    n_afford c1 = n_afford c /\ n_closed_fee c1 = n_closed_fee c.
Proof.
  intros H. unfold propose.
  assert (E : (fee <=? n_afford c) = true) by lia. rewrite E.
  eexists. split; [reflexivity|]. cbn. repeat split; auto.
  - destruct (mem_fee fee (n_prior c)) eqn:M; [apply mem_fee_In; auto|left; auto].
  - intros g Hg. destruct (mem_fee fee (n_prior c)); [auto|right; auto].
Qed.

(* what a non-taproot closer in the negotiation state does with an offer [y]
   when its own last offer is [x] *)
Inductive recv_result (c : closer) (x y : Z) : nerr + (closer * option Z) -> Prop :=
| RAccept c1 :
    n_state c1 = NFinished -> n_closed_fee c1 = Some y -> In y (n_prior c1) ->
    n_taproot c1 = false -> n_initiator c1 = n_initiator c ->
    recv_result c x y (inr (c1, Some y))
| RRatchet c1 x' :
    n_state c1 = NFeeNegotiation -> n_taproot c1 = false ->
    n_initiator c1 = n_initiator c -> n_max_fee c1 = n_max_fee c ->
    n_afford c1 = n_afford c -> n_last c1 = x' -> In x' (n_prior c1) ->
    n_closed_fee c1 = n_closed_fee c ->
    ((x < y /\ x' = x + x / 10 /\ x + x * 3 / 10 < y) \/
     (y < x /\ x' = x - x / 10 /\ y < x - x * 3 / 10)) ->
    recv_result c x y (inr (c1, Some x')).

Lemma recv_cases c x y hi :
  n_state c = NFeeNegotiation -> n_taproot c = false -> n_last c = x ->
  fee_ok x -> fee_ok y -> x <= hi -> y <= hi ->
  (n_initiator c = true -> hi <= n_max_fee c) -> hi <= n_afford c ->
  recv_result c x y (receive_closing_signed c y).
Proof.
  intros Hs Ht Hl Hx Hy Hxh Hyh Hmax Haff.
  unfold receive_closing_signed. rewrite Hs, Ht. cbn [andb negb].
  destruct (mem_fee y (n_prior c)) eqn:M; cbn [negb].
  - (* the offer is one we signed before *)
    unfold finalize. apply RAccept; cbn; auto. apply mem_fee_In; auto.
  - rewrite Hl.
    pose proof (compromise_cases (n_ideal c) x y Hx Hy) as HC. cbv zeta in HC.
    set (p := calc_compromise_fee (n_ideal c) x y) in *.
    assert (Hp : p <= hi /\ 0 <= p).
    { destruct Hx as [X1 X2], Hy as [Y1 Y2].
      destruct HC as [K|[(K1 & K2 & K3)|(K1 & K2 & K3)]]; [lia| |].
      - pose proof (ratchet_progress_up x y ltac:(lia) K1 K3) as K4. cbv zeta in K4. lia.
      - pose proof (ratchet_progress_down x y ltac:(lia) K1 K3) as K4. cbv zeta in K4. lia. }
    assert (Hg : (n_initiator c && (n_max_fee c <? p)) = false).
    { destruct (n_initiator c); cbn; [|reflexivity]. specialize (Hmax eq_refl). lia. }
    rewrite Hg.
    destruct (propose_ok c p ltac:(lia)) as (c1 & -> & P1 & P2 & P3 & P4 & P5 & P6 & P7 & P8 & P9 & P10).
    destruct (p =? y) eqn:E; cbn [negb].
    + assert (p = y) by lia. subst p. unfold finalize.
      apply RAccept; cbn; try congruence.
    + destruct HC as [HC|HC]; [lia|].
      apply RRatchet; try congruence.
Qed.

(* ---- the two-closer system ---- *)

Definition mover (s : system) (t : bool) : closer := if t then sys_open s else sys_resp s.
Definition other (s : system) (t : bool) : closer := if t then sys_resp s else sys_open s.

(* mid-negotiation: offer [y] is in flight to the party selected by [t],
   whose own last offer is [x] *)
Record neg_inv (lo0 hi0 : Z) (s : system) (t : bool) (x y : Z) : Prop := mkInv {
  inv_err : sys_err s = None;
  inv_msg : sys_msg s = Some (t, y);
  inv_io : n_initiator (sys_open s) = true;
  inv_ir : n_initiator (sys_resp s) = false;
  inv_to : n_taproot (sys_open s) = false;
  inv_tr : n_taproot (sys_resp s) = false;
  inv_so : n_state (sys_open s) = NFeeNegotiation;
  inv_sr : n_state (sys_resp s) = NFeeNegotiation;
  inv_last : n_last (mover s t) = x;
  inv_olast : n_last (other s t) = y;
  inv_prior : In y (n_prior (other s t));
  inv_max : hi0 <= n_max_fee (sys_open s);
  inv_ao : hi0 <= n_afford (sys_open s);
  inv_ar : hi0 <= n_afford (sys_resp s);
  inv_x : lo0 <= x <= hi0;
  inv_y : lo0 <= y <= hi0;
  inv_lo : 100 <= lo0;
  inv_hi : hi0 < 2 ^ 60;
}.

(* the party [other s t] accepted fee [y] and completed the close; its
   matching offer is in flight to [mover s t], which signed [y] earlier *)
Record accepted (s : system) (t : bool) (y : Z) : Prop := mkAcc {
  acc_err : sys_err s = None;
  acc_msg : sys_msg s = Some (t, y);
  acc_fin : n_state (other s t) = NFinished;
  acc_fee : n_closed_fee (other s t) = Some y;
  acc_pri : In y (n_prior (other s t));
  acc_st : n_state (mover s t) = NFeeNegotiation;
  acc_tap : n_taproot (mover s t) = false;
  acc_mpri : In y (n_prior (mover s t));
}.

Definition ratchet_rel (x y x' : Z) : Prop :=
  (x < y /\ x' = x + x / 10 /\ x + x * 3 / 10 < y) \/
  (y < x /\ x' = x - x / 10 /\ y < x - x * 3 / 10).

Lemma inv_step lo0 hi0 s t x y :
  neg_inv lo0 hi0 s t x y ->
  sys_rounds (sys_step s) = S (sys_rounds s) /\
  ((exists x', neg_inv lo0 hi0 (sys_step s) (negb t) y x' /\ ratchet_rel x y x') \/
   accepted (sys_step s) (negb t) y).
Proof.
  intros I. destruct I.
  assert (Fx : fee_ok x) by (unfold fee_ok; lia).
  assert (Fy : fee_ok y) by (unfold fee_ok; lia).
  unfold sys_step. rewrite inv_err0, inv_msg0.
  destruct t; cbn [mover other negb] in *.
  - (* delivered to the opener *)
    pose proof (recv_cases (sys_open s) x y hi0 inv_so0 inv_to0 inv_last0 Fx Fy
                  ltac:(lia) ltac:(lia) ltac:(intros; lia) inv_ao0) as R.
    inversion R as [c1 A1 A2 A3 A4 A5 E|c1 x' B1 B2 B3 B4 B5 B6 B7 B8 B9 E];
      cbn; (split; [reflexivity|]).
    + right. constructor; cbn [mover other sys_err sys_msg sys_open sys_resp]; auto.
    + left. exists x'. split; [|exact B9].
      assert (lo0 <= x' <= hi0).
      { destruct B9 as [(K1 & K2 & K3)|(K1 & K2 & K3)].
        - pose proof (ratchet_progress_up x y ltac:(lia) K1 K3) as K4. cbv zeta in K4. lia.
        - pose proof (ratchet_progress_down x y ltac:(lia) K1 K3) as K4. cbv zeta in K4. lia. }
      constructor; cbn [mover other sys_err sys_msg sys_open sys_resp negb]; auto; try congruence; lia.
  - (* delivered to the other party *)
    pose proof (recv_cases (sys_resp s) x y hi0 inv_sr0 inv_tr0 inv_last0 Fx Fy
                  ltac:(lia) ltac:(lia) ltac:(intros; congruence) inv_ar0) as R.
    inversion R as [c1 A1 A2 A3 A4 A5 E|c1 x' B1 B2 B3 B4 B5 B6 B7 B8 B9 E];
      cbn; (split; [reflexivity|]).
    + right. constructor; cbn [mover other sys_err sys_msg sys_open sys_resp]; auto.
    + left. exists x'. split; [|exact B9].
      assert (lo0 <= x' <= hi0).
      { destruct B9 as [(K1 & K2 & K3)|(K1 & K2 & K3)].
        - pose proof (ratchet_progress_up x y ltac:(lia) K1 K3) as K4. cbv zeta in K4. lia.
        - pose proof (ratchet_progress_down x y ltac:(lia) K1 K3) as K4. cbv zeta in K4. lia. }
      constructor; cbn [mover other sys_err sys_msg sys_open sys_resp negb]; auto; try congruence; lia.
Qed.

Lemma recv_matching c y :
  n_state c = NFeeNegotiation -> n_taproot c = false -> In y (n_prior c) ->
  receive_closing_signed c y = inr (set_state c NFinished (Some y), Some y).
Proof.
  intros Hs Ht Hp. unfold receive_closing_signed. rewrite Hs, Ht. cbn [andb negb].
  apply mem_fee_In in Hp. rewrite Hp. reflexivity.
Qed.

Lemma recv_finished c y :
  n_state c = NFinished -> receive_closing_signed c y = inr (c, None).
Proof. intros Hs. unfold receive_closing_signed. rewrite Hs. reflexivity. Qed.

Lemma step_deliver s t y c1 reply :
  sys_err s = None -> sys_msg s = Some (t, y) ->
  receive_closing_signed (mover s t) y = inr (c1, reply) ->
  sys_step s = mkSys (if t then c1 else sys_open s) (if t then sys_resp s else c1)
                     (option_map (fun f => (negb t, f)) reply) None
                     (S (sys_rounds s)) (sys_trace s ++ [y]).
Proof.
  intros He Hm Hr. unfold sys_step. rewrite He, Hm. unfold mover in Hr. rewrite Hr. reflexivity.
Qed.

Lemma accepted_finish s t y :
  accepted s t y ->
  let s2 := sys_step (sys_step s) in
  agreed_on s2 y /\ sys_msg s2 = None /\ sys_rounds s2 = S (S (sys_rounds s)).
Proof.
  intros A. destruct A. cbv zeta.
  rewrite (step_deliver s t y _ _ acc_err0 acc_msg0
             (recv_matching _ _ acc_st0 acc_tap0 acc_mpri0)).
  cbn [option_map].
  match goal with |- context [sys_step ?S1] => set (s1 := S1) end.
  assert (F : receive_closing_signed (mover s1 (negb t)) y = inr (mover s1 (negb t), None)).
  { apply recv_finished. subst s1. destruct t; cbn [mover other negb sys_open sys_resp] in *; auto. }
  rewrite (step_deliver s1 (negb t) y _ _ eq_refl eq_refl F).
  subst s1. destruct t; cbn [mover other negb sys_open sys_resp sys_msg sys_rounds option_map] in *;
    unfold agreed_on; cbn; repeat split; auto.
Qed.

Lemma step_stable s : sys_msg s = None -> sys_step s = s.
Proof. intros H. unfold sys_step. rewrite H. destruct (sys_err s); reflexivity. Qed.

Lemma run_stable k s : sys_msg s = None -> sys_run k s = s.
Proof.
  induction k; cbn; auto. intros H. rewrite (step_stable s H). auto.
Qed.

Lemma run_add j k s : sys_run (j + k) s = sys_run k (sys_run j s).
Proof. revert s. induction j; cbn; auto. Qed.

Lemma ratchet_shrinks x y x' :
  100 <= x -> 100 <= y -> ratchet_rel x y x' ->
  0 < Z.min y x' /\ 0 < Z.max y x' /\
  1091 * Z.max y x' * Z.min x y <= 1000 * Z.max x y * Z.min y x'.
Proof.
  intros Hx Hy [(K1 & K2 & K3)|(K1 & K2 & K3)].
  - pose proof (ratchet_progress_up x y Hx K1 K3) as K4. cbv zeta in K4. rewrite <- K2 in K4.
    rewrite (Z.max_l y x'), (Z.min_r y x'), (Z.min_l x y), (Z.max_r x y) by lia.
    repeat split; try lia.
    replace (1091 * y * x) with (y * (1091 * x)) by ring.
    replace (1000 * y * x') with (y * (1000 * x')) by ring.
    apply Z.mul_le_mono_nonneg_l; lia.
  - pose proof (ratchet_progress_down x y Hy K1 K3) as K4. cbv zeta in K4. rewrite <- K2 in K4.
    rewrite (Z.max_r y x'), (Z.min_l y x'), (Z.min_r x y), (Z.max_l x y) by lia.
    repeat split; try lia.
    replace (1091 * x' * y) with (y * (1091 * x')) by ring.
    replace (1000 * x * y) with (y * (1000 * x)) by ring.
    apply Z.mul_le_mono_nonneg_l; lia.
Qed.

Lemma ratchet_not_close x y x' :
  100 <= x -> 100 <= y -> ratchet_rel x y x' ->
  ~ close_enough 0 (Z.min x y) (Z.max x y).
Proof.
  unfold close_enough. cbn [Z.of_nat]. rewrite !Z.pow_0_r, !Z.mul_1_r.
  intros Hx Hy [(K1 & K2 & K3)|(K1 & K2 & K3)] HC;
    pose proof (Z.div_mod (x * 3) 10 ltac:(lia));
    pose proof (Z.mod_pos_bound (x * 3) 10 ltac:(lia)); lia.
Qed.

Lemma neg_run lo0 hi0 n : forall s t x y,
  neg_inv lo0 hi0 s t x y ->
  close_enough n (Z.min x y) (Z.max x y) ->
  exists k f, (k <= n)%nat /\ lo0 <= f <= hi0 /\
    let s' := sys_run (k + 3) s in
    agreed_on s' f /\ sys_msg s' = None /\ sys_rounds s' = (sys_rounds s + k + 3)%nat.
Proof.
  induction n as [|n IH]; intros s t x y I HC;
    destruct (inv_step _ _ _ _ _ _ I) as (HR & [(x' & I' & RR)|A]).
  - exfalso. destruct I. apply (ratchet_not_close x y x'); auto; lia.
  - exists 0%nat, y. destruct I.
    destruct (accepted_finish _ _ _ A) as (G1 & G2 & G3). cbv zeta in *.
    cbn [plus sys_run].
    split; [lia|]. split; [lia|]. split; [exact G1|]. split; [exact G2|].
    rewrite G3, HR. lia.
  - destruct I as [? ? ? ? ? ? ? ? ? ? ? ? ? ? Ix Iy Ilo Ihi].
    destruct (ratchet_shrinks x y x' ltac:(lia) ltac:(lia) RR) as (P1 & P2 & P3).
    assert (HC' : close_enough n (Z.min y x') (Z.max y x')).
    { eapply close_enough_step; [| | | |exact P3|exact HC]; lia. }
    destruct (IH _ _ _ _ I' HC') as (k & f & Hk & Hf & G). cbv zeta in G.
    destruct G as (G1 & G2 & G3).
    exists (S k), f. cbn [plus sys_run].
    split; [lia|]. split; [lia|]. split; [exact G1|]. split; [exact G2|].
    rewrite G3, HR. lia.
  - exists 0%nat, y. destruct I.
    destruct (accepted_finish _ _ _ A) as (G1 & G2 & G3). cbv zeta in *.
    cbn [plus sys_run].
    split; [lia|]. split; [lia|]. split; [exact G1|]. split; [exact G2|].
    rewrite G3, HR. lia.
Qed.

Lemma compromise_first ideal remote : calc_compromise_fee ideal 0 remote = ideal.
Proof. unfold calc_compromise_fee. cbn. rewrite orb_true_r. reflexivity. Qed.

Lemma start_state a cap_o aff_o b cap_r aff_r :
  a <= aff_o ->
  sys_start false a cap_o aff_o b cap_r aff_r =
  mkSys (mkCloser NFeeNegotiation true false a cap_o a [a] aff_o None)
        (mkCloser NFeeNegotiation false false b cap_r 0 [] aff_r None)
        (Some (false, a)) None 0 [].
Proof.
  intros H. unfold sys_start, new_closer, begin_negotiation, set_state, propose. cbn.
  assert (E : (a <=? aff_o) = true) by lia. rewrite E. reflexivity.
Qed.

Lemma start_step a cap_o aff_o b cap_r aff_r :
  a <= aff_o -> b <= aff_r ->
  sys_step (sys_start false a cap_o aff_o b cap_r aff_r) =
  if b =? a then
    mkSys (mkCloser NFeeNegotiation true false a cap_o a [a] aff_o None)
          (mkCloser NFinished false false b cap_r b [b] aff_r (Some a))
          (Some (true, a)) None 1 [a]
  else
    mkSys (mkCloser NFeeNegotiation true false a cap_o a [a] aff_o None)
          (mkCloser NFeeNegotiation false false b cap_r b [b] aff_r None)
          (Some (true, b)) None 1 [a].
Proof.
  intros Ha Hb. rewrite start_state by auto.
  unfold sys_step. cbn [sys_err sys_msg sys_open sys_resp sys_rounds sys_trace].
  unfold receive_closing_signed. cbn [n_state n_taproot n_initiator n_prior n_last n_ideal
                                        n_max_fee andb negb mem_fee existsb].
  rewrite compromise_first. unfold propose. cbn [n_afford n_prior mem_fee existsb].
  assert (E : (b <=? aff_r) = true) by lia. rewrite E.
  destruct (b =? a); reflexivity.
Qed.

Lemma negotiation_terminates a b cap_o cap_r aff_o aff_r n :
  100 <= a -> 100 <= b ->
  Z.max a b <= cap_o -> Z.max a b <= aff_o -> Z.max a b <= aff_r ->
  Z.max a b < 2 ^ 60 ->
  close_enough n (Z.min a b) (Z.max a b) ->
  exists f rounds,
    (rounds <= n + 4)%nat /\ Z.min a b <= f <= Z.max a b /\
    forall fuel, (n + 4 <= fuel)%nat ->
      let s := sys_run fuel (sys_start false a cap_o aff_o b cap_r aff_r) in
      agreed_on s f /\ sys_msg s = None /\ sys_rounds s = rounds.
Proof.
  intros Ha Hb Hcap Hao Har Hbig HC.
  set (s0 := sys_start false a cap_o aff_o b cap_r aff_r).
  assert (HS : sys_step s0 = _) by (apply start_step; lia).
  destruct (b =? a) eqn:E.
  - (* equal ideal fees: accepted at once *)
    assert (b = a) by lia. subst b.
    assert (A : accepted (sys_step s0) true a).
    { rewrite HS. constructor; cbn; auto. }
    destruct (accepted_finish _ _ _ A) as (G1 & G2 & G3). cbv zeta in *.
    exists a, 3%nat. split; [lia|]. split; [lia|].
    intros fuel Hf. cbv zeta.
    replace fuel with (3 + (fuel - 3))%nat by lia. rewrite run_add.
    cbn [sys_run]. rewrite run_stable by exact G2.
    split; [exact G1|]. split; [exact G2|]. rewrite G3, HS. reflexivity.
  - assert (I : neg_inv (Z.min a b) (Z.max a b) (sys_step s0) true a b).
    { rewrite HS. constructor; cbn; auto; try lia. }
    destruct (neg_run _ _ n _ _ _ _ I HC) as (k & f & Hk & Hf & G). cbv zeta in G.
    destruct G as (G1 & G2 & G3).
    exists f, (1 + k + 3)%nat. split; [lia|]. split; [exact Hf|].
    intros fuel Hfu. cbv zeta.
    replace fuel with (S (k + 3) + (fuel - S (k + 3)))%nat by lia. rewrite run_add.
    cbn [sys_run]. fold s0. rewrite run_stable by exact G2.
    split; [exact G1|]. split; [exact G2|]. rewrite G3, HS. reflexivity.
Qed.

(* closed-form bound: if the larger ideal fee is at most 2^m times the
   smaller one, 8m ratchet steps suffice (1.091^8 > 2) *)
Lemma pow_1091_8 m : 2 ^ Z.of_nat m * 1000 ^ Z.of_nat (8 * m) <= 1091 ^ Z.of_nat (8 * m).
Proof.
  induction m as [|m IH]; [vm_compute; discriminate|].
  replace (8 * S m)%nat with (8 + 8 * m)%nat by lia.
  rewrite Nat2Z.inj_succ, Nat2Z.inj_add, Z.pow_succ_r, !Z.pow_add_r by lia.
  set (A := 1000 ^ Z.of_nat (8 * m)) in *. set (B := 1091 ^ Z.of_nat (8 * m)) in *.
  set (P := 2 ^ Z.of_nat m) in *.
  assert (HP : 0 <= P) by (apply Z.pow_nonneg; lia).
  assert (HA : 0 <= A) by (apply Z.pow_nonneg; lia).
  assert (K : 2 * 1000 ^ Z.of_nat 8 <= 1091 ^ Z.of_nat 8) by (vm_compute; discriminate).
  set (C := 1000 ^ Z.of_nat 8) in *. set (D := 1091 ^ Z.of_nat 8) in *.
  assert (HC : 0 <= C) by (apply Z.pow_nonneg; lia).
  replace (2 * P * (C * A)) with ((2 * C) * (P * A)) by ring.
  apply Z.mul_le_mono_nonneg; try lia.
Qed.

Lemma close_enough_log2 m lo hi :
  0 < lo -> hi <= lo * 2 ^ Z.of_nat m -> close_enough (8 * m) lo hi.
Proof.
  intros Hlo H. unfold close_enough.
  pose proof (pow_1091_8 m) as K.
  set (A := 1000 ^ Z.of_nat (8 * m)) in *. set (B := 1091 ^ Z.of_nat (8 * m)) in *.
  set (P := 2 ^ Z.of_nat m) in *.
  assert (HA : 0 <= A) by (apply Z.pow_nonneg; lia).
  assert (S1 : hi * A <= lo * P * A) by (apply Z.mul_le_mono_nonneg_r; lia).
  assert (S2 : lo * (P * A) <= lo * B) by (apply Z.mul_le_mono_nonneg_l; lia).
  assert (HB : 0 <= lo * B) by lia.
  lia.
Qed.

(* taproot channels: the non-opener accepts the opener's first offer *)
Lemma taproot_terminates a b cap_o cap_r aff_o aff_r :
  a <= aff_o -> a <= aff_r ->
  forall fuel, (3 <= fuel)%nat ->
    let s := sys_run fuel (sys_start true a cap_o aff_o b cap_r aff_r) in
    agreed_on s a /\ sys_msg s = None /\ sys_rounds s = 3%nat.
Proof.
  intros Ha Hb fuel Hf. cbv zeta.
  replace fuel with (3 + (fuel - 3))%nat by lia. rewrite run_add.
  assert (E1 : (a <=? aff_o) = true) by lia.
  assert (E2 : (a <=? aff_r) = true) by lia.
  assert (E3 : (a =? a) = true) by lia.
  assert (HS : sys_run 3 (sys_start true a cap_o aff_o b cap_r aff_r) =
               mkSys (mkCloser NFinished true true a cap_o a [a] aff_o (Some a))
                     (mkCloser NFinished false true b cap_r a [a] aff_r (Some a))
                     None None 3 [a; a; a]).
  { unfold sys_start, new_closer, begin_negotiation, set_state, propose. cbn.
    rewrite E1. cbn.
    unfold sys_step, receive_closing_signed, propose, finalize, set_state; cbn.
    rewrite E2. cbn. rewrite E3. cbn. reflexivity. }
  rewrite HS. rewrite run_stable by reflexivity.
  unfold agreed_on. cbn. repeat split; auto.
Qed.

(* below 10 sat ratchetFee does not move: two honest closers with ideal fees
   1 and 5 exchange the same two offers forever *)
Lemma ratchet_identity_below_10 x up : 0 <= x < 10 -> ratchet_fee x up = x.
Proof.
  intros H. assert (C : x = 0 \/ x = 1 \/ x = 2 \/ x = 3 \/ x = 4 \/ x = 5 \/ x = 6 \/
                        x = 7 \/ x = 8 \/ x = 9) by lia.
  destruct up; repeat (destruct C as [->|C]; [reflexivity|]); subst; reflexivity.
Qed.

Definition stuck_start : system := sys_start false 1 1000 1000 5 1000 1000.

Definition core (s : system) := (sys_open s, sys_resp s, sys_msg s, sys_err s).

Lemma step_core s s' : core s = core s' -> core (sys_step s) = core (sys_step s').
Proof.
  destruct s as [o r m e n tr], s' as [o' r' m' e' n' tr']. unfold core. cbn.
  intros H. inversion H; subst.
  unfold sys_step. cbn.
  destruct e'; [reflexivity|].
  destruct m' as [[t f]|]; [|reflexivity].
  destruct (receive_closing_signed _ _) as [er|[c1 reply]]; reflexivity.
Qed.

Lemma run_S k s : sys_run (S k) s = sys_step (sys_run k s).
Proof. replace (S k) with (k + 1)%nat by lia. rewrite run_add. reflexivity. Qed.

Definition stuck_cores :=
  [core stuck_start; core (sys_run 1 stuck_start); core (sys_run 2 stuck_start);
   core (sys_run 3 stuck_start)].

Lemma stuck_invariant k : In (core (sys_run k stuck_start)) stuck_cores.
Proof.
  induction k as [|k IH]; [left; reflexivity|].
  rewrite run_S.
  destruct IH as [E|[E|[E|[E|[]]]]]; symmetry in E; rewrite (step_core _ _ E).
  - right; left. reflexivity.
  - right; right; left. reflexivity.
  - right; right; right; left. reflexivity.
  - (* the fourth state steps back to the second: a cycle of length 2 *)
    right; right; left. vm_compute. reflexivity.
Qed.

Lemma stuck_forever fuel :
  let s := sys_run fuel stuck_start in
  agreedb s = None /\ sys_err s = None /\ sys_msg s <> None.
Proof.
  cbv zeta. pose proof (stuck_invariant fuel) as H.
  set (s := sys_run fuel stuck_start) in *.
  assert (G : forall c, In c stuck_cores ->
              forall s, core s = c ->
              agreedb s = None /\ sys_err s = None /\ sys_msg s <> None).
  { intros c Hc [o r m e n tr] Hs. unfold core in Hs; cbn in Hs.
    destruct Hc as [E|[E|[E|[E|[]]]]]; rewrite <- E in Hs; vm_compute in Hs;
      inversion Hs; subst; vm_compute; repeat split; try reflexivity; discriminate. }
  exact (G _ H s eq_refl).
Qed.

(* ---- the statements of Props.v that need a little glue ---- *)

Lemma exact_balances_explicit : forall v r d b,
  in_range v r -> close_proposal v r = inr (d, b) ->
  b = final_local v r /\
  0 <= final_local v r /\ 0 <= final_remote v r /\
  Permutation (d_outs d)
    ((if final_local v r <? v_local_dust v then []
      else [(match r_sequence r with
             | Some _ => if r_local_opret r then 0 else final_local v r
             | None => final_local v r end, r_local_script r)]) ++
     (if final_remote v r <? v_remote_dust v then []
      else [(match r_sequence r with
             | Some _ => if r_remote_opret r then 0 else final_remote v r
             | None => final_remote v r end, r_remote_script r)])) /\
  Sorted out_leP (d_outs d) /\
  d_version d = 2 /\
  d_sequence d = match r_sequence r with
                 | Some s => s
                 | None => if v_taproot v then max_rbf_sequence else max_tx_in_sequence
                 end /\
  d_locktime d = match r_locktime r with Some l => l | None => 0 end.
Proof.
  intros v r d b HR HP.
  pose proof (exact_balances v r d b HR HP) as H.
  unfold local_out, remote_out in H. rewrite !side_out_spec in H. exact H.
Qed.

Lemma negotiation_round_bound_log2 : forall a b cap_o cap_r aff_o aff_r m,
  100 <= a -> 100 <= b ->
  Z.max a b <= cap_o -> Z.max a b <= aff_o -> Z.max a b <= aff_r ->
  Z.max a b < 2 ^ 60 ->
  Z.max a b <= Z.min a b * 2 ^ Z.of_nat m ->
  exists f rounds,
    (rounds <= 8 * m + 4)%nat /\ Z.min a b <= f <= Z.max a b /\
    forall fuel, (8 * m + 4 <= fuel)%nat ->
      let s := sys_run fuel (sys_start false a cap_o aff_o b cap_r aff_r) in
      agreed_on s f /\ sys_msg s = None /\ sys_rounds s = rounds.
Proof.
  intros a b cap_o cap_r aff_o aff_r m Ha Hb H1 H2 H3 H4 H5.
  apply negotiation_terminates; auto.
  apply close_enough_log2; auto.
  apply Z.min_glb_lt; apply Z.lt_le_trans with 100; auto; reflexivity.
Qed.

Section Signatures.
  Variables (sk pk msg sig : Type).
  Variable pub : sk -> pk.
  Variable digest : descriptor -> msg.
  Variable sign : sk -> msg -> sig.
  Variable verify : pk -> msg -> sig -> bool.
  Hypothesis verify_sign : forall k m, verify (pub k) m (sign k m) = true.

  Lemma signatures_verify : forall v r d b d' b' ka kb,
    close_proposal v r = inr (d, b) ->
    close_proposal (mirror_view v) (mirror_req r) = inr (d', b') ->
    verify (pub ka) (digest d') (sign ka (digest d)) = true /\
    verify (pub kb) (digest d) (sign kb (digest d')) = true.
  Proof.
    intros v r d b d' b' ka kb H1 H2.
    pose proof (same_tx v r) as S. rewrite H1, H2 in S. subst d'.
    split; apply verify_sign.
  Qed.
End Signatures.

Lemma ratchet_stuck_refuted :
  (forall x up, 0 <= x < 10 -> ratchet_fee x up = x) /\
  exists a b cap aff,
    0 < a <= cap /\ 0 < b <= cap /\ cap <= aff /\
    forall fuel,
      let s := sys_run fuel (sys_start false a cap aff b cap aff) in
      agreedb s = None /\ sys_err s = None /\ sys_msg s <> None.
Proof.
  split; [exact ratchet_identity_below_10|].
  exists 1, 5, 1000, 1000. repeat split; try reflexivity; try discriminate;
    apply (stuck_forever fuel).
Qed.
