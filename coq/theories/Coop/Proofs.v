(* C17 — lemmas and proofs about Coop/Model.v. *)
From Coq Require Import List ZArith Bool Lia Permutation Sorted.
From Coq Require Import ZifyBool.
From LV Require Import Coop.Model.
Import ListNotations.
Local Open Scope Z_scope.

(* ------------------------------------------------------------------ *)
(* int64 arithmetic without overflow                                   *)

Lemma w64_id x : - two63 <= x < two63 -> w64 x = x.
Proof.
  intros H. unfold w64, two64, two63 in *.
  rewrite Z.mod_small by lia. lia.
Qed.

Definition small (x : Z) : Prop := - 2 ^ 61 <= x < 2 ^ 61.

Lemma two63_eq : two63 = 2 ^ 63.
Proof. reflexivity. Qed.

Lemma add64_small a b : small a -> small b -> add64 a b = a + b.
Proof.
  unfold small, add64. intros Ha Hb. apply w64_id. rewrite two63_eq.
  change (2 ^ 63) with (4 * 2 ^ 61). lia.
Qed.

Lemma sub64_small a b : small a -> small b -> sub64 a b = a - b.
Proof.
  unfold small, sub64. intros Ha Hb. apply w64_id. rewrite two63_eq.
  change (2 ^ 63) with (4 * 2 ^ 61). lia.
Qed.

Lemma mul64_anchor : mul64 2 anchor_size = 660.
Proof. reflexivity. Qed.

(* ------------------------------------------------------------------ *)
(* the unbounded specification of the two final balances               *)

Definition payer_of (v : chan_view) (r : close_req) : party :=
  fee_payer (v_initiator v) (r_payer r).

(* balance of a party before the closing fee is charged: commitment balance
   (msat truncated to sat) plus, for the opener, commit fee and anchors *)
Definition gross_local (v : chan_view) : Z :=
  to_sat (v_local_msat v) + (if v_initiator v then opener_credit v else 0).
Definition gross_remote (v : chan_view) : Z :=
  to_sat (v_remote_msat v) + (if v_initiator v then 0 else opener_credit v).

Definition final_local (v : chan_view) (r : close_req) : Z :=
  gross_local v - (match payer_of v r with Local => r_fee r | Remote => 0 end).
Definition final_remote (v : chan_view) (r : close_req) : Z :=
  gross_remote v - (match payer_of v r with Local => 0 | Remote => r_fee r end).

(* what the payer owns before the fee *)
Definition payer_gross (v : chan_view) (r : close_req) : Z :=
  match payer_of v r with Local => gross_local v | Remote => gross_remote v end.

(* domain on which Go's int64 arithmetic does not wrap: msat balances are
   uint64, satoshi amounts below 2^60 (the supply is < 2^51 sat) *)
Definition in_range (v : chan_view) (r : close_req) : Prop :=
  0 <= v_local_msat v < two64 /\ 0 <= v_remote_msat v < two64 /\
  0 <= v_commit_fee v < 2 ^ 60 /\ 0 <= r_fee r < 2 ^ 60.

Lemma to_sat_bounds m : 0 <= m < two64 -> 0 <= to_sat m < 2 ^ 55.
Proof.
  unfold to_sat, two64. intros H. split.
  - apply Z.div_pos; lia.
  - apply Z.div_lt_upper_bound; [lia|]. change (2 ^ 55) with 36028797018963968. lia.
Qed.

Lemma balance_spec v r :
  in_range v r ->
  coop_close_balance (v_anchors v) (v_initiator v) (r_fee r)
                     (to_sat (v_local_msat v)) (to_sat (v_remote_msat v))
                     (v_commit_fee v) (r_payer r)
  = if (final_local v r <? 0) || (final_remote v r <? 0) then None
    else Some (final_local v r, final_remote v r).
Proof.
  intros (Hl & Hr & Hc & Hf).
  pose proof (to_sat_bounds _ Hl) as Bl. pose proof (to_sat_bounds _ Hr) as Br.
  unfold coop_close_balance, final_local, final_remote, gross_local, gross_remote,
    payer_of, opener_credit.
  rewrite mul64_anchor.
  assert (P55 : 2 ^ 55 = 36028797018963968) by reflexivity.
  assert (P60 : 2 ^ 60 = 1152921504606846976) by reflexivity.
  assert (P61 : 2 ^ 61 = 2305843009213693952) by reflexivity.
  assert (Hd : (if v_anchors v then add64 (v_commit_fee v) 660 else v_commit_fee v)
               = v_commit_fee v + (if v_anchors v then 2 * anchor_size else 0)).
  { destruct (v_anchors v); [rewrite add64_small by (unfold small; lia)|];
      unfold anchor_size; lia. }
  rewrite Hd. clear Hd.
  set (delta := v_commit_fee v + (if v_anchors v then 2 * anchor_size else 0)).
  assert (Bd : 0 <= delta < 2 ^ 60 + 661).
  { subst delta. unfold anchor_size. destruct (v_anchors v); lia. }
  set (p := fee_payer (v_initiator v) (r_payer r)).
  destruct (v_initiator v); destruct p;
    repeat (rewrite add64_small by (unfold small; lia));
    repeat (rewrite sub64_small by (unfold small; lia));
    repeat (rewrite add64_small by (unfold small; lia));
    rewrite ?Z.add_0_r, ?Z.sub_0_r; reflexivity.
Qed.

(* ------------------------------------------------------------------ *)
(* BIP69 ordering and the insertion sort                               *)

Lemma bytes_cmp_eq a : forall b, bytes_cmp a b = Eq -> a = b.
Proof.
  induction a as [|x a IH]; intros [|y b]; cbn; try discriminate; auto.
  destruct (x ?= y) eqn:E; try discriminate.
  intros H. apply Z.compare_eq in E. f_equal; auto.
Qed.

Lemma bytes_cmp_antisym a : forall b, bytes_cmp b a = CompOpp (bytes_cmp a b).
Proof.
  induction a as [|x a IH]; intros [|y b]; cbn; auto.
  rewrite (Z.compare_antisym x y).
  destruct (x ?= y); cbn; auto.
Qed.

Lemma out_le_total a b : out_le a b = false -> out_le b a = true.
Proof.
  unfold out_le. destruct a as [v s], b as [w t]; cbn.
  rewrite (bytes_cmp_antisym s t).
  destruct (bytes_cmp s t); cbn; lia.
Qed.

Lemma out_le_antisym a b : out_le a b = true -> out_le b a = true -> a = b.
Proof.
  unfold out_le. destruct a as [v s], b as [w t]; cbn.
  rewrite (bytes_cmp_antisym s t).
  destruct (bytes_cmp s t) eqn:E; cbn; intros H1 H2; try lia.
  apply bytes_cmp_eq in E. f_equal; [lia|auto].
Qed.

Lemma insert_perm o l : Permutation (insert_out o l) (o :: l).
Proof.
  induction l as [|h t IH]; cbn; auto.
  destruct (out_le o h); auto.
  etransitivity; [apply perm_skip, IH|apply perm_swap].
Qed.

Lemma sort_perm l : Permutation (sort_outs l) l.
Proof.
  induction l as [|h t IH]; cbn; auto.
  etransitivity; [apply insert_perm|auto].
Qed.

Definition out_leP (a b : txout) : Prop := out_le a b = true.

Lemma insert_sorted o l : Sorted out_leP l -> Sorted out_leP (insert_out o l).
Proof.
  induction 1 as [|h t Hs IH Hh]; cbn.
  - repeat constructor.
  - destruct (out_le o h) eqn:E.
    + constructor; [constructor; auto|constructor; exact E].
    + constructor; auto.
      apply out_le_total in E.
      destruct t as [|h' t']; cbn in *.
      * constructor; exact E.
      * destruct (out_le o h'); constructor; auto.
        inversion Hh; auto.
Qed.

Lemma sort_sorted l : Sorted out_leP (sort_outs l).
Proof.
  induction l; cbn; [constructor|apply insert_sorted; auto].
Qed.

Lemma sum_outs_perm l l' : Permutation l l' -> sum_outs l = sum_outs l'.
Proof.
  induction 1 as [|x l l' HP IH|x y l|l l' l'' HP1 IH1 HP2 IH2];
    unfold sum_outs in *; cbn [fold_right] in *; lia.
Qed.

Lemma sort2_comm (a b : list txout) :
  (length a <= 1)%nat -> (length b <= 1)%nat ->
  sort_outs (a ++ b) = sort_outs (b ++ a).
Proof.
  destruct a as [|x [|? ?]]; destruct b as [|y [|? ?]]; cbn; try lia; auto.
  intros _ _.
  destruct (out_le x y) eqn:E1; destruct (out_le y x) eqn:E2; auto.
  - rewrite (out_le_antisym _ _ E1 E2). reflexivity.
  - apply out_le_total in E1. congruence.
Qed.

Lemma side_out_len opts bal dust scr op : (length (side_out opts bal dust scr op) <= 1)%nat.
Proof. unfold side_out. destruct (dust <=? bal); cbn; lia. Qed.

(* ------------------------------------------------------------------ *)
(* both parties derive the same transaction                            *)

Lemma balance_mirror an ini fee our their cf payer :
  coop_close_balance an (negb ini) fee their our cf (option_map counter_party payer)
  = match coop_close_balance an ini fee our their cf payer with
    | Some (o, t) => Some (t, o)
    | None => None
    end.
Proof.
  unfold coop_close_balance, fee_payer.
  destruct ini, payer as [[|]|]; cbn;
    match goal with |- context [if ?a || ?b then _ else _] =>
      destruct a, b; cbn; reflexivity end.
Qed.

Lemma close_tx_mirror opts ld rd our their os ts oo to :
  close_tx opts rd ld their our ts os to oo = close_tx opts ld rd our their os ts oo to.
Proof.
  unfold close_tx. f_equal.
  apply sort2_comm; apply side_out_len.
Qed.

Lemma same_tx v r :
  match close_proposal v r, close_proposal (mirror_view v) (mirror_req r) with
  | inr (d, b), inr (d', b') => d = d'
  | inl e, inl e' => e = e'
  | _, _ => False
  end.
Proof.
  unfold close_proposal, mirror_view, mirror_req; cbn.
  assert (Hp : match option_map counter_party (r_payer r) with None => true | Some _ => false end
               = match r_payer r with None => true | Some _ => false end)
    by (destruct (r_payer r); reflexivity).
  rewrite Hp.
  destruct (v_closed v && _); [reflexivity|].
  rewrite balance_mirror.
  destruct (coop_close_balance _ _ _ _ _ _ _) as [[o t]|]; [|reflexivity].
  rewrite close_tx_mirror.
  destruct (tx_sane _); reflexivity.
Qed.

(* the balance each side reports as its own is the other's counterpart *)
Lemma same_tx_balances v r d b d' b' :
  in_range v r ->
  close_proposal v r = inr (d, b) ->
  close_proposal (mirror_view v) (mirror_req r) = inr (d', b') ->
  b = final_local v r /\ b' = final_remote v r.
Proof.
  intros HR. unfold close_proposal, mirror_view, mirror_req; cbn.
  assert (Hp : match option_map counter_party (r_payer r) with None => true | Some _ => false end
               = match r_payer r with None => true | Some _ => false end)
    by (destruct (r_payer r); reflexivity).
  rewrite Hp.
  destruct (v_closed v && _); [discriminate|].
  rewrite balance_mirror, (balance_spec v r HR).
  destruct (_ || _); [discriminate|].
  destruct (tx_sane _); [|discriminate].
  destruct (tx_sane _); [|discriminate].
  intros H1 H2. inversion H1; inversion H2; auto.
Qed.

(* ------------------------------------------------------------------ *)
(* exact balances, guard, conservation                                 *)

Definition not_refused_closing (v : chan_view) (r : close_req) : Prop :=
  v_closed v = false \/ r_payer r <> None.

Lemma closing_guard_false v r :
  not_refused_closing v r ->
  v_closed v && match r_payer r with None => true | Some _ => false end = false.
Proof.
  intros [H|H]; [rewrite H; reflexivity|].
  destruct (r_payer r); [apply andb_false_r|congruence].
Qed.

Lemma gross_nonneg v r : in_range v r -> 0 <= gross_local v /\ 0 <= gross_remote v.
Proof.
  intros (Hl & Hr & Hc & Hf).
  pose proof (to_sat_bounds _ Hl). pose proof (to_sat_bounds _ Hr).
  unfold gross_local, gross_remote, opener_credit, anchor_size.
  destruct (v_initiator v), (v_anchors v); lia.
Qed.

Lemma fee_payer_guard v r :
  in_range v r -> not_refused_closing v r ->
  (close_proposal v r = inl ErrAfford <-> payer_gross v r < r_fee r).
Proof.
  intros HR HC. pose proof (gross_nonneg v r HR) as [G1 G2].
  destruct HR as (Hl & Hr & Hc & Hf).
  unfold close_proposal. rewrite (closing_guard_false _ _ HC).
  rewrite balance_spec by (repeat split; lia).
  unfold final_local, final_remote, payer_gross.
  destruct (payer_of v r);
    match goal with |- context [if ?a || ?b then _ else _] =>
      destruct a eqn:Ea, b eqn:Eb; cbn end;
    try (split; [lia|intros; reflexivity]);
    try (split; [intros; lia|intros; reflexivity]);
    try (destruct (tx_sane _); split; [discriminate|lia]).
Qed.

Definition local_out (v : chan_view) (r : close_req) : list txout :=
  side_out (mkOpts (v_taproot v) (r_sequence r) (r_locktime r))
           (final_local v r) (v_local_dust v) (r_local_script r) (r_local_opret r).
Definition remote_out (v : chan_view) (r : close_req) : list txout :=
  side_out (mkOpts (v_taproot v) (r_sequence r) (r_locktime r))
           (final_remote v r) (v_remote_dust v) (r_remote_script r) (r_remote_opret r).

Lemma proposal_ok_inv v r d b :
  in_range v r -> close_proposal v r = inr (d, b) ->
  0 <= final_local v r /\ 0 <= final_remote v r /\ b = final_local v r /\
  d = close_tx (mkOpts (v_taproot v) (r_sequence r) (r_locktime r))
               (v_local_dust v) (v_remote_dust v) (final_local v r) (final_remote v r)
               (r_local_script r) (r_remote_script r) (r_local_opret r) (r_remote_opret r) /\
  d_outs d <> [].
Proof.
  intros HR. unfold close_proposal.
  destruct (v_closed v && _); [discriminate|].
  rewrite (balance_spec v r HR).
  destruct (final_local v r <? 0) eqn:E1; [discriminate|].
  destruct (final_remote v r <? 0) eqn:E2; [discriminate|]. cbn [orb].
  destruct (tx_sane _) eqn:ES; [|discriminate].
  intros H; inversion H; subst. repeat split; try lia.
  unfold tx_sane in ES. intros Hn. rewrite Hn in ES. discriminate.
Qed.

Lemma exact_balances v r d b :
  in_range v r -> close_proposal v r = inr (d, b) ->
  b = final_local v r /\
  0 <= final_local v r /\ 0 <= final_remote v r /\
  Permutation (d_outs d) (local_out v r ++ remote_out v r) /\
  Sorted out_leP (d_outs d) /\
  d_version d = 2 /\
  d_sequence d = match r_sequence r with
                 | Some s => s
                 | None => if v_taproot v then max_rbf_sequence else max_tx_in_sequence
                 end /\
  d_locktime d = match r_locktime r with Some l => l | None => 0 end.
Proof.
  intros HR HP. destruct (proposal_ok_inv v r d b HR HP) as (H1 & H2 & H3 & H4 & _).
  subst d. cbn. repeat split; auto.
  - apply sort_perm.
  - apply sort_sorted.
Qed.

(* output present iff the owner's final balance reaches its dust limit; its
   value is the final balance (or 0 for an OP_RETURN in the RBF flow) *)
Lemma side_out_spec opts bal dust scr op :
  side_out opts bal dust scr op =
  if bal <? dust then []
  else [((match o_sequence opts with Some _ => if op then 0 else bal | None => bal end), scr)].
Proof.
  unfold side_out. destruct (dust <=? bal) eqn:E1, (bal <? dust) eqn:E2; try lia; reflexivity.
Qed.

Lemma sum_side_out_le opts bal dust scr op :
  0 <= bal -> 0 <= sum_outs (side_out opts bal dust scr op) <= bal.
Proof.
  intros. unfold side_out. destruct (dust <=? bal); cbn; [|lia].
  destruct (o_sequence opts); [destruct op|]; cbn; lia.
Qed.

Lemma conservation v r d b capacity :
  in_range v r ->
  v_local_msat v + v_remote_msat v + 1000 * opener_credit v = 1000 * capacity ->
  close_proposal v r = inr (d, b) ->
  sum_outs (d_outs d) + r_fee r <= capacity /\
  (length (d_outs d) = 2%nat ->
   (r_sequence r = None \/ (r_local_opret r = false /\ r_remote_opret r = false)) ->
   capacity - 1 <= sum_outs (d_outs d) + r_fee r /\
   (v_local_msat v mod 1000 = 0 -> sum_outs (d_outs d) + r_fee r = capacity)).
Proof.
  intros HR HL HP.
  destruct (exact_balances v r d b HR HP) as (_ & F1 & F2 & HPerm & _).
  rewrite (sum_outs_perm _ _ HPerm).
  assert (HS : sum_outs (local_out v r ++ remote_out v r)
               = sum_outs (local_out v r) + sum_outs (remote_out v r)).
  { generalize (remote_out v r). induction (local_out v r); intros; cbn in *; [lia|].
    rewrite IHl. lia. }
  rewrite HS.
  pose proof (Permutation_length HPerm) as HLen. rewrite app_length in HLen.
  assert (HT : final_local v r + final_remote v r + r_fee r
               = to_sat (v_local_msat v) + to_sat (v_remote_msat v) + opener_credit v).
  { unfold final_local, final_remote, gross_local, gross_remote.
    destruct (payer_of v r), (v_initiator v); lia. }
  destruct HR as (Hl & Hr & Hc & Hf).
  unfold to_sat in HT.
  pose proof (Z.div_mod (v_local_msat v) 1000 ltac:(lia)) as D1.
  pose proof (Z.div_mod (v_remote_msat v) 1000 ltac:(lia)) as D2.
  pose proof (Z.mod_pos_bound (v_local_msat v) 1000 ltac:(lia)) as M1.
  pose proof (Z.mod_pos_bound (v_remote_msat v) 1000 ltac:(lia)) as M2.
  unfold local_out, remote_out in *.
  pose proof (sum_side_out_le (mkOpts (v_taproot v) (r_sequence r) (r_locktime r))
                (final_local v r) (v_local_dust v) (r_local_script r) (r_local_opret r) F1) as S1.
  pose proof (sum_side_out_le (mkOpts (v_taproot v) (r_sequence r) (r_locktime r))
                (final_remote v r) (v_remote_dust v) (r_remote_script r) (r_remote_opret r) F2) as S2.
  split; [lia|].
  intros H2 Hop. rewrite H2 in HLen.
  unfold side_out in *. cbn [o_sequence] in *.
  destruct (v_local_dust v <=? final_local v r); cbn [length] in HLen; [|
    destruct (v_remote_dust v <=? final_remote v r); cbn in HLen; lia].
  destruct (v_remote_dust v <=? final_remote v r); cbn [length] in HLen; [|cbn in HLen; lia].
  assert (HV : sum_outs [(match r_sequence r with Some _ => if r_local_opret r then 0 else final_local v r
                                          | None => final_local v r end, r_local_script r)]
               + sum_outs [(match r_sequence r with Some _ => if r_remote_opret r then 0 else final_remote v r
                                          | None => final_remote v r end, r_remote_script r)]
               = final_local v r + final_remote v r).
  { cbn. destruct Hop as [-> | [-> ->]]; [lia|]. destruct (r_sequence r); lia. }
  rewrite HV. split; [lia|].
  intros Hm. lia.
Qed.
