(* C17 — trace checker for the correspondence run: every case is one call (or
   one negotiation) observed on the real Go code; [check_case] re-evaluates
   the model on the same inputs and compares the projected observables. *)
From Coq Require Import List ZArith NArith Bool.
From LV Require Import Coop.Model.
Import ListNotations.
Local Open Scope Z_scope.

Fixpoint script_eqb (a b : script) : bool :=
  match a, b with
  | [], [] => true
  | x :: a', y :: b' => (x =? y) && script_eqb a' b'
  | _, _ => false
  end.

Definition txout_eqb (a b : txout) : bool :=
  (fst a =? fst b) && script_eqb (snd a) (snd b).

Fixpoint outs_eqb (a b : list txout) : bool :=
  match a, b with
  | [], [] => true
  | x :: a', y :: b' => txout_eqb x y && outs_eqb a' b'
  | _, _ => false
  end.

Definition desc_eqb (a b : descriptor) : bool :=
  (d_version a =? d_version b) && (d_sequence a =? d_sequence b) &&
  (d_locktime a =? d_locktime b) && outs_eqb (d_outs a) (d_outs b).

Definition opt_pair_eqb (a b : option (Z * Z)) : bool :=
  match a, b with
  | None, None => true
  | Some (x, y), Some (u, v) => (x =? u) && (y =? v)
  | _, _ => false
  end.

Fixpoint zlist_eqb (a b : list Z) : bool :=
  match a, b with
  | [], [] => true
  | x :: a', y :: b' => (x =? y) && zlist_eqb a' b'
  | _, _ => false
  end.

(* observed result of CreateCloseProposal / CompleteCooperativeClose:
   error class 1 = ErrChanClosing, 2 = cannot afford, 3 = sanity,
   or the transaction descriptor and the returned balance *)
Inductive prop_obs :=
| PErr (class : Z)
| POk (d : descriptor) (bal : Z).

Definition err_class (e : close_err) : Z :=
  match e with ErrClosing => 1 | ErrAfford => 2 | ErrSanity => 3 end.

Definition prop_obs_eqb (m : close_err + (descriptor * Z)) (o : prop_obs) : bool :=
  match m, o with
  | inl e, PErr c => err_class e =? c
  | inr (d, b), POk d' b' => desc_eqb d d' && (b =? b')
  | _, _ => false
  end.

(* observed end of a negotiation between two real ChanClosers *)
Inductive neg_obs :=
| NAgreed (fee : Z)          (* both closeFinished, same closing tx fee *)
| NError (class : Z)         (* 1 ErrProposalExceedsMaxFee, 2 taproot fee,
                                3 signing failed, 4 invalid state *)
| NOpen.                     (* fuel exhausted, messages still in flight *)

Definition nerr_class (e : nerr) : Z :=
  match e with
  | NErrExceedsMax => 1 | NErrTaprootFee => 2 | NErrSign => 3
  | NErrInvalidState => 4
  end.

Definition neg_result (s : system) : neg_obs :=
  match sys_err s with
  | Some e => NError (nerr_class e)
  | None =>
    match agreedb s with
    | Some f => NAgreed f
    | None => NOpen
    end
  end.

Definition neg_obs_eqb (a b : neg_obs) : bool :=
  match a, b with
  | NAgreed f, NAgreed g => f =? g
  | NError c, NError d => c =? d
  | NOpen, NOpen => true
  | _, _ => false
  end.

Inductive case :=
| CConst (anchor : Z)
| CBal (anchors initiator : bool) (fee our their cfee : Z) (payer : option party)
       (res : option (Z * Z))
| CTx (opts : tx_opts) (ldust rdust our their : Z) (oscr tscr : script)
      (oop top : bool) (res : descriptor)
| CRange (l r : Z) (res : bool)
| CRatchet (fee : Z) (up : bool) (res : Z)
| CCompromise (ideal last remote : Z) (res : Z)
| CProp (v : chan_view) (r : close_req) (res : prop_obs)
| CNeg (taproot : bool) (io mo ao ir mr ar : Z) (fuel : nat)
       (trace : list Z) (res : neg_obs).

Definition check (c : case) : bool :=
  match c with
  | CConst a => a =? anchor_size
  | CBal an ini fee our their cfee payer res =>
    opt_pair_eqb (coop_close_balance an ini fee our their cfee payer) res
  | CTx opts ld rd our their os ts oo to res =>
    desc_eqb (close_tx opts ld rd our their os ts oo to) res
  | CRange l r res => Bool.eqb (fee_in_acceptable_range l r) res
  | CRatchet f up res => ratchet_fee f up =? res
  | CCompromise i l r res => calc_compromise_fee i l r =? res
  | CProp v r res => prop_obs_eqb (close_proposal v r) res
  | CNeg tap io mo ao ir mr ar fuel trace res =>
    let s := sys_run fuel (sys_start tap io (max_fee_baseline io mo) ao
                                    ir (max_fee_baseline ir mr) ar) in
    zlist_eqb (sys_trace s) trace && neg_obs_eqb (neg_result s) res
  end.

Definition check_case (c : case) : list N := if check c then [] else [0%N].

Fixpoint mismatches (cases : list case) (i : N) : list (N * list N) :=
  match cases with
  | [] => []
  | c :: r =>
    match check_case c with
    | [] => mismatches r (i + 1)%N
    | bad => (i, bad) :: mismatches r (i + 1)%N
    end
  end.
