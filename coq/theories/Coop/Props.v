(* C17 — property theorems (statements only; proofs are in Proofs.v).

   Vocabulary (Model.v / Proofs.v):
     close_proposal v r     what CreateCloseProposal / CompleteCooperativeClose
                            build for view v and request r (error class, or the
                            transaction descriptor and the caller's balance)
     mirror_view / mirror_req  the counterparty's view of the same HTLC-free
                            channel state and of the same request
     gross_local/remote     commitment balance in sat (msat truncated) plus, for
                            the channel opener, commit fee + 2 anchors
     final_local/remote     gross minus the closing fee for the paying party
     in_range               msat balances are uint64, commit fee and closing fee
                            in [0, 2^60): Go's int64 arithmetic does not wrap
     sys_start/sys_run      two honest ChanClosers wired back to back; one unit
                            of fuel delivers one ClosingSigned                *)
From Coq Require Import List ZArith Bool Permutation Sorted.
From LV Require Import Coop.Model Coop.Proofs.
Import ListNotations.
Local Open Scope Z_scope.

(* Both parties build the same transaction (version, sequence, locktime,
   ordered outputs) or fail with the same error class — for every view,
   fee, script pair, payer override, sequence/locktime option; no range
   hypothesis (the mirror symmetry also holds where int64 would wrap). *)
Theorem C17_same_tx : forall v r,
  match close_proposal v r, close_proposal (mirror_view v) (mirror_req r) with
  | inr (d, _), inr (d', _) => d = d'
  | inl e, inl e' => e = e'
  | _, _ => False
  end.
Proof. exact same_tx. Qed.

(* Each party's output equals its exact balance; an output is present iff the
   owner's final balance reaches the owner's dust limit; BIP69 order;
   version/sequence/locktime as configured. *)
Theorem C17_exact_balances : forall v r d b,
  in_range v r -> close_proposal v r = inr (d, b) ->
  b = final_local v r /\
  0 <= final_local v r /\ 0 <= final_remote v r /\
  Permutation (d_outs d)
    ((if final_local v r <? v_local_dust v then []
      else [(match r_sequence r with
             | Some _ => if r_local_opret r then 0 else final_local v r
             | None => final_local v r end, r_local_script r)]) ++
     (if final_remote v r <? v_remote_dust v then []
      else [(match r_sequence r with
             | Some _ => if r_remote_opret r then 0 else final_remote v r
             | None => final_remote v r end, r_remote_script r)])) /\
  Sorted out_leP (d_outs d) /\
  d_version d = 2 /\
  d_sequence d = match r_sequence r with
                 | Some s => s
                 | None => if v_taproot v then max_rbf_sequence else max_tx_in_sequence
                 end /\
  d_locktime d = match r_locktime r with Some l => l | None => 0 end.
Proof. exact exact_balances_explicit. Qed.

(* The proposal is refused with "cannot afford" exactly when the paying party
   owns less than the fee (after the opener has been credited commit fee and
   anchors). *)
Theorem C17_fee_payer_guard : forall v r,
  in_range v r -> (v_closed v = false \/ r_payer r <> None) ->
  (close_proposal v r = inl ErrAfford <-> payer_gross v r < r_fee r).
Proof. exact fee_payer_guard. Qed.

(* Outputs plus fee never exceed the capacity; if nothing is trimmed (and no
   OP_RETURN output is zeroed) at most the 1 sat lost by msat truncation is
   missing, and nothing when the balances are whole satoshis. *)
Theorem C17_conservation : forall v r d b capacity,
  in_range v r ->
  v_local_msat v + v_remote_msat v + 1000 * opener_credit v = 1000 * capacity ->
  close_proposal v r = inr (d, b) ->
  sum_outs (d_outs d) + r_fee r <= capacity /\
  (length (d_outs d) = 2%nat ->
   (r_sequence r = None \/ (r_local_opret r = false /\ r_remote_opret r = false)) ->
   capacity - 1 <= sum_outs (d_outs d) + r_fee r /\
   (v_local_msat v mod 1000 = 0 -> sum_outs (d_outs d) + r_fee r = capacity)).
Proof. exact conservation. Qed.

(* Signatures: with any signature scheme in which a signature on a message
   verifies under the signer's key, each side's signature on the transaction
   it built verifies against the transaction the other side built. *)
Section Signatures.
  Variables (sk pk msg sig : Type).
  Variable pub : sk -> pk.
  Variable digest : descriptor -> msg.
  Variable sign : sk -> msg -> sig.
  Variable verify : pk -> msg -> sig -> bool.
  Hypothesis verify_sign : forall k m, verify (pub k) m (sign k m) = true.

  Theorem C17_signatures_verify : forall v r d b d' b' ka kb,
    close_proposal v r = inr (d, b) ->
    close_proposal (mirror_view v) (mirror_req r) = inr (d', b') ->
    verify (pub ka) (digest d') (sign ka (digest d)) = true /\
    verify (pub kb) (digest d) (sign kb (digest d')) = true.
  Proof. exact (signatures_verify sk pk msg sig pub digest sign verify verify_sign). Qed.
End Signatures.

(* Legacy negotiation terminates: ideal fees a (opener) and b, both >= 100 sat
   and both within the opener's cap and within what the payer can afford.  If n
   satisfies 100*max*1000^n <= 129*min*1091^n (n = ceil(log_1.091(max/(1.29*min))))
   then after at most n+4 delivered ClosingSigned messages both sides have
   completed the close on the same fee, which both signed for and which lies
   between the ideal fees; nothing is in flight and more fuel changes nothing. *)
Theorem C17_negotiation_terminates : forall a b cap_o cap_r aff_o aff_r n,
  100 <= a -> 100 <= b ->
  Z.max a b <= cap_o -> Z.max a b <= aff_o -> Z.max a b <= aff_r ->
  Z.max a b < 2 ^ 60 ->
  100 * Z.max a b * 1000 ^ Z.of_nat n <= 129 * Z.min a b * 1091 ^ Z.of_nat n ->
  exists f rounds,
    (rounds <= n + 4)%nat /\ Z.min a b <= f <= Z.max a b /\
    forall fuel, (n + 4 <= fuel)%nat ->
      let s := sys_run fuel (sys_start false a cap_o aff_o b cap_r aff_r) in
      agreed_on s f /\ sys_msg s = None /\ sys_rounds s = rounds.
Proof. exact negotiation_terminates. Qed.

(* Closed form: if max <= 2^m * min then 8*m + 4 rounds suffice. *)
Theorem C17_negotiation_round_bound_log2 : forall a b cap_o cap_r aff_o aff_r m,
  100 <= a -> 100 <= b ->
  Z.max a b <= cap_o -> Z.max a b <= aff_o -> Z.max a b <= aff_r ->
  Z.max a b < 2 ^ 60 ->
  Z.max a b <= Z.min a b * 2 ^ Z.of_nat m ->
  exists f rounds,
    (rounds <= 8 * m + 4)%nat /\ Z.min a b <= f <= Z.max a b /\
    forall fuel, (8 * m + 4 <= fuel)%nat ->
      let s := sys_run fuel (sys_start false a cap_o aff_o b cap_r aff_r) in
      agreed_on s f /\ sys_msg s = None /\ sys_rounds s = rounds.
Proof. exact negotiation_round_bound_log2. Qed.

(* Taproot channels: the non-opener accepts the opener's first offer. *)
Theorem C17_taproot_negotiation_terminates : forall a b cap_o cap_r aff_o aff_r,
  a <= aff_o -> a <= aff_r ->
  forall fuel, (3 <= fuel)%nat ->
    let s := sys_run fuel (sys_start true a cap_o aff_o b cap_r aff_r) in
    agreed_on s a /\ sys_msg s = None /\ sys_rounds s = 3%nat.
Proof. exact taproot_terminates. Qed.

(* Why the 100 sat guard: without it termination is false.  ratchetFee is the
   identity below 10 sat, and two honest closers with ideal fees 1 and 5 sat
   (cap and affordability 1000 sat) never agree, never fail, and always have
   a ClosingSigned in flight. *)
Theorem C17_ratchet_stuck_refuted :
  (forall x up, 0 <= x < 10 -> ratchet_fee x up = x) /\
  exists a b cap aff,
    0 < a <= cap /\ 0 < b <= cap /\ cap <= aff /\
    forall fuel,
      let s := sys_run fuel (sys_start false a cap aff b cap aff) in
      agreedb s = None /\ sys_err s = None /\ sys_msg s <> None.
Proof. exact ratchet_stuck_refuted. Qed.
