(* C17 — non-vacuity: the hypotheses of the property theorems are satisfied
   by concrete, non-trivial states (values taken from runs of the real code). *)
From Coq Require Import List ZArith Bool Lia.
From LV Require Import Coop.Model Coop.Proofs Coop.Props.
Import ListNotations.
Local Open Scope Z_scope.

Ltac decide_range := unfold in_range; repeat split; vm_compute;
  first [reflexivity | (let K := fresh in intros K; discriminate K)].

(* an anchor channel of 10 BTC opened by us: 4.2 BTC (+ 777 msat) local,
   the rest remote, commit fee 9050 sat, dust limits 354 / 546 *)
Definition ex_view : chan_view :=
  mkView true false true 420000000777 579990289223 9050 354 546 false.
Definition ex_req : close_req :=
  mkReq 1234 [0; 20; 1; 2; 3] [0; 20; 9; 9; 9] false false None None None.

Example ex_in_range : in_range ex_view ex_req.
Proof. decide_range. Qed.

Example ex_ledger :
  v_local_msat ex_view + v_remote_msat ex_view + 1000 * opener_credit ex_view
  = 1000 * 1000000000.
Proof. reflexivity. Qed.

Example ex_proposal :
  close_proposal ex_view ex_req =
  inr (mkDesc 2 4294967295 0 [(420008476, [0; 20; 1; 2; 3]); (579990289, [0; 20; 9; 9; 9])],
       420008476).
Proof. vm_compute. reflexivity. Qed.

(* both outputs present: 1 sat is lost to msat truncation, as C17_conservation allows *)
Example ex_conservation :
  sum_outs [(420008476, [0; 20; 1; 2; 3]); (579990289, [0; 20; 9; 9; 9])] + 1234
  = 1000000000 - 1.
Proof. reflexivity. Qed.

(* the guard in both directions *)
Example ex_guard_refused :
  let r := mkReq 420009711 [1] [2] false false None None None in
  in_range ex_view r /\ payer_gross ex_view r < r_fee r /\
  close_proposal ex_view r = inl ErrAfford.
Proof. cbv zeta. split; [decide_range|]. split; vm_compute; reflexivity. Qed.

Example ex_guard_accepted :
  let r := mkReq 420009710 [1] [2] false false None None None in
  in_range ex_view r /\ ~ payer_gross ex_view r < r_fee r /\
  exists d b, close_proposal ex_view r = inr (d, b).
Proof.
  cbv zeta. split; [decide_range|]. split; [vm_compute; discriminate|].
  eexists _, _. vm_compute. reflexivity.
Qed.

(* the counterparty derives the same transaction *)
Example ex_same_tx :
  exists b', close_proposal (mirror_view ex_view) (mirror_req ex_req) =
  inr (mkDesc 2 4294967295 0 [(420008476, [0; 20; 1; 2; 3]); (579990289, [0; 20; 9; 9; 9])], b').
Proof. eexists. vm_compute. reflexivity. Qed.

(* negotiation: ideal fees 687 and 35495 sat (observed on the real code: 41
   ClosingSigned deliveries including the 2 final echoes, agreed on 4180 sat;
   the proved bound is 43 + 4 = 47) *)
Example ex_negotiation_hyps :
  100 <= 687 /\ 100 <= 35495 /\ Z.max 687 35495 <= 35496 /\
  Z.max 687 35495 <= 500000000 /\ Z.max 687 35495 < 2 ^ 60 /\
  100 * Z.max 687 35495 * 1000 ^ Z.of_nat 43 <= 129 * Z.min 687 35495 * 1091 ^ Z.of_nat 43.
Proof. repeat split; vm_compute; discriminate. Qed.

Example ex_negotiation_run :
  let s := sys_run 47 (sys_start false 687 35496 500000000 35495 106485 500000000) in
  agreedb s = Some 4180 /\ sys_rounds s = 41%nat /\ sys_msg s = None.
Proof. vm_compute. repeat split; reflexivity. Qed.

(* the bound is not slack by much: 42 ratchet steps would not be enough to
   satisfy the potential hypothesis *)
Example ex_negotiation_bound_tightness :
  ~ 100 * Z.max 687 35495 * 1000 ^ Z.of_nat 42 <= 129 * Z.min 687 35495 * 1091 ^ Z.of_nat 42.
Proof. vm_compute. intros H. apply H. reflexivity. Qed.
