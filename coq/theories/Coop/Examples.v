From LV Require Import Coop.Model.
