(* C17 — RBF cooperative close state machine: executable model (definitions
   only, no proofs).

   Mirrors, in /repo:
     lnwallet/chancloser/rbf_coop_transitions.go   every ProcessEvent
     lnwallet/chancloser/rbf_coop_states.go        CloseChannelTerms helpers,
                                                   ShouldRouteTo
     lnwallet/chancloser/rbf_coop_msg_mapper.go    wire message -> event
     protofsm/state_machine.go                     applyEvents (internal event
                                                   queue; an error stops the
                                                   machine)
     lnwallet/chancloser/chancloser.go             calcCoopCloseFee
     lnwallet/parameters.go                        DustLimitForSize
     lnwallet/chainfee/rates.go                    FeePerKWeight, FeeForWeight
   The wallet calls CreateCloseProposal / CompleteCooperativeClose are
   Coop.Model.close_proposal.

   Signatures are ideal: a signature is represented by the descriptor it
   signs (the signer is the sender of the message); the script-engine run of
   CompleteCooperativeClose accepts iff both signatures are on the transaction
   the caller builds itself.  MuSig2 nonces are not modelled (taproot channels
   follow the same transitions; the nonce plumbing is exercised by the
   harness only). *)
From Coq Require Import List ZArith Bool.
From LV Require Import Coop.Model.
Import ListNotations.
Local Open Scope Z_scope.

(* ------------------------------------------------------------------ *)
(* helpers of the transitions                                          *)

Definition slen (s : script) : Z := Z.of_nat (length s).

Fixpoint script_eqb (a b : script) : bool :=
  match a, b with
  | [], [] => true
  | x :: a', y :: b' => (x =? y) && script_eqb a' b'
  | _, _ => false
  end.

(* lnwallet.DustLimitForSize(len(script)): mempool dust threshold of a
   P2WPKH (22), P2WSH (34), P2SH (23), P2PKH (25) or unknown-witness output *)
Definition dust_for_size (n : Z) : Z :=
  if n =? 22 then 294
  else if n =? 34 then 330
  else if n =? 23 then 540
  else if n =? 25 then 546
  else 354.

(* input.ScriptIsOpReturn: OP_RETURN alone, or followed by exactly one opcode
   that is a small integer (OP_0, OP_1..OP_16) or a data push (<= OP_PUSHDATA4)
   of at most MaxDataCarrierSize = 80 bytes, as parsed by the txscript
   tokenizer.  Bytes are 0..255. *)
Definition is_nil {A} (l : list A) : bool := match l with [] => true | _ => false end.

Definition is_opret (s : script) : bool :=
  match s with
  | 106 :: rest =>                       (* OP_RETURN *)
    match rest with
    | [] => true
    | op :: tl =>
      if op =? 0 then is_nil tl
      else if (1 <=? op) && (op <=? 75) then slen tl =? op      (* OP_DATA_n *)
      else if op =? 76 then                                     (* OP_PUSHDATA1 *)
        match tl with
        | l :: d => (slen d =? l) && (l <=? 80)
        | _ => false
        end
      else if op =? 77 then                                     (* OP_PUSHDATA2 *)
        match tl with
        | l0 :: l1 :: d => let l := l0 + 256 * l1 in (slen d =? l) && (l <=? 80)
        | _ => false
        end
      else if op =? 78 then                                     (* OP_PUSHDATA4 *)
        match tl with
        | l0 :: l1 :: l2 :: l3 :: d =>
          let l := l0 + 256 * l1 + 65536 * l2 + 16777216 * l3 in
          (slen d =? l) && (l <=? 80)
        | _ => false
        end
      else if (81 <=? op) && (op <=? 96) then is_nil tl         (* OP_1..OP_16 *)
      else false
    end
  | _ => false
  end.

(* wire.VarIntSerializeSize *)
Definition varint_size (n : Z) : Z :=
  if n <? 253 then 1 else if n <=? 65535 then 3
  else if n <=? 4294967295 then 5 else 9.

(* wire.TxOut.SerializeSize *)
Definition txout_size (s : script) : Z := 8 + varint_size (slen s) + slen s.

(* calcCoopCloseFee's TxWeightEstimator: one witness input (2-of-2 multisig
   witness 222 wu, taproot key spend 65 wu), the non-dust outputs *)
Definition close_weight (taproot : bool) (lo ro : option script) : Z :=
  let osz := (match lo with Some s => txout_size s | None => 0 end) +
             (match ro with Some s => txout_size s | None => 0 end) in
  (* the output count is 0..2: its varint is one byte *)
  let stripped := 8 + 1 + 41 + 1 + osz in
  stripped * 4 + 2 + (if taproot then 65 else 222).

(* SatPerVByte.FeePerKWeight then SatPerKWeight.FeeForWeight (int64) *)
Definition est_fee (taproot : bool) (lo ro : option script) (rate_vb : Z) : Z :=
  let kw := div64 (mul64 rate_vb 1000) 4 in
  div64 (mul64 kw (close_weight taproot lo ro)) 1000.

(* ------------------------------------------------------------------ *)
(* messages, events, states                                            *)

(* ClosingSigs TLVs 1,2,3 (taproot: 5,6,7): each optional; the value is the
   descriptor the signature is on *)
Record sigset := mkSigs {
  sg_closer_no_closee : option descriptor;
  sg_no_closer_closee : option descriptor;
  sg_closer_and_closee : option descriptor;
}.

Inductive sigfield := FCloserNoClosee | FNoCloserClosee | FCloserAndClosee.

Definition one_sig (f : sigfield) (d : descriptor) : sigset :=
  match f with
  | FCloserNoClosee => mkSigs (Some d) None None
  | FNoCloserClosee => mkSigs None (Some d) None
  | FCloserAndClosee => mkSigs None None (Some d)
  end.

(* lnwire.ClosingComplete and lnwire.ClosingSig have the same shape *)
Record closing_msg := mkCMsg {
  m_closer_script : script;
  m_closee_script : script;
  m_fee : Z;
  m_locktime : Z;
  m_sigs : sigset;
}.

Inductive event :=
| ESendShutdown (addr : option script) (rate : Z)
| EShutdownReceived (scr : script) (height : Z) (valid : bool)
    (* valid = lnwallet.ValidateUpfrontShutdown(scr) (oracle; recorded) *)
| EShutdownComplete
| EChannelFlushed (lbal rbal : Z)                 (* msat *)
| ESendOffer (rate : Z)
| EOfferReceived (m : closing_msg) (valid : bool) (* valid: of m_closer_script *)
| ELocalSigReceived (m : closing_msg)
| ESpend.

(* CloseChannelTerms (without the nonce state) *)
Record cterms := mkTerms {
  t_lscript : script;
  t_rscript : script;
  t_lbal : Z;        (* ShutdownBalances.LocalBalance, msat *)
  t_rbal : Z;
}.

(* PeerState.Local *)
Inductive lstate :=
| LStart                                   (* LocalCloseStart *)
| LOfferSent (fee : Z) (d : descriptor)    (* ProposedFee, LocalSig on d *)
| LPending (d : descriptor)                (* ClosePending{Party: Local} *)
| LErr.                                    (* CloseErr{Party: Local} *)

(* PeerState.Remote *)
Inductive rstate :=
| RStart                                   (* RemoteCloseStart *)
| RPending (d : descriptor).               (* ClosePending{Party: Remote} *)

Inductive rerr :=
| XInvalid          (* ErrInvalidStateTransition *)
| XThaw             (* ErrThawHeightNotReached *)
| XScript           (* ErrInvalidShutdownScript (incl. empty script) *)
| XUpfront          (* ErrUpfrontShutdownScriptMismatch *)
| XWrongScript      (* ErrWrongLocalScript *)
| XCannotPay        (* ErrRemoteCannotPay *)
| XNoSig            (* ErrNoSig *)
| XCloserNoClosee   (* ErrCloserNoClosee *)
| XCloserAndClosee  (* ErrCloserAndClosee *)
| XTooManySigs      (* ErrTooManySigs *)
| XProposal (e : close_err)   (* CreateCloseProposal failed *)
| XComplete         (* CompleteCooperativeClose failed (invalid signature) *)
| XFuel.            (* internal event queue not drained (never happens) *)

Inductive pstate :=
| SActive
| SShutdownPending (ideal : option Z) (ls rs : script)
                   (early : option (closing_msg * bool))
| SFlushing (ideal : option Z) (ls rs : script)
            (early : option (closing_msg * bool))
| SNegotiation (t : cterms) (l : lstate) (r : rstate)
| SFin
| SDead (e : rerr).     (* applyEvents returned an error: machine stopped *)

Inductive output :=
| OShutdown (scr : script)
| OMarkShutdown (scr : script) (initiator : bool)  (* MarkShutdownSent *)
| OPost (e : event)                                (* PostSendEvent *)
| OClosingComplete (m : closing_msg)
| OClosingSig (m : closing_msg)
| OMarkCoop (d : descriptor) (local_ : bool)       (* MarkCoopBroadcasted *)
| OBroadcast (d : descriptor).

(* chancloser.Environment + the answers of its collaborators that are fixed
   during a run *)
Record renv := mkEnv {
  e_view : chan_view;           (* the wallet behind CloseSigner *)
  e_height : Z;                 (* env.BlockHeight *)
  e_default_rate : Z;           (* env.DefaultFeeRate, sat/vb *)
  e_thaw : option Z;
  e_local_upfront : option script;
  e_remote_upfront : option script;
  e_new_script : script;        (* NewDeliveryScript() *)
  e_final : option (Z * Z);     (* ChanObserver.FinalBalances() *)
}.

Definition e_taproot (e : renv) : bool := v_taproot (e_view e).

(* ------------------------------------------------------------------ *)
(* CloseChannelTerms helpers                                           *)

Definition derive_out (bal_msat : Z) (s : script) : option script :=
  if dust_for_size (slen s) <=? to_sat bal_msat then Some s else None.

Definition local_out (t : cterms) := derive_out (t_lbal t) (t_lscript t).
Definition remote_out (t : cterms) := derive_out (t_rbal t) (t_rscript t).

Definition local_is_dust (t : cterms) : bool :=
  to_sat (t_lbal t) <? dust_for_size (slen (t_lscript t)).

Definition local_can_pay (t : cterms) (fee : Z) : bool := fee <=? to_sat (t_lbal t).
Definition remote_can_pay (t : cterms) (fee : Z) : bool := fee <=? to_sat (t_rbal t).

Definition terms_fee (e : renv) (t : cterms) (rate : Z) : Z :=
  est_fee (e_taproot e) (local_out t) (remote_out t) rate.

(* the wallet request of the closer (LocalCloseStart / LocalOfferSent) and of
   the closee (RemoteCloseStart) *)
Definition closer_req (t : cterms) (fee : Z) : close_req :=
  mkReq fee (t_lscript t) (t_rscript t)
        (is_opret (t_lscript t)) (is_opret (t_rscript t))
        (Some Local) (Some max_rbf_sequence) None.

Definition closee_req (t : cterms) (fee locktime : Z) : close_req :=
  mkReq fee (t_lscript t) (t_rscript t)
        (is_opret (t_lscript t)) (is_opret (t_rscript t))
        (Some Remote) (Some max_rbf_sequence) (Some locktime).

(* ------------------------------------------------------------------ *)
(* shutdown phase                                                      *)

(* validateShutdown (thaw height, then validateRemoteDeliveryScript; the
   taproot nonce presence check is not modelled) *)
Definition validate_script (upfront : option script) (scr : script) (valid : bool)
  : option rerr :=
  match scr with
  | [] => Some XScript
  | _ =>
    if negb valid then Some XScript
    else match upfront with
         | Some (u0 :: u) => if script_eqb (u0 :: u) scr then None else Some XUpfront
         | _ => None
         end
  end.

Definition validate_shutdown (e : renv) (scr : script) (height : Z) (valid : bool)
  : option rerr :=
  match e_thaw e with
  | Some th => if height <? th then Some XThaw
               else validate_script (e_remote_upfront e) scr valid
  | None => validate_script (e_remote_upfront e) scr valid
  end.

(* sendShutdownEvents: the Shutdown message (SendWhen = NoDanglingUpdates is
   true in every modelled run), its post-send event, and MarkShutdownSent
   unless the close is already in progress *)
Definition shutdown_outputs (e : renv) (scr : script) (post : option event)
  : list output :=
  (match e_final e with
   | Some _ => []
   | None => [OMarkShutdown scr (match post with None => true | Some _ => false end)]
   end) ++
  [OShutdown scr] ++
  (match post with Some ev => [OPost ev] | None => [] end).

(* "if the channel is already flushed": FinalBalances() is Some and not the
   zero value *)
Definition flushed_events (e : renv) : list event :=
  match e_final e with
  | Some (l, r) => if (l =? 0) && (r =? 0) then [] else [EChannelFlushed l r]
  | None => []
  end.

Definition early_events (early : option (closing_msg * bool)) : list event :=
  match early with Some (m, v) => [EOfferReceived m v] | None => [] end.

(* ------------------------------------------------------------------ *)
(* signature field selection                                           *)

Definition is_some {A} (o : option A) : bool :=
  match o with Some _ => true | None => false end.

Definition count_sigs (s : sigset) : nat :=
  ((if is_some (sg_closer_no_closee s) then 1 else 0) +
   (if is_some (sg_no_closer_closee s) then 1 else 0) +
   (if is_some (sg_closer_and_closee s) then 1 else 0))%nat.

(* extractSigAndNonceFromClosingComplete: validateSigFields then
   selectAndExtractSig; result (signature, isNoClosee) *)
Definition select_closee_sig (s : sigset) (local_dust : bool)
  : rerr + (descriptor * bool) :=
  if (count_sigs s =? 0)%nat then inl XNoSig
  else if local_dust then
    match sg_closer_no_closee s with
    | Some d => inr (d, true)
    | None => inl XCloserNoClosee
    end
  else
    match sg_closer_and_closee s, sg_no_closer_closee s with
    | Some d, _ => inr (d, false)
    | None, Some d => inr (d, false)
    | None, None => inl XCloserAndClosee
    end.

(* extractRegularSig / extractTaprootSigAndNonce: exactly one field *)
Definition select_closer_sig (s : sigset) : rerr + descriptor :=
  if negb (count_sigs s =? 1)%nat then inl XTooManySigs
  else match sg_closer_no_closee s, sg_no_closer_closee s, sg_closer_and_closee s with
       | Some d, _, _ => inr d
       | None, Some d, _ => inr d
       | None, None, Some d => inr d
       | None, None, None => inl XNoSig
       end.

Definition desc_eqb (a b : descriptor) : bool :=
  (d_version a =? d_version b) && (d_sequence a =? d_sequence b) &&
  (d_locktime a =? d_locktime b) &&
  (fix outs_eqb (x y : list txout) : bool :=
     match x, y with
     | [], [] => true
     | (v, s) :: x', (w, u) :: y' => (v =? w) && script_eqb s u && outs_eqb x' y'
     | _, _ => false
     end) (d_outs a) (d_outs b).

(* ------------------------------------------------------------------ *)
(* negotiation sub-machines                                            *)

(* result of one ProcessEvent: next state, internal events, daemon events *)
Definition tr := (rerr + (pstate * list event * list output))%type.

(* LocalCloseStart.ProcessEvent(SendOfferEvent) *)
Definition local_send_offer (e : renv) (t : cterms) (r : rstate) (rate : Z) : tr :=
  let fee := terms_fee e t rate in
  if negb (local_can_pay t fee) then inr (SNegotiation t LErr r, [], [])
  else
    match close_proposal (e_view e) (closer_req t fee) with
    | inl ce => inl (XProposal ce)
    | inr (d, bal) =>
      let field :=
        match remote_out t with
        | None => FCloserNoClosee
        | Some _ =>
          if bal <? dust_for_size (slen (t_lscript t)) then FNoCloserClosee
          else FCloserAndClosee
        end in
      let m := mkCMsg (t_lscript t) (t_rscript t) fee (e_height e) (one_sig field d) in
      inr (SNegotiation t (LOfferSent fee d) r, [], [OClosingComplete m])
    end.

(* LocalOfferSent.ProcessEvent(LocalSigReceived) *)
Definition local_sig_received (e : renv) (t : cterms) (r : rstate)
           (fee : Z) (dl : descriptor) (m : closing_msg) : tr :=
  match select_closer_sig (m_sigs m) with
  | inl x => inl x
  | inr ds =>
    match close_proposal (e_view e) (closer_req t fee) with
    | inl _ => inl XComplete
    | inr (d, _) =>
      if desc_eqb dl d && desc_eqb ds d then
        inr (SNegotiation t (LPending d) r, [], [OMarkCoop d true; OBroadcast d])
      else inl XComplete
    end
  end.

(* RemoteCloseStart.ProcessEvent(OfferReceivedEvent) *)
Definition remote_offer_received (e : renv) (t : cterms) (l : lstate)
           (m : closing_msg) : tr :=
  if negb (remote_can_pay t (m_fee m)) then inl XCannotPay
  else
    match select_closee_sig (m_sigs m) (local_is_dust t) with
    | inl x => inl x
    | inr (ds, no_closee) =>
      match close_proposal (e_view e) (closee_req t (m_fee m) (m_locktime m)) with
      | inl ce => inl (XProposal ce)
      | inr (d, _) =>
        if desc_eqb ds d then
          let field := if no_closee then FCloserNoClosee else FCloserAndClosee in
          let s := mkCMsg (t_rscript t) (t_lscript t) (m_fee m) (m_locktime m)
                          (one_sig field d) in
          inr (SNegotiation t l (RPending d), [],
               [OMarkCoop d false; OClosingSig s; OBroadcast d])
        else inl XComplete
      end
    end.

(* ClosingNegotiation.ProcessEvent: updateAndValidateCloseTerms, then the
   ShouldRouteTo dispatch (Local first) *)
Definition negotiation_step (e : renv) (t : cterms) (l : lstate) (r : rstate)
           (ev : event) : tr :=
  match ev with
  | EChannelFlushed _ _ => inr (SNegotiation t l r, [], [])
  | ESpend => inr (SFin, [], [])
  | ESendOffer rate =>
    match l with
    | LStart => local_send_offer e t r rate
    | LPending _ | LErr => inr (SNegotiation t LStart r, [ESendOffer rate], [])
    | LOfferSent _ _ => inl XInvalid
    end
  | EOfferReceived m valid =>
    if negb (script_eqb (t_lscript t) (m_closee_script m)) then inl XWrongScript
    else
      let upd :=
        if script_eqb (t_rscript t) (m_closer_script m) then inr t
        else match validate_script (e_remote_upfront e) (m_closer_script m) valid with
             | Some x => inl x
             | None => inr (mkTerms (t_lscript t) (m_closer_script m)
                                    (t_lbal t) (t_rbal t))
             end in
      match upd with
      | inl x => inl x
      | inr t' =>
        match r with
        | RStart => remote_offer_received e t' l m
        | RPending _ => inr (SNegotiation t' l RStart, [EOfferReceived m valid], [])
        end
      end
  | ELocalSigReceived m =>
    if negb (script_eqb (t_lscript t) (m_closer_script m)) then inl XWrongScript
    else
      match l with
      | LOfferSent fee dl => local_sig_received e t r fee dl m
      | _ => inl XInvalid
      end
  | _ => inl XInvalid
  end.

(* ------------------------------------------------------------------ *)
(* the whole machine: one ProcessEvent                                 *)

Definition local_script (e : renv) (addr : option script) : script :=
  match e_local_upfront e, addr with
  | Some s, _ => s
  | None, Some s => s
  | None, None => e_new_script e
  end.

Definition step (e : renv) (s : pstate) (ev : event) : tr :=
  match s with
  | SActive =>
    match ev with
    | ESpend => inr (SFin, [], [])
    | ESendShutdown addr rate =>
      let ls := local_script e addr in
      inr (SShutdownPending (Some rate) ls [] None, [], shutdown_outputs e ls None)
    | EShutdownReceived scr h valid =>
      match validate_shutdown e scr h valid with
      | Some x => inl x
      | None =>
        let ls := local_script e None in
        inr (SShutdownPending None ls scr None, [],
             shutdown_outputs e ls (Some EShutdownComplete))
      end
    | _ => inl XInvalid
    end
  | SShutdownPending ideal ls rs early =>
    match ev with
    | ESpend => inr (SFin, [], [])
    | EOfferReceived m v => inr (SShutdownPending ideal ls rs (Some (m, v)), [], [])
    | EShutdownReceived scr h valid =>
      match validate_shutdown e scr h valid with
      | Some x => inl x
      | None =>
        inr (SFlushing ideal ls scr None,
             flushed_events e ++ early_events early, [])
      end
    | EShutdownComplete =>
      inr (SFlushing ideal ls rs None, flushed_events e ++ early_events early, [])
    | _ => inl XInvalid
    end
  | SFlushing ideal ls rs early =>
    match ev with
    | ESpend => inr (SFin, [], [])
    | EOfferReceived m v => inr (SFlushing ideal ls rs (Some (m, v)), [], [])
    | EChannelFlushed lb rb =>
      let t := mkTerms ls rs lb rb in
      let rate := match ideal with Some x => x | None => e_default_rate e end in
      let fee := terms_fee e t rate in
      inr (SNegotiation t LStart RStart,
           early_events early ++
           (if local_can_pay t fee then [ESendOffer rate] else []), [])
    | _ => inl XInvalid
    end
  | SNegotiation t l r => negotiation_step e t l r ev
  | SFin => inr (SFin, [], [])
  | SDead x => inr (SDead x, [], [])   (* the machine no longer runs *)
  end.

(* protofsm applyEvents: the event, then every emitted internal event in FIFO
   order; daemon events are executed as they are emitted; the first error
   stops the machine (the daemon events already executed stay executed). *)
Fixpoint run_queue (fuel : nat) (e : renv) (s : pstate) (q : list event)
         (outs : list output) : pstate * list output :=
  match q with
  | [] => (s, outs)
  | ev :: q' =>
    match fuel with
    | O => (SDead XFuel, outs)
    | S k =>
      match step e s ev with
      | inl x => (SDead x, outs)
      | inr (s', internal, o) => run_queue k e s' (q' ++ internal) (outs ++ o)
      end
    end
  end.

Definition process (e : renv) (s : pstate) (ev : event) : pstate * list output :=
  match s with
  | SDead _ => (s, [])
  | _ => run_queue 8 e s [ev] []
  end.

(* ------------------------------------------------------------------ *)
(* two parties, FIFO links                                             *)

Inductive wire_msg :=
| WShutdown (scr : script)
| WClosingComplete (m : closing_msg)
| WClosingSig (m : closing_msg).

(* [valid] is lnwallet.ValidateUpfrontShutdown; [height] the receiver's best
   height (RbfMsgMapper.bestHeight) *)
Definition map_msg (valid : script -> bool) (height : Z) (w : wire_msg) : event :=
  match w with
  | WShutdown scr => EShutdownReceived scr height (valid scr)
  | WClosingComplete m => EOfferReceived m (valid (m_closer_script m))
  | WClosingSig m => ELocalSigReceived m
  end.

Record node := mkNode {
  n_env : renv;
  n_st : pstate;
  n_inbox : list wire_msg;     (* sent by the peer, not yet delivered *)
  n_posts : list event;        (* post-send events not yet fed back *)
  n_bcast : list descriptor;   (* every transaction broadcast, oldest first *)
}.

Fixpoint wires (o : list output) : list wire_msg :=
  match o with
  | [] => []
  | OShutdown s :: r => WShutdown s :: wires r
  | OClosingComplete m :: r => WClosingComplete m :: wires r
  | OClosingSig m :: r => WClosingSig m :: wires r
  | _ :: r => wires r
  end.

Fixpoint posts (o : list output) : list event :=
  match o with
  | [] => []
  | OPost e :: r => e :: posts r
  | _ :: r => posts r
  end.

Fixpoint bcasts (o : list output) : list descriptor :=
  match o with
  | [] => []
  | OBroadcast d :: r => d :: bcasts r
  | _ :: r => bcasts r
  end.

Record rsys := mkRsys { sa : node; sb : node }.

(* who = true: party A acts *)
Inductive action :=
| AUser (who : bool) (ev : event)   (* SendShutdown / ChannelFlushed /
                                       SendOffer / Spend injected locally *)
| APost (who : bool)                (* feed back the oldest post-send event *)
| ADeliver (who : bool).            (* deliver the oldest message to [who] *)

(* feed [ev] to node [n]; messages it sends are appended to [peer]'s inbox *)
Definition feed (n peer : node) (ev : event) : node * node :=
  let '(s', o) := process (n_env n) (n_st n) ev in
  (mkNode (n_env n) s' (n_inbox n) (n_posts n ++ posts o) (n_bcast n ++ bcasts o),
   mkNode (n_env peer) (n_st peer) (n_inbox peer ++ wires o) (n_posts peer)
          (n_bcast peer)).

Definition with_a (s : rsys) (p : node * node) : rsys := mkRsys (fst p) (snd p).
Definition with_b (s : rsys) (p : node * node) : rsys := mkRsys (snd p) (fst p).

Definition act (valid : script -> bool) (height : Z) (s : rsys) (a : action) : rsys :=
  match a with
  | AUser true ev => with_a s (feed (sa s) (sb s) ev)
  | AUser false ev => with_b s (feed (sb s) (sa s) ev)
  | APost true =>
    match n_posts (sa s) with
    | [] => s
    | ev :: rest =>
      let n := sa s in
      with_a s (feed (mkNode (n_env n) (n_st n) (n_inbox n) rest (n_bcast n)) (sb s) ev)
    end
  | APost false =>
    match n_posts (sb s) with
    | [] => s
    | ev :: rest =>
      let n := sb s in
      with_b s (feed (mkNode (n_env n) (n_st n) (n_inbox n) rest (n_bcast n)) (sa s) ev)
    end
  | ADeliver true =>
    match n_inbox (sa s) with
    | [] => s
    | w :: rest =>
      let n := sa s in
      with_a s (feed (mkNode (n_env n) (n_st n) rest (n_posts n) (n_bcast n)) (sb s)
                     (map_msg valid height w))
    end
  | ADeliver false =>
    match n_inbox (sb s) with
    | [] => s
    | w :: rest =>
      let n := sb s in
      with_b s (feed (mkNode (n_env n) (n_st n) rest (n_posts n) (n_bcast n)) (sa s)
                     (map_msg valid height w))
    end
  end.

Definition run_actions (valid : script -> bool) (height : Z) (s : rsys)
           (l : list action) : rsys :=
  fold_left (act valid height) l s.

Definition node0 (e : renv) : node := mkNode e SActive [] [] [].
