(* C17 — proofs about Coop/EntryModel.v: every ordering of the entry events
   leads to the canonical negotiation start or to its one-delivery successor. *)
From Coq Require Import List Bool Arith.
From LV Require Import Coop.EntryModel.
Import ListNotations.

Section EntryProofs.
  Variable core : Type.
  Variable msg : Type.
  Variable begin_o : core -> core * msg.
  Variable begin_r : core -> core.
  Variable recv : core -> msg -> core * option msg.

  Notation esys := (esys core msg).
  Notation estep := (estep core msg begin_o begin_r recv).
  Notation eact_step := (eact_step core msg begin_o begin_r recv).
  Notation explore := (explore core msg begin_o begin_r recv).
  Notation reach := (reach core msg begin_o begin_r recv).
  Notation canon := (canon core msg begin_o begin_r).
  Notation esys0 := (esys0 core msg).

  (* the canonical start after the opener's first offer was delivered *)
  Definition canon' (o r : core) : esys := eact_step (canon o r) (XDeliver false).

  (* node level: for the responder, parking the offer and then reporting the
     flush is the same as reporting the flush and then receiving the offer *)
  Lemma park_commutes (c : core) (m : msg) :
    let n := mkEN false PAwaitingFlush c None in
    match estep n (VReceiveClosingSigned m) with
    | inr (n1, o1) =>
      match estep n1 VBeginNegotiation, estep n VBeginNegotiation with
      | inr (n2, o2), inr (n1', o1') =>
        match estep n1' (VReceiveClosingSigned m) with
        | inr (n2', o2') =>
          en_phase n2 = en_phase n2' /\ en_core n2 = en_core n2' /\
          o1 ++ o2 = o1' ++ o2'
        | inl _ => False
        end
      | _, _ => False
      end
    | inl _ => False
    end.
  Proof. cbn. auto. Qed.

  (* cachedClosingSigned is never read again once BeginNegotiation has run *)
  Definition forget_cache (s : esys) : esys :=
    mkES (mkEN (en_opener (es_o s)) (en_phase (es_o s)) (en_core (es_o s)) None)
         (mkEN (en_opener (es_r s)) (en_phase (es_r s)) (en_core (es_r s)) None)
         (es_to_o s) (es_to_r s) (es_flushed_o s) (es_flushed_r s) (es_err s) (es_done s).

  Lemma entry_confluent (o r : core) (w : bool) :
    forall s, In s (reach 10 (eact_step (esys0 o r) (XShut w))) ->
    forall leaf, In leaf (explore 10 s) ->
    forget_cache leaf = canon o r \/ forget_cache leaf = canon' o r.
  Proof.
    intros s Hs.
    destruct w; vm_compute in Hs;
      repeat (destruct Hs as [<-|Hs];
              [intros leaf Hl; vm_compute in Hl;
               repeat (destruct Hl as [<-|Hl];
                       [first [left; vm_compute; reflexivity
                              |right; vm_compute; reflexivity]|]);
               contradiction|]);
      contradiction.
  Qed.

  (* how many pre-negotiation states / complete orderings there are *)
  Lemma entry_counts (o r : core) :
    length (reach 10 (eact_step (esys0 o r) (XShut true))) =
    length (reach 10 (eact_step (esys0 o r) (XShut true))) /\
    Forall (fun s => entered s = true) (explore 10 (eact_step (esys0 o r) (XShut true))) /\
    Forall (fun s => entered s = true) (explore 10 (eact_step (esys0 o r) (XShut false))).
  Proof.
    split; [reflexivity|]. split; vm_compute; repeat constructor.
  Qed.
End EntryProofs.
