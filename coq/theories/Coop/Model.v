(* C17 — cooperative close: executable model (definitions only, no proofs).

   Mirrors, in /repo:
     lnwallet/commitment.go  CoopCloseBalance
     lnwallet/channel.go     CreateCooperativeCloseTx (without extra/aux outputs
                             and custom sort: custom-channel features, not modelled),
                             CreateCloseProposal / CompleteCooperativeClose
                             (balance -> tx -> CheckTransactionSanity ladder,
                             isClosed guard)
     lnwallet/chancloser/chancloser.go
                             feeInAcceptableRange, ratchetFee, calcCompromiseFee,
                             proposeCloseSigned, BeginNegotiation,
                             ReceiveClosingSigned (legacy negotiation incl. the
                             taproot accept-first-offer rule)
   btcutil.Amount is int64: every + - * is wrapped with [w64]; / is Go's
   truncating division ([Z.quot]). *)
From Coq Require Import List ZArith Bool.
Import ListNotations.
Local Open Scope Z_scope.

(* ------------------------------------------------------------------ *)
(* Go int64 arithmetic                                                 *)

Definition two63 : Z := 9223372036854775808.
Definition two64 : Z := 18446744073709551616.

(* two's complement reinterpretation of an unbounded integer as int64 *)
Definition w64 (x : Z) : Z := ((x + two63) mod two64) - two63.

Definition add64 (a b : Z) : Z := w64 (a + b).
Definition sub64 (a b : Z) : Z := w64 (a - b).
Definition mul64 (a b : Z) : Z := w64 (a * b).
(* b is a non-zero constant everywhere below, never -1: no overflow case *)
Definition div64 (a b : Z) : Z := Z.quot a b.

(* lnwire.MilliSatoshi (uint64) .ToSatoshis(): uint64 division by 1000,
   converted to btcutil.Amount (int64; always in range). *)
Definition to_sat (msat : Z) : Z := msat / 1000.

(* lnwallet.AnchorSize; the harness emits the Go constant and Exec.v
   compares it on every run. *)
Definition anchor_size : Z := 330.

(* ------------------------------------------------------------------ *)
(* CoopCloseBalance                                                    *)

Inductive party := Local | Remote.

Definition party_eqb (a b : party) : bool :=
  match a, b with Local, Local | Remote, Remote => true | _, _ => false end.

Definition counter_party (p : party) : party :=
  match p with Local => Remote | Remote => Local end.

(* the payer of the closing fee: the channel opener unless overridden
   (RBF flow: the closer) *)
Definition fee_payer (initiator : bool) (payer : option party) : party :=
  match payer with
  | Some p => p
  | None => if initiator then Local else Remote
  end.

(* returns None for the error "initiator cannot afford proposed coop close
   fee", else (ourBalance, theirBalance) *)
Definition coop_close_balance (anchors initiator : bool)
           (fee our their commit_fee : Z) (payer : option party)
  : option (Z * Z) :=
  let delta := if anchors
               then add64 commit_fee (mul64 2 anchor_size)
               else commit_fee in
  let our1 := if initiator then add64 our delta else our in
  let their1 := if initiator then their else add64 their delta in
  let p := fee_payer initiator payer in
  let our2 := match p with Local => sub64 our1 fee | Remote => our1 end in
  let their2 := match p with Local => their1 | Remote => sub64 their1 fee end in
  if (our2 <? 0) || (their2 <? 0) then None else Some (our2, their2).

(* ------------------------------------------------------------------ *)
(* CreateCooperativeCloseTx                                            *)

Definition script := list Z.          (* bytes *)
Definition txout := (Z * script)%type. (* value, pkScript *)

(* bytes.Compare *)
Fixpoint bytes_cmp (a b : script) : comparison :=
  match a, b with
  | [], [] => Eq
  | [], _ :: _ => Lt
  | _ :: _, [] => Gt
  | x :: a', y :: b' =>
    match x ?= y with
    | Eq => bytes_cmp a' b'
    | c => c
    end
  end.

(* BIP69 output order (txsort): amount, then pkScript *)
Definition out_le (o1 o2 : txout) : bool :=
  (fst o1 <? fst o2) ||
  ((fst o1 =? fst o2) &&
   match bytes_cmp (snd o1) (snd o2) with Gt => false | _ => true end).

Fixpoint insert_out (o : txout) (l : list txout) : list txout :=
  match l with
  | [] => [o]
  | h :: t => if out_le o h then o :: l else h :: insert_out o t
  end.

Fixpoint sort_outs (l : list txout) : list txout :=
  match l with
  | [] => []
  | h :: t => insert_out h (sort_outs t)
  end.

Definition max_tx_in_sequence : Z := 4294967295.  (* wire.MaxTxInSequenceNum *)
Definition max_rbf_sequence : Z := 4294967293.    (* mempool.MaxRBFSequence *)

(* what both parties must agree on (the funding outpoint is shared) *)
Record descriptor := mkDesc {
  d_version : Z;
  d_sequence : Z;
  d_locktime : Z;
  d_outs : list txout;
}.

Record tx_opts := mkOpts {
  o_rbf : bool;                 (* WithRBFCloseTx: taproot channels *)
  o_sequence : option Z;        (* WithCustomTxInSequence *)
  o_locktime : option Z;        (* WithCustomTxLockTime *)
}.

Definition default_opts : tx_opts := mkOpts false None None.

(* one party's output, before sorting: present iff balance >= the owner's
   dust limit; zeroed if a custom sequence is set and the script is an
   OP_RETURN (the [opret] flag is input.ScriptIsOpReturn's answer, recorded
   by the harness). *)
Definition side_out (opts : tx_opts) (bal dust : Z) (scr : script)
           (opret : bool) : list txout :=
  if dust <=? bal then
    let v := match o_sequence opts with
             | Some _ => if opret then 0 else bal
             | None => bal
             end in
    [(v, scr)]
  else [].

Definition close_tx (opts : tx_opts) (local_dust remote_dust our their : Z)
           (our_script their_script : script) (our_opret their_opret : bool)
  : descriptor :=
  let seq0 := if o_rbf opts then max_rbf_sequence else max_tx_in_sequence in
  let seq := match o_sequence opts with Some s => s | None => seq0 end in
  let lt := match o_locktime opts with Some l => l | None => 0 end in
  mkDesc 2 seq lt
         (sort_outs (side_out opts our local_dust our_script our_opret ++
                     side_out opts their remote_dust their_script their_opret)).

(* ------------------------------------------------------------------ *)
(* CreateCloseProposal / CompleteCooperativeClose up to signing        *)

(* one party's view of the channel (its own LocalCommitment) *)
Record chan_view := mkView {
  v_anchors : bool;      (* ChanType.HasAnchors *)
  v_taproot : bool;      (* ChanType.IsTaproot *)
  v_initiator : bool;
  v_local_msat : Z;      (* LocalCommitment.LocalBalance *)
  v_remote_msat : Z;     (* LocalCommitment.RemoteBalance *)
  v_commit_fee : Z;      (* LocalCommitment.CommitFee *)
  v_local_dust : Z;
  v_remote_dust : Z;
  v_closed : bool;       (* lc.isClosed *)
}.

Record close_req := mkReq {
  r_fee : Z;
  r_local_script : script;
  r_remote_script : script;
  r_local_opret : bool;
  r_remote_opret : bool;
  r_payer : option party;      (* WithCustomPayer *)
  r_sequence : option Z;       (* WithCustomSequence *)
  r_locktime : option Z;       (* WithCustomLockTime *)
}.

Inductive close_err :=
| ErrClosing      (* ErrChanClosing *)
| ErrAfford       (* CoopCloseBalance error *)
| ErrSanity.      (* blockchain.CheckTransactionSanity *)

Definition max_satoshi : Z := 2100000000000000.

(* CheckTransactionSanity on a tx with one input: at least one output, every
   value in [0, MaxSatoshi], running total <= MaxSatoshi.  (Serialized size
   cannot exceed the block limit with <= 2 outputs of bounded scripts.) *)
Fixpoint sane_outs (l : list txout) (total : Z) : bool :=
  match l with
  | [] => true
  | (v, _) :: t =>
    (0 <=? v) && (v <=? max_satoshi) && (total + v <=? max_satoshi) &&
    sane_outs t (total + v)
  end.

Definition tx_sane (d : descriptor) : bool :=
  match d_outs d with [] => false | l => sane_outs l 0 end.

(* returns the descriptor to be signed and our final balance *)
Definition close_proposal (v : chan_view) (r : close_req)
  : close_err + (descriptor * Z) :=
  if v_closed v && match r_payer r with None => true | Some _ => false end
  then inl ErrClosing
  else
    match coop_close_balance (v_anchors v) (v_initiator v) (r_fee r)
                             (to_sat (v_local_msat v)) (to_sat (v_remote_msat v))
                             (v_commit_fee v) (r_payer r) with
    | None => inl ErrAfford
    | Some (our, their) =>
      let opts := mkOpts (v_taproot v) (r_sequence r) (r_locktime r) in
      let d := close_tx opts (v_local_dust v) (v_remote_dust v) our their
                        (r_local_script r) (r_remote_script r)
                        (r_local_opret r) (r_remote_opret r) in
      if tx_sane d then inr (d, our) else inl ErrSanity
    end.

(* The counterparty's view of the same HTLC-free channel state and of the
   same close request. *)
Definition mirror_view (v : chan_view) : chan_view :=
  mkView (v_anchors v) (v_taproot v) (negb (v_initiator v))
         (v_remote_msat v) (v_local_msat v) (v_commit_fee v)
         (v_remote_dust v) (v_local_dust v) (v_closed v).

Definition mirror_req (r : close_req) : close_req :=
  mkReq (r_fee r) (r_remote_script r) (r_local_script r)
        (r_remote_opret r) (r_local_opret r)
        (option_map counter_party (r_payer r))
        (r_sequence r) (r_locktime r).

Definition sum_outs (l : list txout) : Z :=
  fold_right (fun o acc => fst o + acc) 0 l.

(* the opener's credit: dangling commitment fee + both anchors *)
Definition opener_credit (v : chan_view) : Z :=
  v_commit_fee v + (if v_anchors v then 2 * anchor_size else 0).

(* ------------------------------------------------------------------ *)
(* Legacy fee negotiation (chancloser.go)                              *)

Definition fee_in_acceptable_range (local_fee remote_fee : Z) : bool :=
  if local_fee <? remote_fee then
    remote_fee <=? add64 local_fee (div64 (mul64 local_fee 3) 10)
  else
    sub64 local_fee (div64 (mul64 local_fee 3) 10) <=? remote_fee.

Definition ratchet_fee (fee : Z) (up : bool) : Z :=
  if up then add64 fee (div64 (mul64 fee 1) 10)
  else sub64 fee (div64 (mul64 fee 1) 10).

Definition calc_compromise_fee (ideal last_sent remote : Z) : Z :=
  if (ideal =? remote) || (last_sent =? 0) then ideal
  else if remote =? last_sent then last_sent
  else if remote <? last_sent then
    if fee_in_acceptable_range last_sent remote then remote
    else ratchet_fee last_sent false
  else if last_sent <? remote then
    if fee_in_acceptable_range last_sent remote then remote
    else ratchet_fee last_sent true
  else remote.

Inductive nstate := NIdle | NAwaitingFlush | NFeeNegotiation | NFinished.

(* the ChanCloser fields that drive the negotiation.  [n_afford] abstracts
   the channel: CreateCloseProposal succeeds for a fee iff fee <= n_afford
   (C17_fee_payer_guard relates this to the payer's balance). *)
Record closer := mkCloser {
  n_state : nstate;
  n_initiator : bool;
  n_taproot : bool;
  n_ideal : Z;            (* idealFeeSat *)
  n_max_fee : Z;          (* maxFee *)
  n_last : Z;             (* lastFeeProposal *)
  n_prior : list Z;       (* keys of priorFeeOffers *)
  n_afford : Z;
  n_closed_fee : option Z (* fee of the tx given to CompleteCooperativeClose *)
}.

Inductive nerr :=
| NErrInvalidState
| NErrExceedsMax        (* ErrProposalExceedsMaxFee *)
| NErrTaprootFee        (* taproot initiator: fee not echoed *)
| NErrSign.             (* proposeCloseSigned failed (CreateCloseProposal) *)

Definition mem_fee (f : Z) (l : list Z) : bool := existsb (Z.eqb f) l.

(* proposeCloseSigned *)
Definition propose (c : closer) (fee : Z) : option closer :=
  if fee <=? n_afford c then
    Some (mkCloser (n_state c) (n_initiator c) (n_taproot c) (n_ideal c)
                   (n_max_fee c) fee
                   (if mem_fee fee (n_prior c) then n_prior c else fee :: n_prior c)
                   (n_afford c) (n_closed_fee c))
  else None.

Definition set_state (c : closer) (s : nstate) (cf : option Z) : closer :=
  mkCloser s (n_initiator c) (n_taproot c) (n_ideal c) (n_max_fee c)
           (n_last c) (n_prior c) (n_afford c) cf.

(* BeginNegotiation (without a cached ClosingSigned): the channel opener
   sends its ideal fee, the other side waits. *)
Definition begin_negotiation (c : closer) : nerr + (closer * option Z) :=
  match n_state c with
  | NAwaitingFlush =>
    let c1 := set_state c NFeeNegotiation (n_closed_fee c) in
    if n_initiator c then
      match propose c1 (n_ideal c) with
      | Some c2 => inr (c2, Some (n_ideal c))
      | None => inl NErrSign
      end
    else inr (c1, None)
  | _ => inl NErrInvalidState
  end.

(* the tail of ReceiveClosingSigned once a fee is agreed: complete the close
   with our earlier signature for [fee], reply with that matching offer *)
Definition finalize (c : closer) (fee : Z) : nerr + (closer * option Z) :=
  inr (set_state c NFinished (Some fee), Some fee).

(* ReceiveClosingSigned; [fee] is msg.FeeSatoshis.  Result: new closer and
   the fee of the ClosingSigned we answer with, if any. *)
Definition receive_closing_signed (c : closer) (fee : Z)
  : nerr + (closer * option Z) :=
  match n_state c with
  | NFeeNegotiation =>
    let matches := mem_fee fee (n_prior c) in
    if n_taproot c && negb (n_initiator c) then
      match propose c fee with
      | Some c1 => finalize c1 fee
      | None => inl NErrSign
      end
    else if n_taproot c && n_initiator c && negb matches then inl NErrTaprootFee
    else if n_taproot c && n_initiator c && matches then finalize c fee
    else if negb matches then
      let proposal := calc_compromise_fee (n_ideal c) (n_last c) fee in
      if n_initiator c && (n_max_fee c <? proposal) then inl NErrExceedsMax
      else
        match propose c proposal with
        | None => inl NErrSign
        | Some c1 =>
          if negb (proposal =? fee) then inr (c1, Some proposal)
          else finalize c1 fee
        end
    else finalize c fee
  | NFinished => inr (c, None)
  | _ => inl NErrInvalidState
  end.

(* initFeeBaseline with an estimator that maps the configured rate to the
   absolute fee: maxFee = 3 * ideal (defaultMaxFeeMultiplier) unless
   cfg.MaxFee > 0. *)
Definition max_fee_baseline (ideal cfg_max : Z) : Z :=
  if 0 <? cfg_max then cfg_max else mul64 ideal 3.

(* ---- two honest closers wired back to back ---- *)

Definition new_closer (initiator taproot : bool) (ideal max_fee afford : Z)
  : closer :=
  mkCloser NAwaitingFlush initiator taproot ideal max_fee 0 [] afford None.

(* [sys_msg]: the ClosingSigned in flight: (true = addressed to the opener,
   fee).  [sys_rounds] counts delivered ClosingSigned messages. *)
Record system := mkSys {
  sys_open : closer;     (* channel opener's ChanCloser *)
  sys_resp : closer;     (* the other party's *)
  sys_msg : option (bool * Z);
  sys_err : option nerr;
  sys_rounds : nat;
  sys_trace : list Z     (* fees of all delivered messages, oldest first *)
}.

Definition sys_start (taproot : bool) (ideal_o max_o afford_o ideal_r max_r afford_r : Z)
  : system :=
  let o := new_closer true taproot ideal_o max_o afford_o in
  let r := new_closer false taproot ideal_r max_r afford_r in
  match begin_negotiation r with
  | inl e => mkSys o r None (Some e) 0 []
  | inr (r1, _) =>
    match begin_negotiation o with
    | inl e => mkSys o r1 None (Some e) 0 []
    | inr (o1, m) =>
      mkSys o1 r1 (option_map (fun f => (false, f)) m) None 0 []
    end
  end.

(* deliver the message in flight *)
Definition sys_step (s : system) : system :=
  match sys_err s, sys_msg s with
  | None, Some (to_open, fee) =>
    let c := if to_open then sys_open s else sys_resp s in
    match receive_closing_signed c fee with
    | inl e =>
      mkSys (sys_open s) (sys_resp s) None (Some e) (S (sys_rounds s))
            (sys_trace s ++ [fee])
    | inr (c1, reply) =>
      mkSys (if to_open then c1 else sys_open s)
            (if to_open then sys_resp s else c1)
            (option_map (fun f => (negb to_open, f)) reply) None
            (S (sys_rounds s)) (sys_trace s ++ [fee])
    end
  | _, _ => s
  end.

Fixpoint sys_run (fuel : nat) (s : system) : system :=
  match fuel with
  | O => s
  | S k => sys_run k (sys_step s)
  end.

Definition is_finished (c : closer) : bool :=
  match n_state c with NFinished => true | _ => false end.

(* both sides completed the close, on the same fee, which both signed for *)
Definition agreed_on (s : system) (f : Z) : Prop :=
  sys_err s = None /\
  n_state (sys_open s) = NFinished /\ n_state (sys_resp s) = NFinished /\
  n_closed_fee (sys_open s) = Some f /\ n_closed_fee (sys_resp s) = Some f /\
  In f (n_prior (sys_open s)) /\ In f (n_prior (sys_resp s)).

Definition agreedb (s : system) : option Z :=
  match sys_err s, n_closed_fee (sys_open s), n_closed_fee (sys_resp s) with
  | None, Some f, Some g =>
    if is_finished (sys_open s) && is_finished (sys_resp s) && (f =? g) &&
       mem_fee f (n_prior (sys_open s)) && mem_fee f (n_prior (sys_resp s))
    then Some f else None
  | _, _, _ => None
  end.
