(* C17 — trace checker for the legacy ChanCloser entry: a [CEntry] case is the
   complete history of ONE real ChanCloser (ShutdownChan / ReceiveShutdown /
   BeginNegotiation / ReceiveClosingSigned calls in the order they were made,
   with what each call returned and the closer's fields afterwards). *)
From Coq Require Import List ZArith NArith Bool.
From LV Require Import Coop.Model Coop.EntryModel Coop.EntryInst.
Import ListNotations.
Local Open Scope Z_scope.

Inductive cevent := CShutdownChan | CReceiveShutdown | CBeginNegotiation | CReceiveCs (fee : Z).

Record cobs := mkObs {
  ob_err : Z;              (* 0 none, 1..4 Coop.Exec.nerr_class, 5 ErrChanAlreadyClosing *)
  ob_phase : Z;            (* closeIdle 0 .. closeFeeNegotiation 3, closeFinished 4 *)
  ob_cache : option Z;     (* cachedClosingSigned fee *)
  ob_last : Z;             (* lastFeeProposal *)
  ob_prior : list Z;       (* keys of priorFeeOffers *)
  ob_outs : list Z;        (* returned messages: -1 Shutdown, else closing_signed fee *)
}.

Definition nerr_class (e : nerr) : Z :=
  match e with
  | NErrExceedsMax => 1 | NErrTaprootFee => 2 | NErrSign => 3 | NErrInvalidState => 4
  end.

Definition to_event (e : cevent) : eevent Z :=
  match e with
  | CShutdownChan => VShutdownChan
  | CReceiveShutdown => VReceiveShutdown
  | CBeginNegotiation => VBeginNegotiation
  | CReceiveCs f => VReceiveClosingSigned f
  end.

(* the negotiation error a call would hit, if any (then the real call returns
   that error and the peer stops driving the closer) *)
Definition call_error (n : enode closer Z) (e : cevent) : option nerr :=
  match e, en_phase n with
  | CBeginNegotiation, PAwaitingFlush =>
    match begin_negotiation (en_core n) with
    | inl x => Some x
    | inr (c1, _) =>
      if en_opener n then None
      else match en_cache n with
           | None => None
           | Some f => match receive_closing_signed c1 f with inl x => Some x | inr _ => None end
           end
    end
  | CReceiveCs f, PNegotiating =>
    match receive_closing_signed (en_core n) f with inl x => Some x | inr _ => None end
  | _, _ => None
  end.

Definition phase_code (n : enode closer Z) : Z :=
  match en_phase n with
  | PIdle => 0 | PShutdownInitiated => 1 | PAwaitingFlush => 2
  | PNegotiating => match n_state (en_core n) with NFinished => 4 | _ => 3 end
  end.

Definition out_code (u : eout Z) : list Z :=
  match u with
  | UShutdown => [-1]
  | UClosingSigned (Some f) => [f]
  | UClosingSigned None => []
  end.

Fixpoint zmem (x : Z) (l : list Z) : bool :=
  match l with [] => false | y :: r => (x =? y) || zmem x r end.
Definition subset (a b : list Z) : bool := forallb (fun x => zmem x b) a.
Fixpoint zlist_eqb (a b : list Z) : bool :=
  match a, b with
  | [], [] => true
  | x :: a', y :: b' => (x =? y) && zlist_eqb a' b'
  | _, _ => false
  end.
Definition optz_eqb (a b : option Z) : bool :=
  match a, b with
  | None, None => true | Some x, Some y => x =? y | _, _ => false
  end.

Definition obs_ok (n : enode closer Z) (outs : list (eout Z)) (o : cobs) : bool :=
  (ob_err o =? 0) && (ob_phase o =? phase_code n) && optz_eqb (ob_cache o) (en_cache n) &&
  (ob_last o =? n_last (en_core n)) &&
  subset (ob_prior o) (n_prior (en_core n)) && subset (n_prior (en_core n)) (ob_prior o) &&
  zlist_eqb (ob_outs o) (flat_map out_code outs).

Fixpoint run_calls (n : enode closer Z) (l : list (cevent * cobs)) (i : N) : list N :=
  match l with
  | [] => []
  | (e, o) :: r =>
    match call_error n e with
    | Some x => if (ob_err o =? nerr_class x) then [] else [i]
    | None =>
      match estep closer Z begin_o_i begin_r_i recv_i n (to_event e) with
      | inl EAlreadyClosing => if ob_err o =? 5 then run_calls n r (i + 1)%N else [i]
      | inl EInvalidState => if ob_err o =? 4 then run_calls n r (i + 1)%N else [i]
      | inr (n1, outs) => if obs_ok n1 outs o then run_calls n1 r (i + 1)%N else [i]
      end
    end
  end.

Inductive case :=
| CEntry (opener taproot : bool) (ideal cfg_max afford : Z) (calls : list (cevent * cobs)).

Definition check_case (c : case) : list N :=
  match c with
  | CEntry op tap ideal cfg aff calls =>
    run_calls (node0 closer Z op (new_closer op tap ideal (max_fee_baseline ideal cfg) aff))
              calls 1
  end.

Fixpoint mismatches (cases : list case) (i : N) : list (N * list N) :=
  match cases with
  | [] => []
  | c :: r =>
    match check_case c with
    | [] => mismatches r (i + 1)%N
    | bad => (i, bad) :: mismatches r (i + 1)%N
    end
  end.
