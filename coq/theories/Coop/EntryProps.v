(* C17 — property theorems about the ENTRY of the legacy fee negotiation
   (statements only; proofs in EntryProofs.v / EntryInst.v).

   Vocabulary (EntryModel.v): estep = one call on a ChanCloser
   (ShutdownChan / ReceiveShutdown / BeginNegotiation / ReceiveClosingSigned) with
   the cachedClosingSigned slot; eact_step = two closers with FIFO links and the
   actions "user asks to close", "link reports the flush (BeginNegotiation)",
   "deliver the oldest message"; reach n s = every state reachable from s before
   both sides entered the negotiation; explore n s = the end states of EVERY
   maximal interleaving from s; canon = both flushed, opener's first offer in
   flight; canon' = canon after that offer was delivered. *)
From Coq Require Import List ZArith Bool.
From LV Require Import Coop.Model Coop.Proofs Coop.EntryModel Coop.EntryProofs Coop.EntryInst.
Import ListNotations.
Local Open Scope Z_scope.

(* For ANY negotiation core: a responder that parks the opener's early
   closing_signed and then hears about the flush ends exactly where a responder
   that hears about the flush first and then receives the closing_signed ends
   (same phase, same core state, same messages sent in total). *)
Theorem C17_entry_park_commutes :
  forall (core msg : Type) (begin_o : core -> core * msg) (begin_r : core -> core)
         (recv : core -> msg -> core * option msg) (c : core) (m : msg),
    let n := mkEN false PAwaitingFlush c None in
    let estep := estep core msg begin_o begin_r recv in
    match estep n (VReceiveClosingSigned m) with
    | inr (n1, o1) =>
      match estep n1 VBeginNegotiation, estep n VBeginNegotiation with
      | inr (n2, o2), inr (n1', o1') =>
        match estep n1' (VReceiveClosingSigned m) with
        | inr (n2', o2') =>
          en_phase n2 = en_phase n2' /\ en_core n2 = en_core n2' /\ o1 ++ o2 = o1' ++ o2'
        | inl _ => False
        end
      | _, _ => False
      end
    | inl _ => False
    end.
Proof. exact park_commutes. Qed.

(* For ANY negotiation core and either side asking first (the other may ask
   too: simultaneous shutdown): from EVERY reachable pre-negotiation state, EVERY
   maximal interleaving of {Shutdown deliveries, flush reports of either side,
   arrival of the opener's first closing_signed before or after the responder's
   flush report} ends -- up to the dead cachedClosingSigned slot -- in the
   canonical start or in the canonical start with the first offer delivered: no
   error, no message lost. *)
Theorem C17_entry_confluent :
  forall (core msg : Type) (begin_o : core -> core * msg) (begin_r : core -> core)
         (recv : core -> msg -> core * option msg) (o r : core) (w : bool),
    forall s, In s (reach core msg begin_o begin_r recv 10
                          (eact_step core msg begin_o begin_r recv (esys0 core msg o r) (XShut w))) ->
    forall leaf, In leaf (explore core msg begin_o begin_r recv 10 s) ->
      forget_cache core msg leaf = canon core msg begin_o begin_r o r \/
      forget_cache core msg leaf = canon' core msg begin_o begin_r recv o r.
Proof. exact entry_confluent. Qed.

(* With the negotiation core of Coop.Model and the hypotheses of
   C17_negotiation_terminates: from every reachable pre-negotiation state (incl.
   those with a parked offer) and for every completion of the entry, both sides
   have entered the negotiation without error, and at most n+4 delivered
   closing_signed later both closers have completed the close on the same fee f,
   which both signed for; nothing is in flight. *)
Theorem C17_entry_terminates : forall a b cap_o cap_r aff_o aff_r n w,
  100 <= a -> 100 <= b ->
  Z.max a b <= cap_o -> Z.max a b <= aff_o -> Z.max a b <= aff_r ->
  Z.max a b < 2 ^ 60 ->
  100 * Z.max a b * 1000 ^ Z.of_nat n <= 129 * Z.min a b * 1091 ^ Z.of_nat n ->
  forall s, In s (ireach 10 (istep (isys0 false a cap_o aff_o b cap_r aff_r) (XShut w))) ->
  forall leaf, In leaf (iexplore 10 s) ->
    entered leaf = true /\ es_err leaf = None /\
    exists f rounds,
      (rounds <= n + 4)%nat /\ Z.min a b <= f <= Z.max a b /\
      forall fuel, (n + 4 <= fuel)%nat ->
        let t := sys_run fuel (to_sys leaf) in
        agreed_on t f /\ sys_msg t = None /\ sys_rounds t = rounds.
Proof. exact entry_terminates. Qed.
