(* C17 — lemmas and proofs about Coop/RbfModel.v (the RBF cooperative close
   state machine). *)
From Coq Require Import List ZArith Bool Lia.
From LV Require Import Coop.Model Coop.Proofs Coop.RbfModel.
Import ListNotations.
Local Open Scope Z_scope.

(* ------------------------------------------------------------------ *)
(* decidable equalities                                                *)

Lemma script_eqb_refl s : script_eqb s s = true.
Proof. induction s as [|x s IH]; simpl; [reflexivity|]. now rewrite Z.eqb_refl, IH. Qed.

Lemma script_eqb_eq a : forall b, script_eqb a b = true -> a = b.
Proof.
  induction a as [|x a IH]; intros [|y b] H; simpl in H; try discriminate; [reflexivity|].
  apply andb_true_iff in H as [H1 H2]. apply Z.eqb_eq in H1. f_equal; auto.
Qed.

Lemma desc_eqb_refl d : desc_eqb d d = true.
Proof.
  destruct d as [v s l o]. unfold desc_eqb. simpl.
  rewrite !Z.eqb_refl. simpl.
  induction o as [|[w sc] o IH]; [reflexivity|].
  rewrite Z.eqb_refl, script_eqb_refl. simpl. exact IH.
Qed.

Lemma desc_eqb_eq a b : desc_eqb a b = true -> a = b.
Proof.
  destruct a as [v s l o], b as [v' s' l' o']. unfold desc_eqb. simpl.
  intros H. repeat (apply andb_true_iff in H as [H ?]).
  apply Z.eqb_eq in H. subst v'.
  match goal with H1 : (s =? s') = true |- _ => apply Z.eqb_eq in H1; subst s' end.
  match goal with H1 : (l =? l') = true |- _ => apply Z.eqb_eq in H1; subst l' end.
  f_equal.
  match goal with H1 : _ o o' = true |- _ => revert o' H1 end.
  induction o as [|[w sc] o IH]; intros [|[w' sc'] o'] H1; try discriminate; [reflexivity|].
  repeat (apply andb_true_iff in H1 as [H1 ?]).
  apply Z.eqb_eq in H1. subst w'.
  match goal with H2 : script_eqb sc sc' = true |- _ => apply script_eqb_eq in H2; subst sc' end.
  f_equal. now apply IH.
Qed.

(* ------------------------------------------------------------------ *)
(* the two wallet requests of one RBF round are mirror images          *)

Definition mirror_terms (t : cterms) : cterms :=
  mkTerms (t_rscript t) (t_lscript t) (t_rbal t) (t_lbal t).

Lemma mirror_terms_invol t : mirror_terms (mirror_terms t) = t.
Proof. now destruct t. Qed.

(* a request with locktime None builds the transaction of locktime Some 0 *)
Lemma proposal_locktime0 v f ls rs ol or_ p s :
  close_proposal v (mkReq f ls rs ol or_ p s (Some 0)) =
  close_proposal v (mkReq f ls rs ol or_ p s None).
Proof. reflexivity. Qed.

Lemma closee_req_mirror t fee :
  closee_req (mirror_terms t) fee 0 =
  let r := mirror_req (closer_req t fee) in
  mkReq (r_fee r) (r_local_script r) (r_remote_script r) (r_local_opret r)
        (r_remote_opret r) (r_payer r) (r_sequence r) (Some 0).
Proof. reflexivity. Qed.

(* what the closee builds for the closer's announced fee (locktime 0) is the
   closer's own transaction *)
Lemma closee_builds_same v t fee d b :
  close_proposal v (closer_req t fee) = inr (d, b) ->
  exists b', close_proposal (mirror_view v) (closee_req (mirror_terms t) fee 0) = inr (d, b').
Proof.
  intros H. rewrite closee_req_mirror. cbv zeta. rewrite proposal_locktime0.
  pose proof (same_tx v (closer_req t fee)) as S. rewrite H in S.
  change (mkReq _ _ _ _ _ _ _ None) with (mirror_req (closer_req t fee)).
  destruct (close_proposal (mirror_view v) (mirror_req (closer_req t fee))) as [e|[d' b']];
    [contradiction|]. subst d'. now exists b'.
Qed.

(* ------------------------------------------------------------------ *)
(* safety: what a party signs / broadcasts                             *)

Definition idle_l (l : lstate) : Prop :=
  match l with LOfferSent _ _ => False | _ => True end.

(* the field the closer announces (LocalCloseStart) *)
Definition offer_field (t : cterms) (bal : Z) : sigfield :=
  match remote_out t with
  | None => FCloserNoClosee
  | Some _ => if bal <? dust_for_size (slen (t_lscript t)) then FNoCloserClosee
              else FCloserAndClosee
  end.

Definition offer_msg (e : renv) (t : cterms) (fee bal : Z) (d : descriptor) : closing_msg :=
  mkCMsg (t_lscript t) (t_rscript t) fee (e_height e) (one_sig (offer_field t bal) d).

Definition reply_msg (t : cterms) (m : closing_msg) (no_closee : bool) (d : descriptor)
  : closing_msg :=
  mkCMsg (t_rscript t) (t_lscript t) (m_fee m) (m_locktime m)
         (one_sig (if no_closee then FCloserNoClosee else FCloserAndClosee) d).

Lemma offer_inv e t r rate s' iev outs :
  local_send_offer e t r rate = inr (s', iev, outs) ->
  let fee := terms_fee e t rate in
  iev = [] /\
  ((local_can_pay t fee = false /\ s' = SNegotiation t LErr r /\ outs = []) \/
   (local_can_pay t fee = true /\
    exists d bal,
      close_proposal (e_view e) (closer_req t fee) = inr (d, bal) /\
      s' = SNegotiation t (LOfferSent fee d) r /\
      outs = [OClosingComplete (offer_msg e t fee bal d)])).
Proof.
  unfold local_send_offer. cbv zeta.
  destruct (local_can_pay t (terms_fee e t rate)); simpl.
  - destruct (close_proposal _ _) as [ce|[d bal]]; [discriminate|].
    intros H. injection H as <- <- <-. split; [reflexivity|]. right. split; [reflexivity|].
    exists d, bal. repeat split.
  - intros H. injection H as <- <- <-. split; [reflexivity|]. left. auto.
Qed.

(* The closee only countersigns and broadcasts the transaction that (a) its own
   wallet builds for the announced fee with the CLOSER (its remote party)
   paying, and (b) the closer's selected signature is on. *)
Lemma closee_accepts_inv e t l m s' iev outs :
  remote_offer_received e t l m = inr (s', iev, outs) ->
  exists d bal nc,
    remote_can_pay t (m_fee m) = true /\
    select_closee_sig (m_sigs m) (local_is_dust t) = inr (d, nc) /\
    close_proposal (e_view e) (closee_req t (m_fee m) (m_locktime m)) = inr (d, bal) /\
    s' = SNegotiation t l (RPending d) /\ iev = [] /\
    outs = [OMarkCoop d false; OClosingSig (reply_msg t m nc d); OBroadcast d].
Proof.
  unfold remote_offer_received.
  destruct (remote_can_pay t (m_fee m)); simpl; [|discriminate].
  destruct (select_closee_sig _ _) as [x|[ds nc]]; [discriminate|].
  destruct (close_proposal _ _) as [ce|[d bal]]; [discriminate|].
  destruct (desc_eqb ds d) eqn:E; [|discriminate].
  apply desc_eqb_eq in E. subst ds.
  intros H. injection H as <- <- <-.
  exists d, bal, nc. repeat split. all: try (unfold reply_msg; destruct nc; reflexivity).
Qed.

(* The closer only broadcasts the transaction it offered, which its own wallet
   builds with ITSELF paying, and which the closee's signature is on. *)
Lemma closer_completes_inv e t r fee dl m s' iev outs :
  local_sig_received e t r fee dl m = inr (s', iev, outs) ->
  exists bal,
    select_closer_sig (m_sigs m) = inr dl /\
    close_proposal (e_view e) (closer_req t fee) = inr (dl, bal) /\
    s' = SNegotiation t (LPending dl) r /\ iev = [] /\
    outs = [OMarkCoop dl true; OBroadcast dl].
Proof.
  unfold local_sig_received.
  destruct (select_closer_sig _) as [x|ds]; [discriminate|].
  destruct (close_proposal _ _) as [ce|[d bal]]; [discriminate|].
  destruct (desc_eqb dl d) eqn:E1; simpl; [|discriminate].
  destruct (desc_eqb ds d) eqn:E2; simpl; [|discriminate].
  apply desc_eqb_eq in E1, E2. subst dl ds.
  intros H. injection H as <- <- <-. exists bal. repeat split.
Qed.

(* ------------------------------------------------------------------ *)
(* [process] on the three events of a round                            *)

Definition settle (r : tr) : pstate * list output :=
  match r with
  | inl x => (SDead x, [])
  | inr (s', _, o) => (s', o)
  end.

Lemma send_offer_no_internal e t r rate s' iev outs :
  local_send_offer e t r rate = inr (s', iev, outs) -> iev = [].
Proof. intros H. now apply offer_inv in H. Qed.

Lemma process_offer e t la ra rate :
  idle_l la ->
  process e (SNegotiation t la ra) (ESendOffer rate) =
  settle (local_send_offer e t ra rate).
Proof.
  intros I. unfold process.
  destruct la as [|f d|d|]; try contradiction; cbn [run_queue step negotiation_step app].
  - destruct (local_send_offer e t ra rate) as [x|[[s' iev] o]] eqn:E; [reflexivity|].
    apply send_offer_no_internal in E as ->. reflexivity.
  - destruct (local_send_offer e t ra rate) as [x|[[s' iev] o]] eqn:E; [reflexivity|].
    apply send_offer_no_internal in E as ->. reflexivity.
  - destruct (local_send_offer e t ra rate) as [x|[[s' iev] o]] eqn:E; [reflexivity|].
    apply send_offer_no_internal in E as ->. reflexivity.
Qed.

Lemma offer_received_no_internal e t l m s' iev outs :
  remote_offer_received e t l m = inr (s', iev, outs) -> iev = [].
Proof. intros H. apply closee_accepts_inv in H. now destruct H as (?&?&?&?&?&?&?&?&?). Qed.

Lemma process_offer_received e t l r m v :
  script_eqb (t_lscript t) (m_closee_script m) = true ->
  script_eqb (t_rscript t) (m_closer_script m) = true ->
  process e (SNegotiation t l r) (EOfferReceived m v) =
  settle (remote_offer_received e t l m).
Proof.
  intros H1 H2. unfold process.
  destruct r as [|d]; cbn [run_queue step negotiation_step app]; rewrite H1, H2; cbn [negb].
  - destruct (remote_offer_received e t l m) as [x|[[s' iev] o]] eqn:E; [reflexivity|].
    apply offer_received_no_internal in E as ->. reflexivity.
  - cbn [run_queue step negotiation_step app]. rewrite H1, H2. cbn [negb].
    destruct (remote_offer_received e t l m) as [x|[[s' iev] o]] eqn:E; [reflexivity|].
    apply offer_received_no_internal in E as ->. reflexivity.
Qed.

Lemma process_sig_received e t fee dl r m :
  script_eqb (t_lscript t) (m_closer_script m) = true ->
  process e (SNegotiation t (LOfferSent fee dl) r) (ELocalSigReceived m) =
  settle (local_sig_received e t r fee dl m).
Proof.
  intros H1. unfold process. cbn [run_queue step negotiation_step app]. rewrite H1. cbn [negb].
  destruct (local_sig_received e t r fee dl m) as [x|[[s' iev] o]] eqn:E; [reflexivity|].
  apply closer_completes_inv in E. destruct E as (?&?&?&?&->&?). reflexivity.
Qed.

(* ------------------------------------------------------------------ *)
(* one complete RBF round between two honest parties                   *)

Lemma local_dust_mirror t :
  local_is_dust (mirror_terms t) = match remote_out t with None => true | Some _ => false end.
Proof.
  unfold local_is_dust, remote_out, derive_out, mirror_terms. simpl.
  destruct (dust_for_size (slen (t_rscript t)) <=? to_sat (t_rbal t)) eqn:E.
  - apply Z.ltb_ge. now apply Z.leb_le.
  - apply Z.ltb_lt. now apply Z.leb_gt.
Qed.

(* the closee, in the mirrored terms, selects the closer's one signature *)
Lemma closee_selects t bal d :
  select_closee_sig (one_sig (offer_field t bal) d) (local_is_dust (mirror_terms t)) =
  inr (d, match remote_out t with None => true | Some _ => false end).
Proof.
  rewrite local_dust_mirror. unfold offer_field.
  destruct (remote_out t); [|reflexivity].
  destruct (bal <? dust_for_size (slen (t_lscript t))); reflexivity.
Qed.

Lemma closer_selects f d : select_closer_sig (one_sig f d) = inr d.
Proof. destruct f; reflexivity. Qed.

(* A offers at [rate]; B (mirrored terms and view) receives the offer; A
   receives B's signature.  [la] is any local state that may take a new offer,
   everything about the opposite direction ([ra], [lb]) and B's previous remote
   state [rb] is arbitrary. *)
Lemma rbf_round ea eb t la ra lb rb rate v d bal :
  e_view eb = mirror_view (e_view ea) ->
  e_height ea = 0 ->
  idle_l la ->
  let fee := terms_fee ea t rate in
  local_can_pay t fee = true ->
  close_proposal (e_view ea) (closer_req t fee) = inr (d, bal) ->
  let m := offer_msg ea t fee bal d in
  let s := reply_msg (mirror_terms t) m
                     (match remote_out t with None => true | Some _ => false end) d in
  process ea (SNegotiation t la ra) (ESendOffer rate) =
    (SNegotiation t (LOfferSent fee d) ra, [OClosingComplete m]) /\
  process eb (SNegotiation (mirror_terms t) lb rb) (EOfferReceived m v) =
    (SNegotiation (mirror_terms t) lb (RPending d),
     [OMarkCoop d false; OClosingSig s; OBroadcast d]) /\
  process ea (SNegotiation t (LOfferSent fee d) ra) (ELocalSigReceived s) =
    (SNegotiation t (LPending d) ra, [OMarkCoop d true; OBroadcast d]).
Proof.
  intros Hv Hh Hi fee Hpay Hprop m s.
  split; [|split].
  - rewrite process_offer by assumption.
    unfold local_send_offer. fold fee. rewrite Hpay. cbn [negb]. rewrite Hprop.
    unfold settle, m, offer_msg, offer_field.
    destruct (remote_out t); reflexivity.
  - rewrite process_offer_received
      by (unfold m, offer_msg, mirror_terms; simpl; apply script_eqb_refl).
    unfold remote_offer_received.
    assert (Hrp : remote_can_pay (mirror_terms t) (m_fee m) = true) by exact Hpay.
    rewrite Hrp. cbn [negb].
    change (m_sigs m) with (one_sig (offer_field t bal) d).
    rewrite closee_selects.
    change (m_locktime m) with (e_height ea). rewrite Hh. change (m_fee m) with fee.
    destruct (closee_builds_same _ _ _ _ _ Hprop) as [b' Hb]. rewrite Hv, Hb.
    rewrite desc_eqb_refl. unfold settle, s, reply_msg.
    change (m_locktime m) with (e_height ea). rewrite Hh.
    destruct (remote_out t); reflexivity.
  - rewrite process_sig_received
      by (unfold s, reply_msg, mirror_terms; simpl; apply script_eqb_refl).
    unfold local_sig_received.
    change (m_sigs s) with
      (one_sig (if match remote_out t with None => true | Some _ => false end
                then FCloserNoClosee else FCloserAndClosee) d).
    rewrite closer_selects, Hprop, !desc_eqb_refl. reflexivity.
Qed.

(* ------------------------------------------------------------------ *)
(* the same round in the two-party system with FIFO links              *)

Lemma mirror_view_invol v : mirror_view (mirror_view v) = v.
Proof. destruct v. unfold mirror_view. simpl. now rewrite negb_involutive. Qed.

Definition fed (n : node) (inbox : list wire_msg) (pst : list event) (s' : pstate)
           (o : list output) : node :=
  mkNode (n_env n) s' inbox (pst ++ posts o) (n_bcast n ++ bcasts o).

Definition sent_to (n : node) (o : list output) : node :=
  mkNode (n_env n) (n_st n) (n_inbox n ++ wires o) (n_posts n) (n_bcast n).

Lemma act_user_a valid h a b ev s' o :
  process (n_env a) (n_st a) ev = (s', o) ->
  act valid h (mkRsys a b) (AUser true ev) =
  mkRsys (fed a (n_inbox a) (n_posts a) s' o) (sent_to b o).
Proof. intros H. unfold act, with_a, feed. cbn [sa sb]. rewrite H. reflexivity. Qed.

Lemma act_user_b valid h a b ev s' o :
  process (n_env b) (n_st b) ev = (s', o) ->
  act valid h (mkRsys a b) (AUser false ev) =
  mkRsys (sent_to a o) (fed b (n_inbox b) (n_posts b) s' o).
Proof. intros H. unfold act, with_b, feed. cbn [sa sb]. rewrite H. reflexivity. Qed.

Lemma act_deliver_a valid h a b w rest s' o :
  n_inbox a = w :: rest ->
  process (n_env a) (n_st a) (map_msg valid h w) = (s', o) ->
  act valid h (mkRsys a b) (ADeliver true) =
  mkRsys (fed a rest (n_posts a) s' o) (sent_to b o).
Proof.
  intros Hi H. unfold act, with_a, feed. cbn [sa sb]. rewrite Hi.
  cbn [n_env n_st n_inbox n_posts n_bcast]. rewrite H. reflexivity.
Qed.

Lemma act_deliver_b valid h a b w rest s' o :
  n_inbox b = w :: rest ->
  process (n_env b) (n_st b) (map_msg valid h w) = (s', o) ->
  act valid h (mkRsys a b) (ADeliver false) =
  mkRsys (sent_to a o) (fed b rest (n_posts b) s' o).
Proof.
  intros Hi H. unfold act, with_b, feed. cbn [sa sb]. rewrite Hi.
  cbn [n_env n_st n_inbox n_posts n_bcast]. rewrite H. reflexivity.
Qed.

Lemma act_post_a valid h a b ev rest s' o :
  n_posts a = ev :: rest ->
  process (n_env a) (n_st a) ev = (s', o) ->
  act valid h (mkRsys a b) (APost true) =
  mkRsys (fed a (n_inbox a) rest s' o) (sent_to b o).
Proof.
  intros Hi H. unfold act, with_a, feed. cbn [sa sb]. rewrite Hi.
  cbn [n_env n_st n_inbox n_posts n_bcast]. rewrite H. reflexivity.
Qed.

Lemma act_post_b valid h a b ev rest s' o :
  n_posts b = ev :: rest ->
  process (n_env b) (n_st b) ev = (s', o) ->
  act valid h (mkRsys a b) (APost false) =
  mkRsys (sent_to a o) (fed b (n_inbox b) rest s' o).
Proof.
  intros Hi H. unfold act, with_b, feed. cbn [sa sb]. rewrite Hi.
  cbn [n_env n_st n_inbox n_posts n_bcast]. rewrite H. reflexivity.
Qed.

Lemma rbf_progress_a valid h ea eb t la ra lb rb bca bcb rate d bal :
  e_view eb = mirror_view (e_view ea) ->
  e_height ea = 0 ->
  idle_l la ->
  local_can_pay t (terms_fee ea t rate) = true ->
  close_proposal (e_view ea) (closer_req t (terms_fee ea t rate)) = inr (d, bal) ->
  run_actions valid h
    (mkRsys (mkNode ea (SNegotiation t la ra) [] [] bca)
            (mkNode eb (SNegotiation (mirror_terms t) lb rb) [] [] bcb))
    [AUser true (ESendOffer rate); ADeliver false; ADeliver true] =
  mkRsys (mkNode ea (SNegotiation t (LPending d) ra) [] [] (bca ++ [d]))
         (mkNode eb (SNegotiation (mirror_terms t) lb (RPending d)) [] [] (bcb ++ [d])).
Proof.
  intros Hv Hh Hi Hpay Hprop.
  pose proof (fun v => rbf_round ea eb t la ra lb rb rate v d bal Hv Hh Hi Hpay Hprop) as R.
  cbv zeta in R.
  unfold run_actions. cbn [fold_left].
  destruct (R true) as [R1 _].
  erewrite act_user_a by exact R1.
  unfold fed, sent_to. cbn [n_env n_st n_inbox n_posts n_bcast posts wires bcasts app].
  erewrite act_deliver_b; [|reflexivity|cbn [n_env n_st map_msg]; apply R].
  unfold fed, sent_to. cbn [n_env n_st n_inbox n_posts n_bcast posts wires bcasts app].
  erewrite act_deliver_a; [|reflexivity|cbn [n_env n_st map_msg]; apply (R true)].
  unfold fed, sent_to. cbn [n_env n_st n_inbox n_posts n_bcast posts wires bcasts app].
  rewrite !app_nil_r. reflexivity.
Qed.

Lemma rbf_progress_b valid h ea eb t la ra lb rb bca bcb rate d bal :
  e_view eb = mirror_view (e_view ea) ->
  e_height eb = 0 ->
  idle_l lb ->
  local_can_pay (mirror_terms t) (terms_fee eb (mirror_terms t) rate) = true ->
  close_proposal (e_view eb)
    (closer_req (mirror_terms t) (terms_fee eb (mirror_terms t) rate)) = inr (d, bal) ->
  run_actions valid h
    (mkRsys (mkNode ea (SNegotiation t la ra) [] [] bca)
            (mkNode eb (SNegotiation (mirror_terms t) lb rb) [] [] bcb))
    [AUser false (ESendOffer rate); ADeliver true; ADeliver false] =
  mkRsys (mkNode ea (SNegotiation t la (RPending d)) [] [] (bca ++ [d]))
         (mkNode eb (SNegotiation (mirror_terms t) (LPending d) rb) [] [] (bcb ++ [d])).
Proof.
  intros Hv Hh Hi Hpay Hprop.
  assert (Hv' : e_view ea = mirror_view (e_view eb))
    by (rewrite Hv; symmetry; apply mirror_view_invol).
  pose proof (fun v => rbf_round eb ea (mirror_terms t) lb rb la ra rate v d bal
                                 Hv' Hh Hi Hpay Hprop) as R.
  cbv zeta in R. rewrite mirror_terms_invol in R.
  unfold run_actions. cbn [fold_left].
  destruct (R true) as [R1 _].
  erewrite act_user_b by exact R1.
  unfold fed, sent_to. cbn [n_env n_st n_inbox n_posts n_bcast posts wires bcasts app].
  erewrite act_deliver_a; [|reflexivity|cbn [n_env n_st map_msg]; apply R].
  unfold fed, sent_to. cbn [n_env n_st n_inbox n_posts n_bcast posts wires bcasts app].
  erewrite act_deliver_b; [|reflexivity|cbn [n_env n_st map_msg]; apply (R true)].
  unfold fed, sent_to. cbn [n_env n_st n_inbox n_posts n_bcast posts wires bcasts app].
  rewrite !app_nil_r. reflexivity.
Qed.

(* ------------------------------------------------------------------ *)
(* any number of RBF rounds, from either side                          *)

Definition round_acts (r : bool * Z) : list action :=
  let '(who, rate) := r in
  [AUser who (ESendOffer rate); ADeliver (negb who); ADeliver who].

(* the transaction an offer at [rate] is for, if the closer can pay it *)
Definition offer_tx (e : renv) (t : cterms) (rate : Z) : option descriptor :=
  let fee := terms_fee e t rate in
  if local_can_pay t fee then
    match close_proposal (e_view e) (closer_req t fee) with
    | inr (d, _) => Some d
    | inl _ => None
    end
  else None.

Definition round_tx (ea eb : renv) (t : cterms) (r : bool * Z) : option descriptor :=
  if fst r then offer_tx ea t (snd r) else offer_tx eb (mirror_terms t) (snd r).

Lemma run_actions_app valid h s l1 l2 :
  run_actions valid h s (l1 ++ l2) = run_actions valid h (run_actions valid h s l1) l2.
Proof. unfold run_actions. apply fold_left_app. Qed.

Lemma rbf_rounds valid h ea eb t :
  e_view eb = mirror_view (e_view ea) ->
  e_height ea = 0 -> e_height eb = 0 ->
  forall rounds ds,
    Forall2 (fun r d => round_tx ea eb t r = Some d) rounds ds ->
    forall la ra lb rb bca bcb, idle_l la -> idle_l lb ->
    exists la' ra' lb' rb',
      idle_l la' /\ idle_l lb' /\
      run_actions valid h
        (mkRsys (mkNode ea (SNegotiation t la ra) [] [] bca)
                (mkNode eb (SNegotiation (mirror_terms t) lb rb) [] [] bcb))
        (flat_map round_acts rounds) =
      mkRsys (mkNode ea (SNegotiation t la' ra') [] [] (bca ++ ds))
             (mkNode eb (SNegotiation (mirror_terms t) lb' rb') [] [] (bcb ++ ds)).
Proof.
  intros Hv Ha Hb rounds ds F.
  induction F as [|[who rate] d rounds ds Hr F IH]; intros la ra lb rb bca bcb Ia Ib.
  - exists la, ra, lb, rb. rewrite !app_nil_r. auto.
  - change (flat_map round_acts ((who, rate) :: rounds))
      with (round_acts (who, rate) ++ flat_map round_acts rounds).
    rewrite run_actions_app.
    unfold round_tx in Hr. cbn [fst snd] in Hr. unfold offer_tx in Hr.
    destruct who.
    + destruct (local_can_pay t (terms_fee ea t rate)) eqn:Hp; [|discriminate].
      destruct (close_proposal (e_view ea) _) as [ce|[d' bal]] eqn:Hc; [discriminate|].
      injection Hr as ->.
      change (round_acts (true, rate))
        with [AUser true (ESendOffer rate); ADeliver false; ADeliver true].
      rewrite (rbf_progress_a valid h ea eb t la ra lb rb bca bcb rate d bal Hv Ha Ia Hp Hc).
      destruct (IH (LPending d) ra lb (RPending d) (bca ++ [d]) (bcb ++ [d]) I Ib)
        as (la' & ra' & lb' & rb' & I1 & I2 & E).
      exists la', ra', lb', rb'. rewrite E, <- !app_assoc. auto.
    + destruct (local_can_pay (mirror_terms t) _) eqn:Hp; [|discriminate].
      destruct (close_proposal (e_view eb) _) as [ce|[d' bal]] eqn:Hc; [discriminate|].
      injection Hr as ->.
      change (round_acts (false, rate))
        with [AUser false (ESendOffer rate); ADeliver true; ADeliver false].
      rewrite (rbf_progress_b valid h ea eb t la ra lb rb bca bcb rate d bal Hv Hb Ib Hp Hc).
      destruct (IH la (RPending d) (LPending d) rb (bca ++ [d]) (bcb ++ [d]) Ia I)
        as (la' & ra' & lb' & rb' & I1 & I2 & E).
      exists la', ra', lb', rb'. rewrite E, <- !app_assoc. auto.
Qed.

(* ------------------------------------------------------------------ *)
(* the shutdown phase establishes mirrored terms                       *)

Lemma process_send_shutdown e addr rate :
  e_final e = None ->
  process e SActive (ESendShutdown addr rate) =
  (SShutdownPending (Some rate) (local_script e addr) [] None,
   [OMarkShutdown (local_script e addr) true; OShutdown (local_script e addr)]).
Proof. intros H. unfold process. cbn [run_queue step app]. unfold shutdown_outputs. now rewrite H. Qed.

Lemma process_shutdown_received_active e scr h v :
  e_final e = None -> validate_shutdown e scr h v = None ->
  process e SActive (EShutdownReceived scr h v) =
  (SShutdownPending None (local_script e None) scr None,
   [OMarkShutdown (local_script e None) false; OShutdown (local_script e None);
    OPost EShutdownComplete]).
Proof.
  intros H V. unfold process. cbn [run_queue step app]. rewrite V.
  unfold shutdown_outputs. now rewrite H.
Qed.

Lemma process_shutdown_complete e ideal ls rs :
  e_final e = None ->
  process e (SShutdownPending ideal ls rs None) EShutdownComplete =
  (SFlushing ideal ls rs None, []).
Proof. intros H. unfold process. cbn [run_queue step app]. unfold flushed_events. now rewrite H. Qed.

Lemma process_shutdown_received_pending e ideal ls rs scr h v :
  e_final e = None -> validate_shutdown e scr h v = None ->
  process e (SShutdownPending ideal ls rs None) (EShutdownReceived scr h v) =
  (SFlushing ideal ls scr None, []).
Proof.
  intros H V. unfold process. cbn [run_queue step app]. rewrite V.
  unfold flushed_events. now rewrite H.
Qed.

(* A asks to close; B answers; both wait for the channel to be flushed with
   each other's delivery script *)
Lemma rbf_shutdown_exchange valid h ea eb addr rate :
  e_final ea = None -> e_final eb = None ->
  let lsa := local_script ea addr in
  let lsb := local_script eb None in
  validate_shutdown eb lsa h (valid lsa) = None ->
  validate_shutdown ea lsb h (valid lsb) = None ->
  run_actions valid h (mkRsys (node0 ea) (node0 eb))
    [AUser true (ESendShutdown addr rate); ADeliver false; APost false; ADeliver true] =
  mkRsys (mkNode ea (SFlushing (Some rate) lsa lsb None) [] [] [])
         (mkNode eb (SFlushing None lsb lsa None) [] [] []).
Proof.
  intros Fa Fb lsa lsb Vb Va. unfold run_actions, node0. cbn [fold_left].
  erewrite act_user_a by (apply process_send_shutdown; exact Fa).
  unfold fed, sent_to. cbn [n_env n_st n_inbox n_posts n_bcast posts wires bcasts app].
  erewrite act_deliver_b;
    [|reflexivity|cbn [n_env n_st map_msg]; apply process_shutdown_received_active; assumption].
  unfold fed, sent_to. cbn [n_env n_st n_inbox n_posts n_bcast posts wires bcasts app].
  erewrite act_post_b;
    [|reflexivity|cbn [n_env n_st]; apply process_shutdown_complete; assumption].
  unfold fed, sent_to. cbn [n_env n_st n_inbox n_posts n_bcast posts wires bcasts app].
  erewrite act_deliver_a;
    [|reflexivity|cbn [n_env n_st map_msg]; apply process_shutdown_received_pending; assumption].
  reflexivity.
Qed.

(* both ask to close at the same time *)
Lemma rbf_shutdown_simultaneous valid h ea eb addra ratea addrb rateb :
  e_final ea = None -> e_final eb = None ->
  let lsa := local_script ea addra in
  let lsb := local_script eb addrb in
  validate_shutdown eb lsa h (valid lsa) = None ->
  validate_shutdown ea lsb h (valid lsb) = None ->
  run_actions valid h (mkRsys (node0 ea) (node0 eb))
    [AUser true (ESendShutdown addra ratea); AUser false (ESendShutdown addrb rateb);
     ADeliver false; ADeliver true] =
  mkRsys (mkNode ea (SFlushing (Some ratea) lsa lsb None) [] [] [])
         (mkNode eb (SFlushing (Some rateb) lsb lsa None) [] [] []).
Proof.
  intros Fa Fb lsa lsb Vb Va. unfold run_actions, node0. cbn [fold_left].
  erewrite act_user_a by (apply process_send_shutdown; exact Fa).
  unfold fed, sent_to. cbn [n_env n_st n_inbox n_posts n_bcast posts wires bcasts app].
  erewrite act_user_b by (apply process_send_shutdown; exact Fb).
  unfold fed, sent_to. cbn [n_env n_st n_inbox n_posts n_bcast posts wires bcasts app].
  erewrite act_deliver_b;
    [|reflexivity|cbn [n_env n_st map_msg]; apply process_shutdown_received_pending; assumption].
  unfold fed, sent_to. cbn [n_env n_st n_inbox n_posts n_bcast posts wires bcasts app].
  erewrite act_deliver_a;
    [|reflexivity|cbn [n_env n_st map_msg]; apply process_shutdown_received_pending; assumption].
  reflexivity.
Qed.

(* the flush event: terms from the scripts and the flushed balances; the first
   offer goes out at the ideal (or default) rate if it is affordable *)
Lemma process_flushed e ideal ls rs lb rb :
  let t := mkTerms ls rs lb rb in
  let rate := match ideal with Some x => x | None => e_default_rate e end in
  process e (SFlushing ideal ls rs None) (EChannelFlushed lb rb) =
  if local_can_pay t (terms_fee e t rate)
  then settle (local_send_offer e t RStart rate)
  else (SNegotiation t LStart RStart, []).
Proof.
  intros t rate. unfold process. cbn [run_queue step app early_events]. fold t rate.
  destruct (local_can_pay t (terms_fee e t rate)); [|reflexivity].
  cbn [run_queue step negotiation_step app].
  destruct (local_send_offer e t RStart rate) as [x|[[s' iev] o]] eqn:E; [reflexivity|].
  apply send_offer_no_internal in E as ->. reflexivity.
Qed.

(* ------------------------------------------------------------------ *)
(* the closer pays; which signature field is announced                 *)

Lemma closer_pays v t fee :
  let r := closer_req t fee in
  final_local v r = gross_local v - fee /\ final_remote v r = gross_remote v.
Proof. unfold final_local, final_remote, payer_of. simpl. split; lia. Qed.

Lemma closee_is_paid v t fee lt :
  let r := closee_req t fee lt in
  final_local v r = gross_local v /\ final_remote v r = gross_remote v - fee.
Proof. unfold final_local, final_remote, payer_of. simpl. split; lia. Qed.

(* The announced field describes the outputs of the signed transaction when
   the channel's dust limits are the delivery scripts' own dust limits and the
   closee's wallet balance is its flushed commitment balance (the closee is not
   the opener, or the opener's credit is zero). *)
Lemma field_matches_outputs v t fee d bal :
  in_range v (closer_req t fee) ->
  close_proposal v (closer_req t fee) = inr (d, bal) ->
  v_local_dust v = dust_for_size (slen (t_lscript t)) ->
  v_remote_dust v = dust_for_size (slen (t_rscript t)) ->
  gross_remote v = to_sat (t_rbal t) ->
  let r := closer_req t fee in
  match offer_field t bal with
  | FCloserNoClosee => final_remote v r < v_remote_dust v
  | FNoCloserClosee =>
    v_remote_dust v <= final_remote v r /\ final_local v r < v_local_dust v
  | FCloserAndClosee =>
    v_remote_dust v <= final_remote v r /\ v_local_dust v <= final_local v r
  end.
Proof.
  intros HR HP Hl Hr Hg r.
  destruct (exact_balances_explicit v r d bal HR HP) as (Hb & _).
  destruct (closer_pays v t fee) as [_ Hfr]. fold r in Hfr.
  unfold offer_field, remote_out, derive_out.
  rewrite Hfr, Hg, Hr, Hl.
  destruct (dust_for_size (slen (t_rscript t)) <=? to_sat (t_rbal t)) eqn:E1.
  - apply Z.leb_le in E1.
    destruct (bal <? dust_for_size (slen (t_lscript t))) eqn:E2.
    + apply Z.ltb_lt in E2. rewrite <- Hb. lia.
    + apply Z.ltb_ge in E2. rewrite <- Hb. lia.
  - apply Z.leb_gt in E1. lia.
Qed.

(* ------------------------------------------------------------------ *)
(* safety at the level of [process]: every ClosingSig sent, every close
   transaction broadcast after a ClosingSig                             *)

Definition with_rscript (t : cterms) (s : script) : cterms :=
  mkTerms (t_lscript t) s (t_lbal t) (t_rbal t).

Lemma run_queue_S fuel e s ev q outs :
  run_queue (S fuel) e s (ev :: q) outs =
  match step e s ev with
  | inl x => (SDead x, outs)
  | inr (s', i, o) => run_queue fuel e s' (q ++ i) (outs ++ o)
  end.
Proof. reflexivity. Qed.

Lemma settle_offer_received fuel e t l m v :
  script_eqb (t_lscript t) (m_closee_script m) = true ->
  script_eqb (t_rscript t) (m_closer_script m) = true ->
  run_queue (S fuel) e (SNegotiation t l RStart) [EOfferReceived m v] [] =
  settle (remote_offer_received e t l m).
Proof.
  intros H1 H2. cbn [run_queue step negotiation_step app]. rewrite H1, H2. cbn [negb].
  destruct (remote_offer_received e t l m) as [x|[[s' iev] o]] eqn:E; [reflexivity|].
  apply offer_received_no_internal in E as ->. destruct fuel; reflexivity.
Qed.

Lemma process_offer_received_gen e t l r m v :
  process e (SNegotiation t l r) (EOfferReceived m v) =
  if negb (script_eqb (t_lscript t) (m_closee_script m)) then (SDead XWrongScript, [])
  else if script_eqb (t_rscript t) (m_closer_script m)
       then settle (remote_offer_received e t l m)
       else match validate_script (e_remote_upfront e) (m_closer_script m) v with
            | Some x => (SDead x, [])
            | None => settle (remote_offer_received e (with_rscript t (m_closer_script m)) l m)
            end.
Proof.
  destruct (script_eqb (t_lscript t) (m_closee_script m)) eqn:E1; cbn [negb].
  2:{ unfold process. cbn [run_queue step negotiation_step app]. rewrite E1. reflexivity. }
  destruct (script_eqb (t_rscript t) (m_closer_script m)) eqn:E2.
  - now apply process_offer_received.
  - unfold process. rewrite run_queue_S. cbn [step negotiation_step]. rewrite E1, E2. cbn [negb].
    destruct (validate_script (e_remote_upfront e) (m_closer_script m) v); [reflexivity|].
    fold (with_rscript t (m_closer_script m)).
    assert (E1' : script_eqb (t_lscript (with_rscript t (m_closer_script m)))
                             (m_closee_script m) = true) by exact E1.
    assert (E2' : script_eqb (t_rscript (with_rscript t (m_closer_script m)))
                             (m_closer_script m) = true) by apply script_eqb_refl.
    destruct r as [|d0].
    + destruct (remote_offer_received e (with_rscript t (m_closer_script m)) l m)
        as [x|[[s1 iev] o]] eqn:E; [reflexivity|].
      apply offer_received_no_internal in E as ->. reflexivity.
    + cbn [app]. now apply settle_offer_received.
Qed.

Lemma closee_safety e t l r m v s' outs :
  process e (SNegotiation t l r) (EOfferReceived m v) = (s', outs) ->
  (exists x, s' = SDead x /\ outs = []) \/
  exists d bal nc,
    let t' := with_rscript t (m_closer_script m) in
    t_lscript t = m_closee_script m /\
    remote_can_pay t' (m_fee m) = true /\
    select_closee_sig (m_sigs m) (local_is_dust t') = inr (d, nc) /\
    close_proposal (e_view e) (closee_req t' (m_fee m) (m_locktime m)) = inr (d, bal) /\
    s' = SNegotiation t' l (RPending d) /\
    outs = [OMarkCoop d false; OClosingSig (reply_msg t' m nc d); OBroadcast d].
Proof.
  rewrite process_offer_received_gen.
  destruct (script_eqb (t_lscript t) (m_closee_script m)) eqn:E1; cbn [negb];
    [|intros H; injection H as <- <-; left; eauto].
  apply script_eqb_eq in E1.
  assert (G : forall t', t' = with_rscript t (m_closer_script m) ->
              settle (remote_offer_received e t' l m) = (s', outs) ->
              (exists x, s' = SDead x /\ outs = []) \/
              exists d bal nc,
                t_lscript t = m_closee_script m /\
                remote_can_pay t' (m_fee m) = true /\
                select_closee_sig (m_sigs m) (local_is_dust t') = inr (d, nc) /\
                close_proposal (e_view e) (closee_req t' (m_fee m) (m_locktime m)) = inr (d, bal) /\
                s' = SNegotiation t' l (RPending d) /\
                outs = [OMarkCoop d false; OClosingSig (reply_msg t' m nc d); OBroadcast d]).
  { intros t' Ht'. destruct (remote_offer_received e t' l m) as [x|[[s1 iev] o]] eqn:E; simpl.
    - intros H. injection H as <- <-. left. eauto.
    - intros H. injection H as <- <-. apply closee_accepts_inv in E.
      destruct E as (d & bal & nc & P1 & P2 & P3 & -> & _ & ->).
      right. exists d, bal, nc. repeat split; auto. }
  destruct (script_eqb (t_rscript t) (m_closer_script m)) eqn:E2.
  - apply script_eqb_eq in E2.
    assert (Ht : t = with_rscript t (m_closer_script m))
      by (destruct t; unfold with_rscript; simpl in *; now subst).
    cbv zeta. rewrite <- Ht. apply G. exact Ht.
  - destruct (validate_script (e_remote_upfront e) (m_closer_script m) v) as [x|].
    + intros H. injection H as <- <-. left. eauto.
    + apply G. reflexivity.
Qed.

Lemma closer_safety e t fee dl r m s' outs :
  process e (SNegotiation t (LOfferSent fee dl) r) (ELocalSigReceived m) = (s', outs) ->
  (exists x, s' = SDead x /\ outs = []) \/
  exists bal,
    select_closer_sig (m_sigs m) = inr dl /\
    close_proposal (e_view e) (closer_req t fee) = inr (dl, bal) /\
    s' = SNegotiation t (LPending dl) r /\
    outs = [OMarkCoop dl true; OBroadcast dl].
Proof.
  destruct (script_eqb (t_lscript t) (m_closer_script m)) eqn:E1.
  - rewrite process_sig_received by exact E1.
    destruct (local_sig_received e t r fee dl m) as [x|[[s1 iev] o]] eqn:E; simpl.
    + intros H. injection H as <- <-. left. eauto.
    + intros H. injection H as <- <-. apply closer_completes_inv in E.
      destruct E as (bal & P1 & P2 & -> & _ & ->). right. exists bal. repeat split; auto.
  - unfold process. cbn [run_queue step negotiation_step app]. rewrite E1. cbn [negb].
    intros H. injection H as <- <-. left. eauto.
Qed.

(* the transaction of an RBF offer, explicitly *)
Lemma closer_pays_outputs v t fee d bal :
  in_range v (closer_req t fee) ->
  close_proposal v (closer_req t fee) = inr (d, bal) ->
  let lf := gross_local v - fee in
  let rf := gross_remote v in
  bal = lf /\ 0 <= lf /\
  Permutation.Permutation (d_outs d)
    ((if lf <? v_local_dust v then []
      else [(if is_opret (t_lscript t) then 0 else lf, t_lscript t)]) ++
     (if rf <? v_remote_dust v then []
      else [(if is_opret (t_rscript t) then 0 else rf, t_rscript t)])) /\
  d_version d = 2 /\ d_sequence d = max_rbf_sequence /\ d_locktime d = 0.
Proof.
  intros HR HP lf rf.
  destruct (exact_balances_explicit v _ d bal HR HP) as (Hb & H0 & _ & Hperm & _ & Hv & Hs & Hl).
  destruct (closer_pays v t fee) as [E1 E2]. cbv zeta in E1, E2.
  rewrite E1, E2 in *. simpl in Hperm, Hs, Hl. auto 10.
Qed.

(* ------------------------------------------------------------------ *)
(* concrete witnesses (a 1 000 000 sat anchor channel opened by A)     *)

Definition wA : script := 0 :: 20 :: repeat 1 20%nat.   (* P2WPKH *)
Definition wB : script := 0 :: 20 :: repeat 2 20%nat.
(* A's view: B owns [rm] msat, commit fee 2810 sat, channel dust limits 354 *)
Definition w_view (rm : Z) : chan_view :=
  mkView true false true (1000000000 - 3470000 - rm) rm 2810 354 354 false.
Definition w_env (v : chan_view) (height : Z) : renv :=
  mkEnv v height 10 None None None [] None.
Definition w_terms (v : chan_view) : cterms :=
  mkTerms wA wB (v_local_msat v) (v_remote_msat v).
Definition w_sys (ea eb : renv) (t : cterms) : rsys :=
  mkRsys (mkNode ea (SNegotiation t LStart RStart) [] [] [])
         (mkNode eb (SNegotiation (mirror_terms t) LStart RStart) [] [] []).

(* RBF iterations need not raise the fee: an offer at 5 sat/vb after one at
   20 sat/vb is answered like any other *)
Lemma fee_not_monotone_witness :
  let v := w_view 300000000 in
  let ea := w_env v 0 in let eb := w_env (mirror_view v) 0 in
  let t := w_terms v in
  exists d1 d2,
    round_tx ea eb t (true, 20) = Some d1 /\
    round_tx ea eb t (true, 5) = Some d2 /\
    sum_outs (d_outs d1) < sum_outs (d_outs d2) /\
    run_actions (fun _ => true) 0 (w_sys ea eb t)
                (round_acts (true, 20) ++ round_acts (true, 5)) =
    mkRsys (mkNode ea (SNegotiation t (LPending d2) RStart) [] [] [d1; d2])
           (mkNode eb (SNegotiation (mirror_terms t) LStart (RPending d2)) [] [] [d1; d2]).
Proof.
  cbv zeta. eexists. eexists.
  split; [vm_compute; reflexivity|].
  split; [vm_compute; reflexivity|].
  split; vm_compute; reflexivity.
Qed.

(* closee balance 300 sat, P2WPKH delivery script (dust 294), channel dust
   limit 354: closer_and_closee is announced, the transaction has one output *)
Lemma field_mismatch_witness :
  let v := w_view 300000 in
  let ea := w_env v 0 in
  let t := w_terms v in
  let fee := terms_fee ea t 2 in
  exists d bal,
    in_range v (closer_req t fee) /\
    local_can_pay t fee = true /\
    close_proposal v (closer_req t fee) = inr (d, bal) /\
    offer_field t bal = FCloserAndClosee /\
    length (d_outs d) = 1%nat.
Proof.
  cbv zeta. eexists. eexists.
  split; [unfold in_range; vm_compute; intuition discriminate|].
  split; [vm_compute; reflexivity|].
  split; [vm_compute; reflexivity|].
  split; vm_compute; reflexivity.
Qed.

(* Environment.BlockHeight = 7: the closer signs locktime 0 but announces 7;
   the closee builds locktime 7 and the closer's signature does not verify *)
Lemma locktime_witness :
  let v := w_view 300000000 in
  let ea := w_env v 7 in let eb := w_env (mirror_view v) 0 in
  let t := w_terms v in
  exists m,
    snd (process ea (SNegotiation t LStart RStart) (ESendOffer 2)) = [OClosingComplete m] /\
    m_locktime m = 7 /\
    process eb (SNegotiation (mirror_terms t) LStart RStart) (EOfferReceived m true) =
    (SDead XComplete, []).
Proof.
  cbv zeta. eexists.
  split; [vm_compute; reflexivity|].
  split; vm_compute; reflexivity.
Qed.
