(* C17 — the entry model instantiated with the negotiation core of Coop.Model,
   and the termination theorem from every reachable pre-negotiation state. *)
From Coq Require Import List ZArith Bool Lia.
From LV Require Import Coop.Model Coop.Proofs Coop.EntryModel Coop.EntryProofs.
Import ListNotations.
Local Open Scope Z_scope.

(* BeginNegotiation / ReceiveClosingSigned of Coop.Model as total functions
   (the error cases are handled by Coop.EntryExec, outside the theorems) *)
Definition begin_o_i (c : closer) : closer * Z :=
  match begin_negotiation c with
  | inr (c1, Some f) => (c1, f)
  | _ => (c, 0)
  end.

Definition begin_r_i (c : closer) : closer :=
  match begin_negotiation c with
  | inr (c1, _) => c1
  | inl _ => c
  end.

Definition recv_i (c : closer) (f : Z) : closer * option Z :=
  match receive_closing_signed c f with
  | inr (c1, reply) => (c1, reply)
  | inl _ => (c, None)
  end.

Notation isys := (esys closer Z).
Definition istep := eact_step closer Z begin_o_i begin_r_i recv_i.
Definition iexplore := explore closer Z begin_o_i begin_r_i recv_i.
Definition ireach := reach closer Z begin_o_i begin_r_i recv_i.

Fixpoint done_fees (l : list (bool * option Z)) : list Z :=
  match l with
  | [] => []
  | (_, Some f) :: r => f :: done_fees r
  | (_, None) :: r => done_fees r
  end.

(* the negotiation system (Coop.Model.system) an entered state is *)
Definition to_sys (s : isys) : system :=
  mkSys (en_core (es_o s)) (en_core (es_r s))
        (match es_to_r s, es_to_o s with
         | [QCs (Some f)], [] => Some (false, f)
         | [], [QCs (Some f)] => Some (true, f)
         | _, _ => None
         end)
        None (length (done_fees (es_done s))) (done_fees (es_done s)).

Definition isys0 (tap : bool) (a cap_o aff_o b cap_r aff_r : Z) : isys :=
  esys0 closer Z (new_closer true tap a cap_o aff_o) (new_closer false tap b cap_r aff_r).

Lemma to_sys_canon tap a cap_o aff_o b cap_r aff_r :
  a <= aff_o ->
  to_sys (canon closer Z begin_o_i begin_r_i (new_closer true tap a cap_o aff_o)
                (new_closer false tap b cap_r aff_r)) =
  sys_start tap a cap_o aff_o b cap_r aff_r.
Proof.
  intros H. assert (E : (a <=? aff_o) = true) by lia.
  unfold to_sys, canon, begin_o_i, begin_r_i, sys_start, new_closer, begin_negotiation,
    set_state, propose. cbn. rewrite E. reflexivity.
Qed.

Lemma to_sys_canon' a cap_o aff_o b cap_r aff_r :
  a <= aff_o -> b <= aff_r ->
  to_sys (canon' closer Z begin_o_i begin_r_i recv_i (new_closer true false a cap_o aff_o)
                 (new_closer false false b cap_r aff_r)) =
  sys_step (sys_start false a cap_o aff_o b cap_r aff_r).
Proof.
  intros Ha Hb. rewrite start_step by assumption.
  assert (E : (a <=? aff_o) = true) by lia.
  assert (E' : (b <=? aff_r) = true) by lia.
  unfold canon', canon, begin_o_i, begin_r_i, new_closer, begin_negotiation, set_state, propose.
  cbn. rewrite E. cbn.
  unfold to_sys, recv_i, receive_closing_signed.
  cbn [n_state n_taproot n_initiator n_prior n_last n_ideal n_max_fee andb negb mem_fee existsb
       es_o es_r es_to_o es_to_r es_done en_core fst snd].
  rewrite compromise_first. unfold propose. cbn [n_afford n_prior mem_fee existsb].
  rewrite E'. destruct (b =? a); reflexivity.
Qed.

Lemma to_sys_forget s : to_sys (forget_cache closer Z s) = to_sys s.
Proof. reflexivity. Qed.

(* From EVERY state reachable before the negotiation (either side or both asked
   to close, any interleaving of Shutdown deliveries, flush reports and the
   arrival of the opener's first closing_signed, which may be parked) and for
   EVERY completion of the entry, the negotiation terminates as in
   negotiation_terminates. *)
Lemma entry_terminates a b cap_o cap_r aff_o aff_r n w :
  100 <= a -> 100 <= b ->
  Z.max a b <= cap_o -> Z.max a b <= aff_o -> Z.max a b <= aff_r ->
  Z.max a b < 2 ^ 60 ->
  100 * Z.max a b * 1000 ^ Z.of_nat n <= 129 * Z.min a b * 1091 ^ Z.of_nat n ->
  forall s, In s (ireach 10 (istep (isys0 false a cap_o aff_o b cap_r aff_r) (XShut w))) ->
  forall leaf, In leaf (iexplore 10 s) ->
    entered leaf = true /\ es_err leaf = None /\
    exists f rounds,
      (rounds <= n + 4)%nat /\ Z.min a b <= f <= Z.max a b /\
      forall fuel, (n + 4 <= fuel)%nat ->
        let t := sys_run fuel (to_sys leaf) in
        agreed_on t f /\ sys_msg t = None /\ sys_rounds t = rounds.
Proof.
  intros Ha Hb Hcap Hao Har Hbig HC s Hs leaf Hl.
  destruct (negotiation_terminates a b cap_o cap_r aff_o aff_r n Ha Hb Hcap Hao Har Hbig HC)
    as (f & rounds & Hr & Hf & G).
  pose proof (entry_confluent closer Z begin_o_i begin_r_i recv_i _ _ w s Hs leaf Hl) as C.
  assert (Ea : a <= aff_o) by lia. assert (Eb : b <= aff_r) by lia.
  assert (K : to_sys leaf = sys_start false a cap_o aff_o b cap_r aff_r \/
              to_sys leaf = sys_step (sys_start false a cap_o aff_o b cap_r aff_r)).
  { rewrite <- to_sys_forget. destruct C as [C|C]; rewrite C.
    - left. now apply to_sys_canon.
    - right. now apply to_sys_canon'. }
  assert (F : entered leaf = true /\ es_err leaf = None).
  { assert (X : entered (forget_cache closer Z leaf) = true /\
                es_err (forget_cache closer Z leaf) = None).
    { destruct C as [C|C]; rewrite C; split; reflexivity. }
    exact X. }
  destruct F as [F1 F2]. split; [exact F1|]. split; [exact F2|].
  exists f, rounds. split; [exact Hr|]. split; [exact Hf|].
  intros fuel Hfu. cbv zeta.
  destruct K as [K|K]; rewrite K.
  - now apply G.
  - change (sys_step ?x) with (sys_run 1 x). rewrite <- run_add. apply G. lia.
Qed.
