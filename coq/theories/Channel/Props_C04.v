(* C04 — every revoked commitment can be punished from persisted data: the
   CHANNEL-HISTORY layers (revocation-log bookkeeping, retribution decision
   table).  Property theorems ONLY, each closed by [exact] of a lemma of
   PunishProofs.v.  The script layer is Script/Props.v.

   [wsys] = Resync.xsys (two parties, two FIFOs, LastWasRevoke flags) plus ghost
   history: [revlog p] gets the pre-state remote tail of p whenever p consumes a
   revoke_and_ack (plain delivery or prefix delivery of a disconnect) = the
   entry lnd writes into p's revocation log; [held q] gets q's new local tail
   whenever q revokes = every commitment transaction q could ever broadcast.
   [wreachable]: ANY schedule of sends / signs / revokes / deliveries /
   disconnects-with-restart (XCut), without the link discipline and including
   failed reconnects. *)
From Coq Require Import List ZArith Bool Arith.
From LV Require Import Channel.Model Channel.Proofs Channel.Resync Channel.Discipline
                       Channel.Punish Channel.PunishProofs
                       Channel.StateHint Channel.StateHintProofs.
Import ListNotations.
Local Open Scope Z_scope.

(* The ghost history does not change the machine: the wrapper runs Resync.xrun. *)
Theorem C04_wrapper_is_conservative : forall c ops w, wx (wrun c w ops) = xrun c (wx w) ops.
Proof. exact wrun_wx. Qed.

Theorem C04_wrapper_covers_every_state : forall c x, xreachable c x ->
  exists w, wreachable c w /\ wx w = x.
Proof. exact xreachable_wreachable. Qed.

(* Layer 2.  In every reachable state the revocation log of p is EXACTLY the list
   of commitments the counterparty held at heights 0 .. c_h (rTail p) - 1 (entry
   h = the descriptor of the transaction the cheater can broadcast for height
   h), the log is complete up to the acked height, heights equal indexes, and
   every held commitment belongs to its holder and was built by commit_of. *)
Theorem C04_log_matches_revoked_descriptor : forall c w, wreachable c w -> forall p,
  let x := get (xs (wx w)) p in
  revlog (wg w) p = firstn (Z.to_nat (c_h (rTail x))) (held (wg w) (negb p)) /\
  c_h (rTail x) = Z.of_nat (length (revlog (wg w) p)) /\
  (forall i k, nth_error (held (wg w) (negb p)) i = Some k ->
     c_h k = Z.of_nat i /\ c_owner k = negb p /\ from_cut c k).
Proof. exact reach_log_matches. Qed.

(* Layer 3, algebra: for ANY descriptor built by commit_of, the retribution list
   (victim's to_remote, cheater's to_local, every on-transaction HTLC as
   offered / accepted; dust HTLCs and anchors skipped) covers every non-anchor
   output exactly once with its amount. *)
Theorem C04_every_output_claimed : forall c o h lA lB nA nB k victim,
  commit_of c o h lA lB nA nB = Some k ->
  sum_snd (retribution c k victim) = c_outs k - n_anchors c k * anchor_size c /\
  Z.of_nat (length (retribution c k victim)) = c_nout k - n_anchors c k /\
  retribution c k victim =
    (if oth_out c k then [(KToRemote, other_sat k)] else [])
    ++ (if own_out c k then [(KToLocal, owner_sat k)] else [])
    ++ map (fun h => (htlc_kind victim h, h_amt h / 1000)) (filter h_ontx (c_htlcs k)).
Proof. exact every_output_claimed. Qed.

(* Layers 2 + 3 together: every entry of every revocation log of every reachable
   state is a commitment of the counterparty that the counterparty really held,
   at the height of its index, and the retribution computed from it claims every
   non-anchor output of that transaction exactly once. *)
Theorem C04_every_revoked_state_punishable : forall c w, wreachable c w -> forall p h k,
  nth_error (revlog (wg w) p) h = Some k ->
  nth_error (held (wg w) (negb p)) h = Some k /\ c_h k = Z.of_nat h /\
  c_owner k = negb p /\ claimed_exactly c k p.
Proof. exact reach_revoked_claimed. Qed.

(* Layer 1, the state hint (Channel/StateHint.v: SetStateNumHint /
   GetStateNumHint as exact uint64 / uint32 bit operations on N).  For every
   48-bit obfuscator and every height below 2^48 the hint is accepted and
   decodes to the height ... *)
Theorem C04_hint_roundtrip : forall obf h, (obf < 2 ^ 48)%N -> (h < 2 ^ 48)%N ->
  get_hint_of (set_hint h obf) obf = Some h.
Proof. exact hint_roundtrip. Qed.

(* ... the sequence field has bit 31 set (sequence lock disabled; it is
   0x80 || 24 payload bits) and the locktime lies in [TimelockShift,
   TimelockShift + 2^24): above 500 000 000 (a timestamp) and below 2^30 (in the
   past), so the commitment transaction is final ... *)
Theorem C04_hint_fields : forall obf h sq lt, (obf < 2 ^ 48)%N ->
  set_hint h obf = Some (sq, lt) ->
  N.testbit sq 31 = true /\ (2 ^ 31 <= sq)%N /\ (sq < 2 ^ 31 + 2 ^ 24)%N /\
  (timelock_shift <= lt)%N /\ (lt < timelock_shift + 2 ^ 24)%N /\
  (500000000 <= lt)%N /\ (lt < 2 ^ 30)%N.
Proof. exact hint_fields. Qed.

(* ... heights from 2^48 on are refused (with the "greater than max" error,
   whatever the number of inputs: it is the first check), all smaller ones are
   accepted ... *)
Theorem C04_hint_rejects_large : forall obf h n_in, (2 ^ 48 <= h)%N ->
  set_hint_tx n_in h obf = HintErrTooLarge /\ set_hint h obf = None.
Proof. exact hint_rejects_large. Qed.

(* ... and two different heights of one channel never carry the same
   (sequence, locktime) pair. *)
Theorem C04_hint_injective : forall obf h1 h2,
  (obf < 2 ^ 48)%N -> (h1 < 2 ^ 48)%N -> (h2 < 2 ^ 48)%N ->
  set_hint h1 obf = set_hint h2 obf -> h1 = h2.
Proof. exact hint_injective. Qed.

Print Assumptions C04_wrapper_is_conservative.
Print Assumptions C04_wrapper_covers_every_state.
Print Assumptions C04_log_matches_revoked_descriptor.
Print Assumptions C04_every_output_claimed.
Print Assumptions C04_every_revoked_state_punishable.
Print Assumptions C04_hint_roundtrip.
Print Assumptions C04_hint_fields.
Print Assumptions C04_hint_rejects_large.
Print Assumptions C04_hint_injective.

(* The BREACH ARBITER's multi-step retribution flow (BrarFlow.v: contractcourt's
   retributionInfo slice, updateBreachInfo / convertToSecondLevelRevoke with its
   in-place mutation and slice compaction, createJusticeTx, restart from the
   retribution store) against a ghost chain.  [reach l0 s]: ANY interleaving of
   chain events (the cheater advances an HTLC output to the second level, an
   output is spent at the first level, a second-level output is spent), of
   batches of spend reports consumed by the arbiter (any subset of the spends that
   are on chain, any order, distinct slice indexes) and of restarts, from the
   retribution l0 built by newRetributionInfo.  (Qualified names: BrarFlow's
   identifiers are not imported into this file.) *)
From LV Require Channel.BrarFlow Channel.BrarFlowProofs.

(* Whenever no tracked outpoint is spent on chain, the slice the justice
   transactions are built from is EXACTLY the set of breached outputs still
   unspent: an output untouched on chain is tracked as its original entry, an
   HTLC output the cheater advanced is tracked as a second-level entry with the
   amount of the second-level output, a spent output is not tracked; no output
   twice. *)
Theorem C04_rebuild_covers_unspent_at_current_level : forall l0 s,
  BrarFlow.wf0 l0 -> BrarFlow.reach l0 s -> BrarFlow.quiescent s ->
  NoDup (map BrarFlow.b_id (BrarFlow.tracked s)) /\
  (forall o, In o (BrarFlow.tracked s) ->
     (In o l0 /\ BrarFlow.ch s (BrarFlow.b_id o) = BrarFlow.StFirst) \/
     (exists a, o = BrarFlow.mkB (BrarFlow.b_id o) BrarFlow.KSecond a /\
                BrarFlow.htlc_id l0 (BrarFlow.b_id o) /\
                BrarFlow.ch s (BrarFlow.b_id o) = BrarFlow.StSecond a)) /\
  (forall o0, In o0 l0 ->
     match BrarFlow.ch s (BrarFlow.b_id o0) with
     | BrarFlow.StFirst => In o0 (BrarFlow.tracked s)
     | BrarFlow.StSecond a =>
         In (BrarFlow.mkB (BrarFlow.b_id o0) BrarFlow.KSecond a) (BrarFlow.tracked s)
     | _ => forall o, In o (BrarFlow.tracked s) -> BrarFlow.b_id o <> BrarFlow.b_id o0
     end).
Proof. exact BrarFlowProofs.quiescent_exact. Qed.

(* ... and every input of the rebuilt spend-all transaction carries the witness
   layout of the output's CURRENT level on chain and signs for the amount of the
   output that is there now: first level = the layout and amount of the original
   entry, second level = the second-level revoke layout and the amount of the
   cheater's second-level output. *)
Theorem C04_rebuild_witness_follows_current_level : forall l0 s,
  BrarFlow.wf0 l0 -> BrarFlow.reach l0 s -> BrarFlow.quiescent s ->
  forall j, In j (BrarFlow.v_all (BrarFlow.build (BrarFlow.tracked s))) ->
    match BrarFlow.ch s (BrarFlow.j_id j) with
    | BrarFlow.StFirst => BrarFlow.j_second j = false /\
        exists o0, In o0 l0 /\ BrarFlow.b_id o0 = BrarFlow.j_id j /\
                   BrarFlow.j_w j = BrarFlow.wk (BrarFlow.b_kind o0) /\
                   BrarFlow.j_amt j = BrarFlow.b_amt o0
    | BrarFlow.StSecond a => BrarFlow.j_second j = true /\
        BrarFlow.j_w j = BrarFlow.WSecondRevoke /\ BrarFlow.j_amt j = a
    | _ => False
    end.
Proof. exact BrarFlowProofs.quiescent_witness_current. Qed.

(* At ANY time (also while spends are still being consumed, also right after a
   restart) every signed input refers to an output that exists or existed on
   chain with exactly that level, layout and amount. *)
Theorem C04_rebuild_signs_existing_outputs : forall l0 s,
  BrarFlow.wf0 l0 -> BrarFlow.reach l0 s ->
  forall j, In j (BrarFlow.v_all (BrarFlow.build (BrarFlow.tracked s))) ->
    (BrarFlow.j_second j = false /\
     exists o0, In o0 l0 /\ BrarFlow.b_id o0 = BrarFlow.j_id j /\
                BrarFlow.j_w j = BrarFlow.wk (BrarFlow.b_kind o0) /\
                BrarFlow.j_amt j = BrarFlow.b_amt o0) \/
    (BrarFlow.j_second j = true /\ BrarFlow.j_w j = BrarFlow.WSecondRevoke /\
     BrarFlow.htlc_id l0 (BrarFlow.j_id j) /\
     (BrarFlow.ch s (BrarFlow.j_id j) = BrarFlow.StSecond (BrarFlow.j_amt j) \/
      BrarFlow.ch s (BrarFlow.j_id j) = BrarFlow.StGoneSecond (BrarFlow.j_amt j))).
Proof. exact BrarFlowProofs.build_inputs_exist. Qed.

(* The split variants (commit outputs / first-level HTLC outputs / one per
   second-level output) partition the spend-all transaction. *)
Theorem C04_justice_variants_partition : forall l,
  Permutation.Permutation (BrarFlow.v_all (BrarFlow.build l))
    (BrarFlow.v_commit (BrarFlow.build l) ++ BrarFlow.v_htlc (BrarFlow.build l) ++
     concat (BrarFlow.v_second (BrarFlow.build l))) /\
  Forall (fun v => exists j, v = [j] /\ BrarFlow.j_second j = true /\
                             BrarFlow.j_w j = BrarFlow.WSecondRevoke)
         (BrarFlow.v_second (BrarFlow.build l)) /\
  Forall (fun j => BrarFlow.j_second j = false)
         (BrarFlow.v_commit (BrarFlow.build l) ++ BrarFlow.v_htlc (BrarFlow.build l)).
Proof. exact BrarFlowProofs.build_partition. Qed.

Print Assumptions C04_rebuild_covers_unspent_at_current_level.
Print Assumptions C04_rebuild_witness_follows_current_level.
Print Assumptions C04_rebuild_signs_existing_outputs.
Print Assumptions C04_justice_variants_partition.
