(* C04 — every revoked commitment can be punished from persisted data: the
   CHANNEL-HISTORY layers (revocation-log bookkeeping, retribution decision
   table).  Property theorems ONLY, each closed by [exact] of a lemma of
   PunishProofs.v.  The script layer is Script/Props.v.

   [wsys] = Resync.xsys (two parties, two FIFOs, LastWasRevoke flags) plus ghost
   history: [revlog p] gets the pre-state remote tail of p whenever p consumes a
   revoke_and_ack (plain delivery or prefix delivery of a disconnect) = the
   entry lnd writes into p's revocation log; [held q] gets q's new local tail
   whenever q revokes = every commitment transaction q could ever broadcast.
   [wreachable]: ANY schedule of sends / signs / revokes / deliveries /
   disconnects-with-restart (XCut), without the link discipline and including
   failed reconnects. *)
From Coq Require Import List ZArith Bool Arith.
From LV Require Import Channel.Model Channel.Proofs Channel.Resync Channel.Discipline
                       Channel.Punish Channel.PunishProofs
                       Channel.StateHint Channel.StateHintProofs.
Import ListNotations.
Local Open Scope Z_scope.

(* The ghost history does not change the machine: the wrapper runs Resync.xrun. *)
Theorem C04_wrapper_is_conservative : forall c ops w, wx (wrun c w ops) = xrun c (wx w) ops.
Proof. exact wrun_wx. Qed.

Theorem C04_wrapper_covers_every_state : forall c x, xreachable c x ->
  exists w, wreachable c w /\ wx w = x.
Proof. exact xreachable_wreachable. Qed.

(* Layer 2.  In every reachable state the revocation log of p is EXACTLY the list
   of commitments the counterparty held at heights 0 .. c_h (rTail p) - 1 (entry
   h = the descriptor of the transaction the cheater can broadcast for height
   h), the log is complete up to the acked height, heights equal indexes, and
   every held commitment belongs to its holder and was built by commit_of. *)
Theorem C04_log_matches_revoked_descriptor : forall c w, wreachable c w -> forall p,
  let x := get (xs (wx w)) p in
  revlog (wg w) p = firstn (Z.to_nat (c_h (rTail x))) (held (wg w) (negb p)) /\
  c_h (rTail x) = Z.of_nat (length (revlog (wg w) p)) /\
  (forall i k, nth_error (held (wg w) (negb p)) i = Some k ->
     c_h k = Z.of_nat i /\ c_owner k = negb p /\ from_cut c k).
Proof. exact reach_log_matches. Qed.

(* Layer 3, algebra: for ANY descriptor built by commit_of, the retribution list
   (victim's to_remote, cheater's to_local, every on-transaction HTLC as
   offered / accepted; dust HTLCs and anchors skipped) covers every non-anchor
   output exactly once with its amount. *)
Theorem C04_every_output_claimed : forall c o h lA lB nA nB k victim,
  commit_of c o h lA lB nA nB = Some k ->
  sum_snd (retribution c k victim) = c_outs k - n_anchors c k * anchor_size c /\
  Z.of_nat (length (retribution c k victim)) = c_nout k - n_anchors c k /\
  retribution c k victim =
    (if oth_out c k then [(KToRemote, other_sat k)] else [])
    ++ (if own_out c k then [(KToLocal, owner_sat k)] else [])
    ++ map (fun h => (htlc_kind victim h, h_amt h / 1000)) (filter h_ontx (c_htlcs k)).
Proof. exact every_output_claimed. Qed.

(* Layers 2 + 3 together: every entry of every revocation log of every reachable
   state is a commitment of the counterparty that the counterparty really held,
   at the height of its index, and the retribution computed from it claims every
   non-anchor output of that transaction exactly once. *)
Theorem C04_every_revoked_state_punishable : forall c w, wreachable c w -> forall p h k,
  nth_error (revlog (wg w) p) h = Some k ->
  nth_error (held (wg w) (negb p)) h = Some k /\ c_h k = Z.of_nat h /\
  c_owner k = negb p /\ claimed_exactly c k p.
Proof. exact reach_revoked_claimed. Qed.

(* Layer 1, the state hint (Channel/StateHint.v: SetStateNumHint /
   GetStateNumHint as exact uint64 / uint32 bit operations on N).  For every
   48-bit obfuscator and every height below 2^48 the hint is accepted and
   decodes to the height ... *)
Theorem C04_hint_roundtrip : forall obf h, (obf < 2 ^ 48)%N -> (h < 2 ^ 48)%N ->
  get_hint_of (set_hint h obf) obf = Some h.
Proof. exact hint_roundtrip. Qed.

(* ... the sequence field has bit 31 set (sequence lock disabled; it is
   0x80 || 24 payload bits) and the locktime lies in [TimelockShift,
   TimelockShift + 2^24): above 500 000 000 (a timestamp) and below 2^30 (in the
   past), so the commitment transaction is final ... *)
Theorem C04_hint_fields : forall obf h sq lt, (obf < 2 ^ 48)%N ->
  set_hint h obf = Some (sq, lt) ->
  N.testbit sq 31 = true /\ (2 ^ 31 <= sq)%N /\ (sq < 2 ^ 31 + 2 ^ 24)%N /\
  (timelock_shift <= lt)%N /\ (lt < timelock_shift + 2 ^ 24)%N /\
  (500000000 <= lt)%N /\ (lt < 2 ^ 30)%N.
Proof. exact hint_fields. Qed.

(* ... heights from 2^48 on are refused (with the "greater than max" error,
   whatever the number of inputs: it is the first check), all smaller ones are
   accepted ... *)
Theorem C04_hint_rejects_large : forall obf h n_in, (2 ^ 48 <= h)%N ->
  set_hint_tx n_in h obf = HintErrTooLarge /\ set_hint h obf = None.
Proof. exact hint_rejects_large. Qed.

(* ... and two different heights of one channel never carry the same
   (sequence, locktime) pair. *)
Theorem C04_hint_injective : forall obf h1 h2,
  (obf < 2 ^ 48)%N -> (h1 < 2 ^ 48)%N -> (h2 < 2 ^ 48)%N ->
  set_hint h1 obf = set_hint h2 obf -> h1 = h2.
Proof. exact hint_injective. Qed.

Print Assumptions C04_wrapper_is_conservative.
Print Assumptions C04_wrapper_covers_every_state.
Print Assumptions C04_log_matches_revoked_descriptor.
Print Assumptions C04_every_output_claimed.
Print Assumptions C04_every_revoked_state_punishable.
Print Assumptions C04_hint_roundtrip.
Print Assumptions C04_hint_fields.
Print Assumptions C04_hint_rejects_large.
Print Assumptions C04_hint_injective.
