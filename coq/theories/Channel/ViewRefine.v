(* C01view - the refinement View.v -> Model.v, evaluation part.
   R1  the gross balances of a cut as sums over the update lists (Model side).
   R2  evaluateHTLCView in closed form (View side).
   R3  LogCorr: a COMPACTED entry log stands for an update list (present indices, entries).
   R4  positions of adds.   R5  one log against the other: parents are found, the sums of a
   view are the sums of the segment [tip cut, new cut).   R6  the fee rate of a view.
   R7/R8  the live HTLC sets.   R9  computeView over compacted logs = cut_gross / cut_rate /
   live_adds of the cut, and the commitment built from it is commit_of's. *)
From Coq Require Import List ZArith NArith Bool Arith Lia Permutation.
From LV Require Import Channel.Model Channel.Resync Channel.Proofs Channel.View Channel.ViewProofs.
Import ListNotations.

Local Open Scope Z_scope.



(* ---------- R1: the gross balances of a cut as sums over the update lists ---------- *)
Fixpoint S_adds (l : list upd) : Z :=
  match l with [] => 0 | UAdd a _ _ :: r => a + S_adds r | _ :: r => S_adds r end.

Definition amt_in (adds : list addent) (j : nat) : Z :=
  match lookup_add adds j with Some a => a | None => 0 end.

(* amounts of the settles (st = true) / fails (st = false) of l, parents looked up in adds *)
Fixpoint S_rem (adds : list addent) (st : bool) (l : list upd) : Z :=
  match l with
  | [] => 0
  | USettle j :: r => (if st then amt_in adds j else 0) + S_rem adds st r
  | UFail j :: r => (if st then 0 else amt_in adds j) + S_rem adds st r
  | _ :: r => S_rem adds st r
  end.

Lemma S_adds_app a b : S_adds (a ++ b) = S_adds a + S_adds b.
Proof. induction a as [|u a IH]; cbn; [reflexivity|]. destruct u; rewrite IH; lia. Qed.
Lemma S_rem_app adds st a b : S_rem adds st (a ++ b) = S_rem adds st a + S_rem adds st b.
Proof. induction a as [|u a IH]; cbn; [reflexivity|]. destruct u; rewrite IH; lia. Qed.

Lemma sum_adds_from l : forall i, sum_adds (adds_from l i) = S_adds l.
Proof.
  induction l as [|u l IH]; intros i; cbn; [reflexivity|].
  destruct u; cbn; rewrite ?IH; reflexivity.
Qed.
Lemma sum_adds_of l : sum_adds (adds_of l) = S_adds l.
Proof. apply sum_adds_from. Qed.

Lemma removed_amounts_S adds l st fl :
  removed_amounts adds (removes_of l) = Some (st, fl) ->
  st = S_rem adds true l /\ fl = S_rem adds false l.
Proof.
  revert st fl. induction l as [|u l IH]; intros st fl; cbn.
  - intros H. injection H as <- <-. auto.
  - destruct u; cbn; try apply IH.
    + unfold amt_in. destruct (lookup_add adds parent) as [a|]; [|discriminate].
      destruct (removed_amounts adds (removes_of l)) as [[s f]|]; [|discriminate].
      intros H. injection H as <- <-. destruct (IH _ _ eq_refl) as [-> ->]. split; lia.
    + unfold amt_in. destruct (lookup_add adds parent) as [a|]; [|discriminate].
      destruct (removed_amounts adds (removes_of l)) as [[s f]|]; [|discriminate].
      intros H. injection H as <- <-. destruct (IH _ _ eq_refl) as [-> ->]. split; lia.
Qed.

(* amounts looked up in the adds of a prefix are those of the whole log *)
Lemma lookup_add_app a b j x : lookup_add a j = Some x -> lookup_add (a ++ b) j = Some x.
Proof.
  induction a as [|y a IH]; cbn; [discriminate|]. destruct (Nat.eqb j (a_idx y)); auto.
Qed.
Lemma adds_from_app a b : forall i, adds_from (a ++ b) i = adds_from a i ++ adds_from b (i + length (adds_from a i)).
Proof.
  induction a as [|u a IH]; intros i; cbn; [f_equal; lia|].
  destruct u; cbn; rewrite ?IH; try reflexivity. f_equal. f_equal. f_equal. lia.
Qed.
Lemma lookup_firstn_full L n j x :
  lookup_add (adds_of (firstn n L)) j = Some x -> lookup_add (adds_of L) j = Some x.
Proof.
  intros H. rewrite <- (firstn_skipn n L) at 1. unfold adds_of. rewrite adds_from_app.
  apply lookup_add_app, H.
Qed.

Lemma S_rem_firstn_full L n st l :
  (forall j, In j (parents l) -> lookup_add (adds_of (firstn n L)) j <> None) ->
  S_rem (adds_of (firstn n L)) st l = S_rem (adds_of L) st l.
Proof.
  induction l as [|u l IH]; intros H; cbn; [reflexivity|].
  assert (HT : forall j, In j (parents l) -> lookup_add (adds_of (firstn n L)) j <> None).
  { intros j HI. apply H. unfold parents in *. destruct u; cbn; auto. }
  destruct u; cbn; rewrite ?(IH HT); try reflexivity.
  - f_equal. unfold amt_in. destruct (lookup_add (adds_of (firstn n L)) parent) as [a|] eqn:E.
    + rewrite (lookup_firstn_full _ _ _ _ E). reflexivity.
    + exfalso. apply (H parent); [unfold parents; cbn; now left|exact E].
  - f_equal. unfold amt_in. destruct (lookup_add (adds_of (firstn n L)) parent) as [a|] eqn:E.
    + rewrite (lookup_firstn_full _ _ _ _ E). reflexivity.
    + exfalso. apply (H parent); [unfold parents; cbn; now left|exact E].
Qed.

Lemma removed_amounts_parents adds rems r :
  removed_amounts adds rems = Some r -> forall j, In j (map fst rems) -> lookup_add adds j <> None.
Proof.
  revert r. induction rems as [|[p s] rems IH]; intros r H j HI; [destruct HI|].
  cbn in H. destruct (lookup_add adds p) eqn:E; [|discriminate].
  destruct (removed_amounts adds rems) as [[st fl]|] eqn:E2; [|discriminate].
  destruct HI as [<-|HI]; [cbn; congruence|]. eapply IH; eauto.
Qed.

(* own / peer form of cut_gross: X = the party whose gross balance is computed,
   LX its log, LY the other log, nX nY the cut *)
Definition gross_side (g0 : Z) (LX LY : list upd) (nX nY : nat) : Z :=
  g0 - S_adds (firstn nX LX) + S_rem (adds_of LX) false (firstn nY LY)
     + S_rem (adds_of LY) true (firstn nX LX).

Lemma cut_gross_sides c lA lB nA nB gA gB :
  cut_gross c lA lB nA nB = Some (gA, gB) ->
  gA = gross_side (gross0A c) lA lB nA nB /\ gB = gross_side (gross0B c) lB lA nB nA.
Proof.
  unfold cut_gross, gross_side. cbv zeta.
  destruct (removed_amounts (adds_of (firstn nA lA)) (removes_of (firstn nB lB))) as [[sA fA]|] eqn:E1; [|discriminate].
  destruct (removed_amounts (adds_of (firstn nB lB)) (removes_of (firstn nA lA))) as [[sB fB]|] eqn:E2; [|discriminate].
  intros H. injection H as <- <-.
  pose proof (removed_amounts_parents _ _ _ E1) as P1. pose proof (removed_amounts_parents _ _ _ E2) as P2.
  apply removed_amounts_S in E1, E2. destruct E1 as [-> ->], E2 as [-> ->].
  rewrite !sum_adds_of.
  rewrite !(S_rem_firstn_full lA nA) by exact P1.
  rewrite !(S_rem_firstn_full lB nB) by exact P2.
  split; lia.
Qed.

(* growth of one side's gross balance between two cuts *)
Lemma gross_side_diff g0 LX LY tX tY nX nY :
  (tX <= nX)%nat -> (tY <= nY)%nat ->
  gross_side g0 LX LY nX nY =
  gross_side g0 LX LY tX tY
  - S_adds (skipn tX (firstn nX LX))
  + S_rem (adds_of LX) false (skipn tY (firstn nY LY))
  + S_rem (adds_of LY) true (skipn tX (firstn nX LX)).
Proof.
  intros HX HY. unfold gross_side.
  assert (EX : firstn nX LX = firstn tX LX ++ skipn tX (firstn nX LX)).
  { rewrite <- (firstn_skipn tX (firstn nX LX)) at 1. f_equal. rewrite firstn_firstn. f_equal. lia. }
  assert (EY : firstn nY LY = firstn tY LY ++ skipn tY (firstn nY LY)).
  { rewrite <- (firstn_skipn tY (firstn nY LY)) at 1. f_equal. rewrite firstn_firstn. f_equal. lia. }
  rewrite EX at 1 2. rewrite EY at 1. rewrite S_adds_app, !S_rem_app. lia.
Qed.

Local Close Scope Z_scope.

Local Open Scope Z_scope.



(* ---------- R2: evaluateHTLCView in closed form ---------- *)
Definition sumf {A} (f : A -> Z) (l : list A) : Z := fold_right (fun x acc => f x + acc) 0 l.
Lemma sumf_app {A} (f : A -> Z) a b : sumf f (a ++ b) = sumf f a + sumf f b.
Proof. unfold sumf. induction a as [|x a IH]; cbn [app fold_right]; [lia|]. rewrite IH. lia. Qed.

Lemma sumf_cons {A} (f : A -> Z) x r : sumf f (x :: r) = f x + sumf f r.
Proof. reflexivity. Qed.

Definition is_settle (e : entry) : bool := match e_type e with ESettle => true | _ => false end.
Definition c_settle (w : bool) (e : entry) : Z :=
  if is_settle e && N.eqb (rm_h w e) 0 then e_amt e else 0.
Definition c_fail (w : bool) (e : entry) : Z :=
  if negb (is_settle e) && N.eqb (rm_h w e) 0 then e_amt e else 0.
Definition c_add (w : bool) (e : entry) : Z := if N.eqb (add_h w e) 0 then e_amt e else 0.

Definition dget (party : bool) (d : Z * Z) : Z := if party then fst d else snd d.
Lemma dget_add_same party d x : dget party (add_delta party d x) = dget party d + x.
Proof. destruct party; reflexivity. Qed.
Lemma dget_add_other party d x : dget (negb party) (add_delta party d x) = dget (negb party) d.
Proof. destruct party; reflexivity. Qed.
Lemma dget_add_other' party d x : dget party (add_delta (negb party) d x) = dget party d.
Proof. destruct party; reflexivity. Qed.
Lemma dget_add_same' party d x : dget (negb party) (add_delta (negb party) d x) = dget (negb party) d + x.
Proof. destruct party; reflexivity. Qed.

Lemma fetchParent_spec ll lr e w wl a :
  fetchParent ll lr e w wl = Some a ->
  In a (l_list (if wl then ll else lr)) /\ is_add a = true /\ e_htlc a = e_parent e /\ add_h w a <> 0%N.
Proof.
  unfold fetchParent, lookupHtlc.
  destruct (find _ _) as [b|] eqn:F; [|discriminate].
  destruct (N.eqb (add_h w b) 0) eqn:Z; [discriminate|]. intros H. injection H as <-.
  apply find_some in F. destruct F as [IN P]. apply andb_true_iff in P. destruct P as [P1 P2].
  apply N.eqb_eq in P2. apply N.eqb_neq in Z. auto.
Qed.

Lemma eval_removes_closed ll lr w party : forall res skip d,
  (forall e, In e res -> is_remove e = true /\ exists a, fetchParent ll lr e w (negb party) = Some a) ->
  exists d', eval_removes ll lr w party res skip d = Some (rev (map e_parent res) ++ skip, d') /\
             dget party d' = dget party d + sumf (c_settle w) res /\
             dget (negb party) d' = dget (negb party) d + sumf (c_fail w) res.
Proof.
  induction res as [|e r IH]; intros skip d H.
  - exists d. split; [reflexivity|]. unfold sumf; cbn [fold_right]. split; lia.
  - destruct (H e (or_introl eq_refl)) as [R [a F]]. cbn [eval_removes]. rewrite F.
    destruct (fetchParent_spec _ _ _ _ _ _ F) as [_ [_ [EH _]]].
    match goal with |- context [eval_removes _ _ _ _ r ?s ?dd] =>
      destruct (IH s dd (fun x HI => H x (or_intror HI))) as [d' [E [D1 D2]]] end.
    exists d'. rewrite E. split.
    { f_equal. f_equal. cbn [map rev]. rewrite <- app_assoc, EH. reflexivity. }
    rewrite !sumf_cons. unfold c_settle at 1, c_fail at 1, is_settle.
    unfold is_remove in R. revert D1 D2.
    destruct (N.eqb (rm_h w e) 0); cbn [andb].
    + destruct (e_type e); try discriminate; cbn [negb andb]; intros D1 D2;
        rewrite ?dget_add_same, ?dget_add_other, ?dget_add_other', ?dget_add_same' in D1;
        rewrite ?dget_add_same, ?dget_add_other, ?dget_add_other', ?dget_add_same' in D2;
        split; lia.
    + rewrite !andb_false_r. intros D1 D2. split; lia.
Qed.

Lemma eval_adds_closed w party : forall live d,
  dget party (eval_adds w party live d) = dget party d - sumf (c_add w) live /\
  dget (negb party) (eval_adds w party live d) = dget (negb party) d.
Proof.
  unfold eval_adds. induction live as [|e r IH]; intros d.
  - cbn [fold_left]. unfold sumf; cbn [fold_right]. split; lia.
  - cbn [fold_left]. rewrite sumf_cons. unfold c_add at 1. destruct (N.eqb (add_h w e) 0).
    + destruct (IH (add_delta party d (- e_amt e))) as [A B].
      rewrite A, B, dget_add_same, dget_add_other. split; lia.
    + destruct (IH d) as [A B]. rewrite A, B. split; lia.
Qed.

Definition view_rate (init_local : bool) (vo vt : list entry) (rate0 : Z) : Z :=
  match last_opt (filter is_fee (if init_local then vo else vt)) with
  | Some pd => e_amt pd / 1000
  | None => rate0
  end.

Lemma evaluateHTLCView_closed ll lr vo vt w il rate0 :
  (forall e, In e (filter is_remove vo) -> exists a, fetchParent ll lr e w false = Some a) ->
  (forall e, In e (filter is_remove vt) -> exists a, fetchParent ll lr e w true = Some a) ->
  let ro := filter is_remove vo in let rt := filter is_remove vt in
  let liveO := live_of (rev (map e_parent rt)) vo in
  let liveT := live_of (rev (map e_parent ro)) vt in
  evaluateHTLCView ll lr vo vt w il rate0 =
  Some (view_rate il vo vt rate0, liveO, liveT,
        (sumf (c_settle w) ro + sumf (c_fail w) rt - sumf (c_add w) liveO,
         sumf (c_fail w) ro + sumf (c_settle w) rt - sumf (c_add w) liveT)).
Proof.
  intros HO HT. cbv zeta. unfold evaluateHTLCView.
  destruct (eval_removes_closed ll lr w true (filter is_remove vo) [] (0, 0)) as [d1 [E1 [A1 B1]]].
  { intros e IN. split; [apply filter_In in IN; tauto|apply HO, IN]. }
  rewrite E1.
  destruct (eval_removes_closed ll lr w false (filter is_remove vt) [] d1) as [d2 [E2 [A2 B2]]].
  { intros e IN. split; [apply filter_In in IN; tauto|apply HT, IN]. }
  rewrite E2. rewrite !app_nil_r. fold (view_rate il vo vt rate0).
  f_equal. f_equal.
  set (lO := live_of _ vo). set (lT := live_of _ vt).
  destruct (eval_adds_closed w true lO d2) as [C1 C2].
  destruct (eval_adds_closed w false lT (eval_adds w true lO d2)) as [D1 D2].
  cbn [dget negb fst snd] in *.
  rewrite (surjective_pairing (eval_adds w false lT (eval_adds w true lO d2))).
  f_equal; lia.
Qed.

Local Close Scope Z_scope.

(* ---------- R3: a compacted entry log stands for an update list ---------- *)
Definition nadds (l : list upd) : nat := length (adds_of l).
Definition idx (e : entry) : nat := N.to_nat (e_log e).

Definition corr_entry (L Lo : list upd) (e : entry) : Prop :=
  match nth_error L (idx e) with
  | Some (UAdd a ex h) =>
    e_type e = EAdd /\ e_amt e = a /\ e_exp e = ex /\ e_hash e = h /\
    e_htlc e = N.of_nat (nadds (firstn (idx e) L))
  | Some (USettle j) =>
    e_type e = ESettle /\ e_parent e = N.of_nat j /\ e_amt e = amt_in (adds_of Lo) j
  | Some (UFail j) =>
    (e_type e = EFail \/ e_type e = EMalformedFail) /\ e_parent e = N.of_nat j /\
    e_amt e = amt_in (adds_of Lo) j
  | Some (UFee r) => e_type e = EFeeUpdate /\ e_amt e = (r * 1000)%Z
  | None => False
  end.

(* an Add is evicted together with the settle / fail that names it: that one lies below
   the compaction frontier Fo of the OTHER log; everything else below the frontier Ft of
   its own log *)
Definition removed_below (Lo : list upd) (F j : nat) : bool :=
  existsb (Nat.eqb j) (parents (firstn F Lo)).
Definition present (L Lo : list upd) (Ft Fo i : nat) : bool :=
  match nth_error L i with
  | Some (UAdd _ _ _) => negb (removed_below Lo Fo (nadds (firstn i L)))
  | Some _ => Nat.leb Ft i
  | None => false
  end.

(* strictly increasing *)
Fixpoint inc (l : list nat) : Prop :=
  match l with [] => True | a :: r => (forall y, In y r -> a < y) /\ inc r end.

(* The LogIndexes of U are exactly the present indices - as a SET (after a restart
   restoreStateLogs re-inserts the Adds of a commitment before the older settle / fail / fee
   entries, so list order is not index order); what evaluateHTLCView needs of the order is only
   that the FEE updates appear in index order (the fee rate of a view is its last fee update). *)
Record LogCorr (L Lo : list upd) (U : ulog) (Ft Fo : nat) : Prop := mkLC {
  lc_perm : Permutation (map idx (l_list U)) (filter (present L Lo Ft Fo) (seq 0 (length L)));
  lc_fee : inc (map idx (filter is_fee (l_list U)));
  lc_ent : forall e, In e (l_list U) -> corr_entry L Lo e
}.

Section LC.
Variables (L Lo : list upd) (U : ulog) (Ft Fo : nat).
Hypothesis LC : LogCorr L Lo U Ft Fo.

Lemma lc_in e : In e (l_list U) -> idx e < length L /\ present L Lo Ft Fo (idx e) = true.
Proof.
  intros IN. apply (in_map idx) in IN. apply (Permutation_in _ (lc_perm _ _ _ _ _ LC)) in IN.
  apply filter_In in IN. destruct IN as [A B]. apply in_seq in A. split; [lia|exact B].
Qed.

Lemma lc_present i : i < length L -> present L Lo Ft Fo i = true ->
  exists e, In e (l_list U) /\ idx e = i.
Proof.
  intros LT P. assert (IN : In i (map idx (l_list U))).
  { apply (Permutation_in _ (Permutation_sym (lc_perm _ _ _ _ _ LC))).
    apply filter_In. split; [apply in_seq; lia|exact P]. }
  apply in_map_iff in IN. destruct IN as [e [E IN]]. exists e. auto.
Qed.

Lemma lc_nodup : NoDup (map idx (l_list U)).
Proof.
  apply (Permutation_NoDup (Permutation_sym (lc_perm _ _ _ _ _ LC))). apply NoDup_filter, seq_NoDup.
Qed.

Lemma nodup_map_inj {A B} (f : A -> B) (l : list A) x y :
  NoDup (map f l) -> In x l -> In y l -> f x = f y -> x = y.
Proof.
  induction l as [|a r IH]; cbn; intros ND IX IY E; [tauto|].
  inversion ND as [|? ? NI ND']; subst.
  destruct IX as [<-|IX], IY as [<-|IY]; auto.
  - exfalso. apply NI. rewrite E. apply in_map, IY.
  - exfalso. apply NI. rewrite <- E. apply in_map, IX.
Qed.

Lemma lc_inj e1 e2 : In e1 (l_list U) -> In e2 (l_list U) -> idx e1 = idx e2 -> e1 = e2.
Proof. apply nodup_map_inj, lc_nodup. Qed.
End LC.

(* segments *)
Lemma map_filter_comm {A B} (f : A -> B) (P : B -> bool) l :
  map f (filter (fun x => P (f x)) l) = filter P (map f l).
Proof. induction l as [|a r IH]; cbn; [reflexivity|]. destruct (P (f a)); cbn; rewrite IH; reflexivity. Qed.

Lemma filter_filter_comm {A} (P Q : A -> bool) l : filter P (filter Q l) = filter Q (filter P l).
Proof.
  induction l as [|a r IH]; cbn; [reflexivity|].
  destruct (Q a) eqn:EQ, (P a) eqn:EP; cbn; rewrite ?EQ, ?EP, IH; reflexivity.
Qed.

Definition in_seg (t n i : nat) : bool := Nat.leb t i && Nat.ltb i n.

Lemma filter_none {A} (P : A -> bool) l : (forall x, In x l -> P x = false) -> filter P l = [].
Proof.
  induction l as [|a r IH]; cbn; intros H; [reflexivity|].
  rewrite (H a (or_introl eq_refl)). apply IH. intros x IN. apply H. now right.
Qed.
Lemma filter_all {A} (P : A -> bool) l : (forall x, In x l -> P x = true) -> filter P l = l.
Proof.
  induction l as [|a r IH]; cbn; intros H; [reflexivity|].
  rewrite (H a (or_introl eq_refl)). f_equal. apply IH. intros x IN. apply H. now right.
Qed.

Lemma filter_seg_seq t n s len : s <= t -> t <= n -> n <= s + len ->
  filter (in_seg t n) (seq s len) = seq t (n - t).
Proof.
  intros H1 H2 H3.
  replace len with ((t - s) + ((n - t) + (s + len - n))) by lia.
  rewrite !seq_app, !filter_app.
  replace (s + (t - s)) with t by lia.
  rewrite (filter_none (in_seg t n) (seq s (t - s))).
  2:{ intros x IN. apply in_seq in IN. unfold in_seg.
      apply andb_false_iff. left. apply Nat.leb_gt. lia. }
  rewrite (filter_all (in_seg t n) (seq t (n - t))).
  2:{ intros x IN. apply in_seq in IN. unfold in_seg.
      apply andb_true_iff. split; [apply Nat.leb_le|apply Nat.ltb_lt]; lia. }
  rewrite filter_none.
  2:{ intros x IN. apply in_seq in IN. unfold in_seg.
      apply andb_false_iff. right. apply Nat.ltb_ge. lia. }
  rewrite app_nil_r. reflexivity.
Qed.

(* the entries of U with t <= index < n, in list order, carry exactly the PRESENT indices *)
Definition seg (U : ulog) (t n : nat) : list entry :=
  filter (fun e => in_seg t n (idx e)) (l_list U).

Lemma perm_filter {A} (P : A -> bool) (l l' : list A) : Permutation l l' -> Permutation (filter P l) (filter P l').
Proof.
  induction 1 as [|x l l' H IH|x y l|l l' l'' H1 IH1 H2 IH2]; cbn.
  - constructor.
  - destruct (P x); [constructor|]; exact IH.
  - destruct (P x), (P y); try constructor; apply Permutation_refl.
  - eapply Permutation_trans; eauto.
Qed.

Lemma sumf_perm {A} (f : A -> Z) (l l' : list A) : Permutation l l' -> sumf f l = sumf f l'.
Proof.
  induction 1 as [|x l l' H IH|x y l|l l' l'' H1 IH1 H2 IH2].
  - reflexivity.
  - rewrite !sumf_cons, IH. reflexivity.
  - rewrite !sumf_cons. lia.
  - congruence.
Qed.

Lemma sumf_ext_in' {A} (f g : A -> Z) l : (forall x, In x l -> f x = g x) -> sumf f l = sumf g l.
Proof.
  induction l as [|a r IH]; intros H; [reflexivity|]. rewrite !sumf_cons, (H a (or_introl eq_refl)).
  f_equal. apply IH. intros x IN. apply H. now right.
Qed.

Lemma seg_idx L Lo U Ft Fo t n : LogCorr L Lo U Ft Fo -> t <= n -> n <= length L ->
  Permutation (map idx (seg U t n)) (filter (present L Lo Ft Fo) (seq t (n - t))).
Proof.
  intros LC H1 H2. unfold seg. rewrite (map_filter_comm idx (in_seg t n)).
  eapply Permutation_trans; [apply perm_filter, (lc_perm _ _ _ _ _ LC)|].
  rewrite filter_filter_comm, filter_seg_seq; [apply Permutation_refl|lia|lia|lia].
Qed.

(* sums over a fully present segment = sums over the update list *)
Lemma sumf_map {A B} (f : A -> B) (g : B -> Z) l : sumf g (map f l) = sumf (fun x => g (f x)) l.
Proof. induction l as [|a r IH]; [reflexivity|]. cbn [map]. rewrite !sumf_cons, IH. reflexivity. Qed.

Lemma skipn_cons_nth {A} (L : list A) : forall t u, nth_error L t = Some u -> skipn t L = u :: skipn (S t) L.
Proof.
  induction L as [|x L IH]; intros [|t] u NE; cbn in *; try discriminate.
  - injection NE as ->. reflexivity.
  - apply IH, NE.
Qed.

Lemma sum_seq_seg (L : list upd) (G : upd -> Z) : forall k t, t + k <= length L ->
  sumf (fun i => match nth_error L i with Some u => G u | None => 0%Z end) (seq t k)
  = sumf G (firstn k (skipn t L)).
Proof.
  induction k as [|k IH]; intros t H; [reflexivity|]. cbn [seq].
  destruct (nth_error L t) as [u|] eqn:NE.
  2:{ apply nth_error_None in NE. lia. }
  rewrite (skipn_cons_nth L t u NE). cbn [firstn]. rewrite !sumf_cons, NE. f_equal. apply IH. lia.
Qed.

Lemma sum_seg L Lo (g : entry -> Z) (G : upd -> Z) :
  (forall e u, nth_error L (idx e) = Some u -> corr_entry L Lo e -> g e = G u) ->
  forall es t k, Permutation (map idx es) (seq t k) -> t + k <= length L ->
  (forall e, In e es -> corr_entry L Lo e) ->
  sumf g es = sumf G (firstn k (skipn t L)).
Proof.
  intros HG es t k HM HL HC. rewrite <- sum_seq_seg by exact HL.
  rewrite <- (sumf_perm _ _ _ HM), sumf_map. apply sumf_ext_in'. intros e IN.
  pose proof (HC e IN) as CE.
  destruct (nth_error L (idx e)) as [u|] eqn:NE; [|unfold corr_entry in CE; rewrite NE in CE; tauto].
  apply HG; assumption.
Qed.

(* ---------- R4: positions of adds ---------- *)
Lemma length_adds_from l : forall i j, length (adds_from l i) = length (adds_from l j).
Proof. induction l as [|u l IH]; intros i j; cbn; [reflexivity|]. destruct u; cbn; auto. Qed.

Lemma nadds_cons u l : nadds (u :: l) = (match u with UAdd _ _ _ => 1 | _ => 0 end) + nadds l.
Proof. unfold nadds, adds_of. destruct u; cbn; try reflexivity. f_equal. apply length_adds_from. Qed.

Lemma add_pos_from_nth l : forall j pos r,
  add_pos_from l j pos = Some r ->
  exists i a ex h, r = pos + i /\ nth_error l i = Some (UAdd a ex h) /\ nadds (firstn i l) = j.
Proof.
  induction l as [|u l IH]; intros j pos r H; cbn in H; [discriminate|].
  destruct u.
  - destruct j as [|j].
    + injection H as <-. exists 0, amt, expiry, hash. cbn. repeat split; lia.
    + destruct (IH _ _ _ H) as [i [a [ex [h [E [N1 N2]]]]]].
      exists (S i), a, ex, h. cbn [nth_error firstn]. rewrite nadds_cons. repeat split; auto; lia.
  - destruct (IH _ _ _ H) as [i [a [ex [h [E [N1 N2]]]]]].
    exists (S i), a, ex, h. cbn [nth_error firstn]. rewrite nadds_cons. repeat split; auto; lia.
  - destruct (IH _ _ _ H) as [i [a [ex [h [E [N1 N2]]]]]].
    exists (S i), a, ex, h. cbn [nth_error firstn]. rewrite nadds_cons. repeat split; auto; lia.
  - destruct (IH _ _ _ H) as [i [a [ex [h [E [N1 N2]]]]]].
    exists (S i), a, ex, h. cbn [nth_error firstn]. rewrite nadds_cons. repeat split; auto; lia.
Qed.

Lemma nth_add_pos_from l : forall i pos a ex h,
  nth_error l i = Some (UAdd a ex h) -> add_pos_from l (nadds (firstn i l)) pos = Some (pos + i).
Proof.
  induction l as [|u l IH]; intros i pos a ex h H; [destruct i; discriminate|].
  destruct i as [|i].
  - cbn in H. injection H as ->. cbn. f_equal. lia.
  - cbn [nth_error] in H. cbn [firstn]. rewrite nadds_cons.
    destruct u; cbn [add_pos_from plus]; rewrite (IH _ (S pos) _ _ _ H); f_equal; lia.
Qed.

Lemma add_pos_nth L j i : add_pos L j = Some i ->
  exists a ex h, nth_error L i = Some (UAdd a ex h) /\ nadds (firstn i L) = j.
Proof.
  intros H. destruct (add_pos_from_nth _ _ _ _ H) as [i' [a [ex [h [E [N1 N2]]]]]].
  cbn in E. subst i'. eauto.
Qed.
Lemma nth_add_pos L i a ex h : nth_error L i = Some (UAdd a ex h) -> add_pos L (nadds (firstn i L)) = Some i.
Proof. intros H. unfold add_pos. rewrite (nth_add_pos_from _ _ 0 _ _ _ H). reflexivity. Qed.

Lemma nth_parent L i j : nth_error L i = Some (USettle j) \/ nth_error L i = Some (UFail j) -> In j (parents L).
Proof.
  revert i. induction L as [|u L IH]; intros i H; [destruct i, H; discriminate|].
  unfold parents in *. destruct i as [|i]; cbn in H.
  - destruct H as [H|H]; injection H as ->; cbn; now left.
  - specialize (IH _ H). destruct u; cbn; auto.
Qed.

Lemma skipn_nth {A} (l : list A) : forall F i, F <= i -> nth_error (skipn F l) (i - F) = nth_error l i.
Proof.
  induction l as [|x l IH]; intros F i H.
  - rewrite skipn_nil. destruct (i - F), i; reflexivity.
  - destruct F as [|F]; [cbn; f_equal; lia|]. destruct i as [|i]; [lia|]. cbn. apply IH. lia.
Qed.

Lemma nodup_parent_above L F i j : NoDup (parents L) -> F <= i ->
  nth_error L i = Some (USettle j) \/ nth_error L i = Some (UFail j) ->
  ~ In j (parents (firstn F L)).
Proof.
  intros ND HF HN IN. rewrite <- (firstn_skipn F L), parents_app in ND.
  assert (IN2 : In j (parents (skipn F L))).
  { apply (nth_parent _ (i - F)). rewrite skipn_nth by lia. exact HN. }
  clear - ND IN IN2. induction (parents (firstn F L)) as [|x r IH]; [destruct IN|].
  cbn in ND. inversion ND as [|? ? NI ND']; subst. destruct IN as [->|IN]; [|auto].
  apply NI, in_or_app. now right.
Qed.

Lemma sumf_filter {A} (f : A -> Z) (P : A -> bool) l :
  sumf f (filter P l) = sumf (fun x => if P x then f x else 0%Z) l.
Proof.
  induction l as [|a r IH]; [reflexivity|]. cbn [filter]. rewrite sumf_cons.
  destruct (P a); [rewrite sumf_cons|]; rewrite IH; lia.
Qed.
Lemma sumf_ext_in {A} (f g : A -> Z) l : (forall x, In x l -> f x = g x) -> sumf f l = sumf g l.
Proof.
  induction l as [|a r IH]; intros H; [reflexivity|]. rewrite !sumf_cons, (H a (or_introl eq_refl)).
  f_equal. apply IH. intros x IN. apply H. now right.
Qed.

Lemma S_adds_sumf l : S_adds l = sumf (fun u => match u with UAdd a _ _ => a | _ => 0%Z end) l.
Proof. induction l as [|u l IH]; [reflexivity|]. rewrite sumf_cons. destruct u; cbn [S_adds]; lia. Qed.
Lemma S_rem_sumf adds st l :
  S_rem adds st l = sumf (fun u => match u with
                                   | USettle j => if st then amt_in adds j else 0%Z
                                   | UFail j => if st then 0%Z else amt_in adds j
                                   | _ => 0%Z end) l.
Proof. induction l as [|u l IH]; [reflexivity|]. rewrite sumf_cons. destruct u; cbn [S_rem]; lia. Qed.

Lemma view_in U n e : In e (fetchHTLCView1 U (N.of_nat n)) <-> In e (l_list U) /\ idx e < n.
Proof.
  unfold fetchHTLCView1, idx. rewrite filter_In. split; intros [A B]; split; auto.
  - apply N.ltb_lt in B. lia.
  - apply N.ltb_lt. lia.
Qed.

Section Ent.
Variables (LX LY : list upd) (UX : ulog) (FX FY : nat).
Hypothesis LCX : LogCorr LX LY UX FX FY.

Lemma corr_nth e : In e (l_list UX) -> exists u, nth_error LX (idx e) = Some u.
Proof.
  intros IN. pose proof (lc_ent _ _ _ _ _ LCX e IN) as C. unfold corr_entry in C.
  destruct (nth_error LX (idx e)) as [u|]; [eauto|tauto].
Qed.

Lemma remove_entry e : In e (l_list UX) -> is_remove e = true ->
  exists j, e_parent e = N.of_nat j /\
            (nth_error LX (idx e) = Some (USettle j) \/ nth_error LX (idx e) = Some (UFail j)) /\
            e_amt e = amt_in (adds_of LY) j /\
            (is_settle e = true <-> nth_error LX (idx e) = Some (USettle j)).
Proof.
  intros IN R. pose proof (lc_ent _ _ _ _ _ LCX e IN) as C. unfold corr_entry in C.
  unfold is_remove, is_settle in *.
  destruct (nth_error LX (idx e)) as [[a ex h|j|j|r]|]; try tauto.
  - destruct C as [T _]. rewrite T in R. discriminate.
  - destruct C as [T [P A]]. exists j. rewrite T. repeat split; auto.
  - destruct C as [T [P A]]. exists j. repeat split; auto.
    + destruct T as [T|T]; rewrite T; discriminate.
    + discriminate.
  - destruct C as [T _]. rewrite T in R. discriminate.
Qed.

Lemma add_entry e : In e (l_list UX) -> is_add e = true ->
  exists a ex h, nth_error LX (idx e) = Some (UAdd a ex h) /\ e_amt e = a /\ e_exp e = ex /\ e_hash e = h /\
                 e_htlc e = N.of_nat (nadds (firstn (idx e) LX)).
Proof.
  intros IN R. pose proof (lc_ent _ _ _ _ _ LCX e IN) as C. unfold corr_entry in C. unfold is_add in R.
  destruct (nth_error LX (idx e)) as [[a ex h|j|j|r]|]; try tauto.
  - exists a, ex, h. tauto.
  - destruct C as [T _]. rewrite T in R. discriminate.
  - destruct C as [[T|T] _]; rewrite T in R; discriminate.
  - destruct C as [T _]. rewrite T in R. discriminate.
Qed.

End Ent.

(* ---------- R5: one log X against the other log Y, chain w ---------- *)
Section OneLog.
Variables (LX LY : list upd) (UX UY : ulog) (FX FY : nat).
Hypothesis LCX : LogCorr LX LY UX FX FY.
Hypothesis LCY : LogCorr LY LX UY FY FX.
Variables (w : bool) (tX tY nX nY : nat).
Hypothesis HX : FX <= tX /\ tX <= nX /\ nX <= length LX.
Hypothesis HY : FY <= tY /\ tY <= nY /\ nY <= length LY.
Hypothesis A3X : forall e, In e (l_list UX) -> (committed w e = 0%N <-> tX <= idx e).
Hypothesis A3Y : forall e, In e (l_list UY) -> (committed w e = 0%N <-> tY <= idx e).
(* parents of X's removals are adds of Y committed on chain w, and conversely *)
Hypothesis PFX : forall j, In j (parents LX) -> exists a, add_pos LY j = Some a /\ a < tY.
Hypothesis PFY : forall j, In j (parents LY) -> exists a, add_pos LX j = Some a /\ a < tX.
Hypothesis NDX : NoDup (parents LX).

(* an add of Y at position a with HTLC index j that is not named below X's frontier is present *)
Lemma add_present_Y j a : add_pos LY j = Some a -> ~ In j (parents (firstn FX LX)) ->
  exists b, In b (l_list UY) /\ idx b = a /\ is_add b = true /\ e_htlc b = N.of_nat j.
Proof.
  intros AP NI. destruct (add_pos_nth _ _ _ AP) as [am [ex [h [NE NA]]]].
  assert (LT : a < length LY) by (apply nth_error_Some; congruence).
  destruct (lc_present _ _ _ _ _ LCY a LT) as [b [IB EB]].
  { unfold present. rewrite NE, NA. unfold removed_below. apply negb_true_iff.
    destruct (existsb (Nat.eqb j) (parents (firstn FX LX))) eqn:E; [|reflexivity].
    apply existsb_exists in E. destruct E as [x [I1 I2]]. apply Nat.eqb_eq in I2. subst x. tauto. }
  exists b. pose proof (lc_ent _ _ _ _ _ LCY b IB) as C. unfold corr_entry in C.
  rewrite EB, NE in C. destruct C as [T [_ [_ [_ H]]]].
  repeat split; auto; [unfold is_add; rewrite T; reflexivity|rewrite H, NA; reflexivity].
Qed.

(* G1: fetchParent succeeds on every removal entry of X *)
Lemma parent_ok e : In e (l_list UX) -> is_remove e = true ->
  exists b, lookupHtlc UY (e_parent e) = Some b /\ add_h w b <> 0%N.
Proof.
  intros IN R. destruct (remove_entry _ _ _ _ _ LCX e IN R) as [j [EP [NE _]]].
  destruct (PFX j (nth_parent _ _ _ NE)) as [a [AP LT]].
  destruct (lc_in _ _ _ _ _ LCX e IN) as [_ PR]. unfold present in PR.
  assert (FE : FX <= idx e).
  { destruct NE as [NE|NE]; rewrite NE in PR; apply Nat.leb_le, PR. }
  destruct (add_present_Y j a AP (nodup_parent_above _ _ _ _ NDX FE NE)) as [b0 [IB0 [EB0 [AB0 HB0]]]].
  unfold lookupHtlc.
  destruct (find (fun e0 => is_add e0 && N.eqb (e_htlc e0) (e_parent e)) (l_list UY)) as [b|] eqn:F.
  2:{ exfalso. apply (find_none _ _ F) in IB0. rewrite AB0, HB0, EP, N.eqb_refl in IB0. discriminate. }
  exists b. split; [reflexivity|]. apply find_some in F. destruct F as [IB P].
  apply andb_true_iff in P. destruct P as [AB HB]. apply N.eqb_eq in HB.
  (* b is the add at position a *)
  pose proof (lc_ent _ _ _ _ _ LCY b IB) as C. unfold corr_entry in C. unfold is_add in AB.
  destruct (nth_error LY (idx b)) as [[am ex h|?|?|?]|] eqn:NB; try tauto.
  2:{ destruct C as [T _]. rewrite T in AB. discriminate. }
  2:{ destruct C as [[T|T] _]; rewrite T in AB; discriminate. }
  2:{ destruct C as [T _]. rewrite T in AB. discriminate. }
  destruct C as [TB [_ [_ [_ H]]]].
  assert (EJ : nadds (firstn (idx b) LY) = j) by lia.
  pose proof (nth_add_pos _ _ _ _ _ NB) as AP2. rewrite EJ, AP in AP2. injection AP2 as E2.
  intros Z0. assert (CZ : committed w b = 0%N).
  { unfold committed, is_remove. rewrite TB. exact Z0. }
  apply (A3Y b IB) in CZ. lia.
Qed.

(* every index of the segment [tX, nX) is present *)
Lemma seg_full : Permutation (map idx (seg UX tX nX)) (seq tX (nX - tX)).
Proof.
  eapply Permutation_trans; [apply (seg_idx _ _ _ _ _ _ _ LCX); lia|].
  rewrite filter_all; [apply Permutation_refl|].
  intros i IN. apply in_seq in IN. unfold present.
  destruct (nth_error LX i) as [[a ex h|?|?|?]|] eqn:NE.
  - apply negb_true_iff. unfold removed_below.
    destruct (existsb _ _) eqn:E; [|reflexivity]. exfalso.
    apply existsb_exists in E. destruct E as [x [I1 I2]]. apply Nat.eqb_eq in I2. subst x.
    apply parents_firstn_in in I1. destruct (PFY _ I1) as [a0 [AP LT]].
    rewrite (nth_add_pos _ _ _ _ _ NE) in AP. injection AP as <-. lia.
  - apply Nat.leb_le. lia.
  - apply Nat.leb_le. lia.
  - apply Nat.leb_le. lia.
  - exfalso. apply nth_error_None in NE. lia.
Qed.

Lemma seg_corr e : In e (seg UX tX nX) -> corr_entry LX LY e.
Proof. unfold seg. intros IN. apply filter_In in IN. apply (lc_ent _ _ _ _ _ LCX), IN. Qed.

Lemma in_seg_iff e : in_seg tX nX (idx e) = true <-> tX <= idx e /\ idx e < nX.
Proof.
  unfold in_seg. rewrite andb_true_iff, Nat.leb_le, Nat.ltb_lt. tauto.
Qed.

(* G2a: the settles / fails of X first committed by this view *)
Lemma sum_removes (st : bool) :
  sumf (if st then c_settle w else c_fail w) (filter is_remove (fetchHTLCView1 UX (N.of_nat nX)))
  = S_rem (adds_of LY) st (skipn tX (firstn nX LX)).
Proof.
  rewrite S_rem_sumf.
  replace (skipn tX (firstn nX LX)) with (firstn (nX - tX) (skipn tX LX)).
  2:{ rewrite firstn_skipn_comm. f_equal. f_equal. lia. }
  rewrite <- (sum_seg LX LY (fun e => if is_remove e && (if st then is_settle e else negb (is_settle e))
                                       then e_amt e else 0%Z) _ ) with (es := seg UX tX nX).
  - unfold seg, fetchHTLCView1. rewrite !sumf_filter. apply sumf_ext_in. intros e IN.
    destruct (e_log e <? N.of_nat nX)%N eqn:LT.
    + apply N.ltb_lt in LT. destruct (is_remove e) eqn:R; cbn [andb].
      * assert (CM : committed w e = rm_h w e) by (unfold committed; rewrite R; reflexivity).
        pose proof (A3X e IN) as A3. rewrite CM in A3.
        destruct (in_seg tX nX (idx e)) eqn:SG.
        -- apply in_seg_iff in SG. assert (Z0 : rm_h w e = 0%N) by (apply A3; lia).
           destruct st; unfold c_settle, c_fail; rewrite Z0, N.eqb_refl, andb_true_r; reflexivity.
        -- assert (NZ : rm_h w e <> 0%N).
           { intros Z0. apply A3 in Z0. assert (in_seg tX nX (idx e) = true); [|congruence].
             apply in_seg_iff. unfold idx in *. lia. }
           apply N.eqb_neq in NZ.
           destruct st; unfold c_settle, c_fail; rewrite NZ, andb_false_r; reflexivity.
      * destruct (in_seg tX nX (idx e)); reflexivity.
    + apply N.ltb_ge in LT. destruct (in_seg tX nX (idx e)) eqn:SG; [|reflexivity].
      apply in_seg_iff in SG. unfold idx in SG. lia.
  - intros e u NE C. unfold corr_entry in C. rewrite NE in C. unfold is_remove, is_settle.
    destruct u as [a ex h|j|j|r].
    + destruct C as [T _]. rewrite T. reflexivity.
    + destruct C as [T [_ A]]. rewrite T, A. destruct st; reflexivity.
    + destruct C as [[T|T] [_ A]]; rewrite T, A; destruct st; reflexivity.
    + destruct C as [T _]. rewrite T. reflexivity.
  - exact seg_full.
  - lia.
  - exact seg_corr.
Qed.

(* G2b: the adds of X first committed by this view; sk = a skip set made of parents of Y's removals *)
Lemma sum_adds_view sk :
  (forall s, In s sk -> exists j, s = N.of_nat j /\ In j (parents LY)) ->
  sumf (c_add w) (live_of sk (fetchHTLCView1 UX (N.of_nat nX))) = S_adds (skipn tX (firstn nX LX)).
Proof.
  intros SK. rewrite S_adds_sumf.
  replace (skipn tX (firstn nX LX)) with (firstn (nX - tX) (skipn tX LX)).
  2:{ rewrite firstn_skipn_comm. f_equal. f_equal. lia. }
  rewrite <- (sum_seg LX LY (fun e => if is_add e then e_amt e else 0%Z) _ ) with (es := seg UX tX nX).
  - unfold seg, live_of, fetchHTLCView1. rewrite !sumf_filter. apply sumf_ext_in. intros e IN.
    destruct (e_log e <? N.of_nat nX)%N eqn:LT.
    + apply N.ltb_lt in LT. destruct (is_add e) eqn:R; cbn [andb].
      * assert (CM : committed w e = add_h w e).
        { unfold committed, is_remove. unfold is_add in R. destruct (e_type e); try discriminate; reflexivity. }
        pose proof (A3X e IN) as A3. rewrite CM in A3.
        destruct (in_seg tX nX (idx e)) eqn:SG.
        -- apply in_seg_iff in SG. assert (Z0 : add_h w e = 0%N) by (apply A3; lia).
           assert (NS : memN (e_htlc e) sk = false).
           { destruct (memN (e_htlc e) sk) eqn:M; [|reflexivity]. exfalso.
             unfold memN in M. apply existsb_exists in M. destruct M as [s [IS ES]].
             apply N.eqb_eq in ES. subst s. destruct (SK _ IS) as [j [EJ PJ]].
             destruct (PFY j PJ) as [a [AP LA]].
             destruct (add_entry _ _ _ _ _ LCX e IN R) as [am [ex [h [NE [_ [_ [_ HH]]]]]]].
             assert (nadds (firstn (idx e) LX) = j) by lia.
             pose proof (nth_add_pos _ _ _ _ _ NE) as AP2. rewrite H, AP in AP2. injection AP2 as E2. lia. }
           rewrite NS. cbn [negb]. unfold c_add. rewrite Z0, N.eqb_refl. reflexivity.
        -- assert (NZ : add_h w e <> 0%N).
           { intros Z0. apply A3 in Z0. assert (in_seg tX nX (idx e) = true); [|congruence].
             apply in_seg_iff. unfold idx in *. lia. }
           apply N.eqb_neq in NZ. unfold c_add. rewrite NZ. destruct (negb _); reflexivity.
      * destruct (in_seg tX nX (idx e)); reflexivity.
    + apply N.ltb_ge in LT. destruct (in_seg tX nX (idx e)) eqn:SG; [|reflexivity].
      apply in_seg_iff in SG. unfold idx in SG. lia.
  - intros e u NE C. unfold corr_entry in C. rewrite NE in C. unfold is_add.
    destruct u as [a ex h|j|j|r].
    + destruct C as [T [A _]]. rewrite T, A. reflexivity.
    + destruct C as [T _]. rewrite T. reflexivity.
    + destruct C as [[T|T] _]; rewrite T; reflexivity.
    + destruct C as [T _]. rewrite T. reflexivity.
  - exact seg_full.
  - lia.
  - exact seg_corr.
Qed.

(* the skip set produced by X's removal entries consists of parents of LX *)
Lemma skip_parents n s : In s (rev (map e_parent (filter is_remove (fetchHTLCView1 UX (N.of_nat n))))) ->
  exists j, s = N.of_nat j /\ In j (parents LX).
Proof.
  intros IN. apply in_rev, in_map_iff in IN. destruct IN as [e [<- IN]].
  apply filter_In in IN. destruct IN as [IN R]. apply view_in in IN. destruct IN as [IN _].
  destruct (remove_entry _ _ _ _ _ LCX e IN R) as [j [EP [NE _]]]. exists j. split; [exact EP|].
  eapply nth_parent; eauto.
Qed.
End OneLog.

(* ---------- R6: the fee rate of a view ---------- *)
Lemma inc_filter_seq P : forall len s, inc (filter P (seq s len)).
Proof.
  induction len as [|len IH]; intros s; cbn; [exact I|].
  destruct (P s); [|apply IH]. cbn. split; [|apply IH].
  intros y IN. apply filter_In in IN. destruct IN as [IN _]. apply in_seq in IN. lia.
Qed.

Lemma last_opt_none {A} (l : list A) : last_opt l = None -> l = [].
Proof. induction l as [|a r IH]; [reflexivity|]. cbn. destruct r; [discriminate|]. intros H. specialize (IH H). discriminate. Qed.
Lemma last_opt_in {A} (l : list A) x : last_opt l = Some x -> In x l.
Proof.
  induction l as [|a r IH]; [discriminate|]. cbn. destruct r as [|b r]; [intros H; injection H as ->; now left|].
  intros H. right. apply IH, H.
Qed.

Lemma last_is_max (f : entry -> nat) (P : entry -> bool) : forall l x,
  inc (map f l) -> last_opt (filter P l) = Some x -> forall y, In y (filter P l) -> f y <= f x.
Proof.
  induction l as [|a r IH]; intros x HI HL y IY; [destruct IY|].
  cbn [map inc] in HI. destruct HI as [H1 H2]. cbn [filter] in *.
  destruct (P a) eqn:PA.
  - destruct (filter P r) as [|b r'] eqn:FR.
    + cbn in HL. injection HL as <-. destruct IY as [<-|[]]. lia.
    + assert (HL' : last_opt (b :: r') = Some x) by exact HL.
      pose proof (IH x H2 HL') as IH'.
      destruct IY as [<-|IY]; [|apply IH', IY].
      assert (IX : In x (filter P r)) by (rewrite FR; apply last_opt_in, HL').
      apply filter_In in IX. specialize (H1 (f x) (in_map f _ _ (proj1 IX))). lia.
  - apply (IH x H2 HL y IY).
Qed.

Lemma last_fee_app a b d : last_fee (a ++ b) d = last_fee b (last_fee a d).
Proof. unfold last_fee. apply fold_left_app. Qed.
Lemma last_fee_nofee l d : (forall u, In u l -> forall r, u <> UFee r) -> last_fee l d = d.
Proof.
  unfold last_fee. revert d. induction l as [|u l IH]; intros d H; [reflexivity|]. cbn.
  destruct u; try (apply IH; intros x IN; apply H; now right).
  exfalso. apply (H (UFee rate) (or_introl eq_refl) rate). reflexivity.
Qed.

Lemma nth_firstn {A} (l : list A) : forall k m, m < k -> nth_error (firstn k l) m = nth_error l m.
Proof.
  induction l as [|x l IH]; intros k m H; [rewrite firstn_nil; reflexivity|].
  destruct k as [|k]; [lia|]. destruct m as [|m]; [reflexivity|]. cbn. apply IH. lia.
Qed.

Lemma in_firstn_skipn {A} (l : list A) u s k : In u (firstn k (skipn s l)) ->
  exists i, s <= i /\ i < s + k /\ nth_error l i = Some u.
Proof.
  intros IN. apply In_nth_error in IN. destruct IN as [m NE].
  assert (LT : m < k).
  { assert (m < length (firstn k (skipn s l))) by (apply nth_error_Some; congruence).
    rewrite firstn_length in H. lia. }
  rewrite nth_firstn in NE by exact LT.
  exists (s + m). repeat split; try lia. rewrite <- NE.
  replace m with (s + m - s) at 2 by lia. symmetry. apply skipn_nth. lia.
Qed.

Lemma firstn_split3 {A} (L : list A) i n u : nth_error L i = Some u -> i < n ->
  firstn n L = firstn i L ++ u :: firstn (n - S i) (skipn (S i) L).
Proof.
  revert i n. induction L as [|x L IH]; intros i n NE LT; [destruct i; discriminate|].
  destruct n as [|n]; [lia|]. destruct i as [|i]; cbn in *.
  - injection NE as ->. f_equal. f_equal. lia.
  - f_equal. apply IH; [exact NE|lia].
Qed.

Section Rate.
Variables (L Lo : list upd) (U : ulog) (Ft Fo : nat).
Hypothesis LC : LogCorr L Lo U Ft Fo.
Variables (t n : nat) (r0 : Z).
Hypothesis HT : Ft <= t /\ t <= n /\ n <= length L.

Lemma fee_entry e : In e (l_list U) ->
  (is_fee e = true <-> exists r, nth_error L (idx e) = Some (UFee r)) /\
  (forall r, nth_error L (idx e) = Some (UFee r) -> e_amt e = (r * 1000)%Z).
Proof.
  intros IN. pose proof (lc_ent _ _ _ _ _ LC e IN) as C. unfold corr_entry in C. unfold is_fee.
  destruct (nth_error L (idx e)) as [[a ex h|j|j|r]|]; try tauto.
  - destruct C as [T _]. rewrite T. split; [split; [discriminate|intros [r H]; discriminate]|discriminate].
  - destruct C as [T _]. rewrite T. split; [split; [discriminate|intros [r H]; discriminate]|discriminate].
  - destruct C as [[T|T] _]; rewrite T; (split; [split; [discriminate|intros [r H]; discriminate]|discriminate]).
  - destruct C as [T A]. rewrite T. split; [split; eauto|]. intros r' H. injection H as <-. exact A.
Qed.

Lemma view_fee_rate :
  match last_opt (filter is_fee (fetchHTLCView1 U (N.of_nat n))) with
  | Some pd => (e_amt pd / 1000)%Z
  | None => last_fee (firstn t L) r0
  end = last_fee (firstn n L) r0.
Proof.
  pose proof (lc_fee _ _ _ _ _ LC) as INC.
  assert (VF : forall e, In e (filter is_fee (fetchHTLCView1 U (N.of_nat n))) <->
                         In e (l_list U) /\ idx e < n /\ is_fee e = true).
  { intros e. rewrite filter_In, view_in. tauto. }
  (* a fee update of L at a present index below n has its entry in the filtered view *)
  assert (PRES : forall i r, Ft <= i -> i < n -> nth_error L i = Some (UFee r) ->
                 exists e, In e (filter is_fee (fetchHTLCView1 U (N.of_nat n))) /\ idx e = i).
  { intros i r H1 H2 NE. destruct (lc_present _ _ _ _ _ LC i) as [e [IE EI]]; [lia| |].
    - unfold present. rewrite NE. apply Nat.leb_le, H1.
    - exists e. split; [|exact EI]. apply VF. split; [exact IE|]. split; [lia|].
      apply (fee_entry e IE). exists r. rewrite EI. exact NE. }
  destruct (last_opt _) as [pd|] eqn:LO.
  - pose proof (last_opt_in _ _ LO) as IP. apply VF in IP. destruct IP as [IP [LT FE]].
    destruct (proj1 (proj1 (fee_entry pd IP)) FE) as [r NE].
    rewrite (proj2 (fee_entry pd IP) r NE), Z.div_mul by lia.
    rewrite (firstn_split3 L (idx pd) n (UFee r) NE LT), last_fee_app.
    change (last_fee (UFee r :: ?b) ?d) with (last_fee b r).
    symmetry. apply last_fee_nofee. intros u IN r' ->.
    apply in_firstn_skipn in IN. destruct IN as [i' [H1 [H2 NE']]].
    assert (FP : Ft <= idx pd).
    { destruct (lc_in _ _ _ _ _ LC pd IP) as [_ PR]. unfold present in PR. rewrite NE in PR.
      apply Nat.leb_le, PR. }
    destruct (PRES i' r') as [e' [IE' EI']]; [lia|lia|exact NE'|].
    unfold fetchHTLCView1 in LO, IE'.
    pose proof (last_is_max idx (fun e => (e_log e <? N.of_nat n)%N) (filter is_fee (l_list U)) pd INC) as MX.
    rewrite filter_filter_comm in LO. rewrite filter_filter_comm in IE'.
    specialize (MX LO e' IE'). lia.
  - apply last_opt_none in LO.
    rewrite <- (firstn_skipn t (firstn n L)), firstn_firstn, last_fee_app.
    replace (Nat.min t n) with t by lia. symmetry. apply last_fee_nofee. intros u IN r' ->.
    replace n with (t + (n - t)) in IN by lia. rewrite <- firstn_skipn_comm in IN. apply in_firstn_skipn in IN. destruct IN as [i' [H1 [H2 NE']]].
    destruct (PRES i' r') as [e' [IE' _]]; [lia|lia|exact NE'|]. rewrite LO in IE'. destruct IE'.
Qed.
End Rate.

(* ---------- R7: the live HTLC sets ---------- *)
Lemma insert_in x : forall l y, In y (insert_add x l) <-> y = x \/ In y l.
Proof.
  induction l as [|z l IH]; intros y; cbn; [intuition auto|].
  destruct (Nat.leb (a_idx x) (a_idx z)); cbn; [intuition auto|]. rewrite IH. intuition auto.
Qed.
Lemma sort_in l : forall y, In y (sort_adds l) <-> In y l.
Proof.
  induction l as [|x l IH]; intros y; [cbn; tauto|]. unfold sort_adds; cbn [fold_right]; fold (sort_adds l). rewrite insert_in, IH. cbn. intuition auto.
Qed.
Lemma insert_inc x : forall l, inc (map a_idx l) -> ~ In (a_idx x) (map a_idx l) ->
  inc (map a_idx (insert_add x l)).
Proof.
  induction l as [|z l IH]; intros HI NI; cbn; [split; [intros y []|exact I]|].
  cbn in HI. destruct HI as [H1 H2].
  destruct (Nat.leb_spec (a_idx x) (a_idx z)); cbn.
  - split; [|split; assumption]. intros y [<-|IY].
    + assert (a_idx x <> a_idx z) by (intros E; apply NI; left; auto). lia.
    + specialize (H1 y IY). lia.
  - split.
    + intros y IY. apply in_map_iff in IY. destruct IY as [q [<- IQ]]. apply insert_in in IQ.
      destruct IQ as [->|IQ]; [lia|]. apply H1, in_map, IQ.
    + apply IH; [exact H2|]. intros IN. apply NI. right. exact IN.
Qed.
Lemma sort_inc l : NoDup (map a_idx l) -> inc (map a_idx (sort_adds l)).
Proof.
  induction l as [|x l IH]; intros ND; [exact I|]. unfold sort_adds; cbn [fold_right]; fold (sort_adds l). cbn in ND. inversion ND as [|? ? NI ND']; subst.
  apply insert_inc; [apply IH, ND'|]. intros IN. apply NI.
  apply in_map_iff in IN. destruct IN as [q [E IQ]]. apply (proj1 (sort_in _ _)) in IQ. rewrite <- E. apply in_map, IQ.
Qed.
Lemma inc_unique : forall l l' : list addent, inc (map a_idx l) -> inc (map a_idx l') ->
  (forall x, In x l <-> In x l') -> l = l'.
Proof.
  induction l as [|x r IH]; intros [|y r'] H1 H2 HM.
  - reflexivity.
  - exfalso. apply (proj2 (HM y)). now left.
  - exfalso. apply (proj1 (HM x)). now left.
  - cbn in H1, H2. destruct H1 as [A1 A2], H2 as [B1 B2].
    assert (E : x = y).
    { destruct (proj1 (HM x) (or_introl eq_refl)) as [E|IX]; [auto|].
      destruct (proj2 (HM y) (or_introl eq_refl)) as [E|IY]; [auto|].
      specialize (A1 _ (in_map a_idx _ _ IY)). specialize (B1 _ (in_map a_idx _ _ IX)). lia. }
    subst y. f_equal. apply IH; auto. intros z. split; intros IZ.
    + destruct (proj1 (HM z) (or_intror IZ)) as [<-|H]; [|exact H].
      specialize (A1 _ (in_map a_idx _ _ IZ)). lia.
    + destruct (proj2 (HM z) (or_intror IZ)) as [<-|H]; [|exact H].
      specialize (B1 _ (in_map a_idx _ _ IZ)). lia.
Qed.
Lemma sort_adds_eq l l' : NoDup (map a_idx l) -> inc (map a_idx l') ->
  (forall x, In x l <-> In x l') -> sort_adds l = l'.
Proof.
  intros ND HI HM. apply inc_unique; [apply sort_inc, ND|exact HI|].
  intros x. rewrite sort_in. apply HM.
Qed.

(* the adds of a prefix *)
Lemma in_adds_from l : forall k x, In x (adds_from l k) <->
  exists i a ex h, nth_error l i = Some (UAdd a ex h) /\ x = mkAdd (k + nadds (firstn i l)) a ex h.
Proof.
  induction l as [|u l IH]; intros k x; cbn [adds_from].
  - split; [intros []|intros [i [a [ex [h [H _]]]]]; destruct i; discriminate].
  - assert (SH : forall k', (exists i a ex h, nth_error l i = Some (UAdd a ex h) /\
                              x = mkAdd (k' + nadds (firstn i l)) a ex h) ->
                 forall d, k' = k + d -> d = (match u with UAdd _ _ _ => 1 | _ => 0 end) ->
                 exists i a ex h, nth_error (u :: l) i = Some (UAdd a ex h) /\
                              x = mkAdd (k + nadds (firstn i (u :: l))) a ex h).
    { intros k' [i [a [ex [h [N1 N2]]]]] d -> ->. exists (S i), a, ex, h. split; [exact N1|].
      cbn [firstn]. rewrite nadds_cons, N2. f_equal. lia. }
    assert (SH2 : forall i a ex h, nth_error (u :: l) (S i) = Some (UAdd a ex h) ->
                  x = mkAdd (k + nadds (firstn (S i) (u :: l))) a ex h ->
                  exists i a ex h, nth_error l i = Some (UAdd a ex h) /\
                    x = mkAdd (k + (match u with UAdd _ _ _ => 1 | _ => 0 end) + nadds (firstn i l)) a ex h).
    { intros i a ex h N1 N2. exists i, a, ex, h. split; [exact N1|]. rewrite N2. cbn [firstn].
      rewrite nadds_cons. f_equal. lia. }
    destruct u.
    + cbn [In]. rewrite IH. split.
      * intros [<-|H]; [exists 0, amt, expiry, hash; cbn; split; [reflexivity|f_equal; lia]|].
        apply (SH (S k) H 1); lia.
      * intros [[|i] [a [ex [h [N1 N2]]]]].
        -- cbn in N1. injection N1 as <- <- <-. left. rewrite N2. cbn. f_equal. lia.
        -- right. destruct (SH2 i a ex h N1 N2) as [i' [a' [ex' [h' [M1 M2]]]]].
           exists i', a', ex', h'. split; [exact M1|]. rewrite M2. f_equal. lia.
    + rewrite IH. split; [intros H; apply (SH k H 0); lia|].
      intros [[|i] [a [ex [h [N1 N2]]]]]; [discriminate|].
      destruct (SH2 i a ex h N1 N2) as [i' [a' [ex' [h' [M1 M2]]]]].
      exists i', a', ex', h'. split; [exact M1|]. rewrite M2. f_equal. lia.
    + rewrite IH. split; [intros H; apply (SH k H 0); lia|].
      intros [[|i] [a [ex [h [N1 N2]]]]]; [discriminate|].
      destruct (SH2 i a ex h N1 N2) as [i' [a' [ex' [h' [M1 M2]]]]].
      exists i', a', ex', h'. split; [exact M1|]. rewrite M2. f_equal. lia.
    + rewrite IH. split; [intros H; apply (SH k H 0); lia|].
      intros [[|i] [a [ex [h [N1 N2]]]]]; [discriminate|].
      destruct (SH2 i a ex h N1 N2) as [i' [a' [ex' [h' [M1 M2]]]]].
      exists i', a', ex', h'. split; [exact M1|]. rewrite M2. f_equal. lia.
Qed.

Lemma in_adds_of_firstn L n x : In x (adds_of (firstn n L)) <->
  exists i a ex h, i < n /\ nth_error L i = Some (UAdd a ex h) /\ x = mkAdd (nadds (firstn i L)) a ex h.
Proof.
  unfold adds_of. rewrite in_adds_from. split.
  - intros [i [a [ex [h [N1 N2]]]]].
    assert (LT : i < n).
    { assert (i < length (firstn n L)) by (apply nth_error_Some; congruence).
      rewrite firstn_length in H. lia. }
    exists i, a, ex, h. rewrite nth_firstn in N1 by exact LT. repeat split; auto.
    rewrite N2, firstn_firstn. cbn. repeat f_equal. lia.
  - intros [i [a [ex [h [LT [N1 N2]]]]]]. exists i, a, ex, h.
    rewrite nth_firstn by exact LT. split; [exact N1|]. rewrite N2, firstn_firstn. cbn. repeat f_equal. lia.
Qed.

Lemma inc_adds_from l : forall k, inc (map a_idx (adds_from l k)) /\
                                   (forall y, In y (map a_idx (adds_from l k)) -> k <= y).
Proof.
  induction l as [|u l IH]; intros k; cbn [adds_from]; [split; [exact I|intros y []]|].
  destruct u; try apply IH. cbn. destruct (IH (S k)) as [A B]. split.
  - split; [|exact A]. intros y IY. specialize (B y IY). lia.
  - intros y [<-|IY]; [lia|]. specialize (B y IY). lia.
Qed.
Lemma inc_map_filter (P : addent -> bool) : forall l, inc (map a_idx l) -> inc (map a_idx (filter P l)).
Proof.
  induction l as [|x l IH]; intros H; cbn; [exact I|]. cbn in H. destruct H as [H1 H2].
  destruct (P x); cbn; [|apply IH, H2]. split; [|apply IH, H2].
  intros y IY. apply in_map_iff in IY. destruct IY as [q [<- IQ]]. apply filter_In in IQ.
  apply H1, in_map, IQ.
Qed.

Lemma in_live_adds adds rems x :
  In x (live_adds adds rems) <-> In x adds /\ ~ In (a_idx x) (map fst rems).
Proof.
  unfold live_adds. rewrite filter_In. split; intros [A B]; split; auto.
  - intros IN. apply negb_true_iff in B. apply in_map_iff in IN. destruct IN as [r [E IR]].
    assert (existsb (fun r0 => Nat.eqb (fst r0) (a_idx x)) rems = true); [|congruence].
    apply existsb_exists. exists r. split; [exact IR|]. apply Nat.eqb_eq, E.
  - apply negb_true_iff. destruct (existsb _ rems) eqn:E; [|reflexivity]. exfalso. apply B.
    apply existsb_exists in E. destruct E as [r [IR ER]]. apply Nat.eqb_eq in ER. rewrite <- ER.
    apply in_map, IR.
Qed.

Lemma parents_firstn_nth L n j : In j (parents (firstn n L)) ->
  exists i, i < n /\ (nth_error L i = Some (USettle j) \/ nth_error L i = Some (UFail j)).
Proof.
  revert n. induction L as [|u L IH]; intros n IN; [rewrite firstn_nil in IN; destruct IN|].
  destruct n as [|n]; [destruct IN|]. cbn [firstn] in IN. unfold parents in IN, IH.
  assert (TL : In j (map fst (removes_of (firstn n L))) ->
               exists i, i < S n /\ (nth_error (u :: L) i = Some (USettle j) \/ nth_error (u :: L) i = Some (UFail j))).
  { intros H. destruct (IH n H) as [i [LT NE]]. exists (S i). split; [lia|exact NE]. }
  destruct u; cbn in IN; auto.
  - destruct IN as [<-|IN]; [exists 0; split; [lia|left; reflexivity]|auto].
  - destruct IN as [<-|IN]; [exists 0; split; [lia|right; reflexivity]|auto].
Qed.

Lemma nodup_map_local {A B} (f : A -> B) (l : list A) :
  NoDup l -> (forall x y, In x l -> In y l -> f x = f y -> x = y) -> NoDup (map f l).
Proof.
  induction l as [|a r IH]; intros ND INJ; cbn; [constructor|].
  inversion ND as [|? ? NI ND']; subst. constructor.
  - intros IN. apply in_map_iff in IN. destruct IN as [y [E IY]].
    assert (y = a) by (apply INJ; [now right|now left|exact E]). subst y. tauto.
  - apply IH; [exact ND'|]. intros x y IX IY. apply INJ; now right.
Qed.

Section Live.
Variables (LX LY : list upd) (UX UY : ulog) (FX FY : nat).
Hypothesis LCX : LogCorr LX LY UX FX FY.
Hypothesis LCY : LogCorr LY LX UY FY FX.
Variables (nX nY : nat).
Hypothesis HX : nX <= length LX.
Hypothesis HY : FY <= nY /\ nY <= length LY.

Let sk := rev (map e_parent (filter is_remove (fetchHTLCView1 UY (N.of_nat nY)))).

Lemma sk_iff s : In s sk <-> exists r, In r (l_list UY) /\ idx r < nY /\ is_remove r = true /\ e_parent r = s.
Proof.
  unfold sk. rewrite <- in_rev, in_map_iff. split.
  - intros [r [E IN]]. apply filter_In in IN. destruct IN as [IN R]. apply view_in in IN. exists r. tauto.
  - intros [r [IN [LT [R E]]]]. exists r. split; [exact E|]. apply filter_In. split; [|exact R].
    apply view_in. tauto.
Qed.

Lemma live_sets :
  sort_adds (map addent_of (live_of sk (fetchHTLCView1 UX (N.of_nat nX))))
  = live_adds (adds_of (firstn nX LX)) (removes_of (firstn nY LY)).
Proof.
  assert (LIVE : forall e, In e (live_of sk (fetchHTLCView1 UX (N.of_nat nX))) <->
                 In e (l_list UX) /\ idx e < nX /\ is_add e = true /\ ~ In (e_htlc e) sk).
  { intros e. unfold live_of. rewrite filter_In, view_in, andb_true_iff, negb_true_iff. unfold memN.
    split.
    - intros [[A B] [C D]]. repeat split; auto. intros IN.
      assert (existsb (N.eqb (e_htlc e)) sk = true); [|congruence].
      apply existsb_exists. exists (e_htlc e). split; [exact IN|apply N.eqb_refl].
    - intros [A [B [C D]]]. repeat split; auto.
      destruct (existsb _ sk) eqn:E; [|reflexivity]. exfalso. apply D.
      apply existsb_exists in E. destruct E as [s [IS ES]]. apply N.eqb_eq in ES. subst s. exact IS. }
  apply sort_adds_eq.
  - (* keys are unique *)
    rewrite map_map. apply nodup_map_local.
    + apply NoDup_filter, NoDup_filter. eapply NoDup_map_inv, (lc_nodup _ _ _ _ _ LCX).
    + intros e1 e2 I1 I2 E. apply LIVE in I1, I2. destruct I1 as [I1 [_ [A1 _]]], I2 as [I2 [_ [A2 _]]].
      destruct (add_entry _ _ _ _ _ LCX e1 I1 A1) as [a1 [x1 [h1 [N1 [_ [_ [_ H1]]]]]]].
      destruct (add_entry _ _ _ _ _ LCX e2 I2 A2) as [a2 [x2 [h2 [N2 [_ [_ [_ H2]]]]]]].
      unfold addent_of in E. cbn [a_idx] in E.
      pose proof (nth_add_pos _ _ _ _ _ N1) as P1. pose proof (nth_add_pos _ _ _ _ _ N2) as P2.
      assert (EQ : nadds (firstn (idx e1) LX) = nadds (firstn (idx e2) LX)) by lia.
      rewrite EQ, P2 in P1. injection P1 as P1. apply (lc_inj _ _ _ _ _ LCX); auto.
  - apply inc_map_filter. unfold adds_of. apply inc_adds_from.
  - intros x. rewrite in_map_iff, in_live_adds, in_adds_of_firstn.
    change (map fst (removes_of (firstn nY LY))) with (parents (firstn nY LY)).
    split.
    + intros [e [<- IE]]. apply LIVE in IE. destruct IE as [IE [LT [AE NS]]].
      destruct (add_entry _ _ _ _ _ LCX e IE AE) as [a [ex [h [NE [EA [EX [EH HH]]]]]]].
      assert (AX : addent_of e = mkAdd (nadds (firstn (idx e) LX)) a ex h).
      { unfold addent_of. rewrite HH, Nat2N.id, EA, EX, EH. reflexivity. }
      split; [exists (idx e), a, ex, h; auto|].
      rewrite AX. cbn [a_idx]. intros INP.
      destruct (parents_firstn_nth _ _ _ INP) as [i' [LT' NE']].
      destruct (Nat.lt_ge_cases i' FY) as [LF|GF].
      * (* removed below the frontier: e would not be present *)
        destruct (lc_in _ _ _ _ _ LCX e IE) as [_ PR]. unfold present in PR. rewrite NE in PR.
        apply negb_true_iff in PR. unfold removed_below in PR.
        assert (existsb (Nat.eqb (nadds (firstn (idx e) LX))) (parents (firstn FY LY)) = true); [|congruence].
        apply existsb_exists. exists (nadds (firstn (idx e) LX)). split; [|apply Nat.eqb_refl].
        apply (nth_parent _ i'). rewrite !nth_firstn by exact LF. exact NE'.
      * (* its removal entry is in the view of Y: skip set *)
        destruct (lc_present _ _ _ _ _ LCY i') as [r [IR ER]]; [lia| |].
        { unfold present. destruct NE' as [NE'|NE']; rewrite NE'; apply Nat.leb_le, GF. }
        apply NS. apply sk_iff. exists r.
        pose proof (lc_ent _ _ _ _ _ LCY r IR) as C. unfold corr_entry in C. rewrite ER in C.
        split; [exact IR|]. split; [lia|].
        destruct NE' as [NE'|NE']; rewrite NE' in C.
        -- destruct C as [T [P _]]. split; [unfold is_remove; rewrite T; reflexivity|]. rewrite P, HH. reflexivity.
        -- destruct C as [[T|T] [P _]]; (split; [unfold is_remove; rewrite T; reflexivity|]); rewrite P, HH; reflexivity.
    + intros [[i [a [ex [h [LT [NE ->]]]]]] NP]. cbn [a_idx] in NP.
      destruct (lc_present _ _ _ _ _ LCX i) as [e [IE EI]]; [lia| |].
      { unfold present. rewrite NE. apply negb_true_iff. unfold removed_below.
        destruct (existsb _ _) eqn:E; [|reflexivity]. exfalso. apply NP.
        apply existsb_exists in E. destruct E as [j [IJ EJ]]. apply Nat.eqb_eq in EJ. subst j.
        destruct (parents_firstn_nth _ _ _ IJ) as [i' [LT' NE']].
        apply (nth_parent _ i'). rewrite !nth_firstn by lia. exact NE'. }
      pose proof (lc_ent _ _ _ _ _ LCX e IE) as C. unfold corr_entry in C. rewrite EI, NE in C.
      destruct C as [T [EA [EX [EH HH]]]].
      exists e. split.
      * unfold addent_of. rewrite HH, Nat2N.id, EA, EX, EH. reflexivity.
      * apply LIVE. split; [exact IE|]. split; [lia|]. split; [unfold is_add; rewrite T; reflexivity|].
        intros IS. apply sk_iff in IS. destruct IS as [r [IR [LR [RR PR]]]].
        destruct (remove_entry _ _ _ _ _ LCY r IR RR) as [j [EP [NR _]]].
        apply NP. assert (j = nadds (firstn i LX)) by lia. subst j.
        apply (nth_parent _ (idx r)). rewrite !nth_firstn by exact LR. exact NR.
Qed.
End Live.

(* ---------- R9: THE MISSING LEMMA - computeView over compacted logs = the cut ---------- *)
Section EvalOK.
Variables (c : cfg) (p : bool) (LO LP : list upd) (UO UP : ulog) (Fo Fp : nat).
Hypothesis LCO : LogCorr LO LP UO Fo Fp.
Hypothesis LCP : LogCorr LP LO UP Fp Fo.
Variables (w : bool) (tip k : commit) (nO nP : nat) (owner : bool) (h : Z).
Let lA := if p then LO else LP.
Let lB := if p then LP else LO.
Let tO := n_of p tip.
Let tP := n_of (negb p) tip.
Hypothesis HO : Fo <= tO /\ tO <= nO /\ nO <= length LO.
Hypothesis HP : Fp <= tP /\ tP <= nP /\ nP <= length LP.
Hypothesis A3O : forall e, In e (l_list UO) -> (committed w e = 0%N <-> tO <= idx e).
Hypothesis A3P : forall e, In e (l_list UP) -> (committed w e = 0%N <-> tP <= idx e).
Hypothesis PFO : forall j, In j (parents LO) -> exists a, add_pos LP j = Some a /\ a < tP.
Hypothesis PFP : forall j, In j (parents LP) -> exists a, add_pos LO j = Some a /\ a < tO.
Hypothesis NDO : NoDup (parents LO).
Hypothesis NDP : NoDup (parents LP).
Hypothesis TIP : commit_of c (c_owner tip) (c_h tip) lA lB (c_nA tip) (c_nB tip) = Some tip.
Hypothesis NEW : commit_of c owner h lA lB (if p then nO else nP) (if p then nP else nO) = Some k.

Let g0O := if p then gross0A c else gross0B c.
Let g0P := if p then gross0B c else gross0A c.

Lemma tip_gross :
  (bal_of p tip + (if Bool.eqb p (opener c) then 1000 * c_fee tip else 0))%Z = gross_side g0O LO LP tO tP /\
  (bal_of (negb p) tip + (if Bool.eqb p (opener c) then 0 else 1000 * c_fee tip))%Z = gross_side g0P LP LO tP tO /\
  c_rate tip = last_fee (firstn (if Bool.eqb p (opener c) then tO else tP)
                                (if Bool.eqb p (opener c) then LO else LP)) (rate0 c).
Proof.
  destruct (commit_of_inv _ _ _ _ _ _ _ _ TIP) as [gA [gB [_ [CG HH]]]]. cbn zeta in HH.
  destruct HH as [_ [_ [_ [_ [_ [_ [_ [BA [BB [FE [RT _]]]]]]]]]]].
  destruct (cut_gross_sides _ _ _ _ _ _ _ CG) as [EA EB].
  unfold cut_rate in RT. unfold bal_of, g0O, g0P, tO, tP, lA, lB, n_of in *.
  destruct p, (opener c); cbn [Bool.eqb negb] in *; rewrite ?BA, ?BB, ?FE, RT, <- ?EA, <- ?EB;
    repeat split; try lia; reflexivity.
Qed.

Lemma new_parts : exists gO gP,
  gO = gross_side g0O LO LP nO nP /\ gP = gross_side g0P LP LO nP nO /\
  (0 <= gO)%Z /\ (0 <= gP)%Z /\
  finish_commit c owner h (if p then nO else nP) (if p then nP else nO)
    (if p then gO else gP) (if p then gP else gO)
    (last_fee (firstn (if Bool.eqb p (opener c) then nO else nP)
                      (if Bool.eqb p (opener c) then LO else LP)) (rate0 c))
    (if p then live_adds (adds_of (firstn nO LO)) (removes_of (firstn nP LP))
          else live_adds (adds_of (firstn nP LP)) (removes_of (firstn nO LO)))
    (if p then live_adds (adds_of (firstn nP LP)) (removes_of (firstn nO LO))
          else live_adds (adds_of (firstn nO LO)) (removes_of (firstn nP LP))) = Some k.
Proof.
  pose proof NEW as N1. rewrite commit_of_finish in N1. cbv zeta in N1.
  destruct (negb _) in N1; [discriminate|].
  set (nA := if p then nO else nP) in *. set (nB := if p then nP else nO) in *.
  destruct (removed_amounts (adds_of (firstn nA lA)) (removes_of (firstn nB lB))) as [[sA fA]|] eqn:E1; [|discriminate].
  destruct (removed_amounts (adds_of (firstn nB lB)) (removes_of (firstn nA lA))) as [[sB fB]|] eqn:E2; [|discriminate].
  assert (CG : cut_gross c lA lB nA nB = Some (gross0A c - sum_adds (adds_of (firstn nA lA)) + fA + sB,
                                                gross0B c - sum_adds (adds_of (firstn nB lB)) + fB + sA)%Z).
  { unfold cut_gross. cbv zeta. rewrite E1, E2. reflexivity. }
  destruct (cut_gross_sides _ _ _ _ _ _ _ CG) as [EA EB].
  assert (POS : (0 <= gross0A c - sum_adds (adds_of (firstn nA lA)) + fA + sB /\
                 0 <= gross0B c - sum_adds (adds_of (firstn nB lB)) + fB + sA)%Z).
  { unfold finish_commit in N1. destruct (_ || _) eqn:G in N1; [discriminate|].
    apply orb_false_iff in G. destruct G as [G _]. apply orb_false_iff in G. destruct G as [G1 G2].
    apply Z.ltb_ge in G1, G2. split; assumption. }
  unfold nA, nB, lA, lB, g0O, g0P in *.
  destruct p.
  - eexists _, _. split; [exact EA|]. split; [exact EB|]. split; [apply POS|]. split; [apply POS|].
    destruct (opener c); cbn [Bool.eqb]; exact N1.
  - eexists _, _. split; [exact EB|]. split; [exact EA|]. split; [apply POS|]. split; [apply POS|].
    destruct (opener c); cbn [Bool.eqb]; exact N1.
Qed.

Theorem computeView_is_cut :
  exists ours theirs rate liveO liveT,
    computeView c p UO UP tip w (N.of_nat nO) (N.of_nat nP) = Some (ours, theirs, rate, liveO, liveT) /\
    finish_commit c owner h (if p then nO else nP) (if p then nP else nO)
      (if p then ours else theirs) (if p then theirs else ours) rate
      (sort_adds (map addent_of (if p then liveO else liveT)))
      (sort_adds (map addent_of (if p then liveT else liveO))) = Some k.
Proof.
  destruct tip_gross as [TO [TP TR]]. destruct new_parts as [gO [gP [EO [EP [PO [PP FIN]]]]]].
  set (vo := fetchHTLCView1 UO (N.of_nat nO)). set (vt := fetchHTLCView1 UP (N.of_nat nP)).
  assert (FPO : forall e, In e (filter is_remove vo) -> exists a, fetchParent UO UP e w false = Some a).
  { intros e IN. apply filter_In in IN. destruct IN as [IN R]. apply view_in in IN. destruct IN as [IN _].
    destruct (parent_ok LO LP UO UP Fo Fp LCO LCP w tO tP nO nP HO HP A3O A3P PFO PFP NDO e IN R) as [b [LK NZ]].
    exists b. unfold fetchParent. cbn [negb]. rewrite LK. apply N.eqb_neq in NZ. rewrite NZ. reflexivity. }
  assert (FPP : forall e, In e (filter is_remove vt) -> exists a, fetchParent UO UP e w true = Some a).
  { intros e IN. apply filter_In in IN. destruct IN as [IN R]. apply view_in in IN. destruct IN as [IN _].
    destruct (parent_ok LP LO UP UO Fp Fo LCP LCO w tP tO nP nO HP HO A3P A3O PFP PFO NDP e IN R) as [b [LK NZ]].
    exists b. unfold fetchParent. rewrite LK. apply N.eqb_neq in NZ. rewrite NZ. reflexivity. }
  unfold computeView. fold vo vt.
  rewrite (evaluateHTLCView_closed UO UP vo vt w _ _ FPO FPP). cbv zeta.
  set (skO := rev (map e_parent (filter is_remove vt))). set (skP := rev (map e_parent (filter is_remove vo))).
  (* the four sums *)
  pose proof (sum_removes LO LP UO UP Fo Fp LCO w tO tP nO nP HO HP A3O A3P PFO PFP true) as S1.
  pose proof (sum_removes LO LP UO UP Fo Fp LCO w tO tP nO nP HO HP A3O A3P PFO PFP false) as S2.
  pose proof (sum_removes LP LO UP UO Fp Fo LCP w tP tO nP nO HP HO A3P A3O PFP PFO true) as S3.
  pose proof (sum_removes LP LO UP UO Fp Fo LCP w tP tO nP nO HP HO A3P A3O PFP PFO false) as S4.
  pose proof (sum_adds_view LO LP UO UP Fo Fp LCO w tO tP nO nP HO HP A3O A3P PFO PFP skO
                (skip_parents LP LO UP Fp Fo LCP nP)) as S5.
  pose proof (sum_adds_view LP LO UP UO Fp Fo LCP w tP tO nP nO HP HO A3P A3O PFP PFO skP
                (skip_parents LO LP UO Fo Fp LCO nO)) as S6.
  cbv beta iota in S1, S2, S3, S4. fold vo vt in S1, S2, S3, S4, S5, S6.
  rewrite S1, S2, S3, S4, S5, S6.
  pose proof (gross_side_diff g0O LO LP tO tP nO nP (proj1 (proj2 HO)) (proj1 (proj2 HP))) as DO.
  pose proof (gross_side_diff g0P LP LO tP tO nP nO (proj1 (proj2 HP)) (proj1 (proj2 HO))) as DP.
  rewrite TO, TP.
  match goal with |- context [Z.ltb ?a 0] => replace a with gO by lia end.
  match goal with |- context [(?x || Z.ltb ?a 0)%bool] => replace a with gP by lia end.
  destruct (Z.ltb_spec gO 0); [lia|]. destruct (Z.ltb_spec gP 0); [lia|]. cbn [orb].
  eexists _, _, _, _, _. split; [reflexivity|].
  (* rate and live sets *)
  assert (RATE : view_rate (Bool.eqb p (opener c)) vo vt (c_rate tip) =
                 last_fee (firstn (if Bool.eqb p (opener c) then nO else nP)
                                  (if Bool.eqb p (opener c) then LO else LP)) (rate0 c)).
  { unfold view_rate. rewrite TR. destruct (Bool.eqb p (opener c)).
    - apply (view_fee_rate LO LP UO Fo Fp LCO tO nO (rate0 c) HO).
    - apply (view_fee_rate LP LO UP Fp Fo LCP tP nP (rate0 c) HP). }
  pose proof (live_sets LO LP UO UP Fo Fp LCO LCP nO nP (proj2 (proj2 HO))
                (conj (Nat.le_trans _ _ _ (proj1 HP) (proj1 (proj2 HP))) (proj2 (proj2 HP)))) as LO1.
  pose proof (live_sets LP LO UP UO Fp Fo LCP LCO nP nO (proj2 (proj2 HP))
                (conj (Nat.le_trans _ _ _ (proj1 HO) (proj1 (proj2 HO))) (proj2 (proj2 HO)))) as LP1.
  fold vo vt skO skP in LO1, LP1. rewrite RATE.
  destruct p; rewrite LO1, LP1; exact FIN.
Qed.
End EvalOK.

(* ---------- R10: one party of View.v stands for one party of Model.v ---------- *)
Definition good_local (c : cfg) (p : bool) (x : party) (k : commit) : Prop :=
  commit_of c (c_owner k) (c_h k) (logA_of p x) (logB_of p x) (c_nA k) (c_nB k) = Some k.

Record Corr (c : cfg) (p : bool) (x : party) (y : vparty) (Fo Fp : nat) : Prop := mkCorr {
  co_lt : vk (v_ltail y) = lTail x;
  co_lp : option_map vk (v_ltip y) = lTip x;
  co_rt : vk (v_rtail y) = rTail x;
  co_rp : option_map vk (v_rtip y) = rTip x;
  co_io : l_idx (vl y) = N.of_nat (length (own x));
  co_ip : l_idx (vr y) = N.of_nat (length (peer x));
  co_lo : LogCorr (own x) (peer x) (vl y) Fo Fp;
  co_lpe : LogCorr (peer x) (own x) (vr y) Fp Fo;
  co_inv : VInv p y;
  co_fo : Fo <= n_of p (lTail x) /\ Fo <= n_of p (rTail x);
  co_fp : Fp <= n_of (negb p) (lTail x) /\ Fp <= n_of (negb p) (rTail x);
  co_good : forall k, In k (commits_of x) -> good_local c p x k;
  co_pfo : forall j, In j (parents (own x)) -> exists a, add_pos (peer x) j = Some a /\
             a < n_of (negb p) (lTail x) /\ a < n_of (negb p) (rTail x);
  co_pfp : forall j, In j (parents (peer x)) -> exists a, add_pos (own x) j = Some a /\
             a < n_of p (lTail x) /\ a < n_of p (rTail x);
  co_ndo : NoDup (parents (own x));
  co_ndp : NoDup (parents (peer x))
}.

Lemma ix_nat p k : ix p k = N.of_nat (n_of p (vk k)).
Proof. reflexivity. Qed.

Section Step.
Variables (c : cfg) (p : bool) (x : party) (y : vparty) (Fo Fp : nat).
Hypothesis CO : Corr c p x y Fo Fp.

(* facts about the tips *)
Lemma rtipv_eq : vk (rtipv y) = tip_of (rTail x) (rTip x).
Proof.
  unfold rtipv, vtip, tip_of. pose proof (co_rp _ _ _ _ _ _ CO) as H. pose proof (co_rt _ _ _ _ _ _ CO) as T.
  destruct (v_rtip y), (rTip x); cbn in H; try discriminate; [injection H as ->; reflexivity|exact T].
Qed.
Lemma ltipv_eq : vk (ltipv y) = tip_of (lTail x) (lTip x).
Proof.
  unfold ltipv, vtip, tip_of. pose proof (co_lp _ _ _ _ _ _ CO) as H. pose proof (co_lt _ _ _ _ _ _ CO) as T.
  destruct (v_ltip y), (lTip x); cbn in H; try discriminate; [injection H as ->; reflexivity|exact T].
Qed.

(* the index chains of VInv, in nat and on the Model's commitments *)
Lemma idx_chain :
  n_of p (lTail x) <= n_of p (tip_of (lTail x) (lTip x)) /\
  n_of p (tip_of (lTail x) (lTip x)) <= n_of p (rTail x) /\
  n_of p (rTail x) <= n_of p (tip_of (rTail x) (rTip x)) /\
  n_of p (tip_of (rTail x) (rTip x)) <= length (own x) /\
  n_of (negb p) (rTail x) <= n_of (negb p) (tip_of (rTail x) (rTip x)) /\
  n_of (negb p) (tip_of (rTail x) (rTip x)) <= n_of (negb p) (lTail x) /\
  n_of (negb p) (lTail x) <= n_of (negb p) (tip_of (lTail x) (lTip x)) /\
  n_of (negb p) (tip_of (lTail x) (lTip x)) <= length (peer x).
Proof.
  pose proof (vi_own _ _ (co_inv _ _ _ _ _ _ CO)) as O. pose proof (vi_peer _ _ (co_inv _ _ _ _ _ _ CO)) as P.
  rewrite !ix_nat, ?rtipv_eq, ?ltipv_eq, ?(co_lt _ _ _ _ _ _ CO), ?(co_rt _ _ _ _ _ _ CO),
    ?(co_io _ _ _ _ _ _ CO) in O.
  rewrite !ix_nat, ?rtipv_eq, ?ltipv_eq, ?(co_lt _ _ _ _ _ _ CO), ?(co_rt _ _ _ _ _ _ CO),
    ?(co_ip _ _ _ _ _ _ CO) in P. lia.
Qed.

Lemma a3_nat (w : bool) :
  let tip := if w then tip_of (lTail x) (lTip x) else tip_of (rTail x) (rTip x) in
  (forall e, In e (l_list (vl y)) -> (committed w e = 0%N <-> n_of p tip <= idx e)) /\
  (forall e, In e (l_list (vr y)) -> (committed w e = 0%N <-> n_of (negb p) tip <= idx e)).
Proof.
  cbn zeta. destruct (vinv_unset_iff _ _ (co_inv _ _ _ _ _ _ CO)) as [A B].
  split; intros e IN; [destruct (A e IN) as [R L]|destruct (B e IN) as [R L]];
    rewrite !ix_nat, ?rtipv_eq, ?ltipv_eq in R; rewrite !ix_nat, ?rtipv_eq, ?ltipv_eq in L;
    unfold idx; destruct w; [rewrite L|rewrite R|rewrite L|rewrite R]; lia.
Qed.

(* the evaluation of a new commitment on chain w with new cut (nO, nP) *)
Lemma fetch_refines (w : bool) (nO nP : nat) (oh th : N) (k : commit) :
  let tip := if w then tip_of (lTail x) (lTip x) else tip_of (rTail x) (rTip x) in
  n_of p tip <= nO -> nO <= length (own x) -> n_of (negb p) tip <= nP -> nP <= length (peer x) ->
  commit_of c (if w then p else negb p) (c_h tip + 1) (logA_of p x) (logB_of p x)
            (if p then nO else nP) (if p then nP else nO) = Some k ->
  exists k' l' r', fetchCommitmentView c p y w (N.of_nat nO) oh (N.of_nat nP) th = Some (k', l', r') /\
                   vk k' = k.
Proof.
  cbn zeta. intros H1 H2 H3 H4 NEW.
  set (tip := if w then tip_of (lTail x) (lTip x) else tip_of (rTail x) (rTip x)) in *.
  pose proof idx_chain as IC.
  assert (TIPIN : In tip (commits_of x)).
  { unfold tip, commits_of, tip_of. destruct w.
    - destruct (lTip x); cbn; auto.
    - destruct (lTip x), (rTip x); cbn; auto. }
  pose proof (co_good _ _ _ _ _ _ CO tip TIPIN) as TG. unfold good_local in TG.
  destruct (a3_nat w) as [A3O A3P]. fold tip in A3O, A3P.
  assert (TL : n_of p (lTail x) <= n_of p tip /\ n_of p (rTail x) <= n_of p tip \/ True) by (right; exact I).
  assert (FO : Fo <= n_of p tip).
  { pose proof (co_fo _ _ _ _ _ _ CO). unfold tip. destruct w; lia. }
  assert (FP : Fp <= n_of (negb p) tip).
  { pose proof (co_fp _ _ _ _ _ _ CO). unfold tip. destruct w; lia. }
  assert (PFO : forall j, In j (parents (own x)) -> exists a, add_pos (peer x) j = Some a /\ a < n_of (negb p) tip).
  { intros j IN. destruct (co_pfo _ _ _ _ _ _ CO j IN) as [a [AP [L1 L2]]]. exists a. split; [exact AP|].
    unfold tip. destruct w; lia. }
  assert (PFP : forall j, In j (parents (peer x)) -> exists a, add_pos (own x) j = Some a /\ a < n_of p tip).
  { intros j IN. destruct (co_pfp _ _ _ _ _ _ CO j IN) as [a [AP [L1 L2]]]. exists a. split; [exact AP|].
    unfold tip. destruct w; lia. }
  destruct (computeView_is_cut c p (own x) (peer x) (vl y) (vr y) Fo Fp
              (co_lo _ _ _ _ _ _ CO) (co_lpe _ _ _ _ _ _ CO) w tip k nO nP
              (if w then p else negb p) (c_h tip + 1)%Z
              (conj FO (conj H1 H2)) (conj FP (conj H3 H4)) A3O A3P PFO PFP
              (co_ndo _ _ _ _ _ _ CO) (co_ndp _ _ _ _ _ _ CO))
    as [ours [theirs [rate [liveO [liveT [CV FIN]]]]]].
  { unfold logA_of, logB_of in TG. destruct p; exact TG. }
  { unfold logA_of, logB_of in NEW. destruct p; exact NEW. }
  unfold fetchCommitmentView.
  assert (TV : vk (if w then vtip (v_ltail y) (v_ltip y) else vtip (v_rtail y) (v_rtip y)) = tip).
  { unfold tip. destruct w; [apply ltipv_eq|apply rtipv_eq]. }
  rewrite TV, CV. rewrite ?Nat2N.id.
  replace (N.to_nat (if p then N.of_nat nO else N.of_nat nP)) with (if p then nO else nP)
    by (destruct p; rewrite Nat2N.id; reflexivity).
  replace (N.to_nat (if p then N.of_nat nP else N.of_nat nO)) with (if p then nP else nO)
    by (destruct p; rewrite Nat2N.id; reflexivity).
  rewrite FIN. eexists _, _, _. split; reflexivity.
Qed.
End Step.

(* ---------- R11: SignNextCommitment / ReceiveNewCommitment of the incremental machine
   produce exactly the commitment of the cut-level model ---------- *)
Section Dance.
Variables (c : cfg) (p : bool) (x : party) (y : vparty) (Fo Fp : nat).
Hypothesis CO : Corr c p x y Fo Fp.

Lemma opt_none {A B} (f : A -> B) o : option_map f o = None -> o = None.
Proof. destruct o; [discriminate|reflexivity]. Qed.

Theorem sign_refines x' m :
  do_sign c p x = (Ok, x', Some m) ->
  exists y', v_sign c p y = (Ok, y', Some m) /\
             vk (v_ltail y') = lTail x' /\ option_map vk (v_ltip y') = lTip x' /\
             vk (v_rtail y') = rTail x' /\ option_map vk (v_rtip y') = rTip x'.
Proof.
  intros DS. destruct (do_sign_ok c p x x' m DS) as [k [RN [CK [-> ->]]]].
  pose proof (idx_chain c p x y Fo Fp CO) as IC. rewrite RN in IC. cbn [tip_of] in IC.
  destruct (fetch_refines c p x y Fo Fp CO false (length (own x)) (n_of (negb p) (lTail x))
              (l_htlc (vl y)) (v_theirh (v_ltail y)) k) as [k' [l' [r' [FV EK]]]];
    rewrite ?RN; cbn [tip_of]; try lia.
  { unfold sel in CK. destruct p; exact CK. }
  unfold v_sign. rewrite (opt_none _ _ (eq_trans (co_rp _ _ _ _ _ _ CO) RN)).
  rewrite (co_io _ _ _ _ _ _ CO). unfold idx_of. rewrite (co_lt _ _ _ _ _ _ CO), FV.
  eexists. split; [rewrite EK; reflexivity|].
  cbn [v_ltail v_ltip v_rtail v_rtip set_rTip lTail lTip rTail rTip option_map].
  rewrite EK. repeat split; apply CO.
Qed.

Theorem recv_sig_refines k0 x' :
  do_recv_sig c p x k0 = (Ok, x') ->
  exists y', v_recv_sig c p y k0 = (Ok, y') /\
             vk (v_ltail y') = lTail x' /\ option_map vk (v_ltip y') = lTip x' /\
             vk (v_rtail y') = rTail x' /\ option_map vk (v_rtip y') = rTip x'.
Proof.
  unfold do_recv_sig. cbv zeta.
  destruct (commit_of c p _ _ _ _ _) as [k|] eqn:CK; [|discriminate].
  destruct (commit_eqb k k0) eqn:EQ; [|discriminate]. intros H. injection H as <-.
  pose proof (idx_chain c p x y Fo Fp CO) as IC.
  destruct (fetch_refines c p x y Fo Fp CO true (n_of p (rTail x)) (length (peer x))
              (v_ourh (v_rtail y)) (l_htlc (vr y)) k) as [k' [l' [r' [FV EK]]]]; try lia.
  { destruct p; exact CK. }
  unfold v_recv_sig. unfold idx_of. rewrite (co_rt _ _ _ _ _ _ CO), (co_ip _ _ _ _ _ _ CO), FV, EK, EQ.
  eexists. split; [reflexivity|].
  cbn [v_ltail v_ltip v_rtail v_rtip lTail lTip rTail rTip option_map].
  rewrite EK. repeat split; apply CO.
Qed.
End Dance.

(* ---------- R12: Corr is kept by SignNextCommitment, ReceiveNewCommitment,
   RevokeCurrentCommitment; it holds initially ---------- *)
Lemma sch_exp w h e : e_exp (setCommitHeight w h e) = e_exp e.
Proof. unfold setCommitHeight, set_add_h, set_rm_h. destruct (e_type e), w; reflexivity. Qed.
Lemma sch_hash w h e : e_hash (setCommitHeight w h e) = e_hash e.
Proof. unfold setCommitHeight, set_add_h, set_rm_h. destruct (e_type e), w; reflexivity. Qed.
Lemma markfn_exp w h i e : e_exp (markfn w h i e) = e_exp e.
Proof. unfold markfn. destruct (_ && _); [apply sch_exp|reflexivity]. Qed.
Lemma markfn_hash w h i e : e_hash (markfn w h i e) = e_hash e.
Proof. unfold markfn. destruct (_ && _); [apply sch_hash|reflexivity]. Qed.

Lemma filter_map_fee (g : entry -> entry) l : (forall x, is_fee (g x) = is_fee x) ->
  filter is_fee (map g l) = map g (filter is_fee l).
Proof.
  intros E. induction l as [|a r IH]; cbn; [reflexivity|]. rewrite E. destruct (is_fee a); cbn; rewrite IH; reflexivity.
Qed.

Lemma logcorr_mark L Lo U Ft Fo w h i :
  LogCorr L Lo U Ft Fo -> LogCorr L Lo (mark_log w h i U) Ft Fo.
Proof.
  intros [A F B].
  assert (EM : forall l, map idx (map (markfn w h i) l) = map idx l).
  { intros l. rewrite map_map. apply map_ext. intros e. unfold idx. rewrite markfn_log. reflexivity. }
  split.
  - rewrite mark_log_list, EM. exact A.
  - rewrite mark_log_list, filter_map_fee, EM; [exact F|]. intros x. unfold is_fee. rewrite markfn_type. reflexivity.
  - intros e' IN. rewrite mark_log_list in IN. apply in_map_iff in IN. destruct IN as [e [<- IN]].
    specialize (B e IN). unfold corr_entry, idx in *.
    rewrite markfn_log, markfn_type, markfn_amt, markfn_exp, markfn_hash, markfn_htlc, markfn_parent.
    exact B.
Qed.

Lemma commit_of_good c o h lA lB nA nB k : commit_of c o h lA lB nA nB = Some k ->
  commit_of c (c_owner k) (c_h k) lA lB (c_nA k) (c_nB k) = Some k.
Proof.
  intros H. destruct (commit_of_inv _ _ _ _ _ _ _ _ H) as [gA [gB [_ [_ HH]]]]. cbn zeta in HH.
  destruct HH as [_ [_ [_ [-> [-> [-> [-> _]]]]]]]. exact H.
Qed.

Section Keep.
Variables (c : cfg) (p : bool) (x : party) (y : vparty) (Fo Fp : nat).
Hypothesis CO : Corr c p x y Fo Fp.

Theorem sign_corr x' m :
  do_sign c p x = (Ok, x', Some m) ->
  exists y', v_sign c p y = (Ok, y', Some m) /\ Corr c p x' y' Fo Fp.
Proof.
  intros DS. destruct (sign_refines c p x y Fo Fp CO x' m DS) as [y' [VS [E1 [E2 [E3 E4]]]]].
  exists y'. split; [exact VS|].
  destruct (do_sign_ok c p x x' m DS) as [k [RN [CK [-> ->]]]].
  pose proof (v_sign_inv c p y y' _ VS (co_inv _ _ _ _ _ _ CO)) as VI.
  unfold v_sign in VS. destruct (v_rtip y); [discriminate|].
  destruct (fetchCommitmentView _ _ _ _ _ _ _ _) as [[[k' l'] r']|] eqn:F; [|discriminate].
  injection VS as <- _. apply fetchCommitmentView_spec in F. cbn zeta in F.
  destruct F as [_ [_ [_ [-> ->]]]].
  destruct CO as [a1 a2 a3 a4 a5 a6 a7 a8 a9 a10 a11 a12 a13 a14 a15 a16].
  cbn [set_rTip own peer lTail lTip rTail rTip vl vr v_ltail v_ltip v_rtail v_rtip] in *.
  constructor; cbn [set_rTip own peer lTail lTip rTail rTip vl vr v_ltail v_ltip v_rtail v_rtip];
    auto using logcorr_mark.
  intros k0 IN. unfold good_local, logA_of, logB_of. cbn [own peer].
  unfold commits_of in IN. cbn [lTail lTip rTail rTip] in IN.
  assert (OLD : In k0 (commits_of x) \/ k0 = k).
  { unfold commits_of. rewrite RN. cbn in IN |- *. destruct (lTip x); cbn in IN |- *; intuition auto. }
  destruct OLD as [OLD| ->]; [apply (a12 k0 OLD)|].
  eapply commit_of_good. exact CK.
Qed.

Theorem recv_sig_corr k0 x' :
  do_recv_sig c p x k0 = (Ok, x') ->
  exists y', v_recv_sig c p y k0 = (Ok, y') /\ Corr c p x' y' Fo Fp.
Proof.
  intros DS. destruct (recv_sig_refines c p x y Fo Fp CO k0 x' DS) as [y' [VS [E1 [E2 [E3 E4]]]]].
  exists y'. split; [exact VS|].
  pose proof (v_recv_sig_inv c p y k0 y' VS (co_inv _ _ _ _ _ _ CO)) as VI.
  unfold do_recv_sig in DS. cbv zeta in DS.
  destruct (commit_of c p _ _ _ _ _) as [k|] eqn:CK; [|discriminate].
  destruct (commit_eqb k k0); [|discriminate]. injection DS as <-.
  unfold v_recv_sig in VS.
  destruct (fetchCommitmentView _ _ _ _ _ _ _ _) as [[[k' l'] r']|] eqn:F; [|discriminate].
  destruct (commit_eqb (vk k') k0); [|discriminate]. injection VS as <-.
  apply fetchCommitmentView_spec in F. cbn zeta in F. destruct F as [_ [_ [_ [-> ->]]]].
  destruct CO as [a1 a2 a3 a4 a5 a6 a7 a8 a9 a10 a11 a12 a13 a14 a15 a16].
  cbn [own peer lTail lTip rTail rTip vl vr v_ltail v_ltip v_rtail v_rtip] in *.
  constructor; cbn [own peer lTail lTip rTail rTip vl vr v_ltail v_ltip v_rtail v_rtip];
    auto using logcorr_mark.
  intros k1 IN. unfold good_local, logA_of, logB_of. cbn [own peer].
  assert (OLD : In k1 (commits_of x) \/ k1 = k).
  { unfold commits_of in *. cbn [lTail lTip rTail rTip] in IN. cbn in IN |- *.
    destruct (lTip x), (rTip x); cbn in IN |- *; intuition auto. }
  destruct OLD as [OLD| ->]; [apply (a12 k1 OLD)|].
  eapply commit_of_good. exact CK.
Qed.

Theorem revoke_corr x' m :
  do_revoke x = (Ok, x', Some m) ->
  exists y', v_revoke p y = (Ok, y', Some m) /\ Corr c p x' y' Fo Fp.
Proof.
  intros DR. destruct (do_revoke_ok x x' m DR) as [k [LT [-> ->]]].
  pose proof (idx_chain c p x y Fo Fp CO) as IC. rewrite LT in IC. cbn [tip_of] in IC.
  pose proof (co_lp _ _ _ _ _ _ CO) as LP. rewrite LT in LP.
  destruct (v_ltip y) as [k'|] eqn:VL; [|discriminate]. cbn in LP. injection LP as EK.
  eexists. split.
  { unfold v_revoke. rewrite VL. reflexivity. }
  assert (VI : VInv p (mkVP (vl y) (vr y) k' None (v_rtail y) (v_rtip y) (d_diff y)
                 (getUnsignedAckedUpdates (vr y) (idx_of (negb p) (vk (v_rtail y))) (idx_of (negb p) (vk k')))
                 (filter (fun u => negb (fst u <? idx_of p (vk k'))%N) (d_remote_unsigned y)))).
  { eapply v_revoke_inv; [|exact (co_inv _ _ _ _ _ _ CO)]. unfold v_revoke. rewrite VL. reflexivity. }
  destruct CO as [a1 a2 a3 a4 a5 a6 a7 a8 a9 a10 a11 a12 a13 a14 a15 a16].
  unfold revoked. 
  constructor; cbn [own peer lTail lTip rTail rTip vl vr v_ltail v_ltip v_rtail v_rtip option_map].
  - exact EK.
  - reflexivity.
  - exact a3.
  - exact a4.
  - exact a5.
  - exact a6.
  - exact a7.
  - exact a8.
  - exact VI.
  - lia.
  - lia.
  - intros k1 IN. unfold good_local, logA_of, logB_of. cbn [own peer]. apply (a12 k1).
    unfold commits_of in *. cbn [lTail lTip rTail rTip] in IN. rewrite LT. cbn in IN |- *.
    destruct (rTip x); cbn in IN |- *; intuition auto.
  - intros j IN. destruct (a13 j IN) as [a [AP [L1 L2]]]. exists a. repeat split; auto; lia.
  - intros j IN. destruct (a14 j IN) as [a [AP [L1 L2]]]. exists a. repeat split; auto; lia.
  - exact a15.
  - exact a16.
Qed.
End Keep.

(* non-vacuity of Corr: the freshly funded channel *)
Lemma corr_init c p x y : init_party c p = Some x -> vinit_party c p = Some y -> Corr c p x y 0 0.
Proof.
  unfold init_party, vinit_party, vinit_commit.
  destruct (init_commit c p) as [l|] eqn:L; [|discriminate].
  destruct (init_commit c (negb p)) as [r|] eqn:R; [|discriminate].
  intros H1 H2. injection H1 as <-. 
  assert (VI : VInv p y) by (eapply vinit_party_inv; unfold vinit_party, vinit_commit; rewrite L, R; exact H2).
  injection H2 as <-.
  assert (G : forall o k0, init_commit c o = Some k0 ->
              commit_of c (c_owner k0) (c_h k0) [] [] (c_nA k0) (c_nB k0) = Some k0).
  { intros o k0 H. unfold init_commit in H. apply commit_of_good in H. exact H. }
  constructor; cbn [own peer lTail lTip rTail rTip vl vr v_ltail v_ltip v_rtail v_rtip vk option_map
                    newUpdateLog l_idx l_list length].
  - reflexivity.
  - reflexivity.
  - reflexivity.
  - reflexivity.
  - reflexivity.
  - reflexivity.
  - split; [apply Permutation_refl|exact I|intros e []].
  - split; [apply Permutation_refl|exact I|intros e []].
  - exact VI.
  - lia.
  - lia.
  - intros k IN. unfold commits_of in IN. cbn in IN. unfold good_local, logA_of, logB_of. cbn [own peer].
    destruct IN as [<-|[<-|[]]]; destruct p; eauto.
  - intros j [].
  - intros j [].
  - constructor.
  - constructor.
Qed.

