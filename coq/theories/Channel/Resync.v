(* Restart (C02) and channel_reestablish resynchronisation (C03) on top of the
   cut-level channel model.  Definitions only.

   restore   : what NewLightningChannel rebuilds from the channel DB — every
               update covered by a signature of either side survives, the
               unsigned suffixes of both logs and the received-but-unrevoked
               local commitment (memory only) are lost.
   sync_msg  : OpenChannel.ChanSyncMsg (heights only; the data-loss-protect
               secrets/points are functions of these heights).
   process_sync : LightningChannel.ProcessChanSyncMsg's two decision ladders.
   XCut      : a disconnect: deliver a prefix of each FIFO, drop the rest,
               BOTH sides restore, exchange reestablish, enqueue retransmissions. *)
From Coq Require Import List ZArith Bool Arith.
From LV Require Import Channel.Model.
Import ListNotations.
Local Open Scope Z_scope.

Definition restore (p : bool) (x : party) : party :=
  let rt := tip_of (rTail x) (rTip x) in
  mkParty (firstn (n_of p rt) (own x))
          (firstn (n_of (negb p) (lTail x)) (peer x))
          (lTail x) None (rTail x) (rTip x).

(* (NextLocalCommitHeight, RemoteCommitTailHeight) *)
Definition sync_msg (x : party) : Z * Z := (c_h (lTail x) + 1, c_h (rTail x)).

(* LightningChannel.OweCommitment() = oweCommitment(Local) *)
Definition owes_commit (p : bool) (x : party) : bool :=
  let lt := tip_of (lTail x) (lTip x) in
  let rt := tip_of (rTail x) (rTip x) in
  negb (Nat.eqb (length (own x)) (n_of p rt))
  || negb (Nat.eqb (n_of (negb p) lt) (n_of (negb p) rt)).

(* own updates first covered by the pending remote commitment (CommitDiff.LogUpdates) *)
Definition diff_updates (p : bool) (x : party) : list msg :=
  match rTip x with
  | None => []
  | Some k =>
    map MUpd (skipn (n_of p (rTail x)) (firstn (n_of p k) (own x)))
  end.

Inductive sres := SOk | SErrSync | SErrSign.

(* returns (result, new party state, messages to send in order, signed-now?) *)
Definition process_sync (c : cfg) (p : bool) (x : party) (last_was_revoke : bool)
           (next rtail : Z) : sres * party * list msg * bool :=
  let local_tail_h := c_h (lTail x) in
  let remote_tail_h := c_h (rTail x) in
  let remote_tip_h := c_h (tip_of (rTail x) (rTip x)) in   (* captured BEFORE any re-sign *)
  (* ladder 1: do we owe a revocation?  inl = continue, inr = error class *)
  let l1 : (party * list msg * bool) + sres :=
    if local_tail_h <? rtail then inr SErrSync
    else if rtail + 1 <? local_tail_h then inr SErrSync
    else if rtail =? local_tail_h then inl (x, [], false)
    else (* rtail + 1 = local_tail_h *)
      if owes_commit p x then
        match do_sign c p x with
        | (Ok, x', Some m) => inl (x', [MRev; m], true)
        | (ErrNoWindow, _, _) => inl (x, [MRev], false)
        | _ => inr SErrSign   (* SignNextCommitment's own error is returned as is *)
        end
      else inl (x, [MRev], false)
  in
  match l1 with
  | inr e => (e, x, [], false)
  | inl (x1, ups, signed) =>
    (* ladder 2: do we owe a commitment? *)
    if remote_tip_h + 1 <? next then (SErrSync, x, [], false)
    else if next <=? remote_tail_h then (SErrSync, x, [], false)
    else if next =? remote_tip_h + 1 then (SOk, x1, ups, signed)
    else if next =? remote_tip_h then
      match rTip x with
      | None => (SErrSync, x, [], false)
      | Some k =>
        let cu := diff_updates p x ++ [MSig k] in
        (SOk, x1, (if last_was_revoke then cu ++ ups else ups ++ cu), signed)
      end
    else (SErrSync, x, [], false)
  end.

(* ---------- extended system: adds the persisted LastWasRevoke flags ---------- *)
Record xsys := mkX { xs : sys; lwrA : bool; lwrB : bool }.

Inductive xop :=
| XOp (o : op)
| XCut (ka kb : nat).   (* messages delivered to A / to B before the link drops *)

Definition set_lwr (s : xsys) (p : bool) (v : bool) : xsys :=
  if p then mkX (xs s) v (lwrB s) else mkX (xs s) (lwrA s) v.
Definition lwr (s : xsys) (p : bool) : bool := if p then lwrA s else lwrB s.

Fixpoint deliver_n (c : cfg) (s : sys) (p : bool) (n : nat) : sys :=
  match n with
  | O => s
  | S n' => deliver_n c (snd (step c s (ODeliver p))) p n'
  end.

Definition xstep (c : cfg) (s : xsys) (o : xop) : res * xsys :=
  match o with
  | XOp o =>
    let '(r, s') := step c (xs s) o in
    let s1 := mkX s' (lwrA s) (lwrB s) in
    match r, o with
    | Ok, OSign p => (r, set_lwr s1 p false)
    | Ok, ORevoke p => (r, set_lwr s1 p true)
    | _, _ => (r, s1)
    end
  | XCut ka kb =>
    let s1 := deliver_n c (deliver_n c (xs s) true ka) false kb in
    let a := restore true (pA s1) in
    let b := restore false (pB s1) in
    let '(nextA, rtailA) := sync_msg a in
    let '(nextB, rtailB) := sync_msg b in
    let '(ra, a', outA, sa) := process_sync c true a (lwrA s) nextB rtailB in
    let '(rb, b', outB, sb) := process_sync c false b (lwrB s) nextA rtailA in
    match ra, rb with
    | SOk, SOk =>
      (Ok, mkX (mkSys a' b' outA outB)
               (if sa then false else lwrA s) (if sb then false else lwrB s))
    | SErrSync, _ | _, SErrSync => (ErrSync, mkX (mkSys a b [] []) (lwrA s) (lwrB s))
    | _, _ => (ErrSanity, mkX (mkSys a b [] []) (lwrA s) (lwrB s))
    end
  end.

Definition xinit (c : cfg) : option xsys :=
  match init_sys c with Some s => Some (mkX s false false) | None => None end.

Definition xrun (c : cfg) (s : xsys) (ops : list xop) : xsys :=
  fold_left (fun s o => snd (xstep c s o)) ops s.
