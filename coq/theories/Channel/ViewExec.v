(* Trace checker for the INCREMENTAL machine (View.v): replays the schedule the Go
   harness executed on the real LightningChannel pair through View.vstep / vxstep and
   compares, after every step and for both parties,
     - every entry of both update logs: presence (compaction / restore), list order,
       identity (type, LogIndex, HtlcIndex, ParentIndex, Amount) and the FOUR heights,
     - the commitments the incremental machine evaluated (local/remote tail and tip)
       and the log counters,
   and, after every reload (crash observation, restart inside a cut / crashin), the
   logs and heights restoreStateLogs rebuilt.  Mismatch codes: see [check_steps]. *)
From Coq Require Import List ZArith NArith Bool Arith.
From LV Require Import Channel.Model Channel.Resync Channel.Exec Channel.View.
Import ListNotations.
Local Open Scope N_scope.

(* observed log entry = one row of the harness' vchLogDump *)
Record oent := mkOE {
  o_t : N; o_log : N; o_htlc : N; o_par : N; o_amt : Z;
  o_aL : N; o_aR : N; o_rL : N; o_rR : N
}.
Record ohl := mkHL { h_own : list oent; h_peer : list oent }.

(* compact term syntax used by props/chan_model.py:
   hl_of [[type; LogIndex; HtlcIndex; ParentIndex; Amount; addL; addR; rmL; rmR]; ...]%Z [...]%Z *)
Definition oe_of (l : list Z) : oent :=
  match l with
  | [t; lg; h; pa; a; aL; aR; rL; rR] =>
    mkOE (Z.to_N t) (Z.to_N lg) (Z.to_N h) (Z.to_N pa) a (Z.to_N aL) (Z.to_N aR) (Z.to_N rL) (Z.to_N rR)
  | _ => mkOE 99 0 0 0 0%Z 0 0 0 0      (* malformed row: matches no entry *)
  end.
Definition hl_of (own peer : list (list Z)) : ohl := mkHL (map oe_of own) (map oe_of peer).

Definition ident_eqb (e : entry) (o : oent) : bool :=
  N.eqb (etype_code (e_type e)) (o_t o) && N.eqb (e_log e) (o_log o)
  && N.eqb (e_htlc e) (o_htlc o) && N.eqb (e_parent e) (o_par o) && Z.eqb (e_amt e) (o_amt o).
Definition heights_eqb (e : entry) (o : oent) : bool :=
  N.eqb (e_addL e) (o_aL o) && N.eqb (e_addR e) (o_aR o)
  && N.eqb (e_rmL e) (o_rL o) && N.eqb (e_rmR e) (o_rR o).

(* first difference of a log: [] = equal, else [kind; position; LogIndex] with kind
   1 = presence (one list is longer), 2 = identity, 3 = heights *)
Fixpoint diff_log (l : list entry) (o : list oent) (pos : N) : list N :=
  match l, o with
  | [], [] => []
  | e :: _, [] => [1; pos; e_log e]
  | [], x :: _ => [1; pos; o_log x]
  | e :: r, x :: r' =>
    if negb (ident_eqb e x) then [2; pos; o_log x]
    else if negb (heights_eqb e x) then [3; pos; o_log x]
    else diff_log r r' (pos + 1)
  end.

(* base 60 = party A, 70 = party B; +0 own log, +3 peer log; + kind *)
Definition diff_hl (base : N) (x : vparty) (h : ohl) : list N :=
  match diff_log (l_list (vl x)) (h_own h) 0 with
  | k :: rest => (base + k) :: rest
  | [] => match diff_log (l_list (vr x)) (h_peer h) 0 with
          | k :: rest => (base + 3 + k) :: rest
          | [] => []
          end
  end.

Definition vdiff_party (x : vparty) (o : obs) : N :=
  if negb (ocommit_eqb (vk (v_ltail x)) (o_ltail o)) then 2
  else if negb (opt_commit_eqb (option_map vk (v_ltip x)) (o_ltip o)) then 3
  else if negb (ocommit_eqb (vk (v_rtail x)) (o_rtail o)) then 4
  else if negb (opt_commit_eqb (option_map vk (v_rtip x)) (o_rtip o)) then 5
  else if negb (N.eqb (l_idx (vl x)) (N.of_nat (o_own o))) then 6
  else if negb (N.eqb (l_idx (vr x)) (N.of_nat (o_peer o))) then 7
  else 0.

(* [] = the whole system agrees with the dumps *)
Definition vdiff_sys (s : vsys) (oa ob : obs) (ha hb : ohl) : list N :=
  match vdiff_party (vA s) oa with
  | 0 =>
    match vdiff_party (vB s) ob with
    | 0 => match diff_hl 60 (vA s) ha with
           | [] => diff_hl 70 (vB s) hb
           | d => d
           end
    | d => [10 + d]
    end
  | d => [d]
  end.

(* a party restored from disk against its reload dump; codes + 100 for the logs *)
Definition vdiff_reload (p : bool) (x : vparty) (ro : obs) (rh : ohl) : list N :=
  match vdiff_party x ro with
  | 0 => match diff_hl (if p then 160 else 170) x rh with [] => [] | d => d end
  | d => [30 + d]
  end.

Inductive vcrashcall := VCCOp (o : vop) | VCCSync.

Inductive vtstep :=
| VTOp (o : vop) (expect : res)
| VTSkip
| VTReload (p : bool) (ro : obs) (rh : ohl)
| VTCut (ka kb : nat) (kindsA kindsB : list N) (rel : option (ohl * ohl))
    (* rel = logs of both channel objects right after NewLightningChannel, before reestablish *)
| VTCrashIn (o : vcrashcall) (p : bool) (ro : obs) (rh : ohl) (kindsA kindsB : list N).

Definition restored_pair (c : cfg) (s : vsys) (ka kb : nat) : vparty * vparty :=
  let s1 := vdeliver_n c (vdeliver_n c s true ka) false kb in
  (v_restore true (vA s1), v_restore false (vB s1)).

Definition vcrash_cand (c : cfg) (s : vsys) (p : bool) (ro : obs) (rh : ohl) (ea eb : list N)
           (oa ob : obs) (ha hb : ohl) : list N * vsys :=
  match vdiff_reload p (v_restore p (vget s p)) ro rh with
  | [] =>
    let '(rs, s') := vxstep c s (VXCut 0 0) in
    if negb (res_eqb rs Ok) then ([1], s')
    else if negb (kinds_eqb (map kind_of (vqAB s')) ea) then ([40], s')
    else if negb (kinds_eqb (map kind_of (vqBA s')) eb) then ([41], s')
    else (vdiff_sys s' oa ob ha hb, s')
  | d => (d, s)
  end.

Definition vcrash_states (c : cfg) (s : vsys) (o : vcrashcall) (p : bool) : res * vsys * vsys :=
  match o with
  | VCCOp o' => let '(rs, s1) := vxstep c s (VXOp o') in (rs, s1, s)
  | VCCSync =>
    let '(rs, s1) := vxstep c s (VXCut 0 0) in
    let s1' := vset s1 p (v_restore p (vget s p)) in
    (rs, s1, mkVS (vA s1') (vB s1') (vqAB s1') (vqBA s1')
                  (if p then vlwrA s else vlwrA s1) (if p then vlwrB s1 else vlwrB s))
  end.

Definition hd0 (l : list N) : N := match l with [] => 0 | x :: _ => x end.

(* returns [] if the whole trace agrees, else [step index; code; ...]:
   1 result differs; 2..7 field of A (ltail ltip rtail rtip own_idx peer_idx), 12..17 of B;
   20+ initial state; 30+ commitments / counters of a RELOADED party;
   40 / 41 retransmitted message kinds of A / B;
   [61|62|63; pos; LogIndex] A's OWN log: presence | identity | heights differ at list
   position pos; [64|65|66; ...] A's PEER log; [71..76; ...] the same for B;
   [161.. / 171..; pos; LogIndex] the same on a party restored from disk;
   [50; x; y] write-level crash: x / y = first code against "completed" / "did not happen" *)
Fixpoint check_steps (c : cfg) (s : vsys) (oa0 ob0 : obs) (ha0 hb0 : ohl)
         (l : list (vtstep * option obs * option obs * option ohl * option ohl)) (i : N) : list N :=
  match l with
  | [] => []
  | (t, ooa, oob, oha, ohb) :: r =>
    (* None = that party's dump / logs are unchanged since the previous step ("=" in the trace) *)
    let oa := match ooa with Some o => o | None => oa0 end in
    let ob := match oob with Some o => o | None => ob0 end in
    let ha := match oha with Some h => h | None => ha0 end in
    let hb := match ohb with Some h => h | None => hb0 end in
    let check_steps c s r i := check_steps c s oa ob ha hb r i in
    match t with
    | VTOp o e =>
      let '(rs, s') := vstep c s o in
      if negb (res_eqb rs e) then [i; 1]
      else match vdiff_sys s' oa ob ha hb with
           | [] => check_steps c s' r (i + 1)
           | d => i :: d
           end
    | VTSkip =>
      match vdiff_sys s oa ob ha hb with
      | [] => check_steps c s r (i + 1)
      | d => i :: d
      end
    | VTReload p ro rh =>
      match vdiff_reload p (v_restore p (vget s p)) ro rh with
      | [] => match vdiff_sys s oa ob ha hb with
              | [] => check_steps c s r (i + 1)
              | d => i :: d
              end
      | d => i :: d
      end
    | VTCut ka kb ea eb rel =>
      let pre :=
        match rel with
        | None => []
        | Some (ra, rb) =>
          let '(a, b) := restored_pair c s ka kb in
          match diff_hl 160 a ra with [] => diff_hl 170 b rb | d => d end
        end in
      match pre with
      | [] =>
        let '(rs, s') := vxstep c s (VXCut ka kb) in
        if negb (res_eqb rs Ok) then [i; 1]
        else if negb (kinds_eqb (map kind_of (vqAB s')) ea) then [i; 40]
        else if negb (kinds_eqb (map kind_of (vqBA s')) eb) then [i; 41]
        else match vdiff_sys s' oa ob ha hb with
             | [] => check_steps c s' r (i + 1)
             | d => i :: d
             end
      | d => i :: d
      end
    | VTCrashIn o p ro rh ea eb =>
      let '(rs, s1, s0) := vcrash_states c s o p in
      let after := if res_eqb rs Ok then vcrash_cand c s1 p ro rh ea eb oa ob ha hb
                   else ([1], s1) in
      match after with
      | ([], s') => check_steps c s' r (i + 1)
      | (da, _) =>
        match vcrash_cand c s0 p ro rh ea eb oa ob ha hb with
        | ([], s') => check_steps c s' r (i + 1)
        | (db, _) => [i; 50; hd0 da; hd0 db]
        end
      end
    end
  end.

Definition vcase := (cfg * (obs * obs) * (ohl * ohl)
                     * list (vtstep * option obs * option obs * option ohl * option ohl))%type.

Definition check_case (cs : vcase) : list N :=
  let '(c, (ia, ib), (ha, hb), steps) := cs in
  match vinit c with
  | None => [0; 20]
  | Some s =>
    match vdiff_sys s ia ib ha hb with
    | [] => check_steps c s ia ib ha hb steps 0
    | d => 0 :: 20 :: d
    end
  end.

Fixpoint vmismatches (cases : list vcase) (i : N) : list (N * list N) :=
  match cases with
  | [] => []
  | c :: r =>
    match check_case c with
    | [] => vmismatches r (i + 1)
    | bad => (i, bad) :: vmismatches r (i + 1)
    end
  end.
