(* C04 - the BREACH ARBITER's multi-step retribution flow
   (contractcourt/breach_arbitrator.go: retributionInfo.breachedOutputs,
   updateBreachInfo, convertToSecondLevelRevoke, createJusticeTx).
   Executable definitions ONLY; proofs are in BrarFlowProofs.v.

   A breached output is (id, kind, amount): [id] = the index of the output of
   the revoked commitment it descends from, [kind] = the class of lnd's witness
   type.  The arbiter keeps a SLICE of them; spends are reported per slice
   index; an HTLC output spent by anything but the revocation path is morphed IN
   PLACE into a second-level output (new amount), every other spent output is
   dropped and the slice is compacted; createJusticeTx splits the slice by kind
   and signs every input with the witness layout of its CURRENT kind. *)
From Coq Require Import List NArith Bool Arith.
Import ListNotations.

Inductive okind := KCommitOwn | KCommitRevoke | KHtlcOffered | KHtlcAccepted | KSecond.

Record bout := mkB { b_id : N; b_kind : okind; b_amt : N }.

(* what the spend of a tracked output looked like: through the revocation
   path (input.IsHtlcSpendRevoke: our own justice) or anything else; for an
   HTLC output "anything else" is the cheater's HTLC-success / HTLC-timeout
   transaction, whose output (amount [a]) is the new thing to punish *)
Inductive how := HRevoke | HSecond (a : N).

Definition is_htlc (k : okind) : bool :=
  match k with KHtlcOffered | KHtlcAccepted => true | _ => false end.
Definition is_second (k : okind) : bool :=
  match k with KSecond => true | _ => false end.
Definition is_commit (k : okind) : bool := negb (is_htlc k) && negb (is_second k).

(* updateBreachInfo, one spend: Some o' = convertToSecondLevelRevoke (the
   entry stays, mutated), None = terminal (doneOutputs) *)
Definition upd_one (o : bout) (h : how) : option bout :=
  if is_htlc (b_kind o) then
    match h with
    | HRevoke => None
    | HSecond a => Some (mkB (b_id o) KSecond a)
    end
  else None.

Fixpoint set_nth {A : Type} (l : list A) (i : nat) (x : A) : list A :=
  match l, i with
  | [], _ => []
  | _ :: r, O => x :: r
  | y :: r, S j => y :: set_nth r j x
  end.

(* the loop over [spends]: sequential, in place, indexes into the slice as it
   was when the spends were collected.  None = index out of range (a Go panic) *)
Fixpoint apply_spends (l : list bout) (done : list nat) (sp : list (nat * how))
  : option (list bout * list nat) :=
  match sp with
  | [] => Some (l, done)
  | (i, h) :: r =>
    match nth_error l i with
    | None => None
    | Some o =>
      match upd_one o h with
      | Some o' => apply_spends (set_nth l i o') done r
      | None => apply_spends l (i :: done) r
      end
    end
  end.

(* "Filter the inputs for which we can no longer proceed": inputs[nextIndex] =
   inputs[i] for the indexes not in doneOutputs *)
Fixpoint compact_from (l : list bout) (done : list nat) (i : nat) : list bout :=
  match l with
  | [] => []
  | o :: r => if existsb (Nat.eqb i) done then compact_from r done (S i)
              else o :: compact_from r done (S i)
  end.

Definition update_info (l : list bout) (sp : list (nat * how)) : option (list bout) :=
  match apply_spends l [] sp with
  | None => None
  | Some (l', d) => Some (compact_from l' d 0)
  end.

(* ---------- createJusticeTx ---------- *)
(* the witness layout a witness type produces *)
Inductive wkind := WCommitOwn | WCommitRevoke | WHtlcRevoke (offered : bool) | WSecondRevoke.

Definition wk (k : okind) : wkind :=
  match k with
  | KCommitOwn => WCommitOwn
  | KCommitRevoke => WCommitRevoke
  | KHtlcOffered => WHtlcRevoke true
  | KHtlcAccepted => WHtlcRevoke false
  | KSecond => WSecondRevoke
  end.

(* a signed input: which outpoint (output [j_id] of the commitment, or the
   second-level output descending from it), the witness layout used, the amount
   signed for *)
Record jin := mkJ { j_id : N; j_second : bool; j_w : wkind; j_amt : N }.

Definition input_of (o : bout) : jin :=
  mkJ (b_id o) (is_second (b_kind o)) (wk (b_kind o)) (b_amt o).

Record variants := mkV { v_all : list jin; v_commit : list jin; v_htlc : list jin;
                         v_second : list (list jin) }.

Definition build (l : list bout) : variants :=
  mkV (map input_of l)
      (map input_of (filter (fun o => is_commit (b_kind o)) l))
      (map input_of (filter (fun o => is_htlc (b_kind o)) l))
      (map (fun o => [input_of o]) (filter (fun o => is_second (b_kind o)) l)).

(* ---------- the chain (ghost) ---------- *)
(* what happened on chain to output [id] of the revoked commitment *)
Inductive status :=
| StFirst                (* unspent *)
| StSecond (a : N)       (* spent by the cheater's second-level tx, whose output (a) is unspent *)
| StGoneFirst            (* spent at the first level: our justice / any spend of a commit output *)
| StGoneSecond (a : N).  (* second-level output spent as well *)

Definition chain := N -> status.

Definition set_chain (c : chain) (id : N) (s : status) : chain :=
  fun x => if N.eqb x id then s else c x.

(* what the chain notifier reports for a tracked entry: None = its outpoint is
   unspent *)
Definition report (c : chain) (o : bout) : option how :=
  if is_second (b_kind o) then
    match c (b_id o) with
    | StGoneSecond _ => Some HRevoke
    | _ => None
    end
  else
    match c (b_id o) with
    | StFirst => None
    | StSecond a | StGoneSecond a => Some (HSecond a)
    | StGoneFirst => Some HRevoke
    end.

Record st := mkSt { tracked : list bout; ch : chain }.

Definition init (l0 : list bout) : st := mkSt l0 (fun _ => StFirst).

(* ---------- the flow: chain events interleaved with the arbiter ---------- *)
Definition htlc_id (l0 : list bout) (id : N) : Prop :=
  exists o, In o l0 /\ b_id o = id /\ is_htlc (b_kind o) = true.

(* a batch waitForSpendEvent can hand to updateBreachInfo: one goroutine per
   slice index, each reports at most one spend, and only a spend that is on
   the chain *)
Definition batch_ok (s : st) (sp : list (nat * how)) : Prop :=
  NoDup (map fst sp) /\
  forall i h, In (i, h) sp ->
    exists o, nth_error (tracked s) i = Some o /\ report (ch s) o = Some h.

Inductive step (l0 : list bout) : st -> st -> Prop :=
| SAdvance : forall s id a, ch s id = StFirst -> htlc_id l0 id ->
    step l0 s (mkSt (tracked s) (set_chain (ch s) id (StSecond a)))
| SSpendFirst : forall s id, ch s id = StFirst ->
    step l0 s (mkSt (tracked s) (set_chain (ch s) id StGoneFirst))
| SSpendSecond : forall s id a, ch s id = StSecond a ->
    step l0 s (mkSt (tracked s) (set_chain (ch s) id (StGoneSecond a)))
| SConsume : forall s sp l', batch_ok s sp -> update_info (tracked s) sp = Some l' ->
    step l0 s (mkSt l' (ch s))
| SRestart : forall s, step l0 s (mkSt l0 (ch s)).   (* the store keeps the ORIGINAL retribution *)

Inductive reach (l0 : list bout) : st -> Prop :=
| RInit : reach l0 (init l0)
| RStep : forall s s', reach l0 s -> step l0 s s' -> reach l0 s'.

(* newRetributionInfo's result: distinct outputs, no second-level entry *)
Definition wf0 (l0 : list bout) : Prop :=
  NoDup (map b_id l0) /\ forall o, In o l0 -> is_second (b_kind o) = false.

(* no tracked outpoint is spent on chain *)
Definition quiescent (s : st) : Prop := forall o, In o (tracked s) -> report (ch s) o = None.
