(* C01 — both peers agree on every commitment; value conserved.
   Property theorems ONLY (each closed by [exact] of a lemma of Proofs.v).
   [reachable c s := exists s0 ops, init_sys c = Some s0 /\ s = run c s0 ops]:
   every state reached from the initial system by ANY sequence of ops
   (sends, signs, revokes, deliveries, in any interleaving; refused ops leave
   the state unchanged). *)
From Coq Require Import List ZArith Bool Arith.
From LV Require Import Channel.Model Channel.Proofs.
Import ListNotations.

(* T1: every commitment held by either party conserves the channel value. *)
Theorem C01_conservation : forall c s, cfg_ok c -> reachable c s ->
  forall p k, In k (commits_of (get s p)) -> conserved c k.
Proof. exact reach_conservation. Qed.

(* T1': ... and so does every commitment whose signature is in flight. *)
Theorem C01_conservation_inflight : forall c s, cfg_ok c -> reachable c s ->
  forall p k, In (MSig k) (outq s p) -> conserved c k.
Proof. exact reach_conservation_inflight. Qed.

(* T1 core: conservation is a property of ANY cut that commit_of accepts. *)
Theorem C01_conservation_cut : forall c o h lA lB nA nB k,
  commit_of c o h lA lB nA nB = Some k -> cfg_ok c ->
  amounts_nonneg lA -> amounts_nonneg lB -> conserved c k.
Proof. exact commit_of_conserved. Qed.

(* T2: apart from the fee (opener only) a balance moves only by the amounts of
   HTLCs added / settled / failed inside the cut. *)
Theorem C01_balance_formula : forall c o h lA lB nA nB k,
  commit_of c o h lA lB nA nB = Some k ->
  exists setA failA setB failB,
    removed_amounts (adds_of (firstn nA lA)) (removes_of (firstn nB lB)) = Some (setA, failA) /\
    removed_amounts (adds_of (firstn nB lB)) (removes_of (firstn nA lA)) = Some (setB, failB) /\
    (c_balA k + (if opener c then 1000 * c_fee k else 0)
      = gross0A c - sum_adds (adds_of (firstn nA lA)) + failA + setB)%Z /\
    (c_balB k + (if opener c then 0 else 1000 * c_fee k)
      = gross0B c - sum_adds (adds_of (firstn nB lB)) + failB + setA)%Z.
Proof. exact commit_of_balance. Qed.

(* T3: a commitment signature in flight is ALWAYS accepted by its receiver. *)
Theorem C01_agreement : forall c s, cfg_ok c -> reachable c s -> forall p k q,
  outq s (negb p) = MSig k :: q -> fst (step c s (ODeliver p)) = Ok.
Proof. exact reach_agreement. Qed.

(* T4 *)
Theorem C01_mirror_at_quiescence : forall c s, reachable c s -> quiescent s ->
  lTail (pA s) = rTail (pB s) /\ rTail (pA s) = lTail (pB s).
Proof. exact reach_mirror. Qed.

(* T5: at most one commitment signature in flight per direction; none (and
   nothing unrevoked at the peer) when the signer's window is open. *)
Theorem C01_window : forall c s, reachable c s -> forall p,
  (nsig (outq s p) <= 1)%nat /\
  (rTip (get s p) = None -> nsig (outq s p) = 0%nat /\ lTip (get s (negb p)) = None).
Proof. exact reach_window. Qed.

(* T6: in every reachable state the cut p would use in SignNextCommitment is
   well formed, and so is the cut used by ReceiveNewCommitment whenever a
   signature heads the queue towards p ... *)
Theorem C01_wf_reachable : forall c s, reachable c s -> forall p,
  let x := get s p in
  commit_wf (logA_of p x) (logB_of p x) (fst (sign_cut p x)) (snd (sign_cut p x)) = true /\
  (forall k q, outq s (negb p) = MSig k :: q ->
   commit_wf (logA_of p x) (logB_of p x) (fst (recv_cut p x)) (snd (recv_cut p x)) = true).
Proof. exact reach_wf. Qed.

(* ... so commit_of refuses a well-formed cut only for money reasons ... *)
Theorem C01_wf_only_money : forall c o h lA lB nA nB,
  commit_of c o h lA lB nA nB = None -> commit_wf lA lB nA nB = true ->
  exists gA gB, cut_gross c lA lB nA nB = Some (gA, gB) /\
    (gA < 0 \/ gB < 0 \/ (if opener c then gA else gB) <= 1000 * cut_fee c o lA lB nA nB)%Z.
Proof. exact commit_of_none_wf. Qed.

(* ... in particular a refused OSign (ErrSanity) is a balance/fee refusal. *)
Theorem C01_sign_refusal_is_money : forall c s, reachable c s -> forall p,
  fst (step c s (OSign p)) = ErrSanity ->
  let x := get s p in
  let nA := fst (sign_cut p x) in let nB := snd (sign_cut p x) in
  exists gA gB, cut_gross c (logA_of p x) (logB_of p x) nA nB = Some (gA, gB) /\
    (gA < 0 \/ gB < 0 \/
     (if opener c then gA else gB)
       <= 1000 * cut_fee c (negb p) (logA_of p x) (logB_of p x) nA nB)%Z.
Proof. exact reach_sign_sanity. Qed.

Print Assumptions C01_conservation.
Print Assumptions C01_conservation_inflight.
Print Assumptions C01_conservation_cut.
Print Assumptions C01_balance_formula.
Print Assumptions C01_agreement.
Print Assumptions C01_mirror_at_quiescence.
Print Assumptions C01_window.
Print Assumptions C01_wf_reachable.
Print Assumptions C01_wf_only_money.
Print Assumptions C01_sign_refusal_is_money.
